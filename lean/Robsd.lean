import Robsd.Model.Bytes
import Robsd.Model.CArith
import Robsd.Model.Interp
import Robsd.Gen.Consts
import Robsd.Gen.StepFields
import Robsd.Gen.Arith
