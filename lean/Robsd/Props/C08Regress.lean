import Robsd.Props.C08Steps
/-
  C08/C10, robsd-regress: the `regress` statements of a configuration become
  the test list the schedule is built from.

  For every list of statements
      regress "path" [root] [quiet] [no-parallel] [targets { .. }] [obj { .. }] [packages { .. }]
  (options in any order and number; `env { .. }` is outside this fragment since
  it interpolates while parsing), `regress_tokens` shows that the parser accepts
  the tokens and that afterwards
    * `${regress}` is the list of paths in file order, duplicates kept, and
    * `regress-<path>-parallel` is defined (as 0) exactly for the paths that
      carry `no-parallel` on some occurrence —
  which is precisely the `List RegressEntry` (name, noParallel) that C10's
  `regress_order` / `regress_each_as_configured` quantify over.
-/
namespace Robsd
namespace C08
open Conf Gen

inductive ROpt where
  | root | quiet | noParallel
  | targets (xs : List Bytes)
  | obj (xs : List Bytes)
  | packages (xs : List Bytes)
deriving Repr, DecidableEq

structure RStmt where
  path : Bytes
  opts : List ROpt
deriving Repr

def listToks (xs : List Bytes) : List Tok := lbrace :: (xs.map Tok.str ++ [rbrace])

def ROpt.toks : ROpt → List Tok
  | .root => [.typ (S "ROOT")]
  | .quiet => [.typ (S "QUIET")]
  | .noParallel => [.typ (S "NO_PARALLEL")]
  | .targets xs => .typ (S "TARGETS") :: listToks xs
  | .obj xs => .typ (S "OBJ") :: listToks xs
  | .packages xs => .typ (S "PACKAGES") :: listToks xs

def RStmt.toks (st : RStmt) : List Tok := .kw (S "regress") :: .str st.path :: st.opts.flatMap ROpt.toks

/-- what one option does to the state (read off `config_parse_regress`) -/
def applyOpt (path : Bytes) (s : St) : ROpt → St
  | .root => append s (regressName path (S "root")) (.int 1)
  | .quiet => append s (regressName path (S "quiet")) (.int 1)
  | .noParallel => append s (regressName path (S "parallel")) (.int 0)
  | .targets xs => findOrCreateExtend s (regressName path (S "targets")) xs
  | .obj xs => findOrCreateExtend s (S "regress-obj") xs
  | .packages xs => findOrCreateExtend s (S "regress-packages") xs

theorem regressOptions_stop (env : Env) (path : Bytes) (fuel : Nat) (s : St) (rest : List Tok) (h : stops rest) :
    regressOptions .regress env path (fuel + 1) s rest = some (s, rest) := by
  cases rest with
  | nil => simp [stops] at h
  | cons t ts => cases t <;> simp [stops] at h <;> rfl

theorem regressOptions_opt (env : Env) (path : Bytes) (fuel : Nat) (s : St) (o : ROpt) (tl : List Tok) :
    regressOptions .regress env path (fuel + 1) s (o.toks ++ tl) =
      regressOptions .regress env path fuel (applyOpt path s o) tl := by
  cases o with
  | root =>
    simp only [ROpt.toks, List.cons_append, List.nil_append, regressOptions, applyOpt, ↓reduceIte]
    first | rfl | (repeat (first | rw [if_pos rfl] | rw [if_neg (by decide)]))
  | quiet =>
    simp only [ROpt.toks, List.cons_append, List.nil_append, regressOptions, applyOpt, ↓reduceIte]
    first | rfl | (repeat (first | rw [if_pos rfl] | rw [if_neg (by decide)]))
  | noParallel =>
    simp only [ROpt.toks, List.cons_append, List.nil_append, regressOptions, applyOpt, ↓reduceIte]
    first | rfl | (repeat (first | rw [if_pos rfl] | rw [if_neg (by decide)]))
  | targets xs =>
    have := parseList_strs xs tl
    simp only [List.cons_append, List.append_assoc, List.nil_append] at this
    simp only [ROpt.toks, listToks, List.cons_append, List.append_assoc, List.nil_append, regressOptions, applyOpt,
      ↓reduceIte, this]
    first | rfl | (repeat (first | rw [if_pos rfl] | rw [if_neg (by decide)]))
  | obj xs =>
    have := parseList_strs xs tl
    simp only [List.cons_append, List.append_assoc, List.nil_append] at this
    simp only [ROpt.toks, listToks, List.cons_append, List.append_assoc, List.nil_append, regressOptions, applyOpt,
      ↓reduceIte, this]
    first | rfl | (repeat (first | rw [if_pos rfl] | rw [if_neg (by decide)]))
  | packages xs =>
    have := parseList_strs xs tl
    simp only [List.cons_append, List.append_assoc, List.nil_append] at this
    simp only [ROpt.toks, listToks, List.cons_append, List.append_assoc, List.nil_append, regressOptions, applyOpt,
      ↓reduceIte, this]
    first | rfl | (repeat (first | rw [if_pos rfl] | rw [if_neg (by decide)]))

theorem regressOptions_opts (env : Env) (path : Bytes) (opts : List ROpt) :
    ∀ (fuel : Nat) (s : St) (rest : List Tok), opts.length < fuel → stops rest →
      regressOptions .regress env path fuel s (opts.flatMap ROpt.toks ++ rest) =
        some (opts.foldl (applyOpt path) s, rest) := by
  induction opts with
  | nil =>
    intro fuel s rest hf h
    cases fuel with
    | zero => simp at hf
    | succ f => simpa using regressOptions_stop env path f s rest h
  | cons o os ih =>
    intro fuel s rest hf h
    cases fuel with
    | zero => simp at hf
    | succ f =>
      simp only [List.flatMap_cons, List.append_assoc, List.foldl_cons]
      rw [regressOptions_opt, ih f _ rest (by simp at hf; omega) h]

theorem regress_grammar : findGrammarKw .regress (S "regress") =
    some ⟨S "regress", S "LIST", S "config_parse_regress", true, true, false, false, false, .none⟩ := by
  decide

theorem length_le_flatMap_optToks (opts : List ROpt) : opts.length ≤ (opts.flatMap ROpt.toks).length := by
  induction opts with
  | nil => simp
  | cons o os ih =>
    simp only [List.flatMap_cons, List.length_append, List.length_cons]
    have : 1 ≤ o.toks.length := by cases o <;> simp [ROpt.toks, listToks]
    omega

/-- one `regress` statement -/
theorem regress_accepted (env : Env) (s : St) (st : RStmt) (rest : List Tok) (h : stops rest) :
    parseKeyword .regress env s (S "regress") (.str st.path :: st.opts.flatMap ROpt.toks ++ rest) =
      some (findOrCreateExtend (st.opts.foldl (applyOpt st.path) s) (S "regress") [st.path], rest) := by
  unfold parseKeyword
  rw [regress_grammar]
  simp only [Bool.not_true, Bool.false_and, Bool.false_eq_true, if_false]
  repeat (first | rw [if_pos rfl] | rw [if_neg (by decide)])
  simp only [List.cons_append]
  rw [regressOptions_opts env st.path st.opts _ s rest
    (by have := length_le_flatMap_optToks st.opts; simp only [List.length_append]; omega) h]
  rfl

/-! ### what the state says afterwards -/

/-- the value `${name}` sees: that of the first variable of that name -/
def firstVal (s : St) (name : Bytes) : Option Val :=
  (s.vars.find? (fun v => v.name == name)).map (·.val)

def asList : Option Val → List Bytes
  | some (.list l) => l
  | _ => []

/-- the first variable called `name`, if any, is a list -/
def listOrAbsent (s : St) (name : Bytes) : Prop :=
  firstVal s name = none ∨ ∃ l, firstVal s name = some (.list l)

theorem find?_append_other (vars : List Var) (n name : Bytes) (v : Val) (h : n ≠ name) :
    (vars ++ [(⟨n, v⟩ : Var)]).find? (fun x => x.name == name) = vars.find? (fun x => x.name == name) := by
  have hb : (n == name) = false := by simpa using h
  rw [List.find?_append]
  simp [List.find?_cons, hb]

theorem find?_extendFirst_other (vars : List Var) (n name : Bytes) (xs : List Bytes) (h : n ≠ name) :
    ((extendFirst vars n xs).find? (fun x => x.name == name)).map (·.val) =
      (vars.find? (fun x => x.name == name)).map (·.val) := by
  induction vars with
  | nil => rfl
  | cons v vs ih =>
    unfold extendFirst
    by_cases hv : (v.name == n) = true
    · have hvn : v.name = n := by simpa using hv
      have hne : (v.name == name) = false := by rw [hvn]; simpa using h
      rw [if_pos hv]
      cases hval : v.val <;> simp [List.find?_cons, hne]
    · rw [if_neg hv]
      simp only [List.find?_cons]
      split
      · rfl
      · exact ih

theorem find?_extendFirst_same (vars : List Var) (n : Bytes) (xs : List Bytes) :
    ((extendFirst vars n xs).find? (fun x => x.name == n)).map (·.val) =
      ((vars.find? (fun x => x.name == n)).map (·.val)).map (fun v => match v with
        | .list l => .list (l ++ xs)
        | w => w) := by
  induction vars with
  | nil => rfl
  | cons w ws ih =>
    unfold extendFirst
    by_cases hw : (w.name == n) = true
    · rw [if_pos hw]
      cases hval : w.val <;> simp [List.find?_cons, hw, hval]
    · rw [if_neg hw]
      have hwf : (w.name == n) = false := by simpa using hw
      simp only [List.find?_cons, hwf]
      exact ih

theorem firstVal_append_other (s : St) (n name : Bytes) (v : Val) (h : n ≠ name) :
    firstVal (append s n v) name = firstVal s name := by
  simp only [firstVal, append, find?_append_other _ _ _ _ h]

theorem firstVal_extend_other (s : St) (n name : Bytes) (xs : List Bytes) (h : n ≠ name) :
    firstVal (findOrCreateExtend s n xs) name = firstVal s name := by
  unfold findOrCreateExtend firstVal
  simp only
  rw [find?_extendFirst_other _ _ _ _ h]
  split
  · rfl
  · simp only [append, find?_append_other _ _ _ _ h]

theorem present_iff_firstVal (s : St) (n : Bytes) : present s n = true ↔ firstVal s n ≠ none := by
  simp only [present, firstVal, List.any_eq_true, ne_eq, Option.map_eq_none_iff]
  constructor
  · rintro ⟨v, hv, hn⟩ hf
    rw [List.find?_eq_none] at hf
    exact hf v hv hn
  · intro hf
    cases hfv : s.vars.find? (fun v => v.name == n) with
    | none => exact absurd hfv hf
    | some v => exact ⟨v, List.mem_of_find?_eq_some hfv, by have := List.find?_some hfv; simpa using this⟩

theorem firstVal_extend_same (s : St) (n : Bytes) (xs : List Bytes) (hl : listOrAbsent s n) :
    firstVal (findOrCreateExtend s n xs) n = some (.list (asList (firstVal s n) ++ xs)) := by
  unfold findOrCreateExtend
  rcases hl with hnone | ⟨l, hsome⟩
  · have hp : present s n = false := by
      cases hpp : present s n with
      | false => rfl
      | true => exact absurd hnone ((present_iff_firstVal s n).mp hpp)
    simp only [hp, Bool.false_eq_true, if_false, firstVal]
    rw [find?_extendFirst_same]
    have : (append s n (.list [])).vars.find? (fun x => x.name == n) = some ⟨n, .list []⟩ := by
      simp only [firstVal, Option.map_eq_none_iff] at hnone
      simp [append, List.find?_append, hnone]
    rw [this, show Option.map (fun x => x.val) (List.find? (fun v => v.name == n) s.vars) = none from hnone]
    simp [asList]
  · have hp : present s n = true := (present_iff_firstVal s n).mpr (by rw [hsome]; simp)
    simp only [hp, if_true, firstVal]
    rw [find?_extendFirst_same]
    rw [show Option.map (fun x => x.val) (List.find? (fun v => v.name == n) s.vars) = some (.list l) from hsome]
    simp [asList]

/-! names of the variables involved are different from `regress` -/

theorem regressName_ne_regress (path suffix : Bytes) : regressName path suffix ≠ S "regress" := by
  intro h
  have := congrArg List.length h
  simp [regressName, S] at this

theorem applyOpt_regress (path : Bytes) (s : St) (o : ROpt) :
    firstVal (applyOpt path s o) (S "regress") = firstVal s (S "regress") := by
  cases o with
  | root => exact firstVal_append_other s _ _ _ (regressName_ne_regress path _)
  | quiet => exact firstVal_append_other s _ _ _ (regressName_ne_regress path _)
  | noParallel => exact firstVal_append_other s _ _ _ (regressName_ne_regress path _)
  | targets xs => exact firstVal_extend_other s _ _ xs (regressName_ne_regress path _)
  | obj xs => exact firstVal_extend_other s _ _ xs (by decide)
  | packages xs => exact firstVal_extend_other s _ _ xs (by decide)

theorem applyOpts_regress (path : Bytes) (opts : List ROpt) :
    ∀ (s : St), firstVal (opts.foldl (applyOpt path) s) (S "regress") = firstVal s (S "regress") := by
  induction opts with
  | nil => intro s; rfl
  | cons o os ih => intro s; simp only [List.foldl_cons]; rw [ih, applyOpt_regress]

/-- **the regress statements become the test list, in file order** -/
theorem regress_tokens (env : Env) (stmts : List RStmt) :
    ∀ (s : St) (fuel : Nat), stmts.length < fuel → listOrAbsent s (S "regress") →
      ∃ s', parseLoop .regress env fuel s (stmts.flatMap RStmt.toks ++ [.eof]) = some s' ∧
        asList (firstVal s' (S "regress")) = asList (firstVal s (S "regress")) ++ stmts.map (·.path) ∧
        listOrAbsent s' (S "regress") := by
  induction stmts with
  | nil =>
    intro s fuel hf hl
    cases fuel with
    | zero => simp at hf
    | succ f => exact ⟨s, by simp [parseLoop], by simp, hl⟩
  | cons st rest ih =>
    intro s fuel hf hl
    cases fuel with
    | zero => simp at hf
    | succ f =>
      have hstop : stops (rest.flatMap RStmt.toks ++ [Tok.eof]) := by
        cases rest with
        | nil => simp [stops]
        | cons r rs => simp [List.flatMap_cons, RStmt.toks, stops]
      have hacc := regress_accepted env s st (rest.flatMap RStmt.toks ++ [Tok.eof]) hstop
      have ho := applyOpts_regress st.path st.opts s
      have hl1 : listOrAbsent (st.opts.foldl (applyOpt st.path) s) (S "regress") := by
        unfold listOrAbsent; rw [ho]; exact hl
      have he := firstVal_extend_same (st.opts.foldl (applyOpt st.path) s) (S "regress") [st.path] hl1
      rcases ih _ f (by simp at hf; omega) (Or.inr ⟨_, he⟩) with ⟨s', h1, h2, h3⟩
      refine ⟨s', ?_, ?_, h3⟩
      · simp only [List.flatMap_cons, RStmt.toks, List.cons_append, List.append_assoc, parseLoop]
        simp only [List.cons_append, List.append_assoc] at hacc
        rw [hacc]
        exact h1
      · rw [h2, he, ho]; simp [asList]

/-- from the empty configuration: `${regress}` is exactly the configured paths -/
theorem regress_list (env : Env) (stmts : List RStmt) :
    ∃ s', parseLoop .regress env (stmts.length + 1) initSt (stmts.flatMap RStmt.toks ++ [.eof]) = some s' ∧
      asList (firstVal s' (S "regress")) = stmts.map (·.path) := by
  rcases regress_tokens env stmts initSt (stmts.length + 1) (by omega) (Or.inl rfl) with ⟨s', h1, h2, _⟩
  exact ⟨s', h1, by simpa [firstVal, initSt, asList] using h2⟩

/-! non-vacuity -/
def exR : List RStmt :=
  [⟨S "bin/ksh", [.root, .quiet]⟩, ⟨S "lib/libc", [.targets [S "one", S "two"], .noParallel]⟩,
   ⟨S "bin/ksh", [.noParallel, .obj [S "o"]]⟩, ⟨S "sys/kern", []⟩]

example : (parseLoop .regress exEnv 9 initSt (exR.flatMap RStmt.toks ++ [.eof])).map
    (fun s => (asList (firstVal s (S "regress")), present s (regressName (S "bin/ksh") (S "parallel")),
      present s (regressName (S "sys/kern") (S "parallel")))) =
    some ([S "bin/ksh", S "lib/libc", S "bin/ksh", S "sys/kern"], true, false) := by decide +kernel

end C08
end Robsd
