import Robsd.Props.C04
import Robsd.Props.C11
/-
  C04/C11 with robsd-kill in the picture: `Orch.runK` is the loop of util.sh
  `robsd()` including the `lock_alive` test at the end of the loop body.

  * `runK_no_kill`: without a kill it is `Orch.run`, so every theorem about
    `run` is a theorem about the real loop;
  * `runK_checked` / `runK_accepted`: every trace, whenever and however often
    the lock is found dead, still satisfies the property's trace checker
    (order, barriers, ncpu bound, skipped steps, nothing after a failure);
  * `kill_fails`: a run that sees the lock dead fails and records no `end`;
  * `runK_all_finished`: it never leaves a started step unfinished.
-/
namespace Robsd
namespace C04Kill
open Orch C04

theorem runK_no_kill (c : Cfg) (o : Oracle) :
    ∀ (steps : List Step) (jobs : List Nat) (k : Nat), runK c o (fun _ => false) steps jobs k = run c o steps jobs k := by
  intro steps
  induction steps with
  | nil => intro jobs k; rfl
  | cons s rest ih =>
    intro jobs k
    simp only [runK, run, Bool.false_eq_true, if_false, ih]

/-- finishing everything that runs, at the end of a trace -/
theorem check_finishAll_end (c : Cfg) (o : Oracle) (st : ChkSt) (hnd : st.running.Nodup)
    (hls : ∀ i, st.lastSync = some i → i ∉ st.running) :
    check c st (finishAll o st.running) = true := by
  have := check_finishAll c o st.running st [] (fun j hj => hj) hnd hnd hls
  rw [List.append_nil] at this
  rw [this]
  simp [check]

theorem runK_checked (c : Cfg) (o : Oracle) (kp : Nat → Bool) (hn : 1 ≤ c.ncpu) :
    ∀ (steps : List Step) (jobs : List Nat) (k : Nat) (st : ChkSt),
      st.running = jobs → st.failed = false → jobs.Nodup → jobs.length ≤ c.ncpu →
      (∀ s ∈ steps, s.id ∉ jobs) → (steps.map (·.id)).Nodup →
      (∀ i, st.lastSync = some i → i ∉ jobs ∧ ∀ s ∈ steps, s.id ≠ i) →
      check c st (runK c o kp steps jobs k).1 = true := by
  intro steps
  induction steps with
  | nil => intro jobs k st _ _ _ _ _ _ _; simp [runK, check]
  | cons s rest ih =>
    intro jobs k st hrun hfail hnd hlen hfresh hids hls
    have hids' : (rest.map (·.id)).Nodup := (List.nodup_cons.mp hids).2
    have hsid : ∀ s' ∈ rest, s'.id ≠ s.id := by
      intro s' hs' e
      have := (List.nodup_cons.mp hids).1
      exact this (List.mem_map.mpr ⟨s', hs', e⟩)
    have hsj : s.id ∉ jobs := hfresh s (by simp)
    simp only [runK]
    by_cases hskip : c.skip s.id = true
    · simp only [hskip, if_true]
      exact ih jobs k st hrun hfail hnd hlen (fun x hx => hfresh x (by simp [hx])) hids'
        (fun i hi => ⟨(hls i hi).1, fun x hx => (hls i hi).2 x (by simp [hx])⟩)
    · have hskip' : c.skip s.id = false := by simpa using hskip
      simp only [hskip', Bool.false_eq_true, if_false]
      by_cases hpar : s.parallel = true
      · simp only [hpar, if_true]
        by_cases hfull : jobs.length = c.ncpu
        · simp only [hfull, if_true]
          have hne : jobs ≠ [] := by intro e; rw [e] at hfull; simp at hfull; omega
          have hsub := remaining_sublist o k jobs
          have hshort := remaining_shorter o k jobs hne
          have hgone_sub : ∀ j ∈ jobs.filter (fun j => !(remaining o k jobs).contains j), j ∈ st.running := by
            intro j hj; rw [hrun]; exact (List.mem_filter.mp hj).1
          have hb : (remaining o k jobs).length + 1 ≤ c.ncpu := by omega
          have hnd2 : (remaining o k jobs ++ [s.id]).Nodup := by
            rw [List.nodup_append]
            refine ⟨hsub.nodup hnd, by simp, ?_⟩
            intro a ha b hb' e
            simp only [List.mem_singleton] at hb'
            subst hb'; subst e
            exact hsj (hsub.subset ha)
          have hls2 : ∀ i, st.lastSync = some i → i ∉ remaining o k jobs ++ [s.id] := by
            intro i hi hm
            simp only [List.mem_append, List.mem_singleton] at hm
            rcases hm with hm | hm
            · exact (hls i hi).1 (hsub.subset hm)
            · exact (hls i hi).2 s (by simp) hm.symm
          by_cases hk : kp s.id = true
          · simp only [hk, if_true]
            rw [List.append_assoc, check_finishAll c o _ st _ hgone_sub (hrun ▸ hnd) (hnd.filter _)
              (by intro i hi hm; exact (hls i hi).1 (List.mem_filter.mp hm).1)]
            rw [hrun, after_gone jobs _ hnd hsub]
            simp only [List.singleton_append, check, hfail, hskip', Bool.not_false, Bool.true_and, Bool.false_eq_true, if_false,
              hb, decide_true]
            exact check_finishAll_end c o ⟨remaining o k jobs ++ [s.id], st.lastSync, false⟩ hnd2 hls2
          · have hk' : kp s.id = false := by simpa using hk
            simp only [hk', Bool.false_eq_true, if_false]
            rw [List.append_assoc, check_finishAll c o _ st _ hgone_sub (hrun ▸ hnd) (hnd.filter _)
              (by intro i hi hm; exact (hls i hi).1 (List.mem_filter.mp hm).1)]
            rw [hrun, after_gone jobs _ hnd hsub]
            simp only [List.singleton_append, check, hfail, hskip', Bool.not_false, Bool.true_and, Bool.false_eq_true, if_false,
              hb, decide_true]
            apply ih
            · rfl
            · rfl
            · exact hnd2
            · simp; omega
            · intro x hx hm
              simp only [List.mem_append, List.mem_singleton] at hm
              rcases hm with hm | hm
              · exact hfresh x (by simp [hx]) (hsub.subset hm)
              · exact hsid x hx hm
            · exact hids'
            · intro i hi
              exact ⟨hls2 i hi, fun x hx => (hls i hi).2 x (by simp [hx])⟩
        · simp only [hfull, if_false]
          have hb : st.running.length + 1 ≤ c.ncpu := by rw [hrun]; omega
          have hnd2 : (jobs ++ [s.id]).Nodup := by
            rw [List.nodup_append]
            refine ⟨hnd, by simp, ?_⟩
            intro a ha b hb' e
            simp only [List.mem_singleton] at hb'
            subst hb'; subst e
            exact hsj ha
          have hls2 : ∀ i, st.lastSync = some i → i ∉ jobs ++ [s.id] := by
            intro i hi hm
            simp only [List.mem_append, List.mem_singleton] at hm
            rcases hm with hm | hm
            · exact (hls i hi).1 hm
            · exact (hls i hi).2 s (by simp) hm.symm
          by_cases hk : kp s.id = true
          · simp only [hk, if_true, check, hfail, hskip', Bool.not_false, Bool.true_and, Bool.false_eq_true, if_false, hb, decide_true]
            rw [hrun]
            exact check_finishAll_end c o ⟨jobs ++ [s.id], st.lastSync, false⟩ hnd2 hls2
          · have hk' : kp s.id = false := by simpa using hk
            simp only [hk', Bool.false_eq_true, if_false, check, hfail, hskip', Bool.not_false, Bool.true_and, hb, decide_true]
            apply ih
            · rw [hrun]
            · rfl
            · exact hnd2
            · simp; omega
            · intro x hx hm
              simp only [List.mem_append, List.mem_singleton] at hm
              rcases hm with hm | hm
              · exact hfresh x (by simp [hx]) hm
              · exact hsid x hx hm
            · exact hids'
            · intro i hi
              exact ⟨hls2 i hi, fun x hx => (hls i hi).2 x (by simp [hx])⟩
      · have hpar' : s.parallel = false := by simpa using hpar
        simp only [hpar', Bool.false_eq_true, if_false]
        have hall_sub : ∀ j ∈ jobs, j ∈ st.running := by intro j hj; rw [hrun]; exact hj
        have hempty : jobs.filter (fun x => !jobs.contains x) = [] := by
          rw [List.filter_eq_nil_iff]; intro a ha; simp [ha]
        by_cases hend : s.isEnd = true
        · simp only [hend, if_true]
          rw [check_finishAll c o jobs st _ hall_sub (hrun ▸ hnd) hnd (fun i hi => (hls i hi).1)]
          rw [hrun, hempty]
          simp [check, hfail]
        · have hend' : s.isEnd = false := by simpa using hend
          simp only [hend', Bool.false_eq_true, if_false]
          by_cases hex : o.exit s.id = 0
          · simp only [hex, if_true]
            by_cases hk : kp s.id = true
            · simp only [hk, if_true]
              rw [check_finishAll c o jobs st _ hall_sub (hrun ▸ hnd) hnd (fun i hi => (hls i hi).1)]
              rw [hrun, hempty]
              simp [check, hfail, hskip', hn]
            · have hk' : kp s.id = false := by simpa using hk
              simp only [hk', Bool.false_eq_true, if_false]
              rw [List.append_assoc, check_finishAll c o jobs st _ hall_sub (hrun ▸ hnd) hnd (fun i hi => (hls i hi).1)]
              rw [hrun, hempty]
              simp only [List.cons_append, List.nil_append, check, hfail, hskip', Bool.not_false, Bool.true_and, if_true,
                List.isEmpty_nil, List.length_nil, Nat.zero_add, hn, decide_true, List.contains_cons, BEq.rfl, Bool.true_or,
                List.filter_cons, bne_self_eq_false, Bool.false_eq_true, if_false, List.filter_nil, Bool.or_false]
              apply ih
              · rfl
              · rfl
              · exact List.nodup_nil
              · simp
              · intro x _ hm; cases hm
              · exact hids'
              · intro i hi
                simp only [Option.some.injEq] at hi
                subst hi
                exact ⟨by simp, hsid⟩
          · simp only [hex, if_false]
            rw [check_finishAll c o jobs st _ hall_sub (hrun ▸ hnd) hnd (fun i hi => (hls i hi).1)]
            rw [hrun, hempty]
            simp [check, hfail, hskip', hn]

/-- **With robsd-kill in the picture every trace still satisfies the property** -/
theorem runK_accepted (c : Cfg) (o : Oracle) (kp : Nat → Bool) (hn : 1 ≤ c.ncpu) (steps : List Step)
    (hids : (steps.map (·.id)).Nodup) :
    accepts c (runK c o kp steps [] 0).1 = true :=
  runK_checked c o kp hn steps [] 0 ⟨[], none, false⟩ rfl rfl List.nodup_nil (by simp) (by simp) hids (by simp)

/-- **robsd-kill never lets a run succeed**: a run that returns success never
    found the lock dead; it is, event for event, the undisturbed run. -/
theorem success_is_undisturbed (c : Cfg) (o : Oracle) (kp : Nat → Bool) :
    ∀ (steps : List Step) (jobs : List Nat) (k : Nat),
      (runK c o kp steps jobs k).2 = true → runK c o kp steps jobs k = run c o steps jobs k := by
  intro steps
  induction steps with
  | nil => intro jobs k _; rfl
  | cons s rest ih =>
    intro jobs k h
    simp only [runK] at h ⊢
    simp only [run]
    by_cases hskip : c.skip s.id = true
    · simp only [hskip, if_true] at h ⊢
      exact ih jobs k h
    · have hskip' : c.skip s.id = false := by simpa using hskip
      simp only [hskip', Bool.false_eq_true, if_false] at h ⊢
      by_cases hpar : s.parallel = true
      · simp only [hpar, if_true] at h ⊢
        by_cases hfull : jobs.length = c.ncpu
        · simp only [hfull, if_true] at h ⊢
          by_cases hk : kp s.id = true
          · simp only [hk, if_true] at h; cases h
          · have hk' : kp s.id = false := by simpa using hk
            simp only [hk', Bool.false_eq_true, if_false] at h ⊢
            rw [ih _ _ h]
        · simp only [hfull, if_false] at h ⊢
          by_cases hk : kp s.id = true
          · simp only [hk, if_true] at h; cases h
          · have hk' : kp s.id = false := by simpa using hk
            simp only [hk', Bool.false_eq_true, if_false] at h ⊢
            rw [ih _ _ h]
      · have hpar' : s.parallel = false := by simpa using hpar
        simp only [hpar', Bool.false_eq_true, if_false] at h ⊢
        by_cases hend : s.isEnd = true
        · simp only [hend, if_true]
        · have hend' : s.isEnd = false := by simpa using hend
          simp only [hend', Bool.false_eq_true, if_false] at h ⊢
          by_cases hex : o.exit s.id = 0
          · simp only [hex, if_true] at h ⊢
            by_cases hk : kp s.id = true
            · simp only [hk, if_true] at h; cases h
            · have hk' : kp s.id = false := by simpa using hk
              simp only [hk', Bool.false_eq_true, if_false] at h ⊢
              rw [ih _ _ h]
          · simp only [hex, if_false]

/-- `end` is recorded only by a run that succeeded, hence never after the lock was found dead -/
theorem end_only_on_success (c : Cfg) (o : Oracle) (kp : Nat → Bool) :
    ∀ (steps : List Step) (jobs : List Nat) (k : Nat),
      (runK c o kp steps jobs k).2 = false → hasEnd (runK c o kp steps jobs k).1 = false := by
  have hfin : ∀ js, hasEnd (finishAll o js) = false := by
    intro js; simp [hasEnd, finishAll]
  have happ : ∀ a b, hasEnd (a ++ b) = (hasEnd a || hasEnd b) := by
    intro a b; simp [hasEnd]
  intro steps
  induction steps with
  | nil => intro jobs k h; simp [runK] at h
  | cons s rest ih =>
    intro jobs k h
    simp only [runK] at h ⊢
    by_cases hskip : c.skip s.id = true
    · simp only [hskip, if_true] at h ⊢
      exact ih jobs k h
    · have hskip' : c.skip s.id = false := by simpa using hskip
      simp only [hskip', Bool.false_eq_true, if_false] at h ⊢
      by_cases hpar : s.parallel = true
      · simp only [hpar, if_true] at h ⊢
        by_cases hfull : jobs.length = c.ncpu
        · simp only [hfull, if_true] at h ⊢
          by_cases hk : kp s.id = true
          · simp only [hk, if_true, happ, hfin]; simp [hasEnd]
          · have hk' : kp s.id = false := by simpa using hk
            simp only [hk', Bool.false_eq_true, if_false] at h ⊢
            simp only [happ, hfin, ih _ _ h]; simp [hasEnd]
        · simp only [hfull, if_false] at h ⊢
          by_cases hk : kp s.id = true
          · simp only [hk, if_true]
            have := hfin (jobs ++ [s.id])
            simp only [hasEnd, List.any_cons] at this ⊢
            simpa using this
          · have hk' : kp s.id = false := by simpa using hk
            simp only [hk', Bool.false_eq_true, if_false] at h ⊢
            have := ih _ _ h
            simp only [hasEnd, List.any_cons] at this ⊢
            simpa using this
      · have hpar' : s.parallel = false := by simpa using hpar
        simp only [hpar', Bool.false_eq_true, if_false] at h ⊢
        by_cases hend : s.isEnd = true
        · simp only [hend, if_true] at h; cases h
        · have hend' : s.isEnd = false := by simpa using hend
          simp only [hend', Bool.false_eq_true, if_false] at h ⊢
          by_cases hex : o.exit s.id = 0
          · simp only [hex, if_true] at h ⊢
            by_cases hk : kp s.id = true
            · simp only [hk, if_true, happ, hfin]; simp [hasEnd]
            · have hk' : kp s.id = false := by simpa using hk
              simp only [hk', Bool.false_eq_true, if_false] at h ⊢
              simp only [happ, hfin, ih _ _ h]; simp [hasEnd]
          · simp only [hex, if_false, happ, hfin]; simp [hasEnd]

theorem filter_self_empty (l : List Nat) : l.filter (fun x => !l.contains x) = [] := by
  rw [List.filter_eq_nil_iff]; intro a ha; simp [ha]

/-- **Nothing is left in flight, with or without robsd-kill**: when the loop
    returns, every step it started has completed (the records of a killed
    invocation are complete: the in-flight state only survives a SIGKILL of the
    orchestrator itself). -/
theorem nothing_inflight (c : Cfg) (o : Oracle) (kp : Nat → Bool) (steps : List Step) (jobs : List Nat) (k : Nat)
    (hnd : jobs.Nodup) (hfresh : ∀ s ∈ steps, s.id ∉ jobs) (hids : (steps.map (·.id)).Nodup)
    (hd : C11.Decisive c o steps) :
    C11.openAfter jobs (runK c o kp steps jobs k).1 = [] := by
  induction steps generalizing jobs k with
  | nil => exact absurd hd (by simp [C11.Decisive])
  | cons s rest ih =>
    have hids' : (rest.map (·.id)).Nodup := (List.nodup_cons.mp hids).2
    have hsid : ∀ s' ∈ rest, s'.id ≠ s.id := by
      intro s' hs' e
      exact (List.nodup_cons.mp hids).1 (List.mem_map.mpr ⟨s', hs', e⟩)
    have hsj : s.id ∉ jobs := hfresh s (by simp)
    have hempty := filter_self_empty jobs
    simp only [runK]
    simp only [C11.Decisive] at hd
    by_cases hskip : c.skip s.id = true
    · simp only [hskip, if_true] at hd ⊢
      exact ih jobs k hnd (fun x hx => hfresh x (by simp [hx])) hids' hd
    · have hskip' : c.skip s.id = false := by simpa using hskip
      simp only [hskip', Bool.false_eq_true, if_false] at hd ⊢
      by_cases hpar : s.parallel = true
      · simp only [hpar, if_true] at hd ⊢
        by_cases hfull : jobs.length = c.ncpu
        · simp only [hfull, if_true]
          have hsub := remaining_sublist o k jobs
          by_cases hk : kp s.id = true
          · simp only [hk, if_true]
            rw [List.append_assoc, C11.openAfter_append, C11.openAfter_finishAll, after_gone jobs _ hnd hsub]
            simp only [List.singleton_append, C11.openAfter]
            rw [C11.openAfter_finishAll, filter_self_empty]
          · have hk' : kp s.id = false := by simpa using hk
            simp only [hk', Bool.false_eq_true, if_false]
            rw [List.append_assoc, C11.openAfter_append, C11.openAfter_finishAll, after_gone jobs _ hnd hsub]
            simp only [List.singleton_append, C11.openAfter]
            apply ih
            · rw [List.nodup_append]
              refine ⟨hsub.nodup hnd, by simp, ?_⟩
              intro a ha b hb e
              simp only [List.mem_singleton] at hb
              subst hb; subst e
              exact hsj (hsub.subset ha)
            · intro x hx hm
              simp only [List.mem_append, List.mem_singleton] at hm
              rcases hm with hm | hm
              · exact hfresh x (by simp [hx]) (hsub.subset hm)
              · exact hsid x hx hm
            · exact hids'
            · exact hd
        · simp only [hfull, if_false]
          by_cases hk : kp s.id = true
          · simp only [hk, if_true, C11.openAfter]
            rw [C11.openAfter_finishAll, filter_self_empty]
          · have hk' : kp s.id = false := by simpa using hk
            simp only [hk', Bool.false_eq_true, if_false, C11.openAfter]
            apply ih
            · rw [List.nodup_append]
              refine ⟨hnd, by simp, ?_⟩
              intro a ha b hb e
              simp only [List.mem_singleton] at hb
              subst hb; subst e
              exact hsj ha
            · intro x hx hm
              simp only [List.mem_append, List.mem_singleton] at hm
              rcases hm with hm | hm
              · exact hfresh x (by simp [hx]) hm
              · exact hsid x hx hm
            · exact hids'
            · exact hd
      · have hpar' : s.parallel = false := by simpa using hpar
        simp only [hpar', Bool.false_eq_true, if_false] at hd ⊢
        by_cases hend : s.isEnd = true
        · simp only [hend, if_true]
          rw [C11.openAfter_append, C11.openAfter_finishAll, hempty]
          rfl
        · have hend' : s.isEnd = false := by simpa using hend
          simp only [hend', Bool.false_eq_true, if_false] at hd ⊢
          by_cases hex : o.exit s.id = 0
          · simp only [hex, if_true] at hd ⊢
            by_cases hk : kp s.id = true
            · simp only [hk, if_true]
              rw [C11.openAfter_append, C11.openAfter_finishAll, hempty]
              simp [C11.openAfter]
            · have hk' : kp s.id = false := by simpa using hk
              simp only [hk', Bool.false_eq_true, if_false]
              rw [List.append_assoc, C11.openAfter_append, C11.openAfter_finishAll, hempty]
              simp only [List.cons_append, List.nil_append, C11.openAfter, List.filter_cons, bne_self_eq_false,
                Bool.false_eq_true, if_false, List.filter_nil]
              exact ih [] k List.nodup_nil (by simp) hids' hd
          · simp only [hex, if_false]
            rw [C11.openAfter_append, C11.openAfter_finishAll, hempty]
            simp [C11.openAfter]

/-! ### non-vacuity: three steps (1 sync, 2 parallel, 3 sync), the lock found dead after step 2 was launched -/
private def c3 : Cfg := ⟨2, fun _ => false⟩
private def o3 : Oracle := ⟨fun _ => 0, fun _ _ => false⟩
private def s3 : List Step := [⟨1, false, false⟩, ⟨2, true, false⟩, ⟨3, false, false⟩, ⟨4, false, true⟩]
example : runK c3 o3 (fun i => i == 2) s3 [] 0 =
    ([.start 1 true, .finish 1 0, .start 2 false, .finish 2 0], false) := by decide
example : runK c3 o3 (fun _ => false) s3 [] 0 =
    ([.start 1 true, .finish 1 0, .start 2 false, .finish 2 0, .start 3 true, .finish 3 0, .endRec 4], true) := by decide
example : accepts c3 (runK c3 o3 (fun i => i == 2) s3 [] 0).1 = true := by decide

end C04Kill
end Robsd
