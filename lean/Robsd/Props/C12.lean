import Robsd.Model.StepFile
import Robsd.Model.Interp
import Robsd.Model.RegressLog
import Robsd.Model.Conf
/-
  C12 (partial): no input crashes, corrupts memory in or hangs the parsers.

  What a proof can carry: every model function is total and terminating on
  every byte string (they are accepted by Lean's termination checker without
  `partial`), each command exits with a documented status, and a command
  that rejects its input writes nothing to standard output.  Memory safety
  and undefined behaviour of the C text are *not* decided here; they are
  sampled with sanitizer builds by the check.
-/
namespace Robsd
namespace C12

/-- `robsd-step -R`: exit 0 or 1 -/
theorem step_read_exit_documented (file : Bytes) (sel : StepFile.Sel) (tmpl : Bytes) :
    (StepFile.readCmd file sel tmpl).1 = 0 ∨ (StepFile.readCmd file sel tmpl).1 = 1 := by
  unfold StepFile.readCmd
  split
  · exact Or.inr rfl
  · split
    · exact Or.inr rfl
    · split
      · exact Or.inl rfl
      · exact Or.inr rfl

/-- `robsd-step -R`: nothing on stdout unless it succeeds, for every file and template -/
theorem step_read_reject_no_stdout (file : Bytes) (sel : StepFile.Sel) (tmpl : Bytes)
    (h : (StepFile.readCmd file sel tmpl).1 ≠ 0) : (StepFile.readCmd file sel tmpl).2 = [] := by
  unfold StepFile.readCmd at h ⊢
  cases h1 : StepFile.parseFile file with
  | none => rfl
  | some rows =>
    rw [h1] at h
    simp only at h ⊢
    cases h2 : StepFile.selectRow rows sel with
    | none => rfl
    | some row =>
      rw [h2] at h
      simp only at h ⊢
      cases h3 : Interp.interpFile (StepFile.rowLookup row) false tmpl with
      | ok out => rw [h3] at h; exact absurd rfl h
      | error e => rfl

/-- `robsd-step -W`: exit 0 or 1 -/
theorem step_write_exit_documented (file : Bytes) (id : Int) (kvs : List Bytes) (fl : StepFile.Flush) :
    (StepFile.writeCmd file id kvs fl).1 = 0 ∨ (StepFile.writeCmd file id kvs fl).1 = 1 := by
  unfold StepFile.writeCmd
  split
  · exact Or.inr rfl
  · split
    · exact Or.inr rfl
    · split
      · exact Or.inr rfl
      · split
        · exact Or.inr rfl
        · split
          · exact Or.inl rfl
          · exact Or.inr rfl

/-- `robsd-regress-log`: exit 0, 1 (nothing found) or 2 (a file could not be read) -/
theorem rlog_exit_documented (sel : RegressLog.Sel) (p : Bool) (fs : List (Option Bytes)) :
    (RegressLog.main sel p fs).1 = 0 ∨ (RegressLog.main sel p fs).1 = 1 ∨ (RegressLog.main sel p fs).1 = 2 := by
  simp only [RegressLog.main]
  split
  · exact Or.inr (Or.inr rfl)
  · split
    · exact Or.inr (Or.inl rfl)
    · exact Or.inl rfl

/-- `robsd-regress-log`: nothing on stdout unless it exits 0 -/
theorem rlog_reject_no_stdout (sel : RegressLog.Sel) (p : Bool) (fs : List (Option Bytes))
    (h : (RegressLog.main sel p fs).1 ≠ 0) : (RegressLog.main sel p fs).2 = [] := by
  simp only [RegressLog.main] at h ⊢
  by_cases he : (RegressLog.mainLoop sel fs 0 [] false).2.2 = true
  · simp [he]
  · by_cases hn : (RegressLog.mainLoop sel fs 0 [] false).1 = 0
    · simp [hn]
    · simp [he, hn] at h

/-- interpolation (`robsd-config -`, `robsd-step -R`, hooks, reports): an error prints nothing -/
theorem interp_reject_no_stdout (lookup : Interp.Lookup) (ign : Bool) (tmpl : Bytes) (e : Interp.Err)
    (h : Interp.interpFile lookup ign tmpl = .error e) : Interp.cliStdout (Interp.interpFile lookup ign tmpl) = [] := by
  rw [h]; rfl

/-! ### the configuration reader (`robsd-config`, and every helper's `-C`) -/

/-- `robsd-config -`: exit 0 or 1, for every configuration file, template and environment -/
theorem config_exit_documented (m : Conf.Mode) (env : Conf.Env) (file tmpl : Bytes) :
    (Conf.configCmd m env file tmpl).1 = 0 ∨ (Conf.configCmd m env file tmpl).1 = 1 := by
  unfold Conf.configCmd
  split
  · exact Or.inr rfl
  · split
    · exact Or.inr rfl
    · exact Or.inl rfl

/-- `robsd-config -`: a rejected configuration or template prints nothing -/
theorem config_reject_no_stdout (m : Conf.Mode) (env : Conf.Env) (file tmpl : Bytes)
    (h : (Conf.configCmd m env file tmpl).1 ≠ 0) : (Conf.configCmd m env file tmpl).2 = [] := by
  unfold Conf.configCmd at h ⊢
  cases h1 : Conf.parse m env file with
  | none => rfl
  | some s =>
    rw [h1] at h
    simp only at h ⊢
    cases h2 : Conf.interpLines m env s (Bytes.lines tmpl) with
    | none => rfl
    | some out => rw [h2] at h; exact absurd rfl h

theorem length_dropWhile_le {α} (p : α → Bool) (l : List α) : (l.dropWhile p).length ≤ l.length :=
  (List.dropWhile_sublist p).length_le

/-- The configuration lexer consumes at least one byte per token, comment or
    stop: the fuel the model gives it (`length + 1`) is never what ends the
    scan — more fuel changes nothing.  (The C loop reads one character per
    `lexer_getc`; this is its termination argument.) -/
theorem lex_fuel_adequate (m : Conf.Mode) :
    ∀ (fuel : Nat) (inp : Bytes) (acc : List Conf.Tok) (err : Bool), inp.length < fuel →
      Conf.lexFrom m fuel inp acc err = Conf.lexFrom m (fuel + 1) inp acc err := by
  intro fuel
  induction fuel with
  | zero => intro inp acc err h; omega
  | succ f ih =>
    intro inp acc err h
    have hd := length_dropWhile_le Conf.isSpace inp
    rw [Conf.lexFrom, Conf.lexFrom]
    split
    · rfl
    · rename_i c rest hcr
      rw [hcr] at hd
      simp only [List.length_cons] at hd
      split
      · rfl
      · split
        · apply ih
          have := length_dropWhile_le (fun x => x != 10 && x != 0) rest
          simp only [List.length_drop]
          omega
        · split
          · rename_i hl
            apply ih
            have hw : Conf.isWord c = true := by simp [Conf.isWord, hl]
            rw [List.dropWhile_cons_of_pos hw]
            have := length_dropWhile_le Conf.isWord rest
            omega
          · split
            · rename_i hdg
              apply ih
              rw [List.dropWhile_cons_of_pos hdg]
              have := length_dropWhile_le Conf.isDigit rest
              omega
            · split
              · split
                · rfl
                · rename_i q rest' hq
                  split
                  · rfl
                  · apply ih
                    have := length_dropWhile_le (fun x => x != 34 && x != 0) rest
                    rw [hq] at this
                    simp only [List.length_cons] at this
                    omega
              · apply ih
                omega

/-- hence the token list of a file does not depend on the fuel at all -/
theorem lex_fuel_any (m : Conf.Mode) (inp : Bytes) (k : Nat) :
    Conf.lexFrom m (inp.length + 1 + k) inp [] false = Conf.lex m inp := by
  induction k with
  | zero => rfl
  | succ k ih =>
    show Conf.lexFrom m ((inp.length + 1 + k) + 1) inp [] false = _
    rw [← lex_fuel_adequate m (inp.length + 1 + k) inp [] false (by omega)]
    exact ih

/-! ### non-vacuity: a reader that accepts (exit 0, output) and three ways of rejecting (exit 1, nothing) -/
private def B (s : String) : Bytes := s.toList.map (fun c => UInt8.ofNat c.toNat)
private def exFile : Bytes := B "step,name,exit,duration,delta,log,user,time,skip\n1,env,0,1,0,env.log,root,1,0\n"
example : StepFile.readCmd exFile (.idx 1) (B "${name}:${exit}\n") = (0, B "env:0\n") := by decide +kernel
example : StepFile.readCmd exFile (.idx 1) (B "${nope}\n") = (1, []) := by decide +kernel
example : StepFile.readCmd exFile (.idx 2) (B "${name}\n") = (1, []) := by decide +kernel
example : StepFile.readCmd (B "step,name\n\x00garbage") (.idx 1) (B "${name}\n") = (1, []) := by decide +kernel

end C12
end Robsd
