import Robsd.Model.StepFile
import Robsd.Model.Interp
import Robsd.Model.RegressLog
/-
  C12 (partial): no input crashes, corrupts memory in or hangs the parsers.

  What a proof can carry: every model function is total and terminating on
  every byte string (they are accepted by Lean's termination checker without
  `partial`), each command exits with a documented status, and a command
  that rejects its input writes nothing to standard output.  Memory safety
  and undefined behaviour of the C text are *not* decided here; they are
  sampled with sanitizer builds by the check.
-/
namespace Robsd
namespace C12

/-- `robsd-step -R`: exit 0 or 1 -/
theorem step_read_exit_documented (file : Bytes) (sel : StepFile.Sel) (tmpl : Bytes) :
    (StepFile.readCmd file sel tmpl).1 = 0 ∨ (StepFile.readCmd file sel tmpl).1 = 1 := by
  unfold StepFile.readCmd
  split
  · exact Or.inr rfl
  · split
    · exact Or.inr rfl
    · split
      · exact Or.inl rfl
      · exact Or.inr rfl

/-- `robsd-step -R`: nothing on stdout unless it succeeds, for every file and template -/
theorem step_read_reject_no_stdout (file : Bytes) (sel : StepFile.Sel) (tmpl : Bytes)
    (h : (StepFile.readCmd file sel tmpl).1 ≠ 0) : (StepFile.readCmd file sel tmpl).2 = [] := by
  unfold StepFile.readCmd at h ⊢
  cases h1 : StepFile.parseFile file with
  | none => rfl
  | some rows =>
    rw [h1] at h
    simp only at h ⊢
    cases h2 : StepFile.selectRow rows sel with
    | none => rfl
    | some row =>
      rw [h2] at h
      simp only at h ⊢
      cases h3 : Interp.interpFile (StepFile.rowLookup row) false tmpl with
      | ok out => rw [h3] at h; exact absurd rfl h
      | error e => rfl

/-- `robsd-step -W`: exit 0 or 1 -/
theorem step_write_exit_documented (file : Bytes) (id : Int) (kvs : List Bytes) (fl : StepFile.Flush) :
    (StepFile.writeCmd file id kvs fl).1 = 0 ∨ (StepFile.writeCmd file id kvs fl).1 = 1 := by
  unfold StepFile.writeCmd
  split
  · exact Or.inr rfl
  · split
    · exact Or.inr rfl
    · split
      · exact Or.inr rfl
      · split
        · exact Or.inr rfl
        · split
          · exact Or.inl rfl
          · exact Or.inr rfl

/-- `robsd-regress-log`: exit 0, 1 (nothing found) or 2 (a file could not be read) -/
theorem rlog_exit_documented (sel : RegressLog.Sel) (p : Bool) (fs : List (Option Bytes)) :
    (RegressLog.main sel p fs).1 = 0 ∨ (RegressLog.main sel p fs).1 = 1 ∨ (RegressLog.main sel p fs).1 = 2 := by
  simp only [RegressLog.main]
  split
  · exact Or.inr (Or.inr rfl)
  · split
    · exact Or.inr (Or.inl rfl)
    · exact Or.inl rfl

/-- `robsd-regress-log`: nothing on stdout unless it exits 0 -/
theorem rlog_reject_no_stdout (sel : RegressLog.Sel) (p : Bool) (fs : List (Option Bytes))
    (h : (RegressLog.main sel p fs).1 ≠ 0) : (RegressLog.main sel p fs).2 = [] := by
  simp only [RegressLog.main] at h ⊢
  by_cases he : (RegressLog.mainLoop sel fs 0 [] false).2.2 = true
  · simp [he]
  · by_cases hn : (RegressLog.mainLoop sel fs 0 [] false).1 = 0
    · simp [hn]
    · simp [he, hn] at h

/-- interpolation (`robsd-config -`, `robsd-step -R`, hooks, reports): an error prints nothing -/
theorem interp_reject_no_stdout (lookup : Interp.Lookup) (ign : Bool) (tmpl : Bytes) (e : Interp.Err)
    (h : Interp.interpFile lookup ign tmpl = .error e) : Interp.cliStdout (Interp.interpFile lookup ign tmpl) = [] := by
  rw [h]; rfl

end C12
end Robsd
