import Robsd.Model.Report
import Robsd.Lemmas.Decimal
/-
  C05: a failed step is never hidden in the report.
-/
namespace Robsd
namespace C05
open Bytes StepFile Report

/-! ### status -/

theorem renderNat_head_digit (n : Nat) : ∃ d rest, renderNat n = d :: rest ∧ isDigitB d = true := by
  obtain ⟨_, hall, hne⟩ := renderNat_spec n
  cases h : renderNat n with
  | nil => exact absurd h hne
  | cons d rest =>
    rw [h] at hall
    simp only [List.all_cons, Bool.and_eq_true] at hall
    exact ⟨d, rest, rfl, hall.1⟩

theorem count_ne_ok (n : Nat) (suffix : Bytes) : renderNat n ++ suffix ≠ S "ok" := by
  obtain ⟨d, rest, h, hd⟩ := renderNat_head_digit n
  rw [h]
  intro e
  have : d = 111 := by
    have := congrArg List.head? e
    simpa [S] using this
  subst this
  revert hd; decide

/-- regress and canvas: the status is `ok` exactly when no recorded step has a
    non-zero exit; otherwise it is the number of failures -/
theorem status_count (mode : Mode) (hm : mode = .regress ∨ mode = .canvas) (rows : List Row) :
    (status mode rows = S "ok" ↔ ∀ r ∈ rows, rowExit r = 0) ∧
    (failureCount rows > 0 → status mode rows =
      renderNat (failureCount rows) ++ S " failure" ++ (if failureCount rows > 1 then S "s" else [])) := by
  have hs : status mode rows =
      (if failureCount rows > 0 then renderNat (failureCount rows) ++ S " failure" ++
        (if failureCount rows > 1 then S "s" else []) else S "ok") := by
    rcases hm with rfl | rfl <;> rfl
  have hc : failureCount rows = 0 ↔ ∀ r ∈ rows, rowExit r = 0 := by
    unfold failureCount
    rw [List.length_eq_zero_iff, List.filter_eq_nil_iff]
    constructor
    · intro h r hr
      have := h r hr
      simpa using this
    · intro h r hr
      simp [h r hr]
  constructor
  · rw [hs]
    constructor
    · intro h
      by_cases hp : failureCount rows > 0
      · simp only [hp, if_true] at h
        rw [List.append_assoc] at h
        exact absurd h (count_ne_ok _ _)
      · exact hc.mp (by omega)
    · intro h
      have : ¬ failureCount rows > 0 := by rw [hc.mpr h]; omega
      simp [this]
  · intro hp
    rw [hs]; simp [hp]

/-- the last non-skipped row of a list -/
def lastRun (rows : List Row) : Option Row := rows.reverse.find? (fun r => !rowSkipped r)

theorem failedIn_ne_ok (n : Bytes) : S "failed in " ++ n ≠ S "ok" := by
  intro e
  have h1 : (S "failed in " ++ n).head? = some 102 := rfl
  have h2 : (S "ok").head? = some 111 := rfl
  rw [e, h2] at h1
  cases h1

/-- sequential modes: the status is decided by the last non-skipped step:
    `ok` iff it succeeded (or nothing ran), else it names that step -/
theorem status_seq (mode : Mode) (hm : mode = .robsd ∨ mode = .cross ∨ mode = .ports) (rows : List Row) :
    (status mode rows = S "ok" ↔ ∀ r, lastRun rows = some r → rowExit r = 0) ∧
    (∀ r, lastRun rows = some r → rowExit r ≠ 0 → status mode rows = S "failed in " ++ rowName r) := by
  have hs : status mode rows =
      (match lastRun rows with
       | none => S "ok"
       | some r => if rowExit r = 0 then S "ok" else S "failed in " ++ rowName r) := by
    rcases hm with rfl | rfl | rfl <;> rfl
  rw [hs]
  cases h : lastRun rows with
  | none => simp
  | some r =>
    simp only [Option.some.injEq, forall_eq']
    by_cases he : rowExit r = 0
    · simp [he]
    · simp only [he, if_false]
      refine ⟨⟨fun e => absurd e (failedIn_ne_ok _), fun e => ?_⟩, fun _ => ?_⟩
      · first | exact absurd e he | simp_all
      · first | rfl | trivial

/-- A sequential history: every non-skipped step before the last non-skipped
    one succeeded (the orchestrator stops at the first failure; proved for the
    orchestrator model as `C03.Good`). -/
def SeqHistory (rows : List Row) : Prop :=
  ∀ pre r post, rows = pre ++ r :: post → rowSkipped r = false → (∃ x ∈ post, rowSkipped x = false) → rowExit r = 0

theorem lastRun_spec (rows : List Row) :
    (lastRun rows = none ↔ ∀ r ∈ rows, rowSkipped r = true) ∧
    (∀ r, lastRun rows = some r → ∃ pre post, rows = pre ++ r :: post ∧ rowSkipped r = false ∧ ∀ x ∈ post, rowSkipped x = true) := by
  unfold lastRun
  constructor
  · rw [List.find?_eq_none]
    simp
  · intro r h
    obtain ⟨as, bs, hab, hno⟩ := List.find?_eq_some_iff_append.mp h |>.2
    have hr : rowSkipped r = false := by
      have := (List.find?_eq_some_iff_append.mp h).1
      simpa using this
    refine ⟨bs.reverse, as.reverse, ?_, hr, ?_⟩
    · have := congrArg List.reverse hab
      simpa using this
    · intro x hx
      have := hno x (by simpa using hx)
      simpa using this

/-- **A failure is never hidden (sequential modes)**: for a sequential history
    the status is `ok` exactly when no non-skipped step has a non-zero exit. -/
theorem status_ok_iff_seq (mode : Mode) (hm : mode = .robsd ∨ mode = .cross ∨ mode = .ports)
    (rows : List Row) (hh : SeqHistory rows) :
    status mode rows = S "ok" ↔ ∀ r ∈ rows, rowSkipped r = false → rowExit r = 0 := by
  rw [(status_seq mode hm rows).1]
  constructor
  · intro h r hr hs
    -- r is the last non-skipped row, or has a later non-skipped row
    obtain ⟨pre, post, rfl⟩ := List.append_of_mem hr
    by_cases hl : ∃ x ∈ post, rowSkipped x = false
    · exact hh pre r post rfl hs hl
    · have hall : ∀ x ∈ post, rowSkipped x = true := by
        intro x hx
        cases hx' : rowSkipped x with
        | true => rfl
        | false => exact absurd ⟨x, hx, hx'⟩ hl
      apply h r
      unfold lastRun
      rw [List.reverse_append, List.reverse_cons, List.append_assoc]
      rw [List.find?_append]
      have : (post.reverse.find? (fun r => !rowSkipped r)) = none := by
        rw [List.find?_eq_none]; intro x hx; simp [hall x (by simpa using hx)]
      simp [this, hs]
  · intro h r hl
    obtain ⟨pre, post, rfl, hs, _⟩ := (lastRun_spec rows).2 r hl
    exact h r (by simp) hs

/-! ### sections -/

/-- the rows that get a section -/
def kept (e : Env) (r : Row) : Bool :=
  !rowSkipped r && (rowExit r != 0 || skipStep e r == 0)

theorem skipStep_cases (e : Env) (r : Row) : skipStep e r = 0 ∨ skipStep e r = 1 ∨ skipStep e r = -1 := by
  unfold skipStep
  grind

theorem steps_spec (e : Env) (rows : List Row) (out : Bytes) (h : steps e rows = some out) :
    out = ((rows.filter (kept e)).map (fun r => sectionHead r ++ (stepLog e r).getD [])).flatten := by
  induction rows generalizing out with
  | nil => simp only [steps, Option.some.injEq] at h; subst h; rfl
  | cons r rs ih =>
    simp only [steps] at h
    by_cases hs : rowSkipped r = true
    · simp only [hs, if_true] at h
      have : kept e r = false := by simp [kept, hs]
      simp only [List.filter_cons, this]
      exact ih out h
    · have hs' : rowSkipped r = false := by simpa using hs
      simp only [hs', Bool.false_eq_true, if_false] at h
      by_cases he : rowExit r = 0
      · simp only [he, if_true] at h
        by_cases h1 : skipStep e r = 1
        · simp only [h1, if_true] at h
          have : kept e r = false := by simp [kept, hs', he, h1]
          simp only [List.filter_cons, this]
          exact ih out h
        · simp only [h1, if_false] at h
          by_cases h2 : skipStep e r = -1
          · simp [h2] at h
          · simp only [h2, if_false] at h
            have h0 : skipStep e r = 0 := by
              rcases skipStep_cases e r with h | h | h
              · exact h
              · exact absurd h h1
              · exact absurd h h2
            cases hl : stepLog e r with
            | none => simp [hl] at h
            | some body =>
              simp only [hl] at h
              cases hr : steps e rs with
              | none => simp [hr] at h
              | some rest =>
                simp only [hr, Option.some.injEq] at h
                have : kept e r = true := by simp [kept, hs', he, h0]
                simp only [List.filter_cons, this, if_true, List.map_cons, List.flatten_cons, hl, Option.getD_some]
                rw [← ih rest hr, ← h]
      · simp only [he, if_false] at h
        have hd : ¬ ((0 : Int) = 1) := by decide
        have hd2 : ¬ ((0 : Int) = -1) := by decide
        simp only [hd, hd2, if_false] at h
        cases hl : stepLog e r with
        | none => simp [hl] at h
        | some body =>
          simp only [hl] at h
          cases hr : steps e rs with
          | none => simp [hr] at h
          | some rest =>
            simp only [hr, Option.some.injEq] at h
            have : kept e r = true := by simp [kept, hs', he]
            simp only [List.filter_cons, this, if_true, List.map_cons, List.flatten_cons, hl, Option.getD_some]
            rw [← ih rest hr, ← h]

/-- every non-skipped step with a non-zero exit gets a section; skipped steps never do -/
theorem failing_is_kept (e : Env) (r : Row) (hs : rowSkipped r = false) (he : rowExit r ≠ 0) : kept e r = true := by
  simp [kept, hs, he]

theorem skipped_not_kept (e : Env) (r : Row) (hs : rowSkipped r = true) : kept e r = false := by
  simp [kept, hs]

/-- the sections appear in step order (they are a filter of the rows) -/
theorem kept_in_order (e : Env) (rows : List Row) : (rows.filter (kept e)).Sublist rows :=
  List.filter_sublist

/-- the section of a step starts with its name, exit code, duration and log name -/
theorem sectionHead_shape (r : Row) :
    sectionHead r = S "\n> " ++ rowName r ++ [10] ++ S "Exit: " ++ renderExit (rowExit r) ++ [10] ++
      S "Duration: " ++ formatDurationDelta (rowDuration r) (rowDelta r) 0 ++ [10] ++ S "Log: " ++ rowLog r ++ [10] := rfl

/-! ### the log tail -/

theorem lastLinesRev_suffix (n : Nat) (rev : Bytes) : lastLinesRev n rev <:+ rev := by
  induction n generalizing rev with
  | zero => exact List.suffix_refl _
  | succ n ih =>
    simp only [lastLinesRev]
    split
    · exact List.nil_suffix
    · exact (ih _).trans ((List.dropWhile_suffix _).trans (List.dropWhile_suffix _))

/-- the text shown after `Log:` is a suffix of the log … -/
theorem tail_is_suffix (n : Nat) (s : Bytes) : lastLines n s <:+ s := by
  unfold lastLines
  exact List.drop_suffix _ _

theorem lastLinesRev_head (n : Nat) (hn : n ≠ 0) (rev : Bytes) :
    lastLinesRev n rev = [] ∨ (lastLinesRev n rev).head? = some 10 := by
  induction n generalizing rev with
  | zero => exact absurd rfl hn
  | succ n ih =>
    simp only [lastLinesRev]
    split
    · left; rfl
    · rename_i hne
      by_cases hn0 : n = 0
      · subst hn0
        simp only [lastLinesRev]
        right
        have := List.head?_dropWhile_not (fun x => x != (10 : UInt8)) (List.dropWhile (fun x => x == 10) rev)
        cases hd : List.dropWhile (fun x => x != 10) (List.dropWhile (fun x => x == 10) rev) with
        | nil => simp [hd] at hne
        | cons x xs =>
          simp only [hd, List.head?_cons] at this ⊢
          have hx : x = 10 := by simpa using this
          rw [hx]
      · exact ih hn0 _

/-- … that starts at the beginning of the log or right after a newline -/
theorem tail_at_line_boundary (n : Nat) (s : Bytes) :
    ∃ pre, s = pre ++ lastLines n s ∧ (pre = [] ∨ n = 0 ∨ pre.getLast? = some 10) := by
  unfold lastLines
  obtain ⟨t, ht⟩ := lastLinesRev_suffix n s.reverse
  have hhead := fun hn => lastLinesRev_head n hn s.reverse
  generalize lastLinesRev n s.reverse = rem at ht hhead
  -- s.reverse = t ++ rem, so s = rem.reverse ++ t.reverse
  have hs : s = rem.reverse ++ t.reverse := by
    have := congrArg List.reverse ht
    simpa using this.symm
  refine ⟨rem.reverse, ?_, ?_⟩
  · have : s.drop rem.length = t.reverse := by
      have hl : rem.length = rem.reverse.length := by simp
      rw [hs, hl, List.drop_left]
    rw [this]; exact hs
  · by_cases hn : n = 0
    · right; left; exact hn
    · rcases hhead hn with h | h
      · left; simp [h]
      · right; right
        cases rem with
        | nil => simp at h
        | cons x xs =>
          simp only [List.head?_cons, Option.some.injEq] at h
          subst h
          simp

/-! ### sanitising -/

theorem sanitize_no_nul_cr (b : Bytes) : (0 : UInt8) ∉ sanitize b ∧ (13 : UInt8) ∉ sanitize b := by
  unfold sanitize
  constructor <;> intro h <;> simp only [List.mem_flatMap] at h <;> obtain ⟨c, _, hc⟩ := h
  · split at hc
    · revert hc; decide
    · split at hc
      · revert hc; decide
      · simp only [List.mem_singleton] at hc; rename_i h0 _; exact h0 hc.symm
  · split at hc
    · revert hc; decide
    · split at hc
      · revert hc; decide
      · simp only [List.mem_singleton] at hc; rename_i _ h13; exact h13 hc.symm

theorem sanitize_id (b : Bytes) (h0 : (0 : UInt8) ∉ b) (h13 : (13 : UInt8) ∉ b) : sanitize b = b := by
  unfold sanitize
  induction b with
  | nil => rfl
  | cons c cs ih =>
    simp only [List.mem_cons, not_or] at h0 h13
    have c0 : ¬ c = 0 := fun e => h0.1 e.symm
    have c13 : ¬ c = 13 := fun e => h13.1 e.symm
    simp only [List.flatMap_cons, c0, c13, if_false, List.singleton_append, List.cons.injEq, true_and]
    exact ih h0.2 h13.2

theorem sanitize_append (a b : Bytes) : sanitize (a ++ b) = sanitize a ++ sanitize b := by
  simp [sanitize, List.flatMap_append]

/-- the whole report: subject, stats, comment, then exactly the sections above, sanitised -/
theorem generate_shape (e : Env) (rows : List Row) (out : Bytes) (h : generate e rows = some out) :
    ∃ subj, subject e rows = some subj ∧
      out = sanitize (subj ++ stats e rows ++ commentPart e ++
        ((rows.filter (kept e)).map (fun r => sectionHead r ++ (stepLog e r).getD [])).flatten) := by
  unfold generate at h
  cases hs : subject e rows with
  | none => simp [hs] at h
  | some subj =>
    simp only [hs] at h
    cases hst : steps e rows with
    | none => simp [hst] at h
    | some st =>
      simp only [hst, Option.some.injEq] at h
      exact ⟨subj, rfl, by rw [← h, steps_spec e rows st hst]⟩

/-! ### non-vacuity: a concrete history (env ok, kernel fails with exit 2, a skipped step behind it) -/
private def exRows : List Row :=
  ((parseFile (S "step,name,exit,duration,delta,log,user,time,skip\n1,env,0,1,0,env.log,root,1,0\n2,kernel,2,9,0,kernel.log,root,2,0\n3,reboot,0,0,0,,root,3,1\n")).getD [])
private def exEnv : Env :=
  { mode := .robsd, hostname := S "h", canvasName := [], machine := S "amd64", target := none, builddir := S "/b",
    logs := fun n => if n = S "kernel.log" then some (S "one\ntwo\n") else none, comment := none, tags := none,
    cvsLogs := [], packagesDiff := none, suites := [], quiet := [], sizes := [], hasPrev := false }
example : exRows.length = 3 := by decide +kernel
example : status .robsd exRows = S "failed in kernel" := by decide +kernel
example : status .canvas exRows = S "1 failure" := by decide +kernel
example : exRows.filter (kept exEnv) = [exRows[1]!] := by decide +kernel
example : status .robsd (exRows.take 1) = S "ok" := by decide +kernel
example : (generate exEnv exRows).isSome = true := by decide +kernel

end C05
end Robsd
