import Robsd.Model.Ls
import Robsd.Lemmas.BytesOrder
/-
  C15: invocation listing is exact and newest first.

  The theorems are stated for ANY sorting function that returns a sorted
  permutation (`IsSort`), so they do not depend on how `qsort` breaks ties or
  which algorithm it uses; `sortBytes` (the one the executable model uses) is
  shown to be one.
-/
namespace Robsd
namespace C15
open Bytes Ls

/-- what `qsort` with a `strcmp` comparator guarantees -/
def IsSort (sort : List Bytes → List Bytes) : Prop :=
  ∀ l, (sort l).Perm l ∧ (sort l).Pairwise bytesLe

theorem sortBytes_isSort : IsSort sortBytes := fun l => ⟨sortBytes_perm l, sortBytes_sorted l⟩

/-- directory entries have distinct names -/
def DistinctNames (ents : List Ent) : Prop := (ents.map (·.name)).Nodup

theorem eq_of_name_eq (ents : List Ent) (hd : DistinctNames ents) (a b : Ent) (ha : a ∈ ents) (hb : b ∈ ents)
    (h : a.name = b.name) : a = b := by
  unfold DistinctNames at hd
  induction ents with
  | nil => cases ha
  | cons x xs ih =>
    simp only [List.map_cons, List.nodup_cons, List.mem_map, not_exists, not_and] at hd
    simp only [List.mem_cons] at ha hb
    rcases ha with rfl | ha <;> rcases hb with rfl | hb
    · rfl
    · exact absurd h.symm (hd.1 b hb)
    · exact absurd h (hd.1 a ha)
    · exact ih hd.2 ha hb

theorem pathOf_inj (root : Bytes) (a b : Ent) (h : pathOf root a = pathOf root b) : a.name = b.name := by
  unfold pathOf at h
  have := List.append_cancel_left h
  simpa using this

/-- **Exactness**: a path is printed iff it is a non-hidden subdirectory of the
    root other than the keep directory (and, with -B, other than the directory
    named by the lock file). -/
theorem ls_mem_iff (sort : List Bytes → List Bytes) (hs : IsSort sort) (root keep : Bytes)
    (builddir : Option Bytes) (ents : List Ent) (p : Bytes) :
    p ∈ ls sort root keep builddir ents ↔
      ∃ e ∈ ents, p = pathOf root e ∧ e.kind = .dir ∧ e.name.head? ≠ some DOT ∧ p ≠ keep ∧ some p ≠ builddir := by
  simp only [ls]
  simp only [List.mem_filter, List.mem_reverse]
  rw [(hs _).1.mem_iff]
  simp only [List.mem_map, List.mem_filter, listed, Bool.and_eq_true, bne_iff_ne, ne_eq, beq_iff_eq]
  constructor
  · rintro ⟨⟨e, ⟨he, ⟨h1, h2⟩, h3⟩, rfl⟩, h4⟩
    exact ⟨e, he, rfl, h2, h1, h3, h4⟩
  · rintro ⟨e, he, rfl, h2, h1, h3, h4⟩
    exact ⟨⟨e, ⟨he, ⟨h1, h2⟩, h3⟩, rfl⟩, h4⟩

/-- plain files, symlinks and hidden entries are never listed -/
theorem ls_never_lists (sort : List Bytes → List Bytes) (hs : IsSort sort) (root keep : Bytes)
    (builddir : Option Bytes) (ents : List Ent) (hd : DistinctNames ents) (e : Ent) (he : e ∈ ents)
    (hbad : e.kind ≠ .dir ∨ e.name.head? = some DOT) :
    pathOf root e ∉ ls sort root keep builddir ents := by
  intro hm
  obtain ⟨e', he', hp, hk, hh, _, _⟩ := (ls_mem_iff sort hs root keep builddir ents _).mp hm
  have hn := pathOf_inj root e e' hp
  -- distinct names: e = e'
  have : e = e' := eq_of_name_eq ents hd e e' he he' hn
  subst this
  rcases hbad with h | h
  · exact h hk
  · exact hh h

theorem reverse_filter_pairwise (l : List Bytes) (q : Bytes → Bool) (h : l.Pairwise bytesLe) :
    (l.reverse.filter q).Pairwise (fun a b => bytesLe b a) := by
  apply List.Pairwise.filter
  rw [List.pairwise_reverse]
  exact h

/-- **Order and multiplicity**: strictly descending, each path once. -/
theorem ls_strictly_descending (sort : List Bytes → List Bytes) (hs : IsSort sort) (root keep : Bytes)
    (builddir : Option Bytes) (ents : List Ent) (hd : DistinctNames ents) :
    (ls sort root keep builddir ents).Pairwise (fun a b => bytesLt b a = true) := by
  simp only [ls]
  -- the sorted list has no duplicates, so ≤ is <
  have hnd : ((ents.filter (listed root keep)).map (pathOf root)).Nodup := by
    unfold DistinctNames at hd
    have h1 : ((ents.filter (listed root keep)).map (·.name)).Nodup :=
      (List.filter_sublist.map _).nodup hd
    rw [List.nodup_iff_pairwise_ne] at h1 ⊢
    rw [List.pairwise_map] at h1 ⊢
    exact h1.imp (fun hne e => hne (pathOf_inj root _ _ e))
  have hnd2 : (sort ((ents.filter (listed root keep)).map (pathOf root))).Nodup := (hs _).1.nodup_iff.mpr hnd
  have hsorted := (hs ((ents.filter (listed root keep)).map (pathOf root))).2
  have hstrict : (sort ((ents.filter (listed root keep)).map (pathOf root))).Pairwise (fun a b => bytesLt a b = true) := by
    rw [List.nodup_iff_pairwise_ne] at hnd2
    have := hsorted.and hnd2
    exact this.imp (fun ⟨hle, hne⟩ => by
      rcases bytesLt_total _ _ hne with h | h
      · exact h
      · unfold bytesLe at hle; rw [h] at hle; cases hle)
  apply List.Pairwise.filter
  rw [List.pairwise_reverse]
  exact hstrict

/-- the output does not depend on which correct sort is used -/
theorem ls_sort_independent (s1 s2 : List Bytes → List Bytes) (h1 : IsSort s1) (h2 : IsSort s2)
    (root keep : Bytes) (builddir : Option Bytes) (ents : List Ent) :
    ls s1 root keep builddir ents = ls s2 root keep builddir ents := by
  simp only [ls]
  have : s1 ((ents.filter (listed root keep)).map (pathOf root)) = s2 ((ents.filter (listed root keep)).map (pathOf root)) := by
    apply List.Perm.eq_of_pairwise (le := bytesLe)
    · intro a b _ _ hab hba
      by_cases e : a = b
      · exact e
      · rcases bytesLt_total a b e with h | h
        · unfold bytesLe at hba; rw [h] at hba; cases hba
        · unfold bytesLe at hab; rw [h] at hab; cases hab
    · exact (h1 _).2
    · exact (h2 _).2
    · exact (h1 _).1.trans (h2 _).1.symm
  rw [this]

/-- **-B omits exactly the directory named by the lock file, and nothing else** -/
theorem ls_B_exact (sort : List Bytes → List Bytes) (root keep : Bytes) (b : Bytes) (ents : List Ent) :
    ls sort root keep (some b) ents = (ls sort root keep none ents).filter (· ≠ b) := by
  simp only [ls]
  rw [List.filter_filter]
  congr 1
  funext p
  by_cases h : p = b
  · subst h; simp
  · have h1 : (some p != some b) = true := by simp [h]
    have h2 : (some p != (none : Option Bytes)) = true := by simp
    simp [h, h1, h2]

/-- absent, empty or newline-less lock file: nothing is omitted -/
theorem lock_absent_or_empty : lockBuilddir none = none ∧ lockBuilddir (some []) = none ∧
    lockBuilddir (some [47, 120]) = none ∧ lockBuilddir (some [47, 120, 10]) = some [47, 120] := by decide

/-! ### non-vacuity -/
example : ls sortBytes [47, 114] [47, 114, 47, 97] (some [47, 114, 47, 50])
    [⟨[49], .dir⟩, ⟨[50], .dir⟩, ⟨[51], .dir⟩, ⟨[46, 104], .dir⟩, ⟨[102], .file⟩, ⟨[108], .symlink⟩, ⟨[97], .dir⟩] =
    [[47, 114, 47, 51], [47, 114, 47, 49]] := by decide

end C15
end Robsd
