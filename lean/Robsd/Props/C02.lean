import Robsd.Model.Flock
/-
  C02: concurrent step-file writers and readers are serialised; no update is lost.

  For ANY number of processes and ANY schedule (interleaving at the
  granularity open / lock / read / truncate / write / unlock), the invariant
  `Inv` holds in every reachable state.  It says: the processes that have
  taken the lock so far form a serial order; whenever nobody holds the lock
  the file is the result of applying their writes in that order; the holder is
  the last of the order and the file is in the corresponding phase (old
  content, empty after truncation, new content); and everything a process
  read under the lock is the serial state just before it.
-/
namespace Robsd
namespace C02
open Flock

def active (pc : Pc) : Prop := pc = .locked ∨ pc = .haveRead ∨ pc = .truncated ∨ pc = .written
def hasRead (pc : Pc) : Prop := pc = .haveRead ∨ pc = .truncated ∨ pc = .written ∨ pc = .done

theorem effect_snoc (sys : Sys) (c0 : Bytes) (before : List Nat) (p : Nat) :
    effect sys c0 (before ++ [p]) = (match sys.write p with | none => effect sys c0 before | some f => f (effect sys c0 before)) := by
  simp only [effect, List.foldl_append, List.foldl_cons, List.foldl_nil]
  cases sys.write p <;> rfl

structure Inv (sys : Sys) (c0 : Bytes) (s : State) : Prop where
  mem : ∀ p, p ∈ s.order ↔ ¬ ((s.procs p).pc = .start ∨ (s.procs p).pc = .opened)
  nodup : s.order.Nodup
  act : ∀ p, active (s.procs p).pc ↔ s.holder = some p
  free : s.holder = none → s.content = effect sys c0 s.order
  held : ∀ p, s.holder = some p → ∃ before, s.order = before ++ [p] ∧
    (((s.procs p).pc = .locked ∨ (s.procs p).pc = .haveRead) → s.content = effect sys c0 before) ∧
    ((s.procs p).pc = .truncated → s.content = [] ∧ (sys.write p).isSome) ∧
    ((s.procs p).pc = .written → s.content = effect sys c0 s.order)
  snap : ∀ p before after, s.order = before ++ p :: after → hasRead (s.procs p).pc →
    (s.procs p).snapshot = effect sys c0 before

theorem inv_init (sys : Sys) (c0 : Bytes) : Inv sys c0 (init c0) := by
  refine ⟨?_, List.nodup_nil, ?_, ?_, ?_, ?_⟩
  · intro p; simp [init]
  · intro p; simp [init, active]
  · intro _; rfl
  · intro p h; simp [init] at h
  · intro p before after h; simp [init] at h

theorem setProc_same (s : State) (p : Nat) (q : Proc) : (setProc s p q).procs p = q := by simp [setProc]
theorem setProc_other (s : State) (p j : Nat) (q : Proc) (h : j ≠ p) : (setProc s p q).procs j = s.procs j := by simp [setProc, h]

/-- in a list without duplicates an element has one position -/
theorem uniq_decomp (x : Nat) : ∀ (b1 a1 b2 a2 : List Nat), (b1 ++ x :: a1).Nodup → b1 ++ x :: a1 = b2 ++ x :: a2 → b1 = b2 ∧ a1 = a2 := by
  intro b1
  induction b1 with
  | nil =>
    intro a1 b2 a2 hnd h
    cases b2 with
    | nil => simp only [List.nil_append, List.cons.injEq, true_and] at h; exact ⟨rfl, h⟩
    | cons y b2' =>
      exfalso
      simp only [List.nil_append, List.cons_append, List.cons.injEq] at h
      simp only [List.nil_append, List.nodup_cons] at hnd
      apply hnd.1
      rw [h.2]; simp
  | cons y b1' ih =>
    intro a1 b2 a2 hnd h
    cases b2 with
    | nil =>
      exfalso
      simp only [List.nil_append, List.cons_append, List.cons.injEq] at h
      simp only [List.cons_append, List.nodup_cons] at hnd
      apply hnd.1
      rw [h.1]; simp
    | cons z b2' =>
      simp only [List.cons_append, List.cons.injEq] at h
      simp only [List.cons_append, List.nodup_cons] at hnd
      obtain ⟨e1, e2⟩ := ih a1 b2' a2 hnd.2 h.2
      exact ⟨by rw [h.1, e1], e2⟩

/-- if `p` is the last of the order, any decomposition around `p` has nothing after it -/
theorem last_decomp (before b2 after : List Nat) (p : Nat) (hnd : (before ++ [p]).Nodup)
    (h : before ++ [p] = b2 ++ p :: after) : b2 = before ∧ after = [] := by
  have := uniq_decomp p before [] b2 after hnd h
  exact ⟨this.1.symm, this.2.symm⟩

theorem inv_step (sys : Sys) (c0 : Bytes) (s : State) (hinv : Inv sys c0 s) (p : Nat) : Inv sys c0 (step sys s p) := by
  obtain ⟨hmem, hnd, hact, hfree, hheld, hsnap⟩ := hinv
  unfold step
  simp only
  cases hpc : (s.procs p).pc with
  | start =>
    simp only
    refine ⟨?_, hnd, ?_, hfree, ?_, ?_⟩
    · intro j
      by_cases hj : j = p
      · subst hj; simp only [setProc, if_true]; rw [hmem]; simp [hpc]
      · rw [setProc_other _ _ _ _ hj]; exact hmem j
    · intro j
      by_cases hj : j = p
      · subst hj
        simp only [setProc, if_true]
        constructor
        · intro h; simp [active] at h
        · intro h; have := (hact j).mpr h; simp [active, hpc] at this
      · simp only [setProc, hj, if_false]; exact hact j
    · intro j hj
      have hjp : j ≠ p := by
        intro e; subst e; have := (hact j).mpr hj; simp [active, hpc] at this
      obtain ⟨before, h1, h2, h3, h4⟩ := hheld j hj
      exact ⟨before, h1, by simpa [setProc, hjp] using h2, by simpa [setProc, hjp] using h3, by simpa [setProc, hjp] using h4⟩
    · intro j before after h hr
      by_cases hj : j = p
      · subst hj; simp [setProc, hasRead] at hr
      · simp only [setProc, hj, if_false] at hr ⊢; exact hsnap j before after h hr
  | opened =>
    simp only
    by_cases hh : s.holder = none
    · simp only [hh, if_true]
      have hpnot : p ∉ s.order := by rw [hmem]; simp [hpc]
      refine ⟨?_, ?_, ?_, ?_, ?_, ?_⟩
      · intro j
        by_cases hj : j = p
        · subst hj; simp [setProc]
        · simp only [setProc, hj, if_false, List.mem_append, List.mem_singleton, or_false]
          exact hmem j
      · rw [List.nodup_append]; exact ⟨hnd, by simp, by intro a ha b hb e; simp at hb; subst hb; subst e; exact hpnot ha⟩
      · intro j
        by_cases hj : j = p
        · subst hj; simp [setProc, active]
        · simp only [setProc, hj, if_false, Option.some.injEq]
          constructor
          · intro h; have := (hact j).mp h; rw [hh] at this; cases this
          · intro h; exact absurd h.symm hj
      · intro h; cases h
      · intro j hj
        simp only [Option.some.injEq] at hj
        subst hj
        refine ⟨s.order, rfl, ?_, ?_, ?_⟩
        · intro _; exact hfree hh
        · intro h; simp [setProc] at h
        · intro h; simp [setProc] at h
      · intro j before after h hr
        by_cases hj : j = p
        · subst hj; simp [setProc, hasRead] at hr
        · simp only [setProc, hj, if_false] at hr ⊢
          -- j is in the old order
          have hjin : j ∈ s.order := by rw [hmem]; rcases hr with h | h | h | h <;> simp [h]
          obtain ⟨b0, a0, e0⟩ := List.append_of_mem hjin
          have : s.order ++ [p] = b0 ++ j :: (a0 ++ [p]) := by rw [e0]; simp
          rw [this] at h
          have hnd' : (b0 ++ j :: (a0 ++ [p])).Nodup := by
            rw [← this, List.nodup_append]; exact ⟨hnd, by simp, by intro a ha b hb e; simp at hb; subst hb; subst e; exact hpnot ha⟩
          have huniq : before = b0 := ((uniq_decomp j b0 (a0 ++ [p]) before after hnd' h).1).symm
          rw [huniq]
          exact hsnap j b0 a0 e0 hr
    · simp only [hh, if_false]
      exact ⟨hmem, hnd, hact, hfree, hheld, hsnap⟩
  | locked =>
    simp only
    have hhold : s.holder = some p := (hact p).mp (Or.inl hpc)
    obtain ⟨before, h1, h2, _, _⟩ := hheld p hhold
    have hc := h2 (Or.inl hpc)
    refine ⟨?_, hnd, ?_, ?_, ?_, ?_⟩
    · intro j
      by_cases hj : j = p
      · subst hj; simp only [setProc, if_true]; rw [hmem]; simp [hpc]
      · rw [setProc_other _ _ _ _ hj]; exact hmem j
    · intro j
      by_cases hj : j = p
      · subst hj; simp [setProc, active, hhold]
      · simp only [setProc, hj, if_false]; exact hact j
    · intro h; simp [setProc, hhold] at h
    · intro j hj
      simp only [setProc] at hj
      rw [hhold] at hj; simp only [Option.some.injEq] at hj; subst hj
      exact ⟨before, h1, by intro _; simpa [setProc] using hc, by intro h; simp [setProc] at h, by intro h; simp [setProc] at h⟩
    · intro j b2 after h hr
      by_cases hj : j = p
      · subst hj
        simp only [setProc, if_true]
        have := last_decomp before b2 after j (h1 ▸ hnd) (h1 ▸ h)
        rw [this.1]; exact hc
      · simp only [setProc, hj, if_false] at hr ⊢; exact hsnap j b2 after h hr
  | haveRead =>
    simp only
    have hhold : s.holder = some p := (hact p).mp (Or.inr (Or.inl hpc))
    obtain ⟨before, h1, h2, _, _⟩ := hheld p hhold
    have hc := h2 (Or.inr hpc)
    have hsn : (s.procs p).snapshot = effect sys c0 before := hsnap p before [] (by simpa using h1) (Or.inl hpc)
    cases hw : sys.write p with
    | none =>
      simp only
      refine ⟨?_, hnd, ?_, ?_, ?_, ?_⟩
      · intro j
        by_cases hj : j = p
        · subst hj; simp only [setProc, if_true]; rw [hmem]; simp [hpc]
        · rw [setProc_other _ _ _ _ hj]; exact hmem j
      · intro j
        by_cases hj : j = p
        · subst hj; simp [setProc, active]
        · simp only [setProc, hj, if_false]
          constructor
          · intro h; have := (hact j).mp h; rw [hhold] at this; simp only [Option.some.injEq] at this; exact absurd this.symm hj
          · intro h; cases h
      · intro _
        simp only [setProc]
        rw [hc, h1, effect_snoc, hw]
      · intro j hj; simp [setProc] at hj
      · intro j b2 after h hr
        by_cases hj : j = p
        · subst hj
          simp only [setProc, if_true]
          have := last_decomp before b2 after j (h1 ▸ hnd) (h1 ▸ h)
          rw [this.1]; exact hsn
        · simp only [setProc, hj, if_false] at hr ⊢; exact hsnap j b2 after h hr
    | some f =>
      simp only
      refine ⟨?_, hnd, ?_, ?_, ?_, ?_⟩
      · intro j
        by_cases hj : j = p
        · subst hj; simp only [setProc, if_true]; rw [hmem]; simp [hpc]
        · rw [setProc_other _ _ _ _ hj]; exact hmem j
      · intro j
        by_cases hj : j = p
        · subst hj; simp [setProc, active, hhold]
        · simp only [setProc, hj, if_false]; exact hact j
      · intro h; simp [setProc, hhold] at h
      · intro j hj
        simp only [setProc] at hj
        rw [hhold] at hj; simp only [Option.some.injEq] at hj; subst hj
        exact ⟨before, h1, by intro h; simp [setProc] at h, by intro _; simp [setProc, hw], by intro h; simp [setProc] at h⟩
      · intro j b2 after h hr
        by_cases hj : j = p
        · subst hj
          simp only [setProc, if_true]
          have := last_decomp before b2 after j (h1 ▸ hnd) (h1 ▸ h)
          rw [this.1]; exact hsn
        · simp only [setProc, hj, if_false] at hr ⊢; exact hsnap j b2 after h hr
  | truncated =>
    simp only
    have hhold : s.holder = some p := (hact p).mp (Or.inr (Or.inr (Or.inl hpc)))
    obtain ⟨before, h1, _, h3, _⟩ := hheld p hhold
    have hsn : (s.procs p).snapshot = effect sys c0 before := hsnap p before [] (by simpa using h1) (Or.inr (Or.inl hpc))
    cases hw : sys.write p with
    | none => have := (h3 hpc).2; rw [hw] at this; cases this
    | some f =>
      simp only
      refine ⟨?_, hnd, ?_, ?_, ?_, ?_⟩
      · intro j
        by_cases hj : j = p
        · subst hj; simp only [setProc, if_true]; rw [hmem]; simp [hpc]
        · rw [setProc_other _ _ _ _ hj]; exact hmem j
      · intro j
        by_cases hj : j = p
        · subst hj; simp [setProc, active, hhold]
        · simp only [setProc, hj, if_false]; exact hact j
      · intro h; simp [setProc, hhold] at h
      · intro j hj
        simp only [setProc] at hj
        rw [hhold] at hj; simp only [Option.some.injEq] at hj; subst hj
        refine ⟨before, h1, by intro h; simp [setProc] at h, by intro h; simp [setProc] at h, ?_⟩
        intro _
        simp only [setProc]
        rw [h1, effect_snoc, hw, hsn]
      · intro j b2 after h hr
        by_cases hj : j = p
        · subst hj
          simp only [setProc, if_true]
          have := last_decomp before b2 after j (h1 ▸ hnd) (h1 ▸ h)
          rw [this.1]; exact hsn
        · simp only [setProc, hj, if_false] at hr ⊢; exact hsnap j b2 after h hr
  | written =>
    simp only
    have hhold : s.holder = some p := (hact p).mp (Or.inr (Or.inr (Or.inr hpc)))
    obtain ⟨before, h1, _, _, h4⟩ := hheld p hhold
    have hsn : (s.procs p).snapshot = effect sys c0 before := hsnap p before [] (by simpa using h1) (Or.inr (Or.inr (Or.inl hpc)))
    refine ⟨?_, hnd, ?_, ?_, ?_, ?_⟩
    · intro j
      by_cases hj : j = p
      · subst hj; simp only [setProc, if_true]; rw [hmem]; simp [hpc]
      · rw [setProc_other _ _ _ _ hj]; exact hmem j
    · intro j
      by_cases hj : j = p
      · subst hj; simp [setProc, active]
      · simp only [setProc, hj, if_false]
        constructor
        · intro h; have := (hact j).mp h; rw [hhold] at this; simp only [Option.some.injEq] at this; exact absurd this.symm hj
        · intro h; cases h
    · intro _; simp only [setProc]; exact h4 hpc
    · intro j hj; simp [setProc] at hj
    · intro j b2 after h hr
      by_cases hj : j = p
      · subst hj
        simp only [setProc, if_true]
        have := last_decomp before b2 after j (h1 ▸ hnd) (h1 ▸ h)
        rw [this.1]; exact hsn
      · simp only [setProc, hj, if_false] at hr ⊢; exact hsnap j b2 after h hr
  | done => simp only; exact ⟨hmem, hnd, hact, hfree, hheld, hsnap⟩

/-- the invariant holds after every schedule, from every initial content, for every number of processes -/
theorem inv_run (sys : Sys) (c0 : Bytes) (sched : List Nat) : Inv sys c0 (runSched sys (init c0) sched) := by
  have gen : ∀ (sched : List Nat) (s : State), Inv sys c0 s → Inv sys c0 (runSched sys s sched) := by
    intro sched
    induction sched with
    | nil => intro s h; exact h
    | cons p ps ih => intro s h; exact ih _ (inv_step sys c0 s h p)
  exact gen sched _ (inv_init sys c0)

/-- **Serialisable**: whenever nobody holds the lock (in particular at the end)
    the file equals the successful writes applied one at a time in the order
    in which the processes obtained the lock — no update is lost. -/
theorem serialisable (sys : Sys) (c0 : Bytes) (sched : List Nat)
    (h : (runSched sys (init c0) sched).holder = none) :
    (runSched sys (init c0) sched).content = effect sys c0 (runSched sys (init c0) sched).order :=
  (inv_run sys c0 sched).free h

/-- **No torn read**: what any process reads under the lock is the complete
    result of a prefix of that order — never a partially written or empty
    intermediate file. -/
theorem no_torn_read (sys : Sys) (c0 : Bytes) (sched : List Nat) (p : Nat) (before after : List Nat)
    (ho : (runSched sys (init c0) sched).order = before ++ p :: after)
    (hr : hasRead ((runSched sys (init c0) sched).procs p).pc) :
    ((runSched sys (init c0) sched).procs p).snapshot = effect sys c0 before :=
  (inv_run sys c0 sched).snap p before after ho hr

/-- at most one process is between `lock` and `unlock` -/
theorem mutual_exclusion (sys : Sys) (c0 : Bytes) (sched : List Nat) (p q : Nat)
    (hp : active ((runSched sys (init c0) sched).procs p).pc) (hq : active ((runSched sys (init c0) sched).procs q).pc) : p = q := by
  have i := inv_run sys c0 sched
  have a := (i.act p).mp hp
  have b := (i.act q).mp hq
  rw [a] at b
  exact Option.some.inj b

/-! ### the lock is what makes it true -/

private def sys2 : Sys := ⟨fun p => if p = 0 then some (fun c => c ++ [1]) else if p = 1 then some (fun c => c ++ [2]) else none⟩

/-- without the lock, two writers can both read the old content and the first update is lost -/
theorem lock_is_needed :
    let s := [0, 0, 1, 1, 0, 1, 0, 0, 0, 1, 1, 1].foldl (stepNoLock sys2) (init [])
    s.content = [2] ∧ s.content ≠ effect sys2 [] [0, 1] ∧ s.content ≠ effect sys2 [] [1, 0] := by decide

/-- with the lock the same schedule serialises -/
example : (runSched sys2 (init []) [0, 0, 1, 1, 0, 1, 0, 0, 0, 1, 1, 1, 1, 1, 1]).content = [1, 2] := by decide

end C02
end Robsd
