import Robsd.Lemmas.StepRow
import Robsd.Lemmas.StepWrite
/-
  C01: step file writes round-trip.

  * `parse_serialize`: for rows that are complete, typed as the field table
    says and representable, `parse (serialize rows) = sort rows`;
  * `reject_unchanged`, `exit0_new_state`: the exit-status contract of `-W`;
  * `history_readable`: after any sequence of write commands (any ids, any
    NUL-free arguments, accepted or rejected) starting from the empty file the
    file parses, every row is well formed, and the accepted state is exactly
    what a reader gets.
-/
namespace Robsd
namespace C01
open Bytes StepFile Interp

theorem mem_insertRow (r x : Row) (rs : List Row) : x ∈ insertRow r rs ↔ x = r ∨ x ∈ rs := by
  induction rs with
  | nil => simp [insertRow]
  | cons y ys ih =>
    simp only [insertRow]
    split
    · simp
    · simp only [List.mem_cons, ih]
      constructor
      · rintro (h | h | h)
        · exact Or.inr (Or.inl h)
        · exact Or.inl h
        · exact Or.inr (Or.inr h)
      · rintro (h | h | h)
        · exact Or.inr (Or.inl h)
        · exact Or.inl h
        · exact Or.inr (Or.inr h)

theorem mem_sortRows (x : Row) (rs : List Row) : x ∈ sortRows rs ↔ x ∈ rs := by
  induction rs with
  | nil => simp [sortRows]
  | cons y ys ih =>
    simp only [sortRows, List.foldr_cons, List.mem_cons]
    rw [mem_insertRow]
    simp only [sortRows] at ih
    rw [ih]

theorem lineOf_clean (r : Row) (h : RowOk r) : NL ∉ lineOf r ∧ (0 : UInt8) ∉ lineOf r := by
  obtain ⟨s, n, e', d, dl, lg, u, t, sk, rfl, hs, he, hd, hdl, ht, hsk, hn, hlg, hu, hnn, hun⟩ := h.shape
  constructor
  · apply intercalateB_not_mem NL COMMA _ (by decide)
    intro x hx
    simp only [List.map_cons, List.map_nil, renderVal, List.mem_cons, List.not_mem_nil, or_false] at hx
    rcases hx with rfl | rfl | rfl | rfl | rfl | rfl | rfl | rfl | rfl
    · exact (renderInt_clean s).2.2.1
    · exact hn.2.1
    · exact (renderInt_clean e').2.2.1
    · exact (renderInt_clean d).2.2.1
    · exact (renderInt_clean dl).2.2.1
    · exact hlg.2.1
    · exact hu.2.1
    · exact (renderInt_clean t).2.2.1
    · exact (renderInt_clean sk).2.2.1
  · apply intercalateB_not_mem 0 COMMA _ (by decide)
    intro x hx
    simp only [List.map_cons, List.map_nil, renderVal, List.mem_cons, List.not_mem_nil, or_false] at hx
    rcases hx with rfl | rfl | rfl | rfl | rfl | rfl | rfl | rfl | rfl
    · exact (renderInt_clean s).2.2.2.2
    · exact hn.2.2.2
    · exact (renderInt_clean e').2.2.2.2
    · exact (renderInt_clean d).2.2.2.2
    · exact (renderInt_clean dl).2.2.2.2
    · exact hlg.2.2.2
    · exact hu.2.2.2
    · exact (renderInt_clean t).2.2.2.2
    · exact (renderInt_clean sk).2.2.2.2

theorem serializeRows_ok (rows : List Row) (h : ∀ r ∈ rows, RowOk r) :
    serializeRows rows = some (rows.flatMap (fun r => lineOf r ++ [NL])) := by
  induction rows with
  | nil => rfl
  | cons r rs ih =>
    simp only [serializeRows, serializeRow_ok r (h r (by simp)), ih (fun x hx => h x (by simp [hx]))]
    simp

theorem parseRows_ok (rows : List Row) (h : ∀ r ∈ rows, RowOk r) :
    parseRows names (rows.map lineOf) = some rows := by
  induction rows with
  | nil => rfl
  | cons r rs ih =>
    simp only [List.map_cons, parseRows, parseRow_ok r (h r (by simp)), ih (fun x hx => h x (by simp [hx]))]

def headerLine : Bytes := intercalateB COMMA names

theorem header_eq : header = headerLine ++ [NL] := by decide
theorem parseHeader_ok : parseHeader headerLine = some names := by decide
theorem headerLine_clean : NL ∉ headerLine ∧ (0 : UInt8) ∉ headerLine := by decide

/-- the text of a file holding `rows` (already in file order) -/
def fileOf (rows : List Row) : Bytes := header ++ rows.flatMap (fun r => lineOf r ++ [NL])

theorem parseFile_fileOf (rows : List Row) (h : ∀ r ∈ rows, RowOk r) :
    parseFile (fileOf rows) = some rows := by
  have hshape : fileOf rows = (headerLine :: rows.map lineOf).flatMap (fun l => l ++ [NL]) := by
    simp [fileOf, header_eq, List.flatMap_cons, List.flatMap_map]
  have hnl : ∀ l ∈ headerLine :: rows.map lineOf, NL ∉ l := by
    intro l hl
    simp only [List.mem_cons, List.mem_map] at hl
    rcases hl with rfl | ⟨r, hr, rfl⟩
    · exact headerLine_clean.1
    · exact (lineOf_clean r (h r hr)).1
  have hnul : (0 : UInt8) ∉ fileOf rows := by
    rw [hshape]
    intro hm
    simp only [List.mem_flatMap, List.mem_append, List.mem_singleton] at hm
    obtain ⟨l, hl, hm | hm⟩ := hm
    · simp only [List.mem_cons, List.mem_map] at hl
      rcases hl with rfl | ⟨r, hr, rfl⟩
      · exact headerLine_clean.2 hm
      · exact (lineOf_clean r (h r hr)).2 hm
    · exact absurd hm (by decide)
  unfold parseFile fileLines visible
  rw [cstr_eq_self_of_no_nul _ hnul]
  have hne : fileOf rows ≠ [] := by
    rw [hshape]; simp
  simp only [hne, if_false]
  rw [hshape, splitOn_lines _ hnl]
  have e1 : ((headerLine :: rows.map lineOf) ++ [[]]).getLast? = some [] := List.getLast?_concat
  have e2 : ((headerLine :: rows.map lineOf) ++ [[]]).dropLast = headerLine :: rows.map lineOf := List.dropLast_concat
  simp only [e1, e2, if_true, parseHeader_ok, parseRows_ok rows h]

/-- **Round trip**: well-formed rows serialise, and the result parses back to
    the same rows, sorted by id. -/
theorem parse_serialize (rows : List Row) (h : ∀ r ∈ rows, RowOk r) :
    ∃ out, serializeFile rows = some out ∧ parseFile out = some (sortRows rows) := by
  have hs : ∀ r ∈ sortRows rows, RowOk r := fun r hr => h r ((mem_sortRows r rows).mp hr)
  refine ⟨fileOf (sortRows rows), ?_, parseFile_fileOf _ hs⟩
  simp [serializeFile, serializeRows_ok _ hs, fileOf]

/-! ### the exit-status contract of `robsd-step -W` -/

/-- A write command that does not exit zero (and whose flush did not fail)
    leaves the file byte-for-byte unchanged. -/
theorem reject_unchanged (file : Bytes) (id : Int) (kvs : List Bytes) :
    (writeCmd file id kvs .ok).1 ≠ 0 → (writeCmd file id kvs .ok).2 = file := by
  unfold writeCmd
  split
  · intro _; rfl
  · split
    · intro _; rfl
    · split
      · intro _; rfl
      · split
        · intro _; rfl
        · intro h; simp at h

/-- Exit status zero means the flush succeeded and the file holds exactly the
    serialisation of the new state — also when the file system misbehaves. -/
theorem exit0_new_state (file : Bytes) (id : Int) (kvs : List Bytes) (flush : Flush)
    (h : (writeCmd file id kvs flush).1 = 0) :
    flush = .ok ∧ ∃ rows rows' out, parseFile file = some rows ∧ applyWrite rows id kvs = some rows' ∧
      serializeFile rows' = some out ∧ writeCmd file id kvs flush = (0, out) := by
  by_cases hid : id = 0 ∨ id < -intMax ∨ intMax < id ∨ kvs = []
  · simp [writeCmd, hid] at h
  · cases hp : parseFile file with
    | none => simp [writeCmd, hid, hp] at h
    | some rows =>
      cases ha : applyWrite rows id kvs with
      | none => simp [writeCmd, hid, hp, ha] at h
      | some rows' =>
        cases hs : serializeFile rows' with
        | none => simp [writeCmd, hid, hp, ha, hs] at h
        | some out =>
          cases flush with
          | failed l => simp [writeCmd, hid, hp, ha, hs] at h
          | ok =>
            refine ⟨rfl, rows, rows', out, rfl, ha, hs, ?_⟩
            simp [writeCmd, hid, hp, ha, hs]

/-- A failed flush never yields exit status zero. -/
theorem flush_failure_reported (file : Bytes) (id : Int) (kvs : List Bytes) (left : Bytes) :
    (writeCmd file id kvs (.failed left)).1 ≠ 0 := by
  intro h
  have := (exit0_new_state file id kvs (.failed left) h).1
  cases this

/-! ### histories -/

/-- the state a file holds: it parses and every row is well formed -/
def FileOk (file : Bytes) : Prop := ∃ rows, parseFile file = some rows ∧ ∀ r ∈ rows, RowOk r

theorem write_preserves_inv (file : Bytes) (id : Int) (kvs : List Bytes) (hn : ∀ kv ∈ kvs, (0 : UInt8) ∉ kv)
    (hfok : FileOk file) : FileOk (writeCmd file id kvs .ok).2 := by
  by_cases hrc : (writeCmd file id kvs .ok).1 = 0
  · obtain ⟨_, rows, rows', out, hp, ha, hs, hw⟩ := exit0_new_state file id kvs .ok hrc
    obtain ⟨rows0, hp0, hok⟩ := hfok
    rw [hp] at hp0
    simp only [Option.some.injEq] at hp0
    subst hp0
    rw [hw]
    -- every row of rows' serialises
    have hser : ∀ r ∈ rows', ∃ o, serializeRow r = some o := by
      unfold serializeFile at hs
      cases hsr : serializeRows (sortRows rows') with
      | none => simp [hsr] at hs
      | some b =>
        intro r hr
        exact serializeRows_each _ b hsr r ((mem_sortRows r rows').mpr hr)
    have hidr : InI64 id := by
      have : ¬(id = 0 ∨ id < -intMax ∨ intMax < id ∨ kvs = []) := by
        intro hbad; simp [writeCmd, hbad] at hrc
      simp only [not_or, Int.not_lt] at this
      obtain ⟨_, h1, h2, _⟩ := this
      have a : intMax = 2147483647 := rfl
      have b : i64Min = -9223372036854775808 := rfl
      have c : i64Max = 9223372036854775807 := rfl
      unfold InI64
      omega
    have hall : ∀ r ∈ rows', RowOk r := by
      unfold applyWrite at ha
      split at ha
      · rename_i k hk
        cases hsk : setKeyvals (rows[k]?.getD []) kvs with
        | none => simp [hsk] at ha
        | some r' =>
          simp [hsk] at ha
          subst ha
          have hklt : k < rows.length := by
            unfold findById at hk
            exact (List.findIdx?_eq_some_iff_getElem.mp hk).1
          have hbase : RowOk (rows[k]?.getD []) := by
            rw [List.getElem?_eq_getElem hklt, Option.getD_some]
            exact hok _ (List.getElem_mem hklt)
          have hpre := setKeyvals_pre _ (rowOk_pre _ hbase) kvs hn r' hsk
          intro r hr
          rcases List.mem_or_eq_of_mem_set hr with hr | rfl
          · exact hok r hr
          · obtain ⟨o, ho⟩ := hser r hr
            exact pre_complete_ok r hpre o ho
      · cases hinit : initRow with
        | none => simp [hinit] at ha
        | some r0 =>
          simp only [hinit] at ha
          cases hsk : setKeyvals (r0.set stepIdx (.int id)) kvs with
          | none => simp [hsk] at ha
          | some r' =>
            simp only [hsk, Option.some.injEq] at ha
            subst ha
            have hpre := setKeyvals_pre _ (init_pre id hidr r0 hinit) kvs hn r' hsk
            intro r hr
            simp only [List.mem_append, List.mem_singleton] at hr
            rcases hr with hr | rfl
            · exact hok r hr
            · obtain ⟨o, ho⟩ := hser r (by simp)
              exact pre_complete_ok r hpre o ho
    obtain ⟨out', hs', hp'⟩ := parse_serialize rows' hall
    rw [hs] at hs'
    simp only [Option.some.injEq] at hs'
    subst hs'
    exact ⟨sortRows rows', hp', fun r hr => hall r ((mem_sortRows r rows').mp hr)⟩
  · rw [reject_unchanged file id kvs hrc]
    exact hfok

/-- **History**: after any sequence of write commands from the empty file the
    file is readable and every row is well formed. -/
theorem history_readable (ws : List (Int × List Bytes))
    (hn : ∀ w ∈ ws, ∀ kv ∈ w.2, (0 : UInt8) ∉ kv) :
    FileOk (ws.foldl (fun file w => (writeCmd file w.1 w.2 .ok).2) []) := by
  have gen : ∀ (ws : List (Int × List Bytes)) (file : Bytes), FileOk file →
      (∀ w ∈ ws, ∀ kv ∈ w.2, (0 : UInt8) ∉ kv) →
      FileOk (ws.foldl (fun file w => (writeCmd file w.1 w.2 .ok).2) file) := by
    intro ws
    induction ws with
    | nil => intro file h _; exact h
    | cons w ws ih =>
      intro file h hn
      simp only [List.foldl_cons]
      exact ih _ (write_preserves_inv file w.1 w.2 (hn w (by simp)) h) (fun x hx => hn x (by simp [hx]))
  exact gen ws [] ⟨[], by decide, by simp⟩ hn

/-! ### order and frame -/

/-- rows come out in ascending id order -/
theorem insertRow_sorted (r : Row) (rs : List Row) (h : rs.Pairwise (fun a b => rowKey a ≤ rowKey b)) :
    (insertRow r rs).Pairwise (fun a b => rowKey a ≤ rowKey b) := by
  induction rs with
  | nil => simp [insertRow]
  | cons x xs ih =>
    simp only [insertRow]
    rw [List.pairwise_cons] at h
    split
    · rename_i hle
      rw [List.pairwise_cons]
      refine ⟨?_, List.pairwise_cons.mpr h⟩
      intro y hy
      simp only [List.mem_cons] at hy
      rcases hy with rfl | hy
      · exact hle
      · exact Int.le_trans hle (h.1 y hy)
    · rename_i hgt
      rw [List.pairwise_cons]
      refine ⟨?_, ih h.2⟩
      intro y hy
      rcases (mem_insertRow r y xs).mp hy with rfl | hy
      · omega
      · exact h.1 y hy

theorem sortRows_sorted (rs : List Row) : (sortRows rs).Pairwise (fun a b => rowKey a ≤ rowKey b) := by
  induction rs with
  | nil => simp [sortRows]
  | cons x xs ih => exact insertRow_sorted x _ ih

/-- a write touches one row only: every other row of the old state is in the new state,
    and every row of the new state is an old row or the written one -/
theorem applyWrite_frame (rows rows' : List Row) (id : Int) (kvs : List Bytes)
    (h : applyWrite rows id kvs = some rows') :
    (∀ r ∈ rows, rowId r ≠ some id → r ∈ rows') ∧
    (∃ base r', setKeyvals base kvs = some r' ∧ r' ∈ rows' ∧ ∀ x ∈ rows', x ∈ rows ∨ x = r') := by
  unfold applyWrite at h
  split at h
  · rename_i k hk
    cases hsk : setKeyvals (rows[k]?.getD []) kvs with
    | none => simp [hsk] at h
    | some r' =>
      simp [hsk] at h
      subst h
      have hkspec := List.findIdx?_eq_some_iff_getElem.mp (by unfold findById at hk; exact hk)
      obtain ⟨hklt, hkp, _⟩ := hkspec
      constructor
      · intro r hr hne
        obtain ⟨i, hi, rfl⟩ := List.mem_iff_getElem.mp hr
        have hik : i ≠ k := by
          intro e; subst e
          simp only [beq_iff_eq] at hkp
          exact hne hkp
        exact List.mem_iff_getElem.mpr ⟨i, by simp [hi], by rw [List.getElem_set_ne (Ne.symm hik)]⟩
      · refine ⟨_, r', hsk, List.mem_iff_getElem.mpr ⟨k, by simp [hklt], by simp⟩, ?_⟩
        intro x hx
        rcases List.mem_or_eq_of_mem_set hx with hx | rfl
        · exact Or.inl hx
        · exact Or.inr rfl
  · cases hinit : initRow with
    | none => simp [hinit] at h
    | some r0 =>
      simp only [hinit] at h
      cases hsk : setKeyvals (r0.set stepIdx (.int id)) kvs with
      | none => simp [hsk] at h
      | some r' =>
        simp only [hsk, Option.some.injEq] at h
        subst h
        refine ⟨fun r hr _ => by simp [hr], _, r', hsk, by simp, ?_⟩
        intro x hx
        simp only [List.mem_append, List.mem_singleton] at hx
        exact hx

/-! ### non-vacuity -/
private def row1 : Row := [.int 1, .str [101, 110, 118], .int 0, .int 5, .int 0, .str [], .str [114], .int 17, .int 0]
private theorem row1_ok : RowOk row1 :=
  ⟨⟨1, [101, 110, 118], 0, 5, 0, [], [114], 17, 0, rfl, by decide, by decide, by decide, by decide, by decide, by decide,
    by decide, by decide, by decide, by decide, by decide⟩⟩
example : ∃ out, serializeFile [row1] = some out ∧ parseFile out = some [row1] :=
  parse_serialize [row1] (by intro r hr; simp at hr; subst hr; exact row1_ok)

end C01
end Robsd
