import Robsd.Model.StepFile
namespace Robsd
namespace C01
end C01
end Robsd
