import Robsd.Model.Runner
/-
  C07 (partial): termination and timeout take down the whole step process group.

  Proved here, for every environment (any arrival time of SIGTERM / SIGALRM
  after the handlers are installed, any behaviour of the step's main process):
  what the runner does.  Not provable in a model and checked on the real
  kernel instead: that `kill(-pgid, sig)` reaches every member of the group.
-/
namespace Robsd
namespace C07
open Runner

theorem firstReap_some {f : Nat → Option WStatus} : ∀ {n j : Nat} {st : WStatus},
    firstReap f n j = some st → ∃ k, j ≤ k ∧ k < j + n ∧ f k = some st ∧ ∀ m, j ≤ m → m < k → f m = none
  | 0, _, _, h => by cases h
  | n + 1, j, st, h => by
    unfold firstReap at h
    cases hf : f j with
    | some s =>
      rw [hf] at h
      cases h
      exact ⟨j, Nat.le_refl _, by omega, hf, fun m h1 h2 => by omega⟩
    | none =>
      rw [hf] at h
      obtain ⟨k, h1, h2, h3, h4⟩ := firstReap_some h
      refine ⟨k, by omega, by omega, h3, ?_⟩
      intro m hm1 hm2
      by_cases e : m = j
      · rw [e]; exact hf
      · exact h4 m (by omega) hm2

theorem firstReap_none {f : Nat → Option WStatus} : ∀ {n j : Nat},
    firstReap f n j = none → ∀ k, j ≤ k → k < j + n → f k = none
  | 0, _, _, k, h1, h2 => by omega
  | n + 1, j, h, k, h1, h2 => by
    unfold firstReap at h
    cases hf : f j with
    | some s => rw [hf] at h; cases h
    | none =>
      rw [hf] at h
      by_cases e : k = j
      · rw [e]; exact hf
      · exact firstReap_none h k (by omega) (by omega)

/-- the exit status after a caught signal is never 0, and 124 for the timeout -/
theorem exit_nonzero_after_signal (st : WStatus) (s : Sig) : exitOf st (some s) ≠ 0 ∧ (s = .alrm → exitOf st (some s) = Gen.exTimeout) := by
  cases s
  · refine ⟨?_, fun h => by cases h⟩
    have hne : (some Sig.term = some Sig.alrm) = False := by simp
    simp only [exitOf, hne, if_false, Option.isSome_some, Bool.true_and, sigTermNo]
    cases st with
    | exited c =>
      by_cases hc : c = 0
      · simp [hc]
      · simp [hc]
    | signaled n => simp
    | other => simp
  · exact ⟨by simp [exitOf, Gen.exTimeout], fun _ => by simp [exitOf]⟩

/-- `killwaitpg`: SIGTERM goes to the group first; SIGKILL only after 50 polls
    without the main process; it returns only once the main process is reaped
    or both bounded waits have expired -/
theorem killwait_spec (e : Env) :
    (∃ st k, k < polls ∧ e.afterTerm k = some st ∧ (∀ m, m < k → e.afterTerm m = none) ∧
        killwait e = ([.killTerm, .reap st], st)) ∨
    ((∀ m, m < polls → e.afterTerm m = none) ∧ ∃ st k, k < polls ∧ e.afterKill k = some st ∧
        (∀ m, m < k → e.afterKill m = none) ∧ killwait e = ([.killTerm, .killKill, .reap st], st)) ∨
    ((∀ m, m < polls → e.afterTerm m = none) ∧ (∀ m, m < polls → e.afterKill m = none) ∧
        killwait e = ([.killTerm, .killKill, .giveUp], .signaled 1)) := by
  unfold killwait
  cases h1 : firstReap e.afterTerm polls 0 with
  | some st =>
    obtain ⟨k, _, hk, hf, hn⟩ := firstReap_some h1
    exact Or.inl ⟨st, k, by omega, hf, fun m hm => hn m (Nat.zero_le _) hm, rfl⟩
  | none =>
    have hn1 := firstReap_none h1
    cases h2 : firstReap e.afterKill polls 0 with
    | some st =>
      obtain ⟨k, _, hk, hf, hn⟩ := firstReap_some h2
      exact Or.inr (Or.inl ⟨fun m hm => hn1 m (Nat.zero_le _) (by omega), st, k, by omega, hf,
        fun m hm => hn m (Nat.zero_le _) hm, rfl⟩)
    | none =>
      have hn2 := firstReap_none h2
      exact Or.inr (Or.inr ⟨fun m hm => hn1 m (Nat.zero_le _) (by omega), fun m hm => hn2 m (Nat.zero_le _) (by omega), rfl⟩)

/-- what the loop does from iteration `i` when the first event is at iteration `k` -/
theorem loop_signal (e : Env) (k : Nat) (s : Sig) (hs : e.sig k = some s) :
    ∀ (fuel i : Nat), i ≤ k → k - i < fuel → (∀ m, i ≤ m → m < k → e.sig m = none ∧ e.natural m = none ∧ e.late m = none) →
      loop e fuel i = ((killwait e).1, exitOf (killwait e).2 (some s))
  | 0, i, _, h, _ => by omega
  | fuel + 1, i, hik, hf, hq => by
    unfold loop
    by_cases e1 : i = k
    · subst e1; rw [hs]
    · have := hq i (Nat.le_refl _) (by omega)
      rw [this.1, this.2.1, this.2.2]
      exact loop_signal e k s hs fuel (i + 1) (by omega) (by omega) (fun m h1 h2 => hq m (by omega) h2)

/-- **A termination request or the timeout takes effect whenever it arrives**
    while the main process is still running: SIGTERM is sent to the process
    group, the runner waits for the main process (escalating to SIGKILL), and
    exits non-zero — 124 for the timeout. -/
theorem term_takes_effect (e : Env) (k : Nat) (s : Sig) (fuel : Nat) (hs : e.sig k = some s)
    (hq : ∀ m, m < k → e.sig m = none ∧ e.natural m = none ∧ e.late m = none) (hf : k < fuel) :
    (run e fuel).1.head? = some .killTerm ∧ (run e fuel).2 ≠ 0 ∧ (s = .alrm → (run e fuel).2 = Gen.exTimeout) ∧
    ((∃ st, (run e fuel).1.getLast? = some (.reap st)) ∨ (run e fuel).1 = [.killTerm, .killKill, .giveUp]) := by
  have h := loop_signal e k s hs fuel 0 (Nat.zero_le _) (by omega) (fun m _ h2 => hq m h2)
  unfold run
  rw [h]
  have hx := exit_nonzero_after_signal (killwait e).2 s
  refine ⟨?_, hx.1, hx.2, ?_⟩
  · rcases killwait_spec e with ⟨st, k, _, _, _, hk⟩ | ⟨_, st, k, _, _, _, hk⟩ | ⟨_, _, hk⟩ <;> rw [hk] <;> rfl
  · rcases killwait_spec e with ⟨st, k, _, _, _, hk⟩ | ⟨_, st, k, _, _, _, hk⟩ | ⟨_, _, hk⟩ <;> rw [hk]
    · exact Or.inl ⟨st, rfl⟩
    · exact Or.inl ⟨st, rfl⟩
    · exact Or.inr rfl

/-- **Without such an event the step is never cut short**: no signal is sent
    and the runner's exit status is the main process's own. -/
theorem never_cut_short (e : Env) (k : Nat) (st : WStatus) (fuel : Nat) (hnat : e.natural k = some st)
    (hq : ∀ m, m < k → e.natural m = none) (hnosig : ∀ m, m ≤ k → e.sig m = none ∧ e.late m = none) (hf : k < fuel) :
    run e fuel = ([.reap st], exitOf st none) := by
  unfold run
  suffices ∀ (fuel i : Nat), i ≤ k → k - i < fuel → loop e fuel i = ([.reap st], exitOf st none) from
    this fuel 0 (Nat.zero_le _) (by omega)
  intro fuel
  induction fuel with
  | zero => intro i _ h; omega
  | succ n ih =>
    intro i hik hfu
    unfold loop
    rw [(hnosig i hik).1]
    by_cases e1 : i = k
    · subst e1; rw [hnat, (hnosig i hik).2]
    · rw [hq i (by omega), (hnosig i hik).2]
      exact ih (i + 1) (by omega) (by omega)

/-- **A request that arrives between the runner's look at its signal flag and
    the `waitpid` of the same iteration also takes effect**: if that `waitpid`
    reaps the main process, SIGTERM is still sent to the group (the check after
    the loop) and the exit status is non-zero (124 for the timeout); if it does
    not, the next iteration starts the kill sequence. -/
theorem late_signal_takes_effect (e : Env) (k : Nat) (s : Sig) (fuel : Nat) (hl : e.late k = some s)
    (hq : ∀ m, m < k → e.sig m = none ∧ e.natural m = none ∧ e.late m = none) (hk : e.sig k = none) (hf : k < fuel) :
    ((run e fuel).1.contains .killTermLate ∨ (run e fuel).1.head? = some .killTerm) ∧ (run e fuel).2 ≠ 0 ∧
    (s = .alrm → (run e fuel).2 = Gen.exTimeout) := by
  unfold run
  suffices ∀ (fuel i : Nat), i ≤ k → k - i < fuel →
      ((loop e fuel i).1.contains .killTermLate ∨ (loop e fuel i).1.head? = some .killTerm) ∧ (loop e fuel i).2 ≠ 0 ∧
      (s = .alrm → (loop e fuel i).2 = Gen.exTimeout) from this fuel 0 (Nat.zero_le _) (by omega)
  intro fuel
  induction fuel with
  | zero => intro i _ h; omega
  | succ n ih =>
    intro i hik hfu
    unfold loop
    by_cases e1 : i = k
    · subst e1
      rw [hk, hl]
      cases hn : e.natural i with
      | some st =>
        have hx := exit_nonzero_after_signal st s
        exact ⟨Or.inl (by simp), hx.1, hx.2⟩
      | none =>
        have hx := exit_nonzero_after_signal (killwait e).2 s
        refine ⟨Or.inr ?_, hx.1, hx.2⟩
        rcases killwait_spec e with ⟨st, k, _, _, _, hk'⟩ | ⟨_, st, k, _, _, _, hk'⟩ | ⟨_, _, hk'⟩ <;> simp [hk']
    · have := hq i (by omega)
      rw [this.1, this.2.1, this.2.2]
      exact ih (i + 1) (by omega) (by omega)

/-- **A termination request caught during the handshake** (after `fork`, while
    the runner waits for the step's process group to appear) is not lost: the
    first thing the wait loop does is signal the group, and the exit status is
    non-zero. -/
theorem handshake_signal_takes_effect (e : Env) (f : Fork) (s : Sig) (fuel : Nat)
    (hok : f.hsOk = true) (hs : f.hsSig = some s) :
    ∃ s', pending e f = some s' ∧
      stepExec e f (fuel + 1) = ((killwait (withPending e f)).1, exitOf (killwait (withPending e f)).2 (some s')) ∧
      (stepExec e f (fuel + 1)).1.head? = some .killTerm ∧ (stepExec e f (fuel + 1)).2 ≠ 0 := by
  have hp : ∃ s', pending e f = some s' := by
    unfold pending; cases e.sig 0 with
    | some x => exact ⟨x, rfl⟩
    | none => exact ⟨s, hs⟩
  obtain ⟨s', hs'⟩ := hp
  have h0 : (withPending e f).sig 0 = some s' := by simp [withPending, hs']
  have hrun : stepExec e f (fuel + 1) = ((killwait (withPending e f)).1, exitOf (killwait (withPending e f)).2 (some s')) := by
    simp only [stepExec, hok, if_true, run, loop, h0]
  refine ⟨s', hs', hrun, ?_, ?_⟩
  · rw [hrun]
    simp only [killwait]
    split
    · rfl
    · split <;> rfl
  · rw [hrun]; exact (exit_nonzero_after_signal _ s').1

/-- the process group never appeared: the runner reports a failure, whatever the child's status -/
theorem handshake_failure_nonzero (e : Env) (f : Fork) (fuel : Nat) (h : f.hsOk = false) :
    (stepExec e f fuel).2 ≠ 0 := by
  simp only [stepExec, h, Bool.false_eq_true, if_false]
  split
  · decide
  · assumption

/-- without a signal during the handshake, `step_exec` is the wait loop -/
theorem handshake_quiet (e : Env) (f : Fork) (fuel : Nat) (hok : f.hsOk = true) (hs : f.hsSig = none) :
    stepExec e f fuel = run e fuel := by
  have : withPending e f = e := by
    cases e with
    | mk sg nat aT aK lt =>
      have hf : (fun i => if i = 0 then pending ⟨sg, nat, aT, aK, lt⟩ f else sg i) = sg := by
        funext i
        by_cases hi : i = 0
        · subst hi; simp only [if_true, pending, hs]; cases sg 0 <;> rfl
        · simp [hi]
      simp only [withPending, hf]
  simp only [stepExec, hok, if_true, this]


/-- the exit status without a signal is the command's own -/
theorem exit_faithful (c n : Nat) : exitOf (.exited c) none = c ∧ exitOf (.signaled n) none = 128 + n := by
  simp [exitOf]

/-- SIGKILL is never sent before SIGTERM and 50 unsuccessful polls -/
theorem kill_only_after_term (e : Env) (h : .killKill ∈ (killwait e).1) :
    (killwait e).1.head? = some .killTerm ∧ ∀ m, m < polls → e.afterTerm m = none := by
  rcases killwait_spec e with ⟨st, k, _, _, _, hk⟩ | ⟨hn, st, k, _, _, _, hk⟩ | ⟨hn, _, hk⟩
  · rw [hk] at h; simp at h
  · rw [hk]; exact ⟨rfl, hn⟩
  · rw [hk]; exact ⟨rfl, hn⟩

/-! ### Non-vacuity -/

def envTermAt (k dur : Nat) (ignores : Bool) : Env :=
  { sig := fun i => if i = k then some .term else none,
    natural := fun i => if dur ≤ i then some (.exited 0) else none,
    afterTerm := fun j => if ignores then none else if 1 ≤ j then some (.signaled 15) else none,
    afterKill := fun j => if 1 ≤ j then some (.signaled 9) else none }

example : run (envTermAt 0 30 false) 100 = ([.killTerm, .reap (.signaled 15)], 143) := by decide
example : run (envTermAt 7 30 true) 100 = ([.killTerm, .killKill, .reap (.signaled 9)], 137) := by decide
example : run (envTermAt 50 30 false) 100 = ([.reap (.exited 0)], 0) := by decide
/-- the request arrives in the iteration whose waitpid reaps the main process -/
example : run { envTermAt 50 3 false with late := fun i => if i = 3 then some .term else none } 100 =
    ([.reap (.exited 0), .killTermLate], 143) := by decide

/-- non-vacuity: SIGTERM during the handshake of a step that would run 3 s; a handshake that fails -/
example : stepExec (envTermAt 50 30 false) ⟨some .term, true, .other⟩ 100 = ([.killTerm, .reap (.signaled 15)], 143) := by decide
example : stepExec (envTermAt 50 30 false) ⟨none, false, .exited 0⟩ 100 = ([.reap (.exited 0)], 1) := by decide
example : stepExec (envTermAt 50 3 false) ⟨none, true, .other⟩ 100 = ([.reap (.exited 0)], 0) := by decide

end C07
end Robsd
