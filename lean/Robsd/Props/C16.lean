import Robsd.Model.Clean
/-
  C16: cleaning keeps exactly the newest N invocations and removes nothing else.
  `listing` is what robsd-ls prints (C15: exactly the invocation directories,
  newest first, each once).
-/
namespace Robsd
namespace C16
open Bytes Clean

/-- retention 0 removes nothing -/
theorem keep0_noop (listing : List Bytes) (lock : Option Bytes) : cleaned listing lock 0 = [] := rfl

/-- only listed invocation directories are ever removed, and never the running one -/
theorem removed_subset (listing : List Bytes) (lock : Option Bytes) (n : Nat) :
    (∀ p ∈ cleaned listing lock n, p ∈ listing) ∧ (∀ b, lock = some b → b ∉ cleaned listing lock n) := by
  unfold cleaned purged
  by_cases hn : n = 0
  · simp [hn]
  · simp only [hn, if_false]
    constructor
    · intro p hp
      cases lock with
      | none => exact List.mem_of_mem_drop hp
      | some b => exact (List.mem_filter.mp (List.mem_of_mem_drop hp)).1
    · intro b hb hm
      subst hb
      have := (List.mem_filter.mp (List.mem_of_mem_drop hm)).2
      simp at this

/-- not running: exactly the newest `n` stay, the rest (the older ones) go -/
theorem not_running (listing : List Bytes) (n : Nat) (hn : 0 < n) :
    cleaned listing none n = listing.drop n ∧
    listing = listing.take n ++ cleaned listing none n := by
  have : n ≠ 0 := by omega
  simp [cleaned, purged, this]

/-- running: the running invocation stays, plus the newest `n-1` others -/
theorem running (listing : List Bytes) (b : Bytes) (n : Nat) (hn : 0 < n) :
    cleaned listing (some b) n = (listing.filter (· != b)).drop (n - 1) ∧
    listing.filter (· != b) = (listing.filter (· != b)).take (n - 1) ++ cleaned listing (some b) n := by
  have : n ≠ 0 := by omega
  simp [cleaned, purged, this]

theorem filter_ne_length (l : List Bytes) (hnd : l.Nodup) (b : Bytes) (hb : b ∈ l) :
    (l.filter (· != b)).length + 1 = l.length := by
  induction l with
  | nil => cases hb
  | cons x xs ih =>
    rw [List.nodup_cons] at hnd
    simp only [List.mem_cons] at hb
    by_cases hx : x = b
    · subst hx
      have : xs.filter (· != x) = xs := by
        rw [List.filter_eq_self]
        intro y hy
        simp only [bne_iff_ne, ne_eq]
        intro e; subst e; exact hnd.1 hy
      simp [List.filter_cons, this]
    · have hb' : b ∈ xs := by
        rcases hb with h | h
        · exact absurd h.symm hx
        · exact h
      have := ih hnd.2 hb'
      simp [List.filter_cons, hx, this]

/-- the number kept is `n`, or everything when there are no more than `n` -/
theorem kept_count (listing : List Bytes) (hnd : listing.Nodup) (lock : Option Bytes) (n : Nat) (hn : 0 < n)
    (hlock : ∀ b, lock = some b → b ∈ listing) :
    (listing.length - (cleaned listing lock n).length) = min n listing.length := by
  have hn0 : n ≠ 0 := by omega
  cases lock with
  | none =>
    simp only [cleaned, purged, hn0, if_false, List.length_drop]
    omega
  | some b =>
    have hb := hlock b rfl
    simp only [cleaned, purged, hn0, if_false, List.length_drop]
    have hlen := filter_ne_length listing hnd b hb
    omega

/-- the removed ones are the oldest: everything kept sorts before (is newer
    than) everything removed among the non-running invocations -/
theorem removed_are_oldest (listing : List Bytes) (lock : Option Bytes) (n : Nat) :
    ∃ newer, (match lock with
      | some b => listing.filter (· != b)
      | none => listing) = newer ++ cleaned listing lock n ∨ n = 0 := by
  by_cases hn : n = 0
  · exact ⟨[], Or.inr hn⟩
  · cases lock with
    | none => exact ⟨listing.take n, Or.inl (by simp [cleaned, purged, hn])⟩
    | some b => exact ⟨(listing.filter (· != b)).take (n - 1), Or.inl (by simp [cleaned, purged, hn])⟩

/-- `YYYY-MM-DD.X` ↦ `YYYY/MM/DD.X`: distinct invocations get distinct attic names -/
theorem atticName_injective (a b : Bytes) (ha : SLASH ∉ a) (hb : SLASH ∉ b) (h : atticName a = atticName b) : a = b := by
  induction a generalizing b with
  | nil => cases b with
    | nil => rfl
    | cons y ys => simp [atticName] at h
  | cons x xs ih =>
    cases b with
    | nil => simp [atticName] at h
    | cons y ys =>
      simp only [atticName, List.map_cons, List.cons.injEq] at h
      simp only [List.mem_cons, not_or] at ha hb
      have hxy : x = y := by
        by_cases hx : x = DASH <;> by_cases hy : y = DASH
        · rw [hx, hy]
        · have h1 := h.1
          simp only [hx, hy, beq_self_eq_true, if_true, beq_iff_eq, if_false] at h1
          exact absurd h1.symm (fun e => hb.1 e.symm |> fun f => f)
        · have h1 := h.1
          simp only [hx, hy, beq_self_eq_true, if_true, beq_iff_eq, if_false] at h1
          exact absurd h1 (fun e => ha.1 e.symm |> fun f => f)
        · have h1 := h.1
          simpa [hx, hy] using h1
      rw [hxy, ih ys ha.2 hb.2 h.2]

/-- only the whitelisted files survive in the attic copy -/
theorem whitelist : preservedName [114, 101, 112, 111, 114, 116] = true ∧ preservedName [115, 116, 101, 112, 46, 99, 115, 118] = true ∧
    preservedName [115, 114, 99, 46, 100, 105, 102, 102, 46, 49] = true ∧ preservedName [48, 48, 49, 45, 101, 110, 118, 46, 108, 111, 103] = false ∧
    preservedName [114, 111, 98, 115, 100, 46, 108, 111, 103] = false := by decide

/-! ### non-vacuity -/
example : cleaned [[53], [52], [51], [50], [49]] (some [51]) 2 = [[52], [50], [49]] ∧
    cleaned [[53], [52], [51], [50], [49]] none 2 = [[51], [50], [49]] := by decide

end C16
end Robsd
