import Robsd.Model.StepNext
/-
  C03: resume restarts exactly at the step that did not complete successfully.

  Part 1 (`stepNext_*`): the decision table of `step_next` over arbitrary rows.
  Part 2: the sequential orchestrator as a write-by-write machine.  `Good c f q`
  says what every file between two writes looks like: skip records agree with
  the skip set, every non-skipped step before the frontier `q` is completed
  with exit 0, nothing after `q` is recorded.  It holds after every prefix of
  the writes of a fresh or resumed invocation (= every kill point), for any
  number of kill/resume cycles, and it determines where a resume starts and
  which steps it runs.
-/
namespace Robsd
namespace C03
open StepFile OrchSeq

/-! ### Part 1: `step_next` on arbitrary rows -/

theorem stepNextRev_all_skipped (rs : List Row) (h : ∀ r ∈ rs, rowSkip r = true) :
    stepNextRev rs = none := by
  induction rs with
  | nil => rfl
  | cons r rs ih =>
    simp only [stepNextRev, h r (by simp), if_true]
    exact ih (fun x hx => h x (by simp [hx]))

theorem stepNextRev_skip_prefix (post rs : List Row) (h : ∀ r ∈ post, rowSkip r = true) :
    stepNextRev (post ++ rs) = stepNextRev rs := by
  induction post with
  | nil => rfl
  | cons r post ih =>
    simp only [List.cons_append, stepNextRev, h r (by simp), if_true]
    exact ih (fun x hx => h x (by simp [hx]))

/-- nothing but skipped steps recorded: resuming fails -/
theorem stepNext_none (rows : List Row) (h : ∀ r ∈ rows, rowSkip r = true) : stepNext rows = none :=
  stepNextRev_all_skipped _ (fun r hr => h r (by simpa using hr))

/-- otherwise the last non-skipped row decides: same id if it failed, is in
    flight (exit -1) or is `end`; the following id if it succeeded -/
theorem stepNext_last (pre post : List Row) (r : Row) (hr : rowSkip r = false)
    (hpost : ∀ x ∈ post, rowSkip x = true) :
    stepNext (pre ++ r :: post) =
      some (if rowExit r ≠ 0 ∨ rowName r = END then rowKey r else rowKey r + 1) := by
  unfold stepNext
  have e : (pre ++ r :: post).reverse = post.reverse ++ r :: pre.reverse := by simp
  rw [e, stepNextRev_skip_prefix _ _ (fun x hx => hpost x (by simpa using hx))]
  simp only [stepNextRev, hr, Bool.false_eq_true, if_false]
  split <;> simp_all

/-! ### `has_steps`: the invocation directory is removed by `trap_exit` exactly
    when resuming it would fail anyway -/

theorem hasSteps_iff (rows : List Row) : hasSteps rows = true ↔ ∃ r ∈ rows, rowSkip r = false := by
  induction rows with
  | nil => simp [hasSteps]
  | cons r rs ih =>
    simp only [hasSteps]
    by_cases h : rowSkip r = true
    · simp only [h, if_true, ih, List.mem_cons, exists_eq_or_imp, Bool.true_eq_false, false_or]
    · have h' : rowSkip r = false := by simpa using h
      simp [h']

theorem stepNextRev_isSome (rs : List Row) :
    (stepNextRev rs).isSome = true ↔ ∃ r ∈ rs, rowSkip r = false := by
  induction rs with
  | nil => simp [stepNextRev]
  | cons r rs ih =>
    simp only [stepNextRev]
    by_cases h : rowSkip r = true
    · simp only [h, if_true, ih, List.mem_cons, exists_eq_or_imp, Bool.true_eq_false, false_or]
    · have h' : rowSkip r = false := by simpa using h
      simp only [h', Bool.false_eq_true, if_false, List.mem_cons, exists_eq_or_imp, true_or, iff_true]
      split <;> rfl

/-- **An interrupted invocation stays resumable**: the exit handler keeps the
    directory (`has_steps`) if and only if `step_next` finds a resume point. -/
theorem dir_kept_iff_resumable (rows : List Row) :
    hasSteps rows = (stepNext rows).isSome := by
  have a := hasSteps_iff rows
  have b := stepNextRev_isSome rows.reverse
  simp only [List.mem_reverse] at b
  unfold stepNext
  cases h1 : hasSteps rows <;> cases h2 : (stepNextRev rows.reverse).isSome
  · rfl
  · obtain ⟨r, hr, e⟩ := b.mp h2
    have := a.mpr ⟨r, hr, e⟩
    rw [h1] at this; cases this
  · obtain ⟨r, hr, e⟩ := a.mp h1
    have := b.mpr ⟨r, hr, e⟩
    rw [h2] at this; cases this
  · rfl

/-- the report is only ever generated for a directory that is kept -/
theorem report_implies_kept (rows : List Row) (own : Bool) (err : Int) :
    (trapExitDecision rows own err).1 = true → (trapExitDecision rows own err).2 = true := by
  simp only [trapExitDecision]
  cases hasSteps rows <;> simp

/-- a record of a started step (in flight, completed, failed) keeps the directory -/
theorem started_step_keeps_dir (pre post : List Row) (r : Row) (hr : rowSkip r = false) :
    hasSteps (pre ++ r :: post) = true :=
  (hasSteps_iff _).mpr ⟨r, by simp, hr⟩

/-- **A step that was terminated (robsd-kill, SIGTERM: recorded with a non-zero
    exit) or left in flight (exit -1) is where the invocation resumes**, and the
    exit handler keeps the directory for it: whatever skip records follow. -/
theorem terminated_step_resumed (pre post : List Row) (r : Row) (hr : rowSkip r = false) (he : rowExit r ≠ 0)
    (hpost : ∀ x ∈ post, rowSkip x = true) :
    hasSteps (pre ++ r :: post) = true ∧ stepNext (pre ++ r :: post) = some (rowKey r) := by
  refine ⟨started_step_keeps_dir pre post r hr, ?_⟩
  rw [stepNext_last pre post r hr hpost]
  simp [he]

/-- only skip records: the directory goes and resuming fails -/
theorem only_skips_removed (rows : List Row) (h : ∀ r ∈ rows, rowSkip r = true) :
    hasSteps rows = false ∧ stepNext rows = none := by
  refine ⟨?_, stepNext_none rows h⟩
  cases hs : hasSteps rows
  · rfl
  · obtain ⟨r, hr, e⟩ := (hasSteps_iff rows).mp hs
    rw [h r hr] at e; cases e

/-! ### Part 2: the orchestrator -/

@[simp] theorem upd_same (f : File) (i : Nat) (v : Slot) : upd f i v i = v := by simp [upd]
theorem upd_other (f : File) (i j : Nat) (v : Slot) (h : j ≠ i) : upd f i v j = f j := by simp [upd, h]

def SkipOk (c : Cfg) (f : File) : Prop := ∀ j, j < c.n → (f j = .skipped ↔ c.skip j = true)

structure Good (c : Cfg) (f : File) (q : Nat) : Prop where
  hq : q < c.n
  nskip : c.skip q = false
  skipok : SkipOk c f
  before : ∀ j, j < q → c.skip j = false → f j = .rcd 0
  after : ∀ j, q < j → j < c.n → c.skip j = false → f j = .empty
  endNot : c.skip (c.n - 1) = false

/-- the steps a correct orchestrator runs from index `i`: the non-skipped ones,
    in order, up to and including the first failing one, `end` last -/
def ideal (c : Cfg) (exits : Nat → Int) : Nat → Nat → List Nat
  | _, 0 => []
  | i, k + 1 =>
    if c.skip i then ideal c exits (i + 1) k
    else if i + 1 = c.n then [i]
    else if exits i = 0 then i :: ideal c exits (i + 1) k
    else [i]

theorem started_runFrom (c : Cfg) (exits : Nat → Int) (f : File) (hs : SkipOk c f) (i k : Nat)
    (hik : i + k ≤ c.n) : started (runFrom c exits f i k) = ideal c exits i k := by
  induction k generalizing i with
  | zero => rfl
  | succ k ih =>
    have hi : i < c.n := by omega
    simp only [runFrom, ideal]
    by_cases hsk : c.skip i = true
    · have : f i = .skipped := (hs i hi).mpr hsk
      simp only [this, if_true, hsk]
      exact ih (i + 1) (by omega)
    · have : ¬ f i = .skipped := fun e => hsk ((hs i hi).mp e)
      have hsk' : c.skip i = false := by simpa using hsk
      simp only [this, if_false, hsk', Bool.false_eq_true]
      split
      · rfl
      · split
        · simp only [started, List.cons.injEq, true_and]
          exact ih (i + 1) (by omega)
        · rfl

theorem ideal_skip_run (c : Cfg) (exits : Nat → Int) (p q : Nat) (hpq : p ≤ q) (hq : q ≤ c.n)
    (h : ∀ j, p ≤ j → j < q → c.skip j = true) :
    ideal c exits p (c.n - p) = ideal c exits q (c.n - q) := by
  induction hd : q - p generalizing p with
  | zero => have : p = q := by omega
            subst this; rfl
  | succ d ih =>
    have hp : p < q := by omega
    have e : c.n - p = (c.n - (p + 1)) + 1 := by omega
    rw [e]
    simp only [ideal, h p (Nat.le_refl p) hp, if_true]
    exact ih (p + 1) (by omega) (fun j h1 h2 => h j (by omega) h2) (by omega)

theorem lastRec_none_iff (f : File) (k : Nat) :
    lastRec f k = none ↔ ∀ j, j < k → ∀ e, f j ≠ .rcd e := by
  induction k with
  | zero => simp [lastRec]
  | succ k ih =>
    simp only [lastRec]
    cases hk : f k with
    | rcd e =>
      simp only [reduceCtorEq, false_iff]
      intro h; exact h k (by omega) e hk
    | empty =>
      simp only [ih]
      constructor
      · intro h j hj e
        by_cases hjk : j = k
        · subst hjk; simp [hk]
        · exact h j (by omega) e
      · intro h j hj e; exact h j (by omega) e
    | skipped =>
      simp only [ih]
      constructor
      · intro h j hj e
        by_cases hjk : j = k
        · subst hjk; simp [hk]
        · exact h j (by omega) e
      · intro h j hj e; exact h j (by omega) e

theorem lastRec_some (f : File) (k i : Nat) (e : Int) (hi : i < k) (hfi : f i = .rcd e)
    (hafter : ∀ j, i < j → j < k → ∀ e', f j ≠ .rcd e') : lastRec f k = some (i, e) := by
  induction k with
  | zero => omega
  | succ k ih =>
    simp only [lastRec]
    by_cases hik : i = k
    · subst hik; simp [hfi]
    · have hne : ∀ e', f k ≠ .rcd e' := hafter k (by omega) (by omega)
      cases hk : f k with
      | rcd e' => exact absurd hk (hne e')
      | empty => exact ih (by omega) (fun j h1 h2 => hafter j h1 (by omega))
      | skipped => exact ih (by omega) (fun j h1 h2 => hafter j h1 (by omega))

/-- a non-skipped, non-recorded slot is `empty` (helper for the case analysis) -/
theorem good_slot_cases (c : Cfg) (f : File) (q : Nat) (g : Good c f q) (j : Nat) (hj : j < c.n) :
    (c.skip j = true ∧ f j = .skipped) ∨ (c.skip j = false ∧ f j ≠ .skipped) := by
  by_cases h : c.skip j = true
  · exact Or.inl ⟨h, (g.skipok j hj).mpr h⟩
  · refine Or.inr ⟨by simpa using h, fun e => h ((g.skipok j hj).mp e)⟩

/-- **Where a resume starts.**  In a good file with frontier `q`:
    * if the frontier step is recorded as failed / in flight, or is `end`,
      resume starts at `q`;
    * if it is recorded with exit 0 (and is not `end`), resume starts at `q+1`;
    * if it is not recorded, resume starts right after the last completed
      step (all steps in between are skipped), or fails when nothing but
      skipped steps is recorded. -/
theorem resumeAt_good (c : Cfg) (f : File) (q : Nat) (g : Good c f q) :
    (∀ e, f q = .rcd e → resumeAt c f = some (if e ≠ 0 ∨ q + 1 = c.n then q else q + 1)) ∧
    (f q = .empty →
      (resumeAt c f = none ∧ ∀ j, j < q → c.skip j = true) ∨
      (∃ p, resumeAt c f = some p ∧ p ≤ q ∧ 0 < p ∧ c.skip (p - 1) = false ∧ f (p - 1) = .rcd 0 ∧
        ∀ j, p ≤ j → j < q → c.skip j = true)) := by
  have hafterq : ∀ j, q < j → j < c.n → ∀ e', f j ≠ .rcd e' := by
    intro j h1 h2 e' he
    rcases good_slot_cases c f q g j h2 with ⟨_, hs⟩ | ⟨hn, _⟩
    · rw [hs] at he; cases he
    · rw [g.after j h1 h2 hn] at he; cases he
  constructor
  · intro e he
    unfold resumeAt
    rw [lastRec_some f c.n q e g.hq he hafterq]
    by_cases h : e ≠ 0 ∨ q + 1 = c.n <;> simp only [h, if_true, if_false]
  · intro hempty
    -- look for the last recorded step before q
    cases hl : lastRec f c.n with
    | none =>
      left
      refine ⟨by simp [resumeAt, hl], ?_⟩
      intro j hj
      rcases good_slot_cases c f q g j (by have := g.hq; omega) with ⟨hs, _⟩ | ⟨hn, _⟩
      · exact hs
      · exact absurd (g.before j hj hn) ((lastRec_none_iff f c.n).mp hl j (by have := g.hq; omega) 0)
    | some ie =>
      obtain ⟨i, e⟩ := ie
      right
      -- i is the last recorded slot: it is before q, non-skipped, hence rcd 0
      have key : ∀ k, lastRec f k = some (i, e) → i < k ∧ f i = .rcd e ∧ ∀ j, i < j → j < k → ∀ e', f j ≠ .rcd e' := by
        intro k
        induction k with
        | zero => simp [lastRec]
        | succ k ih =>
          simp only [lastRec]
          cases hk : f k with
          | rcd e' =>
            simp only [Option.some.injEq, Prod.mk.injEq]
            rintro ⟨rfl, rfl⟩
            exact ⟨by omega, hk, fun j h1 h2 => by omega⟩
          | empty =>
            intro h
            obtain ⟨a, b, d⟩ := ih h
            refine ⟨by omega, b, fun j h1 h2 e' => ?_⟩
            by_cases hjk : j = k
            · subst hjk; simp [hk]
            · exact d j h1 (by omega) e'
          | skipped =>
            intro h
            obtain ⟨a, b, d⟩ := ih h
            refine ⟨by omega, b, fun j h1 h2 e' => ?_⟩
            by_cases hjk : j = k
            · subst hjk; simp [hk]
            · exact d j h1 (by omega) e'
      obtain ⟨hin, hfi, hlast⟩ := key c.n hl
      have hiq : i < q := by
        rcases Nat.lt_trichotomy i q with h | h | h
        · exact h
        · subst h; rw [hempty] at hfi; cases hfi
        · exact absurd hfi (hafterq i h hin e)
      have hins : c.skip i = false := by
        rcases good_slot_cases c f q g i hin with ⟨_, hs⟩ | ⟨hn, _⟩
        · rw [hs] at hfi; cases hfi
        · exact hn
      have he0 : e = 0 := by
        have := g.before i hiq hins
        rw [this] at hfi; cases hfi; rfl
      subst he0
      refine ⟨i + 1, ?_, by omega, by omega, by simpa using hins, by simpa using hfi, ?_⟩
      · have : ¬ (i + 1 = c.n) := by have := g.hq; omega
        simp [resumeAt, hl, this]
      · intro j h1 h2
        rcases good_slot_cases c f q g j (by have := g.hq; omega) with ⟨hs, _⟩ | ⟨hn, _⟩
        · exact hs
        · exact absurd (g.before j h2 hn) (hlast j (by omega) (by have := g.hq; omega) 0)

/-! ### every kill point of every invocation leaves a good file -/

theorem runFrom_congr (c : Cfg) (exits : Nat → Int) (f g : File) (i k : Nat)
    (h : ∀ j, i ≤ j → j < i + k → (f j = .skipped ↔ g j = .skipped)) :
    runFrom c exits f i k = runFrom c exits g i k := by
  induction k generalizing i with
  | zero => rfl
  | succ k ih =>
    simp only [runFrom]
    have hi := h i (Nat.le_refl i) (by omega)
    have ih' := ih (i + 1) (fun j h1 h2 => h j (by omega) (by omega))
    by_cases hf : f i = .skipped
    · simp only [hf, hi.mp hf, if_true, ih']
    · have hg : ¬ g i = .skipped := fun e => hf (hi.mpr e)
      simp only [hf, hg, if_false, ih']

theorem next_nonskipped (c : Cfg) (q m : Nat) (hqm : q < m) (hm : c.skip m = false) :
    ∃ q', q < q' ∧ q' ≤ m ∧ c.skip q' = false ∧ ∀ j, q < j → j < q' → c.skip j = true := by
  induction hd : m - q generalizing q with
  | zero => omega
  | succ d ih =>
    by_cases h1 : c.skip (q + 1) = false
    · exact ⟨q + 1, by omega, by omega, h1, fun j a b => by omega⟩
    · have h1' : c.skip (q + 1) = true := by simpa using h1
      have hne : q + 1 ≠ m := by intro e; rw [e] at h1'; rw [hm] at h1'; cases h1'
      obtain ⟨q', a, b, c', d'⟩ := ih (q + 1) (by omega) (by omega)
      refine ⟨q', by omega, b, c', fun j h2 h3 => ?_⟩
      by_cases hj : j = q + 1
      · subst hj; exact h1'
      · exact d' j (by omega) h3

/-- writing any record into the frontier slot keeps the file good -/
theorem good_upd_frontier (c : Cfg) (f : File) (q : Nat) (g : Good c f q) (e : Int) :
    Good c (upd f q (.rcd e)) q := by
  refine ⟨g.hq, g.nskip, ?_, ?_, ?_, g.endNot⟩
  · intro j hj
    by_cases hjq : j = q
    · subst hjq; simp [g.nskip]
    · rw [upd_other f q j _ hjq]; exact g.skipok j hj
  · intro j hj hs
    rw [upd_other f q j _ (by omega)]; exact g.before j hj hs
  · intro j h1 h2 hs
    rw [upd_other f q j _ (by omega)]; exact g.after j h1 h2 hs

/-- once the frontier step is recorded with exit 0 the frontier moves on -/
theorem good_advance (c : Cfg) (f : File) (q q' : Nat) (g : Good c f q) (h0 : f q = .rcd 0)
    (h1 : q < q') (h2 : q' < c.n) (h3 : c.skip q' = false) (h4 : ∀ j, q < j → j < q' → c.skip j = true) :
    Good c f q' := by
  refine ⟨h2, h3, g.skipok, ?_, ?_, g.endNot⟩
  · intro j hj hs
    rcases Nat.lt_trichotomy j q with h | h | h
    · exact g.before j h hs
    · subst h; exact h0
    · have := h4 j h hj; rw [hs] at this; cases this
  · intro j a b hs
    exact g.after j (by omega) b hs

/-- `i` is aligned with the frontier `q`: `q` is the first non-skipped index ≥ `i` -/
def Aligned (c : Cfg) (i q : Nat) : Prop := i ≤ q ∧ ∀ j, i ≤ j → j < q → c.skip j = true

theorem prefix_good (c : Cfg) (exits : Nat → Int) (k : Nat) :
    ∀ (f : File) (i q : Nat), Good c f q → Aligned c i q → i + k = c.n →
    ∀ P, P <+: runFrom c exits f i k → ∃ q', Good c (applyWs f P) q' := by
  induction k with
  | zero =>
    intro f i q g _ _ P hP
    simp only [runFrom, List.prefix_nil] at hP
    subst hP
    exact ⟨q, g⟩
  | succ k ih =>
    intro f i q g ha hik P hP
    have hi : i < c.n := by omega
    simp only [runFrom] at hP
    by_cases hfs : f i = .skipped
    · -- skipped: move on, same frontier
      simp only [hfs, if_true] at hP
      have hsk : c.skip i = true := (g.skipok i hi).mp hfs
      have hne : i ≠ q := by intro e; subst e; rw [g.nskip] at hsk; cases hsk
      exact ih f (i + 1) q g ⟨by have := ha.1; omega, fun j h1 h2 => ha.2 j (by omega) h2⟩ (by omega) P hP
    · simp only [hfs, if_false] at hP
      have hnsk : c.skip i = false := by
        cases h : c.skip i with
        | false => rfl
        | true => exact absurd ((g.skipok i hi).mpr h) hfs
      have hiq : i = q := by
        rcases Nat.lt_or_ge i q with h | h
        · have := ha.2 i (Nat.le_refl i) h; rw [hnsk] at this; cases this
        · have := ha.1; omega
      subst hiq
      by_cases hend : i + 1 = c.n
      · -- the end step
        simp only [hend, if_true] at hP
        rcases List.prefix_cons_iff.mp hP with rfl | ⟨t, rfl, ht⟩
        · exact ⟨i, g⟩
        · simp only [List.prefix_nil] at ht; subst ht
          exact ⟨i, good_upd_frontier c f i g 0⟩
      · simp only [hend, if_false] at hP
        by_cases hex : exits i = 0
        · simp only [hex, if_true] at hP
          rcases List.prefix_cons_iff.mp hP with rfl | ⟨t, rfl, ht⟩
          · exact ⟨i, g⟩
          · rcases List.prefix_cons_iff.mp ht with rfl | ⟨t', rfl, ht'⟩
            · exact ⟨i, good_upd_frontier c f i g (-1)⟩
            · -- both records written: advance the frontier and continue
              have hlast : c.skip (c.n - 1) = false := g.endNot
              obtain ⟨q', a1, a2, a3, a4⟩ := next_nonskipped c i (c.n - 1) (by omega) hlast
              let f2 : File := upd (upd f i (.rcd (-1))) i (.rcd 0)
              have g1 : Good c (upd f i (.rcd (-1))) i := good_upd_frontier c f i g (-1)
              have g2 : Good c f2 i := good_upd_frontier c _ i g1 0
              have g3 : Good c f2 q' := good_advance c f2 i q' g2 (by simp [f2]) a1 (by omega) a3 a4
              have hcong : runFrom c exits f (i + 1) k = runFrom c exits f2 (i + 1) k := by
                apply runFrom_congr
                intro j h1 h2
                have hjn : j < c.n := by omega
                rw [g.skipok j hjn, g2.skipok j hjn]
              rw [hcong] at ht'
              have := ih f2 (i + 1) q' g3 ⟨by omega, fun j h1 h2 => a4 j (by omega) h2⟩ (by omega) t' ht'
              simpa [applyWs, applyW, f2] using this
        · simp only [hex, if_false] at hP
          rcases List.prefix_cons_iff.mp hP with rfl | ⟨t, rfl, ht⟩
          · exact ⟨i, g⟩
          · rcases List.prefix_cons_iff.mp ht with rfl | ⟨t', rfl, ht'⟩
            · exact ⟨i, good_upd_frontier c f i g (-1)⟩
            · simp only [List.prefix_nil] at ht'; subst ht'
              have g1 : Good c (upd f i (.rcd (-1))) i := good_upd_frontier c f i g (-1)
              exact ⟨i, by simpa [applyWs, applyW] using good_upd_frontier c _ i g1 (exits i)⟩

/-- **Kill/resume closure**: from a good file, every kill point of a resumed
    invocation (any exit codes) is again a good file.  By induction this covers
    any number of kill/resume cycles. -/
theorem resume_good (c : Cfg) (exits : Nat → Int) (f : File) (q : Nat) (g : Good c f q)
    (ws : List Wr) (hws : resumeWrites c exits f = some ws) :
    ∀ P, P <+: ws → ∃ q', Good c (applyWs f P) q' := by
  unfold resumeWrites at hws
  cases hr : resumeAt c f with
  | none => simp [hr] at hws
  | some p =>
    simp only [hr, Option.some.injEq] at hws
    subst hws
    obtain ⟨hrec, hemp⟩ := resumeAt_good c f q g
    cases hq : f q with
    | skipped =>
      have := (g.skipok q g.hq).mp hq
      rw [g.nskip] at this; cases this
    | rcd e =>
      have hp := hrec e hq
      rw [hr] at hp
      simp only [Option.some.injEq] at hp
      by_cases hcase : e ≠ 0 ∨ q + 1 = c.n
      · simp only [hcase, if_true] at hp
        subst hp
        exact prefix_good c exits _ f p p g ⟨Nat.le_refl p, fun j a b => by omega⟩ (by have := g.hq; omega)
      · simp only [hcase, if_false] at hp
        subst hp
        have he0 : e = 0 := by
          cases Decidable.em (e = 0) with
          | inl h => exact h
          | inr h => exact absurd (Or.inl h) hcase
        subst he0
        have hne : q + 1 ≠ c.n := fun h => hcase (Or.inr h)
        obtain ⟨q', a1, a2, a3, a4⟩ := next_nonskipped c q (c.n - 1) (by have := g.hq; omega) g.endNot
        have g3 : Good c f q' := good_advance c f q q' g hq a1 (by have := g.hq; omega) a3 a4
        exact prefix_good c exits _ f (q + 1) q' g3 ⟨by omega, fun j h1 h2 => a4 j (by omega) h2⟩ (by have := g.hq; omega)
    | empty =>
      rcases hemp hq with ⟨hnone, _⟩ | ⟨p', hp', hle, hpos, _, _, hskip⟩
      · rw [hr] at hnone; cases hnone
      · rw [hr] at hp'
        simp only [Option.some.injEq] at hp'
        subst hp'
        exact prefix_good c exits _ f p q g ⟨hle, hskip⟩ (by have := g.hq; omega)

/-- **What a resume runs**: from a good file a resumed invocation starts
    exactly the steps a correct orchestrator would start from the frontier:
    the frontier step itself unless it is recorded with exit 0 (and is not
    `end`), then every later non-skipped step in order up to the first failure;
    it never starts a step before the frontier. -/
theorem resume_runs (c : Cfg) (exits : Nat → Int) (f : File) (q : Nat) (g : Good c f q)
    (ws : List Wr) (hws : resumeWrites c exits f = some ws) :
    started ws =
      if f q = .rcd 0 ∧ q + 1 ≠ c.n then ideal c exits (q + 1) (c.n - (q + 1))
      else ideal c exits q (c.n - q) := by
  unfold resumeWrites at hws
  cases hr : resumeAt c f with
  | none => simp [hr] at hws
  | some p =>
    simp only [hr, Option.some.injEq] at hws
    subst hws
    obtain ⟨hrec, hemp⟩ := resumeAt_good c f q g
    have hpn : ∀ p, p ≤ c.n → started (runFrom c exits f p (c.n - p)) = ideal c exits p (c.n - p) :=
      fun p hp => started_runFrom c exits f g.skipok p (c.n - p) (by omega)
    cases hq : f q with
    | skipped =>
      have := (g.skipok q g.hq).mp hq
      rw [g.nskip] at this; cases this
    | rcd e =>
      have hp := hrec e hq
      rw [hr] at hp
      simp only [Option.some.injEq] at hp
      by_cases hcase : e ≠ 0 ∨ q + 1 = c.n
      · simp only [hcase, if_true] at hp
        subst hp
        have : ¬ (Slot.rcd e = Slot.rcd 0 ∧ p + 1 ≠ c.n) := by
          rintro ⟨h1, h2⟩
          rcases hcase with h | h
          · cases h1; exact h rfl
          · exact h2 h
        simp only [this, if_false]
        exact hpn p (by have := g.hq; omega)
      · simp only [hcase, if_false] at hp
        subst hp
        have he0 : e = 0 := by
          cases Decidable.em (e = 0) with
          | inl h => exact h
          | inr h => exact absurd (Or.inl h) hcase
        subst he0
        have hne : q + 1 ≠ c.n := fun h => hcase (Or.inr h)
        simp only [hne, ne_eq, not_false_eq_true, and_self, if_true]
        exact hpn (q + 1) (by have := g.hq; omega)
    | empty =>
      have : ¬ (Slot.empty = Slot.rcd 0 ∧ q + 1 ≠ c.n) := by rintro ⟨h, _⟩; cases h
      simp only [this, if_false]
      rcases hemp hq with ⟨hnone, _⟩ | ⟨p', hp', hle, hpos, _, _, hskip⟩
      · rw [hr] at hnone; cases hnone
      · rw [hr] at hp'
        simp only [Option.some.injEq] at hp'
        subst hp'
        rw [hpn p (by have := g.hq; omega)]
        exact ideal_skip_run c exits p q hle (by have := g.hq; omega) hskip

/-- every index a correct orchestrator starts from `i` is ≥ `i` and not skipped -/
theorem ideal_bounds (c : Cfg) (exits : Nat → Int) (i k : Nat) :
    ∀ j ∈ ideal c exits i k, i ≤ j ∧ c.skip j = false := by
  induction k generalizing i with
  | zero => simp [ideal]
  | succ k ih =>
    intro j hj
    simp only [ideal] at hj
    split at hj
    · have := ih (i + 1) j hj; exact ⟨by omega, this.2⟩
    · rename_i hs
      have hs' : c.skip i = false := by simpa using hs
      split at hj
      · simp only [List.mem_singleton] at hj; subst hj; exact ⟨Nat.le_refl _, hs'⟩
      · split at hj
        · simp only [List.mem_cons] at hj
          rcases hj with rfl | hj
          · exact ⟨Nat.le_refl _, hs'⟩
          · have := ih (i + 1) j hj; exact ⟨by omega, this.2⟩
        · simp only [List.mem_singleton] at hj; subst hj; exact ⟨Nat.le_refl _, hs'⟩

/-- **Fresh invocation**: after the skip phase the file is good; during it
    nothing but skipped steps is recorded and resuming fails. -/
theorem skip_phase (c : Cfg) (order : List Nat) :
    ∀ P, P <+: order.map Wr.skipRec →
      ∀ j e, applyWs (fun _ => Slot.empty) P j ≠ .rcd e := by
  intro P hP
  have gen : ∀ (ws : List Wr) (f : File), (∀ w ∈ ws, ∃ i, w = .skipRec i) → (∀ j e, f j ≠ .rcd e) →
      ∀ j e, applyWs f ws j ≠ .rcd e := by
    intro ws
    induction ws with
    | nil => intro f _ h; exact h
    | cons w ws ih =>
      intro f hw h
      obtain ⟨i, rfl⟩ := hw w (by simp)
      simp only [applyWs, List.foldl_cons]
      apply ih _ (fun w' hw' => hw w' (by simp [hw']))
      intro j e
      simp only [applyW, upd]
      split
      · simp
      · exact h j e
  apply gen P _ _ (by simp)
  intro w hw
  have := hP.subset hw
  simp only [List.mem_map] at this
  obtain ⟨i, _, rfl⟩ := this
  exact ⟨i, rfl⟩

theorem fresh_after_skips (c : Cfg) (order : List Nat) (hn : 0 < c.n)
    (horder : ∀ j, j < c.n → (j ∈ order ↔ c.skip j = true)) (hend : c.skip (c.n - 1) = false) :
    ∃ q, Good c (applyWs (fun _ => Slot.empty) (order.map Wr.skipRec)) q ∧ Aligned c 0 q := by
  -- the file after the skip records: slot j skipped iff j ∈ order
  have hfile : ∀ (ws : List Nat) (f : File) (j : Nat),
      applyWs f (ws.map Wr.skipRec) j = if j ∈ ws then Slot.skipped else f j := by
    intro ws
    induction ws with
    | nil => intro f j; simp [applyWs]
    | cons w ws ih =>
      intro f j
      simp only [List.map_cons, applyWs, List.foldl_cons]
      have := ih (applyW f (.skipRec w)) j
      simp only [applyWs] at this
      rw [this]
      by_cases hj : j ∈ ws
      · simp [hj]
      · by_cases hjw : j = w
        · subst hjw; simp [hj, applyW, upd]
        · simp [hj, hjw, applyW, upd]
  -- first non-skipped index
  have hfirst : ∃ q, q < c.n ∧ c.skip q = false ∧ ∀ j, j < q → c.skip j = true := by
    by_cases h0 : c.skip 0 = false
    · exact ⟨0, hn, h0, fun j hj => by omega⟩
    · have h0' : c.skip 0 = true := by simpa using h0
      have hne : 0 ≠ c.n - 1 := by intro e; rw [← e] at hend; rw [hend] at h0'; cases h0'
      obtain ⟨q', a1, a2, a3, a4⟩ := next_nonskipped c 0 (c.n - 1) (by omega) hend
      refine ⟨q', by omega, a3, fun j hj => ?_⟩
      by_cases hj0 : j = 0
      · subst hj0; exact h0'
      · exact a4 j (by omega) hj
  obtain ⟨q, hq, hqs, hbefore⟩ := hfirst
  refine ⟨q, ⟨hq, hqs, ?_, ?_, ?_, hend⟩, ⟨Nat.zero_le _, fun j _ hj => hbefore j hj⟩⟩
  · intro j hj
    rw [hfile, ← horder j hj]
    by_cases h : j ∈ order <;> simp [h]
  · intro j hj hs
    have := hbefore j hj; rw [hs] at this; cases this
  · intro j h1 h2 hs
    rw [hfile]
    have : ¬ j ∈ order := fun h => by have := (horder j h2).mp h; rw [hs] at this; cases this
    simp [this]

theorem prefix_append_cases {α : Type} (P a b : List α) (h : P <+: a ++ b) :
    P <+: a ∨ ∃ t, P = a ++ t ∧ t <+: b := by
  induction a generalizing P with
  | nil => right; exact ⟨P, rfl, by simpa using h⟩
  | cons x a ih =>
    rcases List.prefix_cons_iff.mp (by simpa using h) with rfl | ⟨t, rfl, ht⟩
    · left; exact List.nil_prefix
    · rcases ih t ht with h1 | ⟨t', rfl, ht'⟩
      · left; exact List.cons_prefix_cons.mpr ⟨rfl, h1⟩
      · right; exact ⟨t', rfl, ht'⟩

/-- **Every kill point of a fresh invocation**: either nothing but skipped
    steps is recorded (and resuming fails), or the file is good. -/
theorem fresh_kill_points (c : Cfg) (exits : Nat → Int) (order : List Nat) (hn : 0 < c.n)
    (horder : ∀ j, j < c.n → (j ∈ order ↔ c.skip j = true)) (hend : c.skip (c.n - 1) = false) :
    ∀ P, P <+: freshWrites c exits order →
      (resumeAt c (applyWs (fun _ => Slot.empty) P) = none) ∨ ∃ q, Good c (applyWs (fun _ => Slot.empty) P) q := by
  intro P hP
  unfold freshWrites at hP
  simp only at hP
  rcases prefix_append_cases _ _ _ hP with h | ⟨t, rfl, ht⟩
  · left
    have := skip_phase c order P h
    simp only [resumeAt]
    rw [(lastRec_none_iff _ c.n).mpr (fun j _ e => this j e)]
  · right
    obtain ⟨q, g, ha⟩ := fresh_after_skips c order hn horder hend
    obtain ⟨q', g'⟩ := prefix_good c exits c.n _ 0 q g ha (by omega) t ht
    exact ⟨q', by simpa [applyWs, List.foldl_append] using g'⟩

/-! ### non-vacuity of the `has_steps` statements -/
private def rSkip : Row := (List.replicate 12 FVal.unknown).set skipIdx (.int 1)
private def rRun : Row := ((List.replicate 12 FVal.unknown).set skipIdx (.int 0)).set exitIdx (.int (-1))
example : hasSteps [rSkip, rSkip] = false ∧ stepNext [rSkip, rSkip] = none := by decide +kernel
example : hasSteps [rSkip, rRun, rSkip] = true ∧ (stepNext [rSkip, rRun, rSkip]).isSome = true := by decide +kernel
example : trapExitDecision [rSkip, rRun] true 1 = (true, true) ∧
          trapExitDecision [rSkip, rRun] false 1 = (false, true) ∧
          trapExitDecision [rSkip] true 1 = (false, false) := by decide +kernel

/-! ### non-vacuity: a 4-step schedule with one skipped step, killed in flight -/
private def c4 : Cfg := ⟨4, fun j => j == 1⟩
private def f4 : File := fun j => if j = 0 then .rcd 0 else if j = 1 then .skipped else if j = 2 then .rcd (-1) else .empty
example : resumeAt c4 f4 = some 2 := by decide
example : resumeWrites c4 (fun _ => 0) f4 = some [.inflight 2, .done 2 0, .endRec 3] := by decide
example : Good c4 f4 2 :=
  ⟨by decide, rfl, by intro j hj; have : j = 0 ∨ j = 1 ∨ j = 2 ∨ j = 3 := by (have : c4.n = 4 := rfl); omega
                      rcases this with rfl | rfl | rfl | rfl <;> simp [f4, c4],
   by intro j hj hs; have : j = 0 ∨ j = 1 := by omega
      rcases this with rfl | rfl
      · rfl
      · simp [c4] at hs,
   by intro j h1 h2 hs; have : j = 3 := by (have : c4.n = 4 := rfl); omega
      subst this; rfl,
   rfl⟩


end C03
end Robsd
