import Robsd.Model.Exec
import Robsd.Props.C09
/-
  C06: step and hook commands get their exact arguments; exit status is faithful.
-/
namespace Robsd
namespace C06
open Bytes Interp Exec

/-- the argument values, in order, when all of them interpolate -/
def values (lookup : Lookup) : List Bytes → Option (List Bytes)
  | [] => some []
  | a :: as =>
    match interpStr lookup false a, values lookup as with
    | .ok v, some vs => some (v :: vs)
    | _, _ => none

/-- **Exact step arguments**: the launched argv is the list of interpolated
    arguments, one per configured argument, with the empty ones dropped —
    nothing is split, joined or added. -/
theorem argv_exact (lookup : Lookup) (args : List Bytes) :
    stepArgv lookup args = (values lookup args).map (fun vs => vs.filter (fun v => !v.isEmpty)) := by
  induction args with
  | nil => rfl
  | cons a as ih =>
    simp only [stepArgv, values]
    cases h : interpStr lookup false a with
    | error e => simp
    | ok v =>
      simp only [ih]
      cases hv : values lookup as with
      | none => simp
      | some vs =>
        simp only [Option.map_some]
        cases hve : v.isEmpty <;> simp [hve]

/-- **Exact hook arguments**: element-wise, empty results kept -/
theorem hook_argv_exact (lookup : Lookup) (args : List Bytes) :
    hookArgvList lookup args = values lookup args := by
  induction args with
  | nil => rfl
  | cons a as ih =>
    simp only [hookArgvList, values]
    cases h : interpStr lookup false a with
    | error e => simp
    | ok v =>
      simp only [ih]
      cases values lookup as <;> simp

/-- one output value per configured argument: no word splitting -/
theorem values_length (lookup : Lookup) (args vs : List Bytes) (h : values lookup args = some vs) :
    vs.length = args.length := by
  induction args generalizing vs with
  | nil => simp only [values, Option.some.injEq] at h; subst h; rfl
  | cons a as ih =>
    simp only [values] at h
    cases h1 : interpStr lookup false a with
    | error e => simp [h1] at h
    | ok v =>
      cases h2 : values lookup as with
      | none => simp [h1, h2] at h
      | some vs' =>
        simp only [h1, h2, Option.some.injEq] at h
        subst h
        simp [ih vs' h2]

/-- an argument without `$` reaches the command byte for byte, whatever it
    contains (spaces, quotes, glob characters) -/
theorem literal_arg_untouched (lookup : Lookup) (a : Bytes) (h : DOLLAR ∉ a) :
    interpStr lookup false a = .ok a := by
  unfold interpStr
  have : Gen.interpolateDepthLimit - 1 = 3 + 1 := by decide
  rw [this]
  exact C09.no_dollar_identity lookup false 3 a h

/-- the hook runner does nothing when no hook is configured or the list is empty -/
theorem hook_none (lookup : Lookup) : hookAction lookup none = .nothing ∧ hookAction lookup (some []) = .nothing := ⟨rfl, rfl⟩

/-! ### exit status -/

/-- exit code passed through unchanged; signal N gives 128+N -/
theorem exit_faithful (st : WaitStatus) :
    exitstatus st 0 = (match st with | .exited c => c | .signaled s => 128 + s) := by
  unfold exitstatus
  have : ¬ (0 = SIGALRM) := by decide
  rw [if_neg this]
  cases st <;> rfl

/-- the runner exits zero iff the command exited zero -/
theorem exit_zero_iff (st : WaitStatus) : exitstatus st 0 = 0 ↔ st = .exited 0 := by
  rw [exit_faithful]
  cases st with
  | exited c => simp
  | signaled s => simp

/-- a step that cannot be resolved (unknown name, or a schedule whose command
    templates fail to interpolate) yields exit status 1 and runs nothing -/
theorem unresolved_is_1 (lookup : Lookup) (schedule : List (Bytes × List Bytes)) (name : Bytes) (st : Option WaitStatus)
    (h : allArgv lookup schedule = none ∨ ∀ s ∈ schedule, s.1 ≠ name) :
    stepExec lookup schedule name st = .notRun 1 := by
  unfold stepExec
  rcases h with h | h
  · simp [h]
  · cases ha : allArgv lookup schedule with
    | none => rfl
    | some steps =>
      have hn : ∀ s ∈ steps, s.1 ≠ name := by
        have gen : ∀ (sch : List (Bytes × List Bytes)) st', allArgv lookup sch = some st' → ∀ s ∈ st', ∃ t ∈ sch, t.1 = s.1 := by
          intro sch
          induction sch with
          | nil => intro st' h1; simp only [allArgv, Option.some.injEq] at h1; subst h1; simp
          | cons x xs ih =>
            intro st' h1
            obtain ⟨n, args⟩ := x
            simp only [allArgv] at h1
            cases h2 : stepArgv lookup args with
            | none => simp [h2] at h1
            | some v =>
              cases h3 : allArgv lookup xs with
              | none => simp [h2, h3] at h1
              | some r =>
                simp only [h2, h3, Option.some.injEq] at h1
                subst h1
                intro s hs
                simp only [List.mem_cons] at hs
                rcases hs with rfl | hs
                · exact ⟨(n, args), by simp, rfl⟩
                · obtain ⟨t, ht, e⟩ := ih r h3 s hs
                  exact ⟨t, by simp [ht], e⟩
        intro s hs
        obtain ⟨t, ht, e⟩ := gen schedule steps ha s hs
        rw [← e]; exact h t ht
      have : steps.find? (fun s => s.1 == name) = none := by
        rw [List.find?_eq_none]
        intro s hs
        simpa using hn s hs
      simp [this]

/-- when the step resolves, the command runs with exactly its argv and the
    runner's exit status is the command's -/
theorem resolved_runs (lookup : Lookup) (schedule steps : List (Bytes × List Bytes)) (name : Bytes) (argv : List Bytes)
    (w : WaitStatus) (h1 : allArgv lookup schedule = some steps) (h2 : steps.find? (fun s => s.1 == name) = some (name, argv)) :
    stepExec lookup schedule name (some w) = .ran argv (exitstatus w 0) := by
  unfold stepExec
  simp [h1, h2]

/-! ### non-vacuity -/
private def env1 : Lookup := fun n => if n = [116] then some [] else if n = [118] then some [97, 32, 98] else none
example : stepArgv env1 [[115, 104], [36, 123, 116, 125], [36, 123, 118, 125], [42, 32, 39]] =
    some [[115, 104], [97, 32, 98], [42, 32, 39]] := by
  rw [argv_exact]
  have e1 : interpStr env1 false [115, 104] = .ok [115, 104] := literal_arg_untouched _ _ (by decide)
  have e4 : interpStr env1 false [42, 32, 39] = .ok [42, 32, 39] := literal_arg_untouched _ _ (by decide)
  have e2 : interpStr env1 false [36, 123, 116, 125] = .ok [] :=
    C09.interp_complete env1 4 _ _ (C09.Expands.ref 3 [] [116] [] [] [] [] (by decide) (by decide) (by decide) rfl
      (C09.Expands.lit 2 [] (by decide)) (C09.Expands.lit 3 [] (by decide)))
  have e3 : interpStr env1 false [36, 123, 118, 125] = .ok [97, 32, 98] :=
    C09.interp_complete env1 4 _ _ (C09.Expands.ref 3 [] [118] [] [97, 32, 98] [97, 32, 98] [] (by decide) (by decide) (by decide) rfl
      (C09.Expands.lit 2 [97, 32, 98] (by decide)) (C09.Expands.lit 3 [] (by decide)))
  simp [values, e1, e2, e3, e4]

end C06
end Robsd
