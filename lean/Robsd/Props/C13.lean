import Robsd.Model.RegressLog
/-
  C13: regress log extraction is sound, complete and agrees with its exit status.

  The theorems about `blocksFrom` are generic in the marker and the match
  predicate, hence hold for all 15 selections; they quantify over every list
  of lines (every log) and every initial scratch content.
-/
namespace Robsd
namespace C13
open Bytes RegressLog

/-! ### exit status ⇔ a selected line exists after the leading trace -/

theorem blocks_ne_nil_iff (mark sel : Bytes → Bool) (sc ls : List Bytes) :
    blocksFrom mark sel sc ls ≠ [] ↔ ∃ l ∈ ls, sel l = true := by
  induction ls generalizing sc with
  | nil => simp [blocksFrom]
  | cons l ls ih =>
    simp only [blocksFrom]
    by_cases h : sel l = true
    · simp [h]
    · simp only [h, Bool.false_eq_true, if_false, List.mem_cons, exists_eq_or_imp, false_or]
      exact ih _

theorem exit_iff (sel : Sel) (ls : List Bytes) :
    (parse sel ls).length > 0 ↔ ∃ l ∈ ls.dropWhile isXtrace, selected sel l = true := by
  unfold parse
  rw [← blocks_ne_nil_iff isMarker (selected sel) [] _]
  cases blocksFrom isMarker (selected sel) [] (ls.dropWhile isXtrace) <;> simp

/-! ### soundness: the output consists solely of lines of the log, in order -/

theorem blocks_sublist (mark sel : Bytes → Bool) (sc ls : List Bytes) :
    (blocksFrom mark sel sc ls).flatten.Sublist (sc ++ ls) := by
  induction ls generalizing sc with
  | nil => simp [blocksFrom]
  | cons l ls ih =>
    simp only [blocksFrom]
    have hs : ((if mark l = true then [] else sc) ++ [l]).Sublist (sc ++ [l]) := by
      split
      · simp
      · exact List.Sublist.refl _
    by_cases h : sel l = true
    · simp only [h, if_true, List.flatten_cons]
      have := ih []
      simp only [List.nil_append] at this
      have e : sc ++ l :: ls = (sc ++ [l]) ++ ls := by simp
      rw [e]
      exact List.Sublist.append hs this
    · simp only [h, Bool.false_eq_true, if_false]
      have := ih ((if mark l = true then [] else sc) ++ [l])
      have e : sc ++ l :: ls = (sc ++ [l]) ++ ls := by simp
      rw [e]
      exact this.trans (List.Sublist.append hs (List.Sublist.refl _))

theorem output_subsequence (sel : Sel) (ls : List Bytes) :
    (parse sel ls).flatten.Sublist ls := by
  unfold parse
  have := blocks_sublist isMarker (selected sel) [] (ls.dropWhile isXtrace)
  simp only [List.nil_append] at this
  exact this.trans (List.dropWhile_sublist _)

/-! ### completeness: an exact description of the blocks -/

/-- The scratch buffer after the lines `xs` were appended to scratch `sc`:
    everything since the last marker line (inclusive), or all of it. -/
def sinceMarker (mark : Bytes → Bool) (sc : List Bytes) : List Bytes → List Bytes
  | [] => sc
  | x :: xs => sinceMarker mark ((if mark x then [] else sc) ++ [x]) xs

/-- Declarative specification of the extraction. -/
inductive Extracts (mark sel : Bytes → Bool) : List Bytes → List Bytes → List (List Bytes) → Prop where
  | done (sc ls : List Bytes) : (∀ l ∈ ls, sel l = false) → Extracts mark sel sc ls []
  | block (sc pre : List Bytes) (l : Bytes) (rest : List Bytes) (bs : List (List Bytes)) :
      (∀ x ∈ pre, sel x = false) → sel l = true → Extracts mark sel [] rest bs →
      Extracts mark sel sc (pre ++ l :: rest) (sinceMarker mark sc (pre ++ [l]) :: bs)

theorem blocks_extracts (mark sel : Bytes → Bool) (sc ls : List Bytes) :
    Extracts mark sel sc ls (blocksFrom mark sel sc ls) := by
  induction ls generalizing sc with
  | nil => exact Extracts.done sc [] (by simp)
  | cons l ls ih =>
    simp only [blocksFrom]
    by_cases h : sel l = true
    · simp only [h, if_true]
      have := Extracts.block (mark := mark) (sel := sel) sc [] l ls _ (by simp) h (ih [])
      simpa [sinceMarker] using this
    · simp only [h, Bool.false_eq_true, if_false]
      have hf : sel l = false := by simpa using h
      have ih' := ih ((if mark l = true then [] else sc) ++ [l])
      generalize hb : blocksFrom mark sel ((if mark l = true then [] else sc) ++ [l]) ls = bs at ih'
      generalize hsc : (if mark l = true then [] else sc) ++ [l] = sc' at ih'
      cases ih' with
      | done _ _ hall =>
        exact Extracts.done sc (l :: ls) (by
          intro x hx
          simp only [List.mem_cons] at hx
          rcases hx with rfl | hx
          · exact hf
          · exact hall x hx)
      | block _ pre l' rest bs hpre hl' hrest =>
        have := Extracts.block (mark := mark) (sel := sel) sc (l :: pre) l' rest bs (by
          intro x hx
          simp only [List.mem_cons] at hx
          rcases hx with rfl | hx
          · exact hf
          · exact hpre x hx) hl' hrest
        simpa [sinceMarker, hsc] using this

/-- `sinceMarker` is a suffix of what was written to the scratch buffer … -/
theorem sinceMarker_suffix (mark : Bytes → Bool) (sc xs : List Bytes) :
    sinceMarker mark sc xs <:+ sc ++ xs := by
  induction xs generalizing sc with
  | nil => simp [sinceMarker]
  | cons x xs ih =>
    simp only [sinceMarker]
    have := ih ((if mark x = true then [] else sc) ++ [x])
    have e : sc ++ x :: xs = (sc ++ [x]) ++ xs := by simp
    rw [e]
    refine this.trans ?_
    split
    · have : [x] ++ xs <:+ sc ++ ([x] ++ xs) := List.suffix_append sc ([x] ++ xs)
      simpa using this
    · exact List.suffix_refl _

/-- … and it always ends with the last line appended. -/
theorem sinceMarker_getLast (mark : Bytes → Bool) (sc pre : List Bytes) (l : Bytes) :
    ∃ init, sinceMarker mark sc (pre ++ [l]) = init ++ [l] := by
  induction pre generalizing sc with
  | nil => simp only [List.nil_append, sinceMarker]; exact ⟨_, rfl⟩
  | cons x xs ih => simp only [List.cons_append, sinceMarker]; exact ih _

/-- Every selected line after the leading trace appears in the output. -/
theorem blocks_complete (mark sel : Bytes → Bool) (sc ls : List Bytes) (l : Bytes)
    (hl : l ∈ ls) (hs : sel l = true) : l ∈ (blocksFrom mark sel sc ls).flatten := by
  have h := blocks_extracts mark sel sc ls
  generalize blocksFrom mark sel sc ls = bs at h
  induction h with
  | done sc ls hall => simp [hall l hl] at hs
  | block sc pre l' rest bs hpre hl' _ ih =>
    simp only [List.mem_append, List.mem_cons] at hl
    simp only [List.flatten_cons, List.mem_append]
    rcases hl with hl | rfl | hl
    · simp [hpre l hl] at hs
    · left
      obtain ⟨init, e⟩ := sinceMarker_getLast mark sc pre l
      rw [e]; simp
    · right; exact ih hl

theorem output_complete (sel : Sel) (ls : List Bytes) (l : Bytes)
    (hl : l ∈ ls.dropWhile isXtrace) (hs : selected sel l = true) :
    l ∈ (parse sel ls).flatten :=
  blocks_complete isMarker (selected sel) [] _ l hl hs

theorem parse_extracts (sel : Sel) (ls : List Bytes) :
    Extracts isMarker (selected sel) [] (ls.dropWhile isXtrace) (parse sel ls) :=
  blocks_extracts _ _ _ _

/-! ### peek agrees with the full parse -/

theorem peekFrom_pos_iff (sel : Bytes → Bool) (ls : List Bytes) :
    peekFrom sel ls > 0 ↔ ∃ l ∈ ls, sel l = true := by
  induction ls with
  | nil => simp [peekFrom]
  | cons l ls ih =>
    simp only [peekFrom]
    by_cases h : sel l = true
    · simp [h]
    · simp only [h, Bool.false_eq_true, if_false, List.mem_cons, exists_eq_or_imp, false_or]
      exact ih

theorem peek_agrees (sel : Sel) (ls : List Bytes) :
    peek sel ls > 0 ↔ (parse sel ls).length > 0 := by
  rw [exit_iff]
  exact peekFrom_pos_iff _ _

/-! ### the command: exit status, -n, several files -/

theorem mainLoop_spec (sel : Sel) (fs : List (Option Bytes)) (n : Nat) (bf : Bytes) (err : Bool) :
    (mainLoop sel fs n bf err).1 = n + (fs.filter (fun f => match f with
        | some c => (parse sel (lines c)).length > 0
        | none => false)).length ∧
    (mainLoop sel fs n bf err).2.2 = (err || fs.any (fun f => f.isNone)) := by
  induction fs generalizing n bf err with
  | nil => simp [mainLoop]
  | cons f fs ih =>
    cases f with
    | none =>
      simp only [mainLoop]
      have := ih n (if n > 0 then bf ++ [10] else bf) true
      simp [this]
    | some c =>
      simp only [mainLoop, parseOut]
      by_cases h : (parse sel (lines c)).length = 0
      · simp only [h, if_true]
        have := ih n (if n > 0 then (if n > 0 then bf ++ [10] else bf).dropLast else if n > 0 then bf ++ [10] else bf) err
        simp [this, h]
      · simp only [h, if_false]
        have := ih (n + 1) ((if n > 0 then bf ++ [10] else bf) ++ renderBlocks false (parse sel (lines c))) err
        have hp : (parse sel (lines c)).length > 0 := by omega
        simp [this, hp]
        omega

/-- Exit status: 2 iff a file could not be read; otherwise 0 iff some file has
    a selected line after its leading trace block, else 1. -/
theorem main_exit (sel : Sel) (doprint : Bool) (fs : List (Option Bytes)) :
    (main sel doprint fs).1 =
      if fs.any (fun f => f.isNone) then 2
      else if fs.any (fun f => match f with
        | some c => ((lines c).dropWhile isXtrace).any (selected sel)
        | none => false) then 0 else 1 := by
  unfold main
  obtain ⟨h1, h2⟩ := mainLoop_spec sel fs 0 [] false
  simp only [h1, h2, Bool.false_or, Nat.zero_add]
  split
  · rfl
  · have key : ∀ f : Option Bytes, (match f with
        | some c => decide ((parse sel (lines c)).length > 0)
        | none => false) = (match f with
        | some c => ((lines c).dropWhile isXtrace).any (selected sel)
        | none => false) := by
      intro f
      cases f with
      | none => rfl
      | some c =>
        simp only
        rw [Bool.eq_iff_iff]
        simp only [decide_eq_true_eq, List.any_eq_true]
        exact exit_iff sel (lines c)
    simp only [key]
    by_cases h : fs.any (fun f => match f with
        | some c => ((lines c).dropWhile isXtrace).any (selected sel)
        | none => false) = true
    · simp only [h, if_true]
      have : (fs.filter (fun f => match f with
        | some c => ((lines c).dropWhile isXtrace).any (selected sel)
        | none => false)).length ≠ 0 := by
        intro e
        rw [List.length_eq_zero_iff, List.filter_eq_nil_iff] at e
        rw [List.any_eq_true] at h
        obtain ⟨x, hx, hx2⟩ := h
        exact e x hx hx2
      simp [this]
    · simp only [h, Bool.false_eq_true, if_false]
      have : (fs.filter (fun f => match f with
        | some c => ((lines c).dropWhile isXtrace).any (selected sel)
        | none => false)).length = 0 := by
        rw [List.length_eq_zero_iff, List.filter_eq_nil_iff]
        intro x hx hx2
        exact h (List.any_eq_true.mpr ⟨x, hx, hx2⟩)
      simp [this]

/-- With printing disabled nothing is printed and the exit status is the same. -/
theorem noprint_same_exit (sel : Sel) (fs : List (Option Bytes)) :
    (main sel false fs).1 = (main sel true fs).1 ∧ (main sel false fs).2 = [] := by
  constructor
  · rw [main_exit, main_exit]
  · simp [main]

/-- A log with a FAILED or UNEXPECTED_PASS line outside the leading trace is
    classified as failed by `robsd-regress-log -FPn` (what `regress_failed` runs). -/
theorem failed_classified (c : Bytes) (l : Bytes)
    (hl : l ∈ (lines c).dropWhile isXtrace) (hf : isFailed l = true ∨ isXpassed l = true) :
    (main ⟨true, false, false, true⟩ false [some c]).1 = 0 := by
  rw [main_exit]
  have : ((lines c).dropWhile isXtrace).any (selected ⟨true, false, false, true⟩) = true := by
    rw [List.any_eq_true]
    refine ⟨l, hl, ?_⟩
    rcases hf with h | h <;> simp [selected, h]
  simp [this]

/-! ### non-vacuity (concrete logs; computed by the kernel) -/
private def L (s : String) : Bytes := s.toList.map (fun c => UInt8.ofNat c.toNat)
example : isMarker (L "==== t1 ====") = true ∧ isMarker (L "===> sub") = true ∧
    isMarker (L "==== t1 ===") = false ∧ isMarker (L "====t1 ====") = false := by decide
example : parse ⟨true, false, false, false⟩
    [L "+ trace", L "==== a ====", L "ok", L "==== b ====", L "x", L "FAILED", L "tail"] =
    [[L "==== b ====", L "x", L "FAILED"]] := by decide
example : (main ⟨true, false, false, true⟩ false [some (L "+ FAILED\nUNEXPECTED_PASS\n")]).1 = 0 := by decide
example : (main ⟨true, false, false, true⟩ false [some (L "+ FAILED\nfine\n")]).1 = 1 := by decide

end C13
end Robsd
