import Robsd.Props.C08Complete
/-
  C08/C10, canvas: the `step` statements of a canvas configuration become the
  schedule, in the order written.

  `steps_tokens`: for every list of statements
      step "name" command { "a" "b" ... } [parallel]      (options in either order)
  with non-empty commands, the parser accepts the tokens and the configuration's
  step list is exactly the listed steps — name, command words, parallel flag —
  in file order (this list is what `config_get_steps` numbers and what C10's
  theorems take as their input).  `step_empty_command_rejected`,
  `step_without_command_rejected`: the two documented rejections.
-/
namespace Robsd
namespace C08
open Conf Gen

structure StepStmt where
  name : Bytes
  command : List Bytes
  parallel : Bool
  parFirst : Bool      -- `parallel` written before `command`
deriving Repr

def tCommand : Tok := .typ (S "COMMAND")
def tParallel : Tok := .typ (S "PARALLEL")

def StepStmt.opts (st : StepStmt) : List Tok :=
  let cmd := tCommand :: lbrace :: (st.command.map Tok.str ++ [rbrace])
  if st.parallel then (if st.parFirst then tParallel :: cmd else cmd ++ [tParallel]) else cmd

def StepStmt.toks (st : StepStmt) : List Tok := .kw (S "step") :: .str st.name :: st.opts

def StepStmt.den (st : StepStmt) : CStep := ⟨st.name, st.command, st.parallel⟩

/-- what ends the options: the next statement's keyword or the end of the file -/
def stops : List Tok → Prop
  | .kw _ :: _ => True
  | .eof :: _ => True
  | _ => False

theorem canvasOptions_stop (fuel : Nat) (c : Option (List Bytes)) (p : Bool) (rest : List Tok) (h : stops rest) :
    canvasOptions (fuel + 1) c p rest = some (c, p, rest) := by
  cases rest with
  | nil => simp [stops] at h
  | cons t ts => cases t <;> simp [stops] at h <;> rfl

theorem canvasOptions_opts (st : StepStmt) (rest : List Tok) (fuel : Nat) (hf : 3 ≤ fuel) (h : stops rest) :
    canvasOptions fuel none false (st.opts ++ rest) = some (some st.command, st.parallel, rest) := by
  obtain ⟨f, rfl⟩ : ∃ f, fuel = f + 1 + 1 + 1 := ⟨fuel - 3, by omega⟩
  have hc : ∀ (k : Nat) (p : Bool) (tl : List Tok),
      canvasOptions (k + 1) none p (tCommand :: lbrace :: (st.command.map Tok.str ++ rbrace :: tl)) =
        canvasOptions k (some st.command) p tl := by
    intro k p tl
    have := parseList_strs st.command tl
    simp only [List.cons_append, List.append_assoc, List.singleton_append, List.nil_append] at this
    simp only [canvasOptions, tCommand, ↓reduceIte]
    rw [this]
  have hp : ∀ (k : Nat) (c : Option (List Bytes)) (p : Bool) (tl : List Tok),
      canvasOptions (k + 1) c p (tParallel :: tl) = canvasOptions k c true tl := by
    intro k c p tl
    simp only [canvasOptions, tParallel, ↓reduceIte]
    rw [if_neg (by decide)]
  unfold StepStmt.opts
  by_cases hpar : st.parallel = true
  · by_cases hpf : st.parFirst = true
    · simp only [hpar, hpf, if_true, List.cons_append, List.append_assoc, List.singleton_append, List.nil_append]
      rw [hp (f + 1 + 1), hc (f + 1) true rest, canvasOptions_stop f _ _ rest h]
    · simp only [hpar, hpf, if_true, Bool.false_eq_true, if_false, List.cons_append, List.append_assoc,
        List.singleton_append, List.nil_append]
      rw [hc (f + 1 + 1) false (tParallel :: rest), hp (f + 1), canvasOptions_stop f _ _ rest h]
  · have hfalse : st.parallel = false := by simpa using hpar
    simp only [hfalse, Bool.false_eq_true, if_false, List.cons_append, List.append_assoc, List.singleton_append,
      List.nil_append]
    rw [hc (f + 1 + 1) false rest, canvasOptions_stop (f + 1) _ _ rest h]

theorem step_grammar : findGrammarKw .canvas (S "step") =
    some ⟨S "step", S "INVALID", S "config_parse_canvas_step", true, true, false, false, false, .none⟩ := by
  decide

/-- one `step` statement -/
theorem step_accepted (env : Env) (s : St) (st : StepStmt) (rest : List Tok) (hne : st.command ≠ [])
    (h : stops rest) :
    parseKeyword .canvas env s (S "step") (.str st.name :: st.opts ++ rest) =
      some ({ (if s.steps.isEmpty then append s (S "step") .invalid else s) with
                steps := s.steps ++ [st.den] }, rest) := by
  unfold parseKeyword
  rw [step_grammar]
  simp only [Bool.not_true, Bool.false_and, Bool.false_eq_true, if_false]
  repeat (first | rw [if_pos rfl] | rw [if_neg (by decide)])
  simp only [List.cons_append]
  rw [canvasOptions_opts st rest _ (by simp [StepStmt.opts]; split <;> (try split) <;> simp <;> omega) h]
  simp only
  cases hc : st.command with
  | nil => exact absurd hc hne
  | cons a as =>
    by_cases he : s.steps.isEmpty = true
    · simp [he, StepStmt.den, hc, append]
    · simp [he, StepStmt.den, hc]

theorem stops_toks (st : StepStmt) (tl : List Tok) : stops (st.toks ++ tl) := by
  simp [StepStmt.toks, stops]

/-- **the step statements become the schedule, in file order** -/
theorem steps_tokens (env : Env) (stmts : List StepStmt) :
    ∀ (s : St) (fuel : Nat), stmts.length < fuel → (∀ st ∈ stmts, st.command ≠ []) →
      ∃ s', parseLoop .canvas env fuel s (stmts.flatMap StepStmt.toks ++ [.eof]) = some s' ∧
        s'.steps = s.steps ++ stmts.map StepStmt.den ∧ s'.rdomain = s.rdomain ∧
        (∀ n, n ≠ S "step" → present s' n = present s n) := by
  induction stmts with
  | nil =>
    intro s fuel hf _
    cases fuel with
    | zero => simp at hf
    | succ f => exact ⟨s, by simp [parseLoop], by simp, rfl, fun _ _ => rfl⟩
  | cons st rest ih =>
    intro s fuel hf hne
    cases fuel with
    | zero => simp at hf
    | succ f =>
      have hstop : stops (rest.flatMap StepStmt.toks ++ [Tok.eof]) := by
        cases rest with
        | nil => simp [stops]
        | cons r rs => simp only [List.flatMap_cons, List.append_assoc]; exact stops_toks r _
      have hacc := step_accepted env s st (rest.flatMap StepStmt.toks ++ [Tok.eof]) (hne st (by simp)) hstop
      rcases ih { (if s.steps.isEmpty then append s (S "step") .invalid else s) with steps := s.steps ++ [st.den] } f
        (by simp at hf; omega) (fun x hx => hne x (by simp [hx])) with ⟨s', h1, h2, h3, h4⟩
      refine ⟨s', ?_, ?_, ?_, ?_⟩
      · simp only [List.flatMap_cons, StepStmt.toks, List.cons_append, List.append_assoc, parseLoop]
        simp only [List.cons_append, List.append_assoc] at hacc
        rw [hacc]
        exact h1
      · rw [h2]; simp
      · rw [h3]; split <;> rfl
      · intro n hn
        rw [h4 n hn]
        by_cases he : s.steps.isEmpty = true
        · have hx : (S "step" == n) = false := by simpa using fun e => hn e.symm
          simp [he, present, append, List.any_append, hx]
        · simp [he, present]

/-- `step "x" command { }` is rejected -/
theorem step_empty_command_rejected (env : Env) (s : St) (name : Bytes) (rest : List Tok) (h : stops rest) :
    parseKeyword .canvas env s (S "step") (.str name :: tCommand :: lbrace :: rbrace :: rest) = none := by
  have := canvasOptions_opts ⟨name, [], false, false⟩ rest (rest.length + 3 + 1) (by omega) h
  simp only [StepStmt.opts, Bool.false_eq_true, if_false, List.map_nil, List.nil_append, List.cons_append] at this
  unfold parseKeyword
  rw [step_grammar]
  simp only [Bool.not_true, Bool.false_and, Bool.false_eq_true, if_false]
  repeat (first | rw [if_pos rfl] | rw [if_neg (by decide)])
  simp only [List.length_cons]
  rw [this]
  simp

/-- `step "x"` without a command is rejected -/
theorem step_without_command_rejected (env : Env) (s : St) (name : Bytes) (rest : List Tok) (h : stops rest) :
    parseKeyword .canvas env s (S "step") (.str name :: rest) = none := by
  have := canvasOptions_stop rest.length none false rest h
  unfold parseKeyword
  rw [step_grammar]
  simp only [Bool.not_true, Bool.false_and, Bool.false_eq_true, if_false]
  repeat (first | rw [if_pos rfl] | rw [if_neg (by decide)])
  rw [this]
  simp

/-! non-vacuity -/
example : (parseLoop .canvas exEnv 9 initSt
    ((([⟨S "a", [S "true"], false, false⟩, ⟨S "b", [S "sh", S "-c", S "x y"], true, true⟩,
       ⟨S "c", [S "make"], true, false⟩] : List StepStmt).flatMap StepStmt.toks) ++ [.eof])).map (·.steps) =
    some [⟨S "a", [S "true"], false⟩, ⟨S "b", [S "sh", S "-c", S "x y"], true⟩, ⟨S "c", [S "make"], true⟩] := by
  decide +kernel

end C08
end Robsd
