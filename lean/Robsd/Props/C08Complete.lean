import Robsd.Props.C08
/-
  C08, completeness at the token level for the value keywords.

  A configuration is a list of statements `keyword value` where the value has
  the shape the grammar table (regenerated from conf*.c on every run) gives the
  keyword: yes/no, a number, a string, a `{ ... }` list, the name of an existing
  user, an existing directory.  For EVERY such list with pairwise distinct
  keywords, in any order:

  * `complete_tokens`   — the parser accepts the token sequence and the state
    holds exactly one variable per statement, with the configured value;
  * `value_configured`  — `config_find` (what `${name}` interpolates) returns
    that value: booleans as 1/0, lists as lists (joined by single spaces by
    `list_value`), strings unchanged;
  * `value_default`     — a keyword that was not given has the grammar's
    default (typed zero value where the table has none);
  * `accepted_iff_required` — the file passes `config_validate` iff every
    required keyword of the mode is among the statements.

  What is not covered here: `regress`/`step` statements with their option
  words, glob keywords, `regress-timeout` (proved separately: `timeout_value`),
  and the lexer (text -> tokens), which the correspondence run samples.
-/
namespace Robsd
namespace C08
open Conf Gen

inductive SVal where
  | bool (b : Bool)
  | int (n : Nat)
  | str (x : Bytes)
  | list (xs : List Bytes)
  | user (x : Bytes)
  | dir (x : Bytes)
deriving Repr

structure Stmt where
  name : Bytes
  val : SVal
deriving Repr

def SVal.toks : SVal → List Tok
  | .bool b => [.bool b]
  | .int n => [.int n]
  | .str x => [.str x]
  | .user x => [.str x]
  | .dir x => [.str x]
  | .list xs => lbrace :: (xs.map Tok.str ++ [rbrace])

def Stmt.toks (st : Stmt) : List Tok := .kw st.name :: st.val.toks

/-- the value a statement gives its variable -/
def SVal.den : SVal → Val
  | .bool b => .int (if b then 1 else 0)
  | .int n => .int n
  | .str x => .str x
  | .user x => .str x
  | .dir x => .str x
  | .list xs => .list xs

/-- the statement has the shape the grammar gives its keyword -/
def Stmt.ok (m : Mode) (env : Env) (st : Stmt) : Prop :=
  ∃ g, findGrammarKw m st.name = some g ∧ g.rep = false ∧
    match st.val with
    | .bool _ => g.fn = S "config_parse_boolean"
    | .int _ => g.fn = S "config_parse_integer"
    | .str _ => g.fn = S "config_parse_string"
    | .list _ => g.fn = S "config_parse_list"
    | .user x => g.fn = S "config_parse_user" ∧ env.userExists x = true
    | .dir x => g.fn = S "config_parse_directory" ∧ x ≠ [] ∧ Interp.DOLLAR ∉ x ∧ env.isDir x = true

/-- the same as a computable check (used for the examples) -/
def Stmt.okB (m : Mode) (env : Env) (st : Stmt) : Bool :=
  match findGrammarKw m st.name with
  | none => false
  | some g => !g.rep &&
    (match st.val with
     | .bool _ => g.fn == S "config_parse_boolean"
     | .int _ => g.fn == S "config_parse_integer"
     | .str _ => g.fn == S "config_parse_string"
     | .list _ => g.fn == S "config_parse_list"
     | .user x => g.fn == S "config_parse_user" && env.userExists x
     | .dir x => g.fn == S "config_parse_directory" && x != [] && !x.contains Interp.DOLLAR && env.isDir x)

theorem ok_of_okB {m : Mode} {env : Env} {st : Stmt} (h : st.okB m env = true) : st.ok m env := by
  unfold Stmt.okB at h
  cases hg : findGrammarKw m st.name with
  | none => rw [hg] at h; cases h
  | some g =>
    rw [hg] at h
    simp only [Bool.and_eq_true, Bool.not_eq_true'] at h
    refine ⟨g, hg, h.1, ?_⟩
    cases hv : st.val <;> rw [hv] at h <;> simp_all

theorem parseListItems_strs (xs : List Bytes) (rest : List Tok) (acc : List Bytes) :
    parseListItems (xs.map Tok.str ++ rbrace :: rest) acc = some (acc ++ xs, rest) := by
  induction xs generalizing acc with
  | nil => simp [parseListItems, rbrace]
  | cons x xs ih =>
    simp only [List.map_cons, List.cons_append, parseListItems]
    rw [ih]; simp

theorem parseList_strs (xs : List Bytes) (rest : List Tok) :
    parseList (lbrace :: (xs.map Tok.str ++ [rbrace]) ++ rest) = some (xs, rest) := by
  simp only [List.cons_append, List.append_assoc, parseList, if_true]
  rw [parseListItems_strs]; simp

/-- a string without `$` interpolates to itself and leaves the state alone -/
theorem interpStr_plain (m : Mode) (env : Env) (early ign : Bool) (s : St) (x : Bytes) (h : Interp.DOLLAR ∉ x) :
    interpStr m env early ign s x = some (x, s) := by
  unfold interpStr
  have hd : interpolateDepthLimit - 1 = 3 + 1 := by decide
  rw [hd, interpS, innerS]
  split
  · rename_i p hp
    rw [Interp.scan_of_lit x h] at hp
    cases hp; rfl
  · rename_i e hp; rw [Interp.scan_of_lit x h] at hp; cases hp
  · rename_i a b c hp; rw [Interp.scan_of_lit x h] at hp; cases hp

theorem checkDir_plain (m : Mode) (env : Env) (s : St) (x : Bytes) (hne : x ≠ []) (h : Interp.DOLLAR ∉ x)
    (hd : env.isDir x = true) : checkDir m env s x = some s := by
  unfold checkDir
  rw [if_neg hne, interpStr_plain m env false false s x h]
  simp [hd]

/-- one statement: accepted, and exactly its variable is appended -/
theorem stmt_accepted (m : Mode) (env : Env) (s : St) (st : Stmt) (rest : List Tok)
    (hok : st.ok m env) (hnp : present s st.name = false) :
    parseKeyword m env s st.name (st.val.toks ++ rest) = some (append s st.name st.val.den, rest) := by
  obtain ⟨g, hg, hrep, hshape⟩ := hok
  unfold parseKeyword
  simp only [hg, hrep, hnp, Bool.not_false, Bool.and_false, Bool.false_eq_true, if_false]
  cases hv : st.val with
  | bool b =>
    rw [hv] at hshape; simp only at hshape
    simp only [hshape, if_true, SVal.toks, SVal.den, List.cons_append, List.nil_append]
  | int n =>
    rw [hv] at hshape; simp only at hshape
    rw [hshape]
    repeat (first | rw [if_pos rfl] | rw [if_neg (by decide)])
    simp only [SVal.toks, SVal.den, List.cons_append, List.nil_append]
  | str x =>
    rw [hv] at hshape; simp only at hshape
    rw [hshape]
    repeat (first | rw [if_pos rfl] | rw [if_neg (by decide)])
    simp only [SVal.toks, SVal.den, List.cons_append, List.nil_append]
  | list xs =>
    rw [hv] at hshape; simp only at hshape
    rw [hshape]
    repeat (first | rw [if_pos rfl] | rw [if_neg (by decide)])
    simp only [SVal.toks, SVal.den]
    rw [parseList_strs]
  | user x =>
    rw [hv] at hshape; simp only at hshape
    rw [hshape.1]
    repeat (first | rw [if_pos rfl] | rw [if_neg (by decide)])
    simp only [SVal.toks, SVal.den, List.cons_append, List.nil_append, hshape.2, if_true]
  | dir x =>
    rw [hv] at hshape; simp only at hshape
    rw [hshape.1]
    repeat (first | rw [if_pos rfl] | rw [if_neg (by decide)])
    simp only [SVal.toks, SVal.den, List.cons_append, List.nil_append]
    rw [checkDir_plain m env s x hshape.2.1 hshape.2.2.1 hshape.2.2.2]
    rfl

def varsOf (stmts : List Stmt) : List Var := stmts.map fun st => ⟨st.name, st.val.den⟩

theorem present_append (s : St) (n : Bytes) (v : Val) (name : Bytes) :
    present (append s n v) name = (present s name || n == name) := by
  simp [present, append, List.any_append]

/-- **completeness (token level)**: every list of well-shaped statements with
    distinct keywords is accepted, whatever the order, and the variables are
    exactly the statements' -/
theorem complete_tokens_from (m : Mode) (env : Env) (stmts : List Stmt) :
    ∀ (s : St) (fuel : Nat), stmts.length < fuel → (∀ st ∈ stmts, st.ok m env) →
      (stmts.map (·.name)).Nodup → (∀ st ∈ stmts, present s st.name = false) →
      parseLoop m env fuel s (stmts.flatMap Stmt.toks ++ [.eof]) =
        some { s with vars := s.vars ++ varsOf stmts } := by
  induction stmts with
  | nil =>
    intro s fuel hf _ _ _
    cases fuel with
    | zero => simp at hf
    | succ f => simp [parseLoop, varsOf]
  | cons st rest ih =>
    intro s fuel hf hok hnd hnp
    cases fuel with
    | zero => simp at hf
    | succ f =>
      simp only [List.flatMap_cons, Stmt.toks, List.cons_append, List.append_assoc, parseLoop]
      rw [stmt_accepted m env s st _ (hok st (by simp)) (hnp st (by simp))]
      simp only
      have hnd' : st.name ∉ rest.map (·.name) ∧ (rest.map (·.name)).Nodup := by
        rw [List.map_cons] at hnd; exact List.nodup_cons.mp hnd
      rw [ih (append s st.name st.val.den) f (by simp at hf; omega) (fun x hx => hok x (by simp [hx]))
        hnd'.2 ?_]
      · simp [append, varsOf]
      · intro x hx
        rw [present_append, hnp x (by simp [hx])]
        simp only [Bool.false_or, beq_eq_false_iff_ne, ne_eq]
        intro e
        exact hnd'.1 (List.mem_map.mpr ⟨x, hx, e.symm⟩)

theorem complete_tokens (m : Mode) (env : Env) (stmts : List Stmt) (hok : ∀ st ∈ stmts, st.ok m env)
    (hnd : (stmts.map (·.name)).Nodup) :
    parseLoop m env (stmts.length + 1) initSt (stmts.flatMap Stmt.toks ++ [.eof]) =
      some { initSt with vars := varsOf stmts } := by
  have := complete_tokens_from m env stmts initSt (stmts.length + 1) (by omega) hok hnd
    (by intro st _; simp [present, initSt])
  simpa [initSt] using this

/-- `${name}` of a configured keyword is the configured value -/
theorem value_configured (m : Mode) (env : Env) (stmts : List Stmt) (hnd : (stmts.map (·.name)).Nodup)
    (st : Stmt) (hst : st ∈ stmts) (steps : List CStep) (rd : Nat) :
    find m env ⟨varsOf stmts, steps, rd⟩ st.name = (some st.val.den, ⟨varsOf stmts, steps, rd⟩) := by
  have hf : (varsOf stmts).find? (fun v => v.name == st.name) = some ⟨st.name, st.val.den⟩ := by
    induction stmts with
    | nil => simp at hst
    | cons x xs ih =>
      have hnd' : x.name ∉ xs.map (·.name) ∧ (xs.map (·.name)).Nodup := by
        rw [List.map_cons] at hnd; exact List.nodup_cons.mp hnd
      rcases List.mem_cons.mp hst with rfl | hx
      · simp [varsOf]
      · have hne : x.name ≠ st.name := fun e => hnd'.1 (List.mem_map.mpr ⟨st, hx, e.symm⟩)
        have hb : (x.name == st.name) = false := by simpa using hne
        simp only [varsOf, List.map_cons, List.find?_cons, hb]
        exact ih hnd'.2 hx
  simp only [find, hf]

/-- a keyword that was not given: the grammar's default -/
theorem value_default (m : Mode) (env : Env) (stmts : List Stmt) (name : Bytes) (g : GEntry)
    (hnot : ∀ st ∈ stmts, st.name ≠ name) (hg : findGrammarInterp m name = some g)
    (hreq : g.req = false) (hfun : g.fun_ = false) (steps : List CStep) (rd : Nat) :
    find m env ⟨varsOf stmts, steps, rd⟩ name = (some (typedDefault env g), ⟨varsOf stmts, steps, rd⟩) := by
  have hf : (varsOf stmts).find? (fun v => v.name == name) = none := by
    rw [List.find?_eq_none]
    intro v hv
    rcases List.mem_map.mp hv with ⟨st, hst, rfl⟩
    simpa using hnot st hst
  simp [find, hf, hg, hreq, hfun]

/-- the file passes `config_validate` iff every required keyword is given -/
theorem accepted_iff_required (m : Mode) (stmts : List Stmt) (steps : List CStep) (rd : Nat) :
    validate m ⟨varsOf stmts, steps, rd⟩ = true ↔
      ∀ g ∈ m.grammar, g.req = true → g.kw ∈ stmts.map (·.name) := by
  simp only [validate, List.all_eq_true, Bool.or_eq_true, Bool.not_eq_true', present, List.any_eq_true,
    beq_iff_eq, varsOf, List.mem_map]
  constructor
  · intro h g hg hreq
    rcases h g hg with h1 | ⟨v, ⟨st, hst, rfl⟩, hv⟩
    · rw [hreq] at h1; cases h1
    · exact ⟨st, hst, hv⟩
  · intro h g hg
    by_cases hreq : g.req = true
    · rcases h g hg hreq with ⟨st, hst, hv⟩
      exact Or.inr ⟨⟨st.name, st.val.den⟩, ⟨st, hst, rfl⟩, hv⟩
    · left; simpa using hreq

/-! ### non-vacuity: a robsd configuration of the fragment, in a scrambled order -/

def exEnv : Env :=
  { isDir := fun p => p == S "/home/robsd" || p == S "/dest", userExists := fun u => u == S "anton",
    glob := fun _ => some none, arch := S "amd64", machine := S "amd64", lock := none, execDir := S "/x",
    ncpu := 4, inet := [], inet6 := [] }

def exStmts : List Stmt :=
  [⟨S "kernel", .str (S "GENERIC")⟩, ⟨S "destdir", .dir (S "/dest")⟩, ⟨S "reboot", .bool true⟩,
   ⟨S "keep", .int 7⟩, ⟨S "cvs-user", .user (S "anton")⟩, ⟨S "skip", .list [S "cvs", S "reboot"]⟩,
   ⟨S "robsddir", .dir (S "/home/robsd")⟩]

example : ∀ st ∈ exStmts, st.ok .robsd exEnv := by
  intro st hst
  apply ok_of_okB
  revert st
  decide

example : (exStmts.map (·.name)).Nodup := by decide
example : validate .robsd ⟨varsOf exStmts, [], 11⟩ = true := by decide
/-- the same through the lexer and the whole `config_parse`, on the text -/
example : (parse .robsd exEnv (S "kernel \"GENERIC\"\ndestdir \"/dest\" reboot yes # c\nkeep 7\ncvs-user \"anton\"\nskip { \"cvs\" \"reboot\" }\nrobsddir \"/home/robsd\"\n")).map (·.vars) =
    some (varsOf exStmts) := by decide +kernel

end C08
end Robsd
