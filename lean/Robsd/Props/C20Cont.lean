import Robsd.Model.Vector
/-
  C20 (vector and buffer part): libks/vector.c behaves as a growable array and
  libks/buffer.c as a growable byte string; capacity and reallocation are
  unobservable, growth preserves contents, the live part always lies inside the
  allocation.

  Vector: `reserve1_items` (growth preserves contents), `reserve1_room`,
  `reserve1_fits` (no spurious failure), `cap_reachable` (len ≤ capacity in
  every reachable state), `vector_refines` (any operation sequence = plain list
  operations), `sort_any` (whatever correct sort `qsort` is, the result is the
  model's).
  Buffer: `reserve_spec`, `buffer_refines` (puts/putc/printf/reset/pop/str/
  read/getline = byte-string operations), `getline_all` (the getline loop yields
  exactly the '\n'-separated lines, no final empty line), `readFd_complete` (for
  EVERY way the kernel splits the stream into read(2) results the whole stream
  is read), `printf_room` (the second vsnprintf pass always has room for the
  text and its NUL).
-/
namespace Robsd
namespace C20Cont
open Grow

/-! ### the doubling loop -/

theorem grow_some {need : Nat} : ∀ {fuel n m : Nat}, grow need fuel n = some m →
    need ≤ m ∧ n ≤ m ∧ (m = n ∨ m < 2 * need) := by
  intro fuel
  induction fuel with
  | zero => intro n m h; simp [grow] at h
  | succ f ih =>
    intro n m h
    unfold grow at h
    by_cases hlt : n < need
    · rw [if_pos hlt] at h
      by_cases hov : n > maxSize / 2
      · rw [if_pos hov] at h; cases h
      · rw [if_neg hov] at h
        have := ih h
        omega
    · rw [if_neg hlt] at h
      cases h
      omega

theorem grow_ok (need : Nat) (hneed : need ≤ maxSize / 2 + 1) :
    ∀ (f n : Nat), 0 < n → maxSize / 2 < n * 2 ^ f → ∃ m, grow need (f + 1) n = some m := by
  intro f
  induction f with
  | zero =>
    intro n _ hbig
    simp only [Nat.pow_zero, Nat.mul_one] at hbig
    unfold grow
    have : ¬ n < need := by omega
    rw [if_neg this]
    exact ⟨n, rfl⟩
  | succ f ih =>
    intro n hn hbig
    unfold grow
    by_cases hlt : n < need
    · rw [if_pos hlt]
      have : ¬ n > maxSize / 2 := by omega
      rw [if_neg this]
      apply ih (n * 2) (by omega)
      rw [Nat.pow_succ] at hbig
      rw [Nat.mul_assoc, Nat.mul_comm 2]
      exact hbig
    · rw [if_neg hlt]; exact ⟨n, rfl⟩

theorem grow_fuel (need n : Nat) (hneed : 2 * need ≤ maxSize) (hn : 0 < n) :
    ∃ m, grow need fuel n = some m := by
  apply grow_ok need (by omega) 64 n hn
  have : 1 * 2 ^ 64 ≤ n * 2 ^ 64 := Nat.mul_le_mul_right _ hn
  have e : (2 : Nat) ^ 64 = 18446744073709551616 := by decide
  simp only [maxSize] at *
  omega

/-! ### vector -/
section vector
open Vec

/-- the three ways vector_reserve1 returns -/
theorem reserve1_cases (p : Params) (s : St) (n : Nat) :
    reserve1 p s n = (s, .err) ∨
    (reserve1 p s n = (s, .ok) ∧ s.items.length + n ≤ s.siz) ∨
    (∃ m, reserve1 p s n = ({ s with siz := m }, .realloc) ∧ ¬ s.items.length + n ≤ s.siz ∧
      grow (s.items.length + n) fuel (if s.siz ≠ 0 then s.siz else 16) = some m) := by
  unfold reserve1
  simp only
  by_cases h1 : s.items.length > maxSize - n
  · rw [if_pos h1]; exact Or.inl rfl
  · rw [if_neg h1]
    by_cases h2 : s.items.length + n ≤ s.siz
    · rw [if_pos h2]; exact Or.inr (Or.inl ⟨rfl, h2⟩)
    · rw [if_neg h2]
      cases hg : grow (s.items.length + n) fuel (if s.siz ≠ 0 then s.siz else 16) with
      | none => exact Or.inl rfl
      | some m =>
        simp only
        by_cases h3 : m > maxSize / p.stride
        · rw [if_pos h3]; exact Or.inl rfl
        · rw [if_neg h3]
          by_cases h4 : m * p.stride > maxSize - p.hdr
          · rw [if_pos h4]; exact Or.inl rfl
          · rw [if_neg h4]; exact Or.inr (Or.inr ⟨m, rfl, h2, rfl⟩)

/-- growth preserves contents -/
theorem reserve1_items (p : Params) (s : St) (n : Nat) : (reserve1 p s n).1.items = s.items := by
  rcases reserve1_cases p s n with h | ⟨h, _⟩ | ⟨m, h, _⟩ <;> rw [h]

/-- after a successful reserve the requested elements fit, and capacity never shrinks -/
theorem reserve1_room (p : Params) (s : St) (n : Nat) (h : (reserve1 p s n).2 ≠ .err) :
    s.items.length + n ≤ (reserve1 p s n).1.siz ∧ s.siz ≤ (reserve1 p s n).1.siz := by
  rcases reserve1_cases p s n with e | ⟨e, h2⟩ | ⟨m, e, h2, hg⟩
  · rw [e] at h; exact absurd rfl h
  · rw [e]; exact ⟨h2, Nat.le_refl _⟩
  · rw [e]
    have := grow_some hg
    refine ⟨this.1, ?_⟩
    simp only
    by_cases hz : s.siz = 0
    · omega
    · rw [if_pos hz] at this; omega

/-- the request is small enough for none of the four overflow exits -/
def Fits (p : Params) (len n : Nat) : Prop :=
  0 < p.stride ∧ (max 16 (2 * (len + n))) * p.stride + p.hdr ≤ maxSize

theorem reserve1_fits (p : Params) (s : St) (n : Nat) (hf : Fits p s.items.length n) :
    (reserve1 p s n).2 ≠ .err := by
  obtain ⟨hs, hb⟩ := hf
  have hmul : max 16 (2 * (s.items.length + n)) ≤ max 16 (2 * (s.items.length + n)) * p.stride :=
    Nat.le_mul_of_pos_right _ hs
  have hneed : 2 * (s.items.length + n) ≤ maxSize := by omega
  unfold reserve1
  simp only
  rw [if_neg (by omega)]
  by_cases h2 : s.items.length + n ≤ s.siz
  · rw [if_pos h2]; simp
  · rw [if_neg h2]
    rcases grow_fuel (s.items.length + n) (if s.siz ≠ 0 then s.siz else 16) hneed (by split <;> omega)
      with ⟨m, hm⟩
    rw [hm]
    have gs := grow_some hm
    have hm16 : m ≤ max 16 (2 * (s.items.length + n)) := by
      rcases gs.2.2 with e | e
      · split at e <;> omega
      · omega
    have hms : m * p.stride ≤ max 16 (2 * (s.items.length + n)) * p.stride := Nat.mul_le_mul_right _ hm16
    have h3 : ¬ m > maxSize / p.stride := by
      have : m ≤ maxSize / p.stride := (Nat.le_div_iff_mul_le hs).mpr (by omega)
      omega
    simp only [if_neg h3]
    rw [if_neg (by omega)]
    simp

/-- the plain-list specification -/
def vspec (l : List Nat) : Op → List Nat × Out
  | .reserve _ => (l, .status false)
  | .alloc v => (l ++ [v], .slot (some (l.length, v)))
  | .calloc => (l ++ [0], .slot (some (l.length, 0)))
  | .pop =>
    match l.getLast? with
    | none => (l, .slot none)
    | some v => (l.dropLast, .slot (some (l.length - 1, v)))
  | .clear => ([], .unit)
  | .sort => (sortAsc l, .unit)
  | .first => (l, .slot (l.head?.map fun v => (0, v)))
  | .last => (l, .slot (l.getLast?.map fun v => (l.length - 1, v)))
  | .length => (l, .len l.length)

def vspecRun : List Nat → List Op → List Nat × List Out
  | l, [] => (l, [])
  | l, op :: ops =>
    let r := vspec l op
    let r' := vspecRun r.1 ops
    (r'.1, r.2 :: r'.2)

def fitsOp (p : Params) (l : List Nat) : Op → Prop
  | .reserve n => Fits p l.length n
  | .alloc _ => Fits p l.length 1
  | .calloc => Fits p l.length 1
  | _ => True

def fitsRun (p : Params) : List Nat → List Op → Prop
  | _, [] => True
  | l, op :: ops => fitsOp p l op ∧ fitsRun p (vspec l op).1 ops

theorem insertAsc_length (x : Nat) (l : List Nat) : (insertAsc x l).length = l.length + 1 := by
  induction l with
  | nil => rfl
  | cons y ys ih => unfold insertAsc; split <;> simp [ih]

theorem sortAsc_length (l : List Nat) : (sortAsc l).length = l.length := by
  induction l with
  | nil => rfl
  | cons x xs ih => simp [sortAsc, insertAsc_length, ih]

theorem vstep_refines (p : Params) (s : St) (op : Op) (hf : fitsOp p s.items op) (hc : s.items.length ≤ s.siz) :
    (step p s op).2 = (vspec s.items op).2 ∧ (step p s op).1.items = (vspec s.items op).1 ∧
    (step p s op).1.items.length ≤ (step p s op).1.siz := by
  cases op with
  | reserve n =>
    have h := reserve1_fits p s n hf
    have hr := reserve1_room p s n h
    refine ⟨?_, reserve1_items p s n, ?_⟩
    · simp only [step, vspec]
      cases hres : (reserve1 p s n).2 <;> simp_all
    · simp only [step]; rw [reserve1_items]; omega
  | alloc v =>
    have h := reserve1_fits p s 1 hf
    have hr := reserve1_room p s 1 h
    have hne : ((reserve1 p s 1).2 == Res.err) = false := by
      cases hres : (reserve1 p s 1).2 <;> simp_all
    simp only [step, vspec, hne, Bool.false_eq_true, if_false, reserve1_items, List.length_append,
      List.length_cons, List.length_nil]
    exact ⟨trivial, trivial, by omega⟩
  | calloc =>
    have h := reserve1_fits p s 1 hf
    have hr := reserve1_room p s 1 h
    have hne : ((reserve1 p s 1).2 == Res.err) = false := by
      cases hres : (reserve1 p s 1).2 <;> simp_all
    simp only [step, vspec, hne, Bool.false_eq_true, if_false, reserve1_items, List.length_append,
      List.length_cons, List.length_nil]
    exact ⟨trivial, trivial, by omega⟩
  | pop =>
    simp only [step, vspec]
    cases hl : s.items.getLast? with
    | none => exact ⟨rfl, rfl, hc⟩
    | some v => refine ⟨rfl, rfl, ?_⟩; simp; omega
  | clear => exact ⟨rfl, rfl, by simp [step]⟩
  | sort => exact ⟨rfl, rfl, by simp [step, sortAsc_length]; exact hc⟩
  | first => exact ⟨rfl, rfl, hc⟩
  | last => exact ⟨rfl, rfl, hc⟩
  | length => exact ⟨rfl, rfl, hc⟩

/-- **C20, vector**: any operation sequence behaves as the plain list; the
    capacity and every reallocation are unobservable; the live elements always
    lie inside the allocation (`len ≤ vc_siz`). -/
theorem vector_refines (p : Params) (ops : List Op) :
    ∀ (s : St), s.items.length ≤ s.siz → fitsRun p s.items ops →
      (run p s ops).2 = (vspecRun s.items ops).2 ∧ (run p s ops).1.items = (vspecRun s.items ops).1 ∧
      (run p s ops).1.items.length ≤ (run p s ops).1.siz := by
  induction ops with
  | nil => intro s hc _; exact ⟨rfl, rfl, hc⟩
  | cons op ops ih =>
    intro s hc hf
    have hs := vstep_refines p s op hf.1 hc
    have := ih (step p s op).1 hs.2.2 (by rw [hs.2.1]; exact hf.2)
    simp only [run, vspecRun]
    rw [hs.2.1] at this
    exact ⟨by rw [hs.1, this.1], this.2.1, this.2.2⟩

theorem cap_reachable (p : Params) (ops : List Op) (hf : fitsRun p [] ops) :
    (run p {} ops).1.items.length ≤ (run p {} ops).1.siz :=
  (vector_refines p ops {} (by simp) hf).2.2

/-- a failed reserve leaves the vector as it was -/
theorem reserve1_err_unchanged (p : Params) (s : St) (n : Nat) (h : (reserve1 p s n).2 = .err) :
    (reserve1 p s n).1 = s := by
  rcases reserve1_cases p s n with e | ⟨e, _⟩ | ⟨m, e, _⟩
  · rw [e]
  · rw [e]
  · rw [e] at h; cases h

/-! sorting: the model's result is the only sorted permutation, so it does not
    matter which algorithm `qsort` is -/

theorem insertAsc_perm (x : Nat) (l : List Nat) : (insertAsc x l).Perm (x :: l) := by
  induction l with
  | nil => exact List.Perm.refl _
  | cons y ys ih =>
    unfold insertAsc
    split
    · exact List.Perm.refl _
    · exact (List.Perm.cons y ih).trans (List.Perm.swap x y ys)

theorem sortAsc_perm (l : List Nat) : (sortAsc l).Perm l := by
  induction l with
  | nil => exact List.Perm.refl _
  | cons x xs ih => exact (insertAsc_perm x _).trans (List.Perm.cons x ih)

theorem insertAsc_sorted (x : Nat) (l : List Nat) (h : l.Pairwise (· ≤ ·)) :
    (insertAsc x l).Pairwise (· ≤ ·) := by
  induction l with
  | nil => simp [insertAsc]
  | cons y ys ih =>
    unfold insertAsc
    rw [List.pairwise_cons] at h
    split
    · rename_i hxy
      rw [List.pairwise_cons]
      refine ⟨?_, List.pairwise_cons.mpr h⟩
      intro z hz
      rcases List.mem_cons.mp hz with rfl | hz'
      · exact hxy
      · exact Nat.le_trans hxy (h.1 z hz')
    · rename_i hxy
      rw [List.pairwise_cons]
      refine ⟨?_, ih h.2⟩
      intro z hz
      have := (insertAsc_perm x ys).mem_iff.mp hz
      rcases List.mem_cons.mp this with rfl | hz'
      · omega
      · exact h.1 z hz'

theorem sortAsc_sorted (l : List Nat) : (sortAsc l).Pairwise (· ≤ ·) := by
  induction l with
  | nil => simp [sortAsc]
  | cons x xs ih => exact insertAsc_sorted x _ ih

theorem sort_any (srt : List Nat → List Nat) (hp : ∀ l, (srt l).Perm l) (hs : ∀ l, (srt l).Pairwise (· ≤ ·))
    (l : List Nat) : srt l = sortAsc l := by
  apply List.Perm.eq_of_pairwise (le := fun a b => a ≤ b)
  · intro a b _ _ hab hba; exact Nat.le_antisymm hab hba
  · exact hs l
  · exact sortAsc_sorted l
  · exact (hp l).trans (sortAsc_perm l).symm

end vector

/-! ### buffer -/
section buffer
open Buf

theorem reserve_spec (s s' : St) (n : Nat) (h : reserve s n = some s') :
    s'.bytes = s.bytes ∧ s.bytes.length + n ≤ s'.siz ∧ s.siz ≤ s'.siz ∧ 0 < s'.siz ∧
    (s'.siz = s.siz ∨ (s.siz = 0 ∧ s'.siz ≤ max 16 (2 * (s.bytes.length + n))) ∨
      (0 < s.siz ∧ s.siz < s.bytes.length + n ∧ s'.siz < 2 * (s.bytes.length + n))) := by
  unfold reserve at h
  simp only at h
  by_cases h1 : n > maxSize - s.bytes.length
  · rw [if_pos h1] at h; cases h
  · rw [if_neg h1] at h
    by_cases h2 : s.siz > 0 ∧ s.siz ≥ s.bytes.length + n
    · rw [if_pos h2] at h
      cases h
      exact ⟨rfl, h2.2, Nat.le_refl _, h2.1, Or.inl rfl⟩
    · rw [if_neg h2] at h
      cases hg : grow (s.bytes.length + n) fuel (if s.siz ≠ 0 then s.siz else 16) with
      | none => rw [hg] at h; cases h
      | some m =>
        rw [hg] at h
        simp only [Option.map_some, Option.some.injEq] at h
        subst h
        have := grow_some hg
        simp only
        by_cases hz : s.siz = 0
        · rw [if_neg (by simpa using hz)] at this
          refine ⟨trivial, this.1, by omega, by omega, Or.inr (Or.inl ⟨hz, by omega⟩)⟩
        · rw [if_pos hz] at this
          refine ⟨trivial, this.1, by omega, by omega, Or.inr (Or.inr ⟨by omega, by omega, by omega⟩)⟩

theorem reserve_fits (s : St) (n : Nat) (h : 2 * (s.bytes.length + n) ≤ maxSize) :
    ∃ s', reserve s n = some s' := by
  unfold reserve
  simp only
  rw [if_neg (by omega)]
  split
  · exact ⟨s, rfl⟩
  · rcases grow_fuel (s.bytes.length + n) (if s.siz ≠ 0 then s.siz else 16) h (by split <;> omega)
      with ⟨m, hm⟩
    rw [hm]; exact ⟨_, rfl⟩

/-- the second vsnprintf pass of buffer_vprintf has room for the text and its NUL -/
theorem printf_room (s s' : St) (out : Bytes) (h : reserve s (out.length + 1) = some s') :
    out.length < s'.siz - s'.bytes.length := by
  have := reserve_spec s s' _ h
  rw [this.1]; omega

/-! #### getline -/

theorem rawLinesAux_eq (s cur : Bytes) :
    Bytes.rawLinesAux s cur =
      if s = [] then (if cur.isEmpty then [] else [cur])
      else if (s.takeWhile (· ≠ 10)).length < s.length then
        (cur ++ s.takeWhile (· ≠ 10)) :: Bytes.rawLinesAux (s.drop ((s.takeWhile (· ≠ 10)).length + 1)) []
      else [cur ++ s.takeWhile (· ≠ 10)] := by
  induction s generalizing cur with
  | nil => simp [Bytes.rawLinesAux]
  | cons c rest ih =>
    by_cases hc : c = 10
    · subst hc
      simp [Bytes.rawLinesAux]
    · have e : (c :: rest).takeWhile (· ≠ 10) = c :: rest.takeWhile (· ≠ 10) := by
        simp [hc]
      rw [e]
      simp only [Bytes.rawLinesAux, hc, if_false, List.length_cons, List.drop_succ_cons, reduceCtorEq]
      rw [ih (cur ++ [c])]
      by_cases hr : rest = []
      · subst hr; simp
      · simp only [hr, if_false, List.append_assoc, List.singleton_append, Nat.add_lt_add_iff_right]

theorem getline_all_aux (s : St) : ∀ (fuel off : Nat) (a : Bool), s.bytes.length < off + fuel →
    getlineAll fuel s ⟨a, off⟩ = Bytes.rawLines (s.bytes.drop off) := by
  intro fuel
  induction fuel with
  | zero =>
    intro off a h
    simp only [Nat.add_zero] at h
    rw [List.drop_eq_nil_of_le (by omega)]
    simp [getlineAll, Bytes.rawLines, Bytes.rawLinesAux]
  | succ f ih =>
    intro off a h
    by_cases hoff : off ≥ s.bytes.length
    · rw [List.drop_eq_nil_of_le hoff]
      simp [getlineAll, getline, hoff, Bytes.rawLines, Bytes.rawLinesAux]
    · have hd : s.bytes.drop off ≠ [] := by
        intro e
        have := congrArg List.length e
        simp at this; omega
      have htl : ((s.bytes.drop off).takeWhile (· ≠ 10)).length ≤ (s.bytes.drop off).length :=
        (List.takeWhile_sublist _).length_le
      have hdl : (s.bytes.drop off).length = s.bytes.length - off := by simp
      simp only [getlineAll, getline, hoff, if_false]
      rw [ih _ true (by omega)]
      unfold Bytes.rawLines
      rw [rawLinesAux_eq (s.bytes.drop off) []]
      simp only [hd, if_false, List.nil_append]
      split
      · rw [List.drop_drop]
        congr 2 <;> omega
      · rename_i hnl
        have e : s.bytes.drop (off + ((s.bytes.drop off).takeWhile (· ≠ 10)).length + 1) = [] :=
          List.drop_eq_nil_of_le (by omega)
        rw [e]; simp [Bytes.rawLinesAux]

/-- the getline loop yields exactly the '\n'-separated lines of the buffer:
    every byte in exactly one line, in order, no final empty line -/
theorem getline_all (s : St) : getlineAll (s.bytes.length + 1) s {} = Bytes.rawLines s.bytes := by
  have := getline_all_aux s (s.bytes.length + 1) 0 false (by omega)
  simpa using this

/-! #### reading a descriptor -/

theorem readFd_complete_aux (B T : Nat) (hB : 4 * T + 2 ≤ B) (hM : 2 * (T + B) ≤ maxSize) :
    ∀ (fuel : Nat) (s : St) (rem : Bytes) (cs : List Nat),
      rem.length < fuel → 2 ≤ s.siz → s.bytes.length < s.siz → s.siz ≤ B → s.bytes.length + rem.length = T →
      ∃ s', readFd fuel s rem cs = some s' ∧ s'.bytes = s.bytes ++ rem := by
  intro fuel
  induction fuel with
  | zero => intro s rem cs h; omega
  | succ f ih =>
    intro s rem cs hf h2 hroom hsB hT
    unfold readFd
    simp only
    have hwpos : 0 < wantOf cs (s.siz - s.bytes.length) := by
      unfold wantOf
      split <;> omega
    generalize wantOf cs (s.siz - s.bytes.length) = want at hwpos ⊢
    by_cases hrem : rem.length = 0
    · have : rem = [] := List.eq_nil_of_length_eq_zero hrem
      subst this
      simp
    · have hn : min want (min (s.siz - s.bytes.length) rem.length) ≠ 0 := by omega
      rw [if_neg hn]
      generalize hnn : min want (min (s.siz - s.bytes.length) rem.length) = n at hn
      have hnle : n ≤ rem.length := by omega
      have hlen1 : (s.bytes ++ rem.take n).length = s.bytes.length + n := by
        simp [List.length_take]; omega
      rcases reserve_fits { s with bytes := s.bytes ++ rem.take n } (s.siz / 2)
        (by simp only [hlen1]; omega) with ⟨s2, hs2⟩
      simp only [hs2]
      have sp := reserve_spec _ s2 _ hs2
      simp only [hlen1] at sp
      rcases ih s2 (rem.drop n) cs.tail (by simp; omega) (by omega) (by rw [sp.1, hlen1]; omega)
        (by rcases sp.2.2.2.2 with e | e | e <;> omega)
        (by rw [sp.1, hlen1]; simp; omega) with ⟨s', h1, h2'⟩
      refine ⟨s', h1, ?_⟩
      rw [h2', sp.1, List.append_assoc, List.take_append_drop]

/-- **whatever the kernel returns from each read(2)** (any positive number of
    bytes up to what was asked for), reading a descriptor into a buffer that
    has room yields the buffer's bytes followed by the whole stream -/
theorem readFd_complete (s : St) (file : Bytes) (cs : List Nat) (h2 : 2 ≤ s.siz)
    (hroom : s.bytes.length < s.siz)
    (hsmall : 10 * (s.siz + s.bytes.length + file.length) + 10 ≤ maxSize) :
    ∃ s', readFd (file.length + 1) s file cs = some s' ∧ s'.bytes = s.bytes ++ file :=
  readFd_complete_aux (max s.siz (4 * (s.bytes.length + file.length) + 2)) (s.bytes.length + file.length)
    (by omega) (by omega) _ s file cs (by omega) h2 hroom (by omega) rfl

/-- buffer_read_fd_impl on a buffer WITHOUT room (possible only through the
    public `_impl` entry, never through buffer_read/buffer_read_fd, which
    allocate 8 KiB first) reports success having read nothing -/
example : readFd 5 ⟨[1, 2], 2⟩ [7, 8, 9] [] = some ⟨[1, 2], 2⟩ := by decide

/-! #### refinement of operation sequences -/

def bspec (b : Bytes) : Op → Bytes × Out
  | .puts x => (b ++ x, .status false)
  | .putc c => (b ++ [c], .status false)
  | .printf o => (b ++ o, .status false)
  | .reset => ([], .unit)
  | .pop n => (b.take (b.length - min n b.length), .n (min n b.length))
  | .str => ([], .bytes (some (if b = [] ∨ b.getLast? ≠ some 0 then b ++ [0] else b)))
  | .read f _ => (b ++ f, .status false)
  | .lines => (b, .lines (Bytes.rawLines b))
  | .len => (b, .n b.length)

def bspecRun : Bytes → List Op → Bytes × List Out
  | b, [] => (b, [])
  | b, op :: ops =>
    let r := bspec b op
    let r' := bspecRun r.1 ops
    (r'.1, r.2 :: r'.2)

/-- sizes stay far from SIZE_MAX, and a descriptor is read into a buffer that
    has room (what buffer_alloc(8192) provides) -/
def smallOp (s : St) : Op → Prop
  | .puts x => 2 * (s.bytes.length + x.length) ≤ maxSize
  | .putc _ => 2 * (s.bytes.length + 1) ≤ maxSize
  | .printf o => 2 * (s.bytes.length + o.length + 1) ≤ maxSize
  | .str => 2 * (s.bytes.length + 1) ≤ maxSize
  | .read f _ => 2 ≤ s.siz ∧ s.bytes.length < s.siz ∧ 10 * (s.siz + s.bytes.length + f.length) + 10 ≤ maxSize
  | _ => True

def smallRun : St → List Op → Prop
  | _, [] => True
  | s, op :: ops => smallOp s op ∧ smallRun (step s op).1 ops

theorem puts_spec (s : St) (x : Bytes) (h : 2 * (s.bytes.length + x.length) ≤ maxSize) :
    (puts s x).2 = false ∧ (puts s x).1.bytes = s.bytes ++ x ∧ (puts s x).1.bytes.length ≤ (puts s x).1.siz ∨
    (x = [] ∧ puts s x = (s, false)) := by
  unfold puts
  by_cases hx : x = []
  · right; simp [hx]
  · left
    rw [if_neg hx]
    rcases reserve_fits s x.length h with ⟨s', hs'⟩
    have sp := reserve_spec s s' _ hs'
    simp only [hs', sp.1, List.length_append]
    exact ⟨trivial, trivial, sp.2.1⟩

theorem bstep_refines (s : St) (op : Op) (hs : smallOp s op) (hc : s.bytes.length ≤ s.siz) :
    (step s op).2 = (bspec s.bytes op).2 ∧ (step s op).1.bytes = (bspec s.bytes op).1 ∧
    (step s op).1.bytes.length ≤ (step s op).1.siz := by
  cases op with
  | puts x =>
    rcases puts_spec s x hs with ⟨h1, h2, h3⟩ | ⟨hx, h2⟩
    · exact ⟨by simp [step, bspec, h1], by simp [step, bspec, h2], by simpa [step] using h3⟩
    · subst hx; simp only [step, bspec, h2, List.append_nil]; exact ⟨trivial, trivial, hc⟩
  | putc c =>
    rcases puts_spec s [c] (by simpa [smallOp] using hs) with ⟨h1, h2, h3⟩ | ⟨hx, _⟩
    · exact ⟨by simp [step, bspec, putc, h1], by simp [step, bspec, putc, h2], by simpa [step, putc] using h3⟩
    · cases hx
  | printf o =>
    simp only [smallOp] at hs
    rcases reserve_fits s (o.length + 1) (by omega) with ⟨s', hs'⟩
    have sp := reserve_spec s s' _ hs'
    have room := printf_room s s' o hs'
    simp only [step, bspec, printf, hs']
    rw [if_neg (by omega)]
    simp only [sp.1, List.length_append]
    refine ⟨trivial, trivial, ?_⟩
    rw [sp.1] at room; omega
  | reset => exact ⟨rfl, rfl, by simp [step, reset]⟩
  | pop n =>
    refine ⟨rfl, rfl, ?_⟩
    simp only [step, pop, List.length_take]; omega
  | str =>
    simp only [smallOp] at hs
    simp only [step, bspec, str]
    by_cases hcnd : s.bytes = [] ∨ s.bytes.getLast? ≠ some 0
    · rw [if_pos hcnd, if_pos hcnd]
      rcases puts_spec s [0] (by simpa using hs) with ⟨h1, h2, _⟩ | ⟨hx, _⟩
      · simp only [putc, h1, Bool.false_eq_true, if_false, h2]
        exact ⟨trivial, trivial, by simp⟩
      · cases hx
    · rw [if_neg hcnd, if_neg hcnd]
      exact ⟨rfl, rfl, by simp⟩
  | read f cs =>
    obtain ⟨h2, hroom, hsm⟩ := hs
    rcases readFd_complete s f cs h2 hroom hsm with ⟨s', h1, h2'⟩
    simp only [step, bspec, h1, h2']
    refine ⟨trivial, trivial, ?_⟩
    -- capacity after the read: from the loop invariant
    suffices ∀ (fuel : Nat) (s : St) (rem : Bytes) (cs : List Nat) (s' : St), s.bytes.length ≤ s.siz →
        readFd fuel s rem cs = some s' → s'.bytes.length ≤ s'.siz by
      have := this _ s f cs s' hc h1
      rw [h2'] at this; exact this
    intro fuel
    induction fuel with
    | zero => intro s rem cs s' _ h; simp [readFd] at h
    | succ k ih =>
      intro s rem cs s' hcs h
      unfold readFd at h
      simp only at h
      split at h
      · cases h; exact hcs
      · split at h
        · cases h
        · rename_i s2 hs2
          have sp := reserve_spec _ s2 _ hs2
          apply ih s2 _ _ s' _ h
          rw [sp.1]; omega
  | lines =>
    refine ⟨?_, rfl, hc⟩
    simp only [step, bspec, getline_all]
  | len => exact ⟨rfl, rfl, hc⟩

/-- **C20, buffer**: any operation sequence behaves as the plain byte string;
    capacity and reallocation are unobservable; `bf_len ≤ bf_siz` throughout. -/
theorem buffer_refines (ops : List Op) :
    ∀ (s : St), s.bytes.length ≤ s.siz → smallRun s ops →
      (run s ops).2 = (bspecRun s.bytes ops).2 ∧ (run s ops).1.bytes = (bspecRun s.bytes ops).1 ∧
      (run s ops).1.bytes.length ≤ (run s ops).1.siz := by
  induction ops with
  | nil => intro s hc _; exact ⟨rfl, rfl, hc⟩
  | cons op ops ih =>
    intro s hc hsm
    have hs := bstep_refines s op hsm.1 hc
    have := ih (step s op).1 hs.2.2 hsm.2
    simp only [run, bspecRun]
    rw [hs.2.1] at this
    exact ⟨by rw [hs.1, this.1], this.2.1, this.2.2⟩

/-- buffer_cmp is equality of contents -/
theorem cmp_iff (a b : St) : cmpNe a b = false ↔ a.bytes = b.bytes := by
  unfold cmpNe
  by_cases hl : a.bytes.length = b.bytes.length
  · rw [if_neg (by simpa using hl)]
    by_cases h0 : a.bytes.length = 0
    · rw [if_pos h0]
      have ha : a.bytes = [] := List.eq_nil_of_length_eq_zero h0
      have hb : b.bytes = [] := List.eq_nil_of_length_eq_zero (by omega)
      simp [ha, hb]
    · rw [if_neg h0]; simp
  · rw [if_pos hl]
    constructor
    · intro h; cases h
    · intro h; rw [h] at hl; exact absurd rfl hl

end buffer

/-! ### non-vacuity -/

example : Vec.step ⟨8, 56⟩ ⟨List.range 16, 16⟩ (.alloc 99) =
    (⟨List.range 16 ++ [99], 32⟩, .slot (some (16, 99))) := by decide
example : fitsRun ⟨8, 56⟩ [] [.reserve 40, .alloc 5, .alloc 3, .sort, .pop, .calloc, .last] := by
  simp [fitsRun, fitsOp, Fits, vspec, maxSize, Vec.sortAsc, Vec.insertAsc]
example : (Vec.run ⟨8, 56⟩ {} [.reserve 40, .alloc 5, .alloc 3, .sort, .pop, .calloc, .last]).1 = ⟨[3, 0], 64⟩ := by
  decide
example : (Buf.step ⟨[97, 10, 98, 10, 10, 99], 16⟩ .lines).2 = .lines [[97], [98], [], [99]] := by decide
example : (Buf.readFd 6 ⟨[], 2⟩ [1, 2, 3, 4, 5] [1, 9, 1]).map (·.bytes) = some [1, 2, 3, 4, 5] := by decide

end C20Cont
end Robsd
