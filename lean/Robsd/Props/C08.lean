import Robsd.Model.Conf
/-
  C08: configuration is accepted and valued as the grammar documents.

  Model: Robsd/Model/Conf.lean; the grammar tables, the token table and the
  documented keywords are regenerated from conf*.c, conf-token.h and the *.conf.5
  manuals on every run (Gen/Grammar.lean).

  Proved here: the rejection rules (unknown keyword, keyword of another mode,
  non-repeatable keyword given twice, required keyword missing, value of the
  wrong type, timeout out of range), the value rules (booleans 1/0, lists
  joined by single spaces, timeouts in seconds), the rdomain cycle, and the
  exact difference between the documented and the accepted keywords.
  Completeness (every statement list of the value-keyword fragment is accepted,
  in any order, with every variable at its configured value or default) is
  proved at the token level in Props/C08Complete.lean and from the text (plain
  layout) in Props/C08Lex.lean.  NOT proved (kept as the correspondence's job,
  see DESIGN.md): the same for regress/step statements with option words.
-/
namespace Robsd
namespace C08
open Conf Gen

/-! ### rejections -/

/-- a keyword the mode's grammar has no parser for is rejected, whatever follows -/
theorem unknown_keyword_rejected (m : Mode) (env : Env) (s : St) (name : Bytes) (ts : List Tok)
    (h : findGrammarKw m name = none) : parseKeyword m env s name ts = none := by
  unfold parseKeyword; rw [h]

/-- ... and so is the whole file -/
theorem unknown_keyword_rejects_file (m : Mode) (env : Env) (s : St) (name : Bytes) (rest : List Tok) (fuel : Nat)
    (h : findGrammarKw m name = none) : parseLoop m env (fuel + 1) s (.kw name :: rest) = none := by
  simp only [parseLoop, unknown_keyword_rejected m env s name rest h]

/-- keywords of another mode are unknown keywords: e.g. `destdir` outside robsd, `regress` outside robsd-regress -/
theorem foreign_mode_keyword_rejected :
    findGrammarKw .cross (S "destdir") = none ∧ findGrammarKw .ports (S "destdir") = none ∧
    findGrammarKw .regress (S "destdir") = none ∧ findGrammarKw .canvas (S "destdir") = none ∧
    findGrammarKw .robsd (S "regress") = none ∧ findGrammarKw .canvas (S "regress") = none ∧
    findGrammarKw .robsd (S "canvas-name") = none ∧ findGrammarKw .regress (S "ports") = none ∧
    findGrammarKw .robsd (S "crossdir") = none ∧ findGrammarKw .canvas (S "kernel") = none := by decide

/-- variables that only have a default cannot be set from the file -/
theorem computed_variables_not_settable (m : Mode) :
    findGrammarKw m (S "builddir") = none ∧ findGrammarKw m (S "arch") = none ∧ findGrammarKw m (S "ncpu") = none ∧
    findGrammarKw m (S "exec-dir") = none ∧ findGrammarKw m (S "rdomain") = none := by
  cases m <;> decide

/-- a non-repeatable keyword given a second time is rejected -/
theorem duplicate_rejected (m : Mode) (env : Env) (s : St) (name : Bytes) (ts : List Tok) (g : GEntry)
    (hg : findGrammarKw m name = some g) (hrep : g.rep = false) (hp : present s name = true) :
    parseKeyword m env s name ts = none := by
  unfold parseKeyword; rw [hg]; simp [hrep, hp]

/-- a required keyword that never appeared makes the file rejected -/
theorem missing_required_rejected (m : Mode) (s : St) (g : GEntry) (hg : g ∈ m.grammar) (hreq : g.req = true)
    (hp : present s g.kw = false) : validate m s = false := by
  unfold validate
  rw [List.all_eq_false]
  exact ⟨g, hg, by simp [hreq, hp]⟩

theorem not_validated_rejected (m : Mode) (env : Env) (file : Bytes) (toks : List Tok) (err : Bool) (s : St)
    (hl : lex m file = some (toks, err)) (hp : parseLoop m env (toks.length + 1) initSt toks = some s)
    (hv : validate m s = false) : parse m env file = none := by
  unfold parse; rw [hl]; simp only [hp, hv]; simp

/-- a lexer diagnostic (integer too big, empty string) rejects the file -/
theorem lexer_error_rejected (m : Mode) (env : Env) (file : Bytes) (toks : List Tok)
    (hl : lex m file = some (toks, true)) : parse m env file = none := by
  unfold parse; rw [hl]
  simp only [Bool.true_or, if_true]
  split <;> rfl

/-- which keywords are required, per mode (read off the generated tables) -/
theorem required_keywords :
    ((Mode.robsd.grammar.filter (·.req)).map (·.kw)) = [S "destdir", S "robsddir"] ∧
    ((Mode.cross.grammar.filter (·.req)).map (·.kw)) = [S "crossdir", S "robsddir"] ∧
    ((Mode.ports.grammar.filter (·.req)).map (·.kw)) = [S "chroot", S "ports", S "ports-user", S "robsddir"] ∧
    ((Mode.regress.grammar.filter (·.req)).map (·.kw)) = [S "regress", S "robsddir"] ∧
    ((Mode.canvas.grammar.filter (·.req)).map (·.kw)) = [S "canvas-name", S "canvas-dir", S "step", S "robsddir"] := by decide

theorem fn_ne : S "config_parse_integer" ≠ S "config_parse_boolean" ∧ S "config_parse_string" ≠ S "config_parse_boolean" ∧
    S "config_parse_string" ≠ S "config_parse_integer" := by decide

/-- what a boolean / integer / string keyword accepts: exactly one token of its type -/
theorem boolean_keyword (m : Mode) (env : Env) (s : St) (name : Bytes) (ts : List Tok) (g : GEntry)
    (hg : findGrammarKw m name = some g) (hfn : g.fn = S "config_parse_boolean") (hnp : (!g.rep && present s name) = false) :
    parseKeyword m env s name ts =
      (match ts with
       | .bool b :: rest => some (append s name (.int (if b then 1 else 0)), rest)
       | _ => none) := by
  unfold parseKeyword
  simp only [hg, hnp, Bool.false_eq_true, if_false, hfn, if_true]
  rfl

theorem integer_keyword (m : Mode) (env : Env) (s : St) (name : Bytes) (ts : List Tok) (g : GEntry)
    (hg : findGrammarKw m name = some g) (hfn : g.fn = S "config_parse_integer") (hnp : (!g.rep && present s name) = false) :
    parseKeyword m env s name ts =
      (match ts with
       | .int n :: rest => some (append s name (.int n), rest)
       | _ => none) := by
  unfold parseKeyword
  simp only [hg, hnp, Bool.false_eq_true, if_false, hfn, fn_ne.1, if_true]
  rfl

theorem string_keyword (m : Mode) (env : Env) (s : St) (name : Bytes) (ts : List Tok) (g : GEntry)
    (hg : findGrammarKw m name = some g) (hfn : g.fn = S "config_parse_string") (hnp : (!g.rep && present s name) = false) :
    parseKeyword m env s name ts =
      (match ts with
       | .str x :: rest => some (append s name (.str x), rest)
       | _ => none) := by
  unfold parseKeyword
  simp only [hg, hnp, Bool.false_eq_true, if_false, hfn, fn_ne.2.1, fn_ne.2.2, if_true]
  rfl

/-- hence a value of the wrong type is rejected -/
theorem wrong_type_rejected (m : Mode) (env : Env) (s : St) (name : Bytes) (rest : List Tok) (g : GEntry) (x : Bytes) (n : Int) (b : Bool)
    (hg : findGrammarKw m name = some g) (hnp : (!g.rep && present s name) = false) :
    (g.fn = S "config_parse_boolean" → parseKeyword m env s name (.str x :: rest) = none ∧ parseKeyword m env s name (.int n :: rest) = none) ∧
    (g.fn = S "config_parse_integer" → parseKeyword m env s name (.str x :: rest) = none ∧ parseKeyword m env s name (.bool b :: rest) = none) ∧
    (g.fn = S "config_parse_string" → parseKeyword m env s name (.int n :: rest) = none ∧ parseKeyword m env s name (.bool b :: rest) = none) := by
  refine ⟨fun h => ?_, fun h => ?_, fun h => ?_⟩
  · exact ⟨by rw [boolean_keyword m env s name _ g hg h hnp], by rw [boolean_keyword m env s name _ g hg h hnp]⟩
  · exact ⟨by rw [integer_keyword m env s name _ g hg h hnp], by rw [integer_keyword m env s name _ g hg h hnp]⟩
  · exact ⟨by rw [string_keyword m env s name _ g hg h hnp], by rw [string_keyword m env s name _ g hg h hnp]⟩

/-- which parser each keyword of the robsd mode has (read off the generated table) -/
theorem robsd_value_types :
    (Mode.robsd.grammar.filter (fun g => g.fn == S "config_parse_boolean")).map (·.kw) = [S "reboot", S "keep-attic"] ∧
    (Mode.robsd.grammar.filter (fun g => g.fn == S "config_parse_integer")).map (·.kw) = [S "keep", S "stat-interval"] ∧
    (Mode.robsd.grammar.filter (fun g => g.fn == S "config_parse_string")).map (·.kw) =
      [S "kernel", S "cvs-root", S "distrib-host", S "distrib-path", S "distrib-signify"] := by decide

/-! ### values -/

/-- booleans are stored as 1/0 (see `boolean_keyword`) -/
theorem boolean_value (b : Bool) : fmtVal (.int (if b then 1 else 0)) = some (if b then [49] else [48]) := by
  cases b <;> decide

/-- lists interpolate to their members joined by single spaces -/
theorem list_value (l : List Bytes) : fmtVal (.list l) = some (joinSp l) := rfl
theorem joinSp_cons (x y : Bytes) (l : List Bytes) : joinSp (x :: y :: l) = x ++ 32 :: joinSp (y :: l) := rfl

/-- timeouts are converted to seconds; too large ones are rejected -/
theorem timeout_value (env : Env) (s : St) (n : Nat) (rest : List Tok) (u : Bytes) (g : GEntry)
    (hg : findGrammarKw .regress (S "regress-timeout") = some g) (hfn : g.fn = S "config_parse_regress_timeout")
    (hnp : (!g.rep && present s (S "regress-timeout")) = false) (k : Int)
    (hk : k = (if u = S "SECONDS" then 1 else if u = S "MINUTES" then 60 else if u = S "HOURS" then 3600 else 0)) :
    parseKeyword .regress env s (S "regress-timeout") (.int n :: .typ u :: rest) =
      (if k = 0 then none else if (intMax : Int) < k * (n : Int) then none
       else some (append s (S "regress-timeout") (.int (k * n)), rest)) := by
  have hne : ∀ t, t ∈ [S "config_parse_boolean", S "config_parse_integer", S "config_parse_string", S "config_parse_list", S "config_parse_user",
      S "config_parse_directory", S "config_parse_glob", S "config_parse_canvas_directory", S "config_parse_canvas_step", S "config_parse_regress",
      S "config_parse_regress_env"] → S "config_parse_regress_timeout" ≠ t := by decide
  unfold parseKeyword
  simp only [hg, hnp, Bool.false_eq_true, if_false, hfn]
  rw [if_neg (hne _ (by simp)), if_neg (hne _ (by simp)), if_neg (hne _ (by simp)), if_neg (hne _ (by simp)), if_neg (hne _ (by simp)),
    if_neg (hne _ (by simp)), if_neg (hne _ (by simp)), if_neg (hne _ (by simp)), if_neg (hne _ (by simp)), if_neg (hne _ (by simp)),
    if_neg (hne _ (by simp))]
  simp only [if_true, ← hk]

/-! ### rdomain -/

/-- one reference to `${rdomain}`: the value handed out and the next counter -/
def nextRd (c : Nat) : Nat × Nat := if c = rdomainMax then (rdomainMin, rdomainMin + 1) else (c, c + 1)

theorem find_rdomain (env : Env) (s : St) (h : s.vars.find? (fun v => v.name == S "rdomain") = none) :
    find .regress env s (S "rdomain") = (some (.int (nextRd s.rdomain).1), { s with rdomain := (nextRd s.rdomain).2 }) := by
  have hg : findGrammarInterp .regress (S "rdomain") =
      some ⟨S "rdomain", S "INTEGER", S "NULL", false, false, false, true, true, .fn (S "config_default_rdomain")⟩ := by decide
  unfold find
  rw [h]
  simp only [hg, nextRd]
  by_cases hc : s.rdomain = rdomainMax
  · simp [hc, S]
  · simp [hc, S]

/-- the counter after `k` references, starting from `c` -/
def rdAfter : Nat → Nat → Nat
  | 0, c => c
  | k + 1, c => rdAfter k (nextRd c).2

/-- the value of the `k`-th reference (from 0) -/
def rdValue (k : Nat) : Nat := (nextRd (rdAfter k rdomainMin)).1

theorem rdAfter_range : ∀ (k c : Nat), rdomainMin ≤ c → c ≤ rdomainMax → rdomainMin ≤ rdAfter k c ∧ rdAfter k c ≤ rdomainMax
  | 0, c, h1, h2 => ⟨h1, h2⟩
  | k + 1, c, h1, h2 => by
    unfold rdAfter nextRd
    simp only [rdomainMin, rdomainMax] at *
    by_cases hc : c = 256
    · simp only [hc, if_true]
      exact rdAfter_range k _ (by simp [rdomainMin]) (by simp [rdomainMax])
    · simp only [hc, if_false]
      exact rdAfter_range k _ (by simp only [rdomainMin]; omega) (by simp only [rdomainMax]; omega)

/-- every value handed out lies in 11..255 -/
theorem rdomain_range (k : Nat) : 11 ≤ rdValue k ∧ rdValue k ≤ 255 := by
  have h := rdAfter_range k rdomainMin (Nat.le_refl _) (by decide)
  unfold rdValue nextRd
  simp only [rdomainMin, rdomainMax] at *
  by_cases hc : rdAfter k 11 = 256
  · simp [hc]
  · simp only [hc, if_false]; omega

/-- the counter as a closed form: position k of the cycle 11..255 (the counter value 256 stands for "about to wrap") -/
theorem rdAfter_closed : ∀ (k : Nat), rdAfter k rdomainMin = (if k = 0 then 11 else 12 + (k - 1) % 245) := by
  intro k
  induction k with
  | zero => rfl
  | succ n ih =>
    have hstep : ∀ (j c : Nat), rdAfter (j + 1) c = (nextRd (rdAfter j c)).2 := by
      intro j
      induction j with
      | zero => intro c; rfl
      | succ j ihj => intro c; show rdAfter (j + 1) (nextRd c).2 = _; rw [ihj]; rfl
    rw [hstep, ih]
    unfold nextRd
    simp only [rdomainMin, rdomainMax]
    by_cases h0 : n = 0
    · subst h0; simp
    · simp only [h0, if_false, Nat.add_one_ne_zero, Nat.add_sub_cancel]
      split <;> omega

/-- **successive references cycle through 11..255**: the k-th reference yields 11 + (k mod 245) -/
theorem rdomain_cycle (k : Nat) : rdValue k = 11 + k % 245 := by
  unfold rdValue
  rw [rdAfter_closed]
  unfold nextRd
  simp only [rdomainMin, rdomainMax]
  by_cases h0 : k = 0
  · subst h0; simp
  · simp only [h0, if_false]
    split <;> omega

/-- two successive references never yield the same value -/
theorem rdomain_successive_distinct (k : Nat) : rdValue k ≠ rdValue (k + 1) := by
  rw [rdomain_cycle, rdomain_cycle]; omega

/-! ### documented vs accepted keywords -/

def settable (m : Mode) : List Bytes := (m.grammar.filter (fun g => g.fn != S "NULL")).map (·.kw)

/-- the accepted keywords the manual of that mode does not mention (R14) -/
theorem undocumented_keywords :
    (settable .robsd).filter (fun k => !doc_robsd.contains k) = [] ∧
    (settable .cross).filter (fun k => !doc_cross.contains k) = [] ∧
    (settable .ports).filter (fun k => !doc_ports.contains k) = [] ∧
    (settable .regress).filter (fun k => !doc_regress.contains k) = [S "skip"] ∧
    (settable .canvas).filter (fun k => !doc_canvas.contains k) = [S "robsddir"] := by decide

/-- everything the manuals document is either a keyword with a parser or one of the option words of `regress` / `step` -/
theorem documented_are_accepted :
    doc_robsd.filter (fun k => !(settable .robsd).contains k) = [] ∧
    doc_cross.filter (fun k => !(settable .cross).contains k) = [] ∧
    doc_ports.filter (fun k => !(settable .ports).contains k) = [] ∧
    doc_regress.filter (fun k => !(settable .regress).contains k) =
      [S "env", S "no-parallel", S "obj", S "packages", S "quiet", S "root", S "targets"] ∧
    doc_canvas.filter (fun k => !(settable .canvas).contains k) = [S "command", S "parallel"] := by decide

/-- ... and those option words are tokens of exactly that mode -/
theorem option_words_are_tokens :
    ([S "env", S "no-parallel", S "obj", S "packages", S "quiet", S "root", S "targets"].all (fun w => (lookupTok .regress w).isSome && (lookupTok .robsd w).isNone)) = true ∧
    ([S "command", S "parallel"].all (fun w => (lookupTok .canvas w).isSome && (lookupTok .robsd w).isNone)) = true := by decide

/-! ### Non-vacuity -/

set_option maxRecDepth 20000 in
example : lex .regress (S "regress \"b\" root env { \"A\" } # c\nkeep 2147483648 h") =
    some ([.kw (S "regress"), .str (S "b"), .typ (S "ROOT"), .typ (S "ENV"), .typ (S "LBRACE"), .str (S "A"), .typ (S "RBRACE"),
           .kw (S "keep"), .int 2147483648, .typ (S "HOURS"), .eof], true) := by decide

example : lex .robsd (S "kernel \"unterminated") = none := by decide
example : rdValue 0 = 11 ∧ rdValue 244 = 255 ∧ rdValue 245 = 11 ∧ rdValue 246 = 12 := by
  simp only [rdomain_cycle]; decide

end C08
end Robsd
