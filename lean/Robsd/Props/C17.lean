import Robsd.Model.Clean
import Robsd.Lemmas.Decimal
/-
  C17: new invocations and re-run steps never reuse an existing name.
-/
namespace Robsd
namespace C17
open Bytes Clean StepFile

/-! ### build_id -/

theorem foldl_max_ge (l : List Nat) (a : Nat) : a ≤ l.foldl max a ∧ ∀ x ∈ l, x ≤ l.foldl max a := by
  induction l generalizing a with
  | nil => simp
  | cons y ys ih =>
    simp only [List.foldl_cons]
    obtain ⟨h1, h2⟩ := ih (max a y)
    refine ⟨by omega, ?_⟩
    intro x hx
    simp only [List.mem_cons] at hx
    rcases hx with rfl | hx
    · omega
    · exact h2 x hx

theorem takeWhile_digits_all (ds : Bytes) (h : ds.all isDigitB = true) : ds.takeWhile isDigitB = ds := by
  induction ds with
  | nil => rfl
  | cons d ds ih =>
    simp only [List.all_cons, Bool.and_eq_true] at h
    simp [List.takeWhile, h.1, ih h.2]

theorem digit_ne_dot (d : UInt8) (h : isDigitB d = true) : (d != DOT) = true := by
  simp only [isDigitB, Bool.and_eq_true, decide_eq_true_eq, UInt8.le_iff_toNat_le] at h
  simp only [bne_iff_ne, ne_eq]
  intro e
  rw [e] at h
  have : (48 : UInt8).toNat ≤ DOT.toNat := h.1
  revert this; decide

theorem takeWhile_all {α : Type} (p : α → Bool) (l : List α) (h : ∀ x ∈ l, p x = true) : l.takeWhile p = l := by
  induction l with
  | nil => rfl
  | cons x xs ih =>
    simp [List.takeWhile, h x (by simp), ih (fun y hy => h y (by simp [hy]))]

/-- the suffix the new name carries is read back as its number -/
theorem key_of_new (date : Bytes) (m : Nat) :
    numericKey (afterLastDot (date ++ [DOT] ++ renderNat m)) = m := by
  obtain ⟨hp, hall, hne⟩ := renderNat_spec m
  unfold afterLastDot numericKey
  have : (date ++ [DOT] ++ renderNat m).reverse = (renderNat m).reverse ++ (DOT :: date.reverse) := by simp
  rw [this]
  have hrev : ∀ x ∈ (renderNat m).reverse, (x != DOT) = true := by
    intro x hx
    rw [List.all_eq_true] at hall
    exact digit_ne_dot x (hall x (by simpa using hx))
  have : ((renderNat m).reverse ++ (DOT :: date.reverse)).takeWhile (· != DOT) = (renderNat m).reverse := by
    rw [List.takeWhile_append_of_pos hrev]
    simp [List.takeWhile]
  rw [this, List.reverse_reverse, takeWhile_digits_all _ hall]
  unfold parseDigits at hp
  split at hp
  · cases hp
  · simpa using hp

/-- **A new invocation directory never exists already**, whatever the root
    holds (gaps left by cleaning, more than nine per day, other days). -/
theorem build_id_fresh (date : Bytes) (dirs : List Bytes) : buildId date dirs ∉ dirs := by
  intro hm
  unfold buildId at hm
  have hof : ofDay date (date ++ [DOT] ++ renderNat (maxSuffix date dirs + 1)) = true := by
    unfold ofDay
    exact List.isPrefixOf_iff_prefix.mpr ⟨renderNat (maxSuffix date dirs + 1), rfl⟩
  have hk := key_of_new date (maxSuffix date dirs + 1)
  have hle : numericKey (afterLastDot (date ++ [DOT] ++ renderNat (maxSuffix date dirs + 1))) ≤ maxSuffix date dirs := by
    unfold maxSuffix
    apply (foldl_max_ge _ 0).2
    rw [List.mem_map]
    exact ⟨_, List.mem_filter.mpr ⟨hm, hof⟩, rfl⟩
  omega

/-! ### log_id -/

theorem renderNat_inj (a b : Nat) (h : renderNat a = renderNat b) : a = b := by
  have ha := (renderNat_spec a).1
  have hb := (renderNat_spec b).1
  rw [h] at ha
  rw [ha] at hb
  exact Option.some.inj hb

/-- the logs of a step follow the naming scheme `base, base.1, …, base.(k-1)` -/
def Scheme (base : Bytes) (k : Nat) (files : List Bytes) : Prop :=
  ∀ f, (f ∈ files ∧ base.isPrefixOf f = true) ↔
    (k > 0 ∧ f = base) ∨ ∃ i, 0 < i ∧ i < k ∧ f = base ++ [DOT] ++ renderNat i

/-- **A re-run step gets a new log name**: if the earlier attempts are
    `base, base.1 … base.(k-1)` (each once), the next name is `base.k`
    (`base` for the first attempt), it is not an existing file, and adding it
    keeps the scheme — so earlier logs are never overwritten. -/
theorem log_id_fresh (step : Nat) (name : Bytes) (files : List Bytes) (k : Nat)
    (hs : Scheme (logBase step name) k files) (hnd : files.Nodup) :
    logId step name files = (if k = 0 then logBase step name else logBase step name ++ [DOT] ++ renderNat k) ∧
    logId step name files ∉ files := by
  -- the matching files are exactly k many
  have hcount : (files.filter (fun f => (logBase step name).isPrefixOf f)).length = k := by
    let base := logBase step name
    let expected : List Bytes := if k = 0 then [] else base :: (List.range (k - 1)).map (fun i => base ++ [DOT] ++ renderNat (i + 1))
    have hperm : (files.filter (fun f => base.isPrefixOf f)).Perm expected := by
      apply (List.perm_ext_iff_of_nodup (hnd.filter _) ?_).mpr
      · intro f
        rw [List.mem_filter, hs f]
        simp only [expected]
        by_cases hk : k = 0
        · subst hk; simp
        · simp only [hk, if_false, List.mem_cons, List.mem_map, List.mem_range]
          constructor
          · rintro (⟨_, rfl⟩ | ⟨i, h1, h2, rfl⟩)
            · left; rfl
            · right; exact ⟨i - 1, by omega, by congr 2; omega⟩
          · rintro (rfl | ⟨i, h1, rfl⟩)
            · left; exact ⟨by omega, rfl⟩
            · right; exact ⟨i + 1, by omega, by omega, rfl⟩
      · simp only [expected]
        by_cases hk : k = 0
        · simp [hk]
        · simp only [hk, if_false, List.nodup_cons, List.mem_map, List.mem_range, not_exists, not_and]
          constructor
          · intro i _ e
            have := congrArg List.length e
            simp at this
          · rw [List.nodup_iff_pairwise_ne, List.pairwise_map]
            have hr := List.nodup_iff_pairwise_ne.mp (List.nodup_range (n := k - 1))
            exact hr.imp (fun hab e => by
              have := List.append_cancel_left e
              have := renderNat_inj _ _ this
              omega)
    have := hperm.length_eq
    simp only [expected] at this
    rw [this]
    by_cases hk : k = 0
    · simp [hk]
    · simp [hk]; omega
  constructor
  · unfold logId
    simp only [hcount]
    by_cases hk : k = 0
    · simp [hk]
    · have : k > 0 := by omega
      simp [hk, this]
  · unfold logId
    simp only [hcount]
    by_cases hk : k = 0
    · subst hk
      simp only [Nat.lt_irrefl, if_false, gt_iff_lt]
      intro hm
      have := (hs (logBase step name)).mp ⟨hm, List.isPrefixOf_iff_prefix.mpr (List.prefix_refl _)⟩
      rcases this with ⟨h, _⟩ | ⟨i, h1, h2, _⟩ <;> omega
    · have hkp : k > 0 := by omega
      simp only [hkp, if_true]
      intro hm
      have hpre : (logBase step name).isPrefixOf (logBase step name ++ [DOT] ++ renderNat k) = true :=
        List.isPrefixOf_iff_prefix.mpr ⟨[DOT] ++ renderNat k, by simp⟩
      have := (hs _).mp ⟨hm, hpre⟩
      rcases this with ⟨_, e⟩ | ⟨i, h1, h2, e⟩
      · have := congrArg List.length e
        simp at this
      · rw [List.append_assoc, List.append_assoc] at e
        have := List.append_cancel_left e
        simp only [List.cons_append, List.nil_append, List.cons.injEq, true_and] at this
        have := renderNat_inj _ _ this
        omega

/-! ### non-vacuity -/
example : buildId [50, 52] [[50, 52, 46, 50], [50, 52, 46, 51], [50, 51, 46, 57]] = [50, 52, 46, 52] := by decide
example : logId 1 [97, 47, 98] [[48, 48, 49, 45, 97, 45, 98, 46, 108, 111, 103]] = [48, 48, 49, 45, 97, 45, 98, 46, 108, 111, 103, 46, 49] := by decide

end C17
end Robsd
