import Robsd.Lemmas.RegressHtml
/-
  C14: the regress HTML matrix shows every run under its own invocation.

  Model: Robsd/Model/RegressHtml.lean (regress-html.c).  The theorems hold for
  every list of invocations (any architectures, dates, start times — equal or
  not —, any suites, a suite recorded any number of times) and every rendered
  column order.
-/
namespace Robsd
namespace C14
open RegressHtml

/-- the model's status table is the one in regress-html.c (names and which count as failures) -/
theorem status_table_matches : statusTable = Gen.runStatuses := by decide

/-! ### status derived from exit code and log -/

theorem status_noterm (log : Bytes) : classify Gen.exTimeout log = .NOTERM := by simp [classify]

theorem status_failed (exit : Int) (log : Bytes) (h1 : exit ≠ Gen.exTimeout) (h2 : exit ≠ 0) :
    classify exit log = (if RegressLog.peek (selX false false false true) (Bytes.lines log) > 0 then .XPASS else .FAIL) := by
  simp [classify, h1, h2]

theorem status_succeeded (log : Bytes) :
    classify 0 log =
      (if RegressLog.peek (selX false false true false) (Bytes.lines log) > 0 then .XFAIL
       else if RegressLog.peek (selX false true false false) (Bytes.lines log) > 0 then .SKIP else .PASS) := by
  have : (0 : Int) ≠ Gen.exTimeout := by decide
  simp [classify, this]

/-- a status is a failure exactly for FAIL, XPASS, NOTERM -/
theorem failure_iff (s : Status) : s.failure = true ↔ s = .FAIL ∨ s = .XPASS ∨ s = .NOTERM := by
  cases s <;> simp [Status.failure]

/-! ### cells -/

/-- The cell of a suite under invocation `j` shows a status iff the suite ran
    in invocation `j`, and then it is the status of that run (the first record of
    the suite in that invocation) linking to arch/date/log of *that* invocation. -/
theorem cell_iff_ran (invs : List Invocation) (s : Suite) (hs : s ∈ (parseAll invs).suites) (j : Nat) :
    cell s j = specCell invs s.name j := by
  have h := parseAll_spec invs
  rw [← h.cells s.name j, mem_lookup h.nodup hs]
  rfl

/-- the link of a shown cell lies below the invocation's own arch/date directory -/
theorem link_under_own_dir (invs : List Invocation) (s : Suite) (hs : s ∈ (parseAll invs).suites) (j : Nat)
    (st : Status) (link : Bytes) (hc : cell s j = some (st, link)) :
    ∃ inv rc, invs[j]? = some inv ∧ rc ∈ inv.recs ∧ rc.suite = s.name ∧
      link = inv.arch ++ SLASH :: (inv.date ++ SLASH :: rc.logName) ∧ st = classify rc.exit rc.log := by
  rw [cell_iff_ran invs s hs j] at hc
  unfold specCell at hc
  cases hi : invs[j]? with
  | none => rw [hi] at hc; cases hc
  | some inv =>
    rw [hi] at hc
    simp only [Option.bind_some, Option.map_eq_some_iff] at hc
    obtain ⟨rc, hf, he⟩ := hc
    have hm := List.mem_of_find?_eq_some hf
    have hp := List.find?_some hf
    simp only [decide_eq_true_eq] at hp
    simp only [recCell, Prod.mk.injEq] at he
    exact ⟨inv, rc, rfl, hm, hp, he.2.symm, he.1.symm⟩

/-- one row per suite that ran anywhere, no suite twice -/
theorem rows_are_suites (invs : List Invocation) :
    ((parseAll invs).suites.map (·.name)).Nodup ∧
    ∀ nm, nm ∈ (parseAll invs).suites.map (·.name) ↔ ∃ inv ∈ invs, ∃ rc ∈ inv.recs, rc.suite = nm :=
  ⟨(parseAll_spec invs).nodup, (parseAll_spec invs).names⟩

theorem partition3_perm (suites : List Suite) :
    (suites.filter (fun s => decide (s.fail > 0)) ++
      suites.filter (fun s => !decide (s.fail > 0) && !isNonRegress s) ++
      suites.filter (fun s => !decide (s.fail > 0) && isNonRegress s)).Perm suites := by
  induction suites with
  | nil => exact List.Perm.refl _
  | cons x xs ih =>
    simp only [List.filter_cons]
    by_cases hf : x.fail > 0
    · simp only [hf, decide_true, if_true, Bool.not_true, Bool.false_and, if_false, Bool.false_eq_true]
      exact List.Perm.cons x ih
    · by_cases hn : isNonRegress x = true
      · simp only [hf, decide_false, Bool.false_eq_true, if_false, Bool.not_false, Bool.true_and, hn, Bool.not_true, if_true]
        exact List.perm_middle.trans (List.Perm.cons x ih)
      · simp only [Bool.not_eq_true] at hn
        simp only [hf, decide_false, Bool.false_eq_true, if_false, Bool.not_false, Bool.true_and, hn, if_true]
        rw [List.append_assoc, List.cons_append]
        refine List.perm_middle.trans (List.Perm.cons x ?_)
        rw [← List.append_assoc]
        exact ih

/-- the rendered rows are the suites, each once -/
theorem rows_perm (suites : List Suite) : (sortSuites suites).Perm suites := by
  unfold sortSuites
  have h1 := sortBy_perm suiteLt (suites.filter (fun s => decide (s.fail > 0)))
  have h2 := sortBy_perm suiteLt (suites.filter (fun s => !decide (s.fail > 0) && !isNonRegress s))
  have h3 := sortBy_perm suiteLt (suites.filter (fun s => !decide (s.fail > 0) && isNonRegress s))
  exact ((h1.append h2).append h3).trans (partition3_perm suites)

/-- failing suites come first, each group in `suite_cmp` order -/
theorem failing_first (suites : List Suite) :
    ∃ a b c, sortSuites suites = a ++ b ++ c ∧
      (∀ s ∈ a, s.fail > 0) ∧ (∀ s ∈ b, s.fail = 0 ∧ isNonRegress s = false) ∧ (∀ s ∈ c, s.fail = 0 ∧ isNonRegress s = true) ∧
      a.Pairwise (fun x y => suiteLt y x = false) ∧ b.Pairwise (fun x y => suiteLt y x = false) ∧
      c.Pairwise (fun x y => suiteLt y x = false) := by
  refine ⟨_, _, _, rfl, ?_, ?_, ?_, sortBy_sorted _ suiteLt_trans suiteLt_asymm _, sortBy_sorted _ suiteLt_trans suiteLt_asymm _,
    sortBy_sorted _ suiteLt_trans suiteLt_asymm _⟩
  · intro s hs
    have := (List.mem_filter.mp ((mem_sortBy _ _ _).mp hs)).2
    simpa using this
  · intro s hs
    have := (List.mem_filter.mp ((mem_sortBy _ _ _).mp hs)).2
    simp only [Bool.and_eq_true, Bool.not_eq_true', decide_eq_false_iff_not] at this
    exact ⟨by omega, this.2⟩
  · intro s hs
    have := (List.mem_filter.mp ((mem_sortBy _ _ _).mp hs)).2
    simp only [Bool.and_eq_true, Bool.not_eq_true', decide_eq_false_iff_not] at this
    exact ⟨by omega, this.2⟩

/-- `render_suite` puts the cell of invocation `order[k]` at position `k`
    (positions after the last run are left out, i.e. empty) -/
theorem row_cell (s : Suite) (order : List Nat) (k : Nat) :
    (row s order).getD k none = (order[k]?).bind (cell s) := by
  unfold row
  rw [getD_dropTrailingNone]
  simp only [List.getD_eq_getElem?_getD, List.getElem?_map]
  cases order[k]? <;> rfl

/-- no row is wider than the table: rendering stays inside the column vector -/
theorem row_width (s : Suite) (order : List Nat) : (row s order).length ≤ order.length := by
  unfold row
  have : ∀ {α : Type} (l : List (Option α)), (dropTrailingNone l).length ≤ l.length := by
    intro α l
    induction l with
    | nil => exact Nat.le_refl _
    | cons x xs ih =>
      unfold dropTrailingNone
      split
      · simp
      · simp only [List.length_cons]; omega
  simpa using this (order.map (cell s))

/-- each column describes its own invocation -/
theorem columns_own (invs : List Invocation) (k : Nat) (c : Col) (hk : (parseAll invs).cols[k]? = some c) :
    c.id = k ∧ ∃ inv, invs[k]? = some inv ∧ c.arch = inv.arch ∧ c.date = inv.date ∧ c.time = inv.time :=
  (parseAll_spec invs).colsId k c hk

theorem columns_count (invs : List Invocation) : (parseAll invs).cols.length = invs.length :=
  (parseAll_spec invs).len

/-- an accepted column order lists every invocation exactly once, newest first -/
theorem sortedDesc_pairwise : ∀ (l : List Int), sortedDesc l = true → l.Pairwise (fun a b => b ≤ a)
  | [], _ => List.Pairwise.nil
  | [_], _ => List.pairwise_singleton _ _
  | a :: b :: rest, h => by
    simp only [sortedDesc, Bool.and_eq_true, decide_eq_true_eq] at h
    have ih := sortedDesc_pairwise (b :: rest) h.2
    refine List.pairwise_cons.mpr ⟨?_, ih⟩
    intro c hc
    rcases List.mem_cons.mp hc with rfl | hc
    · exact h.1
    · have := (List.pairwise_cons.mp ih).1 c hc
      omega

theorem columns_desc (cols : List Col) (order : List Nat) (h : validOrder cols order = true) :
    order.length = cols.length ∧ (∀ i, i < cols.length → i ∈ order) ∧
    (order.map (fun i => match cols[i]? with | some c => c.time | none => 0)).Pairwise (fun a b => b ≤ a) := by
  simp only [validOrder, Bool.and_eq_true, beq_iff_eq, List.all_eq_true, List.mem_range, List.contains_iff_mem] at h
  exact ⟨h.1.1, fun i hi => by simpa using h.1.2 i hi, sortedDesc_pairwise _ h.2⟩

/-! ### Non-vacuity: two architectures started in the same second (R8), a suite recorded twice (R9) -/

def S (s : String) : Bytes := s.toList.map (fun c => UInt8.ofNat c.toNat)

def exInvs : List Invocation := [
  ⟨S "amd64", S "2022-10-24.1", 100, 60, [⟨S "bin/ls", 0, S "ls.log", S "ok\n"⟩]⟩,
  ⟨S "arm64", S "2022-10-24.1", 100, 60,
    [⟨S "bin/cat", 1, S "cat.log", S "FAILED\n"⟩, ⟨S "bin/cat", 0, S "cat2.log", S "ok\n"⟩, ⟨S "bin/ls", 124, S "ls.log", S "x\n"⟩]⟩]

example : (sortSuites (parseAll exInvs).suites).map (fun s => (s.name, row s [1, 0])) =
    [(S "bin/cat", [some (.FAIL, S "arm64/2022-10-24.1/cat.log")]),
     (S "bin/ls", [some (.NOTERM, S "arm64/2022-10-24.1/ls.log"), some (.PASS, S "amd64/2022-10-24.1/ls.log")])] := by decide

example : (parseAll exInvs).cols.map (fun c => (c.total, c.fail)) = [(1, 0), (2, 2)] := by decide

end C14
end Robsd
