import Robsd.Model.Interp
import Robsd.Lemmas.Interp
/-
  C09: interpolation substitutes exactly, always terminates and fails closed.

  `Expands env d tmpl out` is an independent inductive specification of what
  "replace each ${name} by the recursively interpolated value and copy every
  other byte" means with `d` levels of nesting available.  The model
  (`Interp.interp`, a transcription of interpolate.c) is proved sound and
  complete for it.  Termination is Lean accepting `inner`/`interp` as total
  definitions (structural in the C code's own depth counter, well-founded in
  the length of the remaining input).
-/
namespace Robsd
namespace C09
open Bytes Interp

/-- Specification: the template expands to `out` using at most `d` levels. -/
inductive Expands (env : Lookup) : Nat → Bytes → Bytes → Prop where
  | lit (d : Nat) (s : Bytes) : DOLLAR ∉ s → Expands env (d + 1) s s
  | ref (d : Nat) (pre name tail v a b : Bytes) :
      DOLLAR ∉ pre → RBRACE ∉ name → name ≠ [] → env name = some v →
      Expands env d v a → Expands env (d + 1) tail b →
      Expands env (d + 1) (pre ++ DOLLAR :: LBRACE :: name ++ RBRACE :: tail) (pre ++ a ++ b)

theorem interp_sound (env : Lookup) (d : Nat) : ∀ (s out : Bytes),
    interp env false d s = .ok out → Expands env d s out := by
  induction d with
  | zero => intro s out h; simp [interp] at h
  | succ d ihd =>
    intro s
    induction hn : s.length using Nat.strongRecOn generalizing s with
    | _ n ihn =>
      intro out h
      simp only [interp] at h
      cases hs : scan s with
      | lit p =>
        rw [inner_lit _ _ _ _ _ hs] at h
        cases h
        obtain ⟨rfl, hnd⟩ := scan_lit s _ hs
        exact Expands.lit d _ hnd
      | bad e => rw [inner_bad _ _ _ _ _ hs] at h; cases h
      | ref pre name tail =>
        rw [inner_ref _ _ _ _ _ _ _ hs] at h
        obtain ⟨hs1, hp, hnm, hne⟩ := scan_ref s pre name tail hs
        have hlen := scan_ref_length s pre name tail hs
        cases hl : env name with
        | none => simp [hl] at h
        | some v =>
          simp only [hl] at h
          cases hv : interp env false d v with
          | error e => simp [hv] at h
          | ok a =>
            simp only [hv] at h
            cases ht : inner env false (interp env false d) tail with
            | error e => simp [ht] at h
            | ok b =>
              simp only [ht] at h
              cases h
              rw [hs1]
              refine Expands.ref d pre name tail v a b hp hnm hne hl (ihd v a hv) ?_
              exact ihn tail.length (by omega) tail rfl b (by simpa [interp] using ht)

theorem interp_complete (env : Lookup) (d : Nat) (s out : Bytes) (h : Expands env d s out) :
    interp env false d s = .ok out := by
  induction h with
  | lit d s hnd =>
    simp only [interp]
    exact inner_lit _ _ _ _ _ (scan_of_lit s hnd)
  | ref d pre name tail v a b hp hnm hne hl _ _ ih1 ih2 =>
    simp only [interp] at ih2 ⊢
    rw [inner_ref _ _ _ _ _ _ _ (scan_of_ref pre name tail hp hnm hne)]
    simp [hl, ih1, ih2]

/-- Soundness and completeness: the model succeeds with `out` exactly when the
    specification derives `out`. -/
theorem interp_ok_iff_expands (env : Lookup) (d : Nat) (s out : Bytes) :
    interp env false d s = .ok out ↔ Expands env d s out :=
  ⟨interp_sound env d s out, interp_complete env d s out⟩

/-- A template without `$` is copied unchanged. -/
theorem no_dollar_identity (env : Lookup) (ign : Bool) (d : Nat) (s : Bytes) (h : DOLLAR ∉ s) :
    interp env ign (d + 1) s = .ok s := by
  simp only [interp]
  exact inner_lit _ _ _ _ _ (scan_of_lit s h)

/-- A malformed reference (`$` not followed by `{`, missing `}`, empty name)
    fails, whatever precedes or follows it at this level. -/
theorem malformed_fails (env : Lookup) (ign : Bool) (d : Nat) (s : Bytes) (e : Err)
    (h : scan s = .bad e) : interp env ign (d + 1) s = .error e := by
  simp only [interp]
  exact inner_bad _ _ _ _ _ h

/-- An unknown variable fails (unless the caller asked to ignore lookup errors). -/
theorem unknown_fails (env : Lookup) (d : Nat) (s pre name tail : Bytes)
    (h : scan s = .ref pre name tail) (hl : env name = none) :
    interp env false (d + 1) s = .error (.unknown name) := by
  simp only [interp]
  rw [inner_ref _ _ _ _ _ _ _ h]
  simp [hl]

/-- Any variable whose value refers (first) to itself can never be
    interpolated: at every depth the result is an error. -/
theorem self_reference_fails (env : Lookup) (ign : Bool) (name v pre tail : Bytes)
    (hl : env name = some v) (hv : scan v = .ref pre name tail) :
    ∀ d, ∃ e, interp env ign d v = .error e := by
  intro d
  induction d with
  | zero => exact ⟨.tooDeep, rfl⟩
  | succ d ih =>
    obtain ⟨e, he⟩ := ih
    refine ⟨e, ?_⟩
    simp only [interp]
    rw [inner_ref _ _ _ _ _ _ _ hv]
    simp [hl, he]

/-- Nothing succeeds with no nesting budget; the top-level call of the C code
    has `interpolateDepthLimit - 1` levels. -/
theorem depth_zero_fails (env : Lookup) (ign : Bool) (s : Bytes) :
    interp env ign 0 s = .error .tooDeep := rfl

/-- Line-by-line, all or nothing: a file interpolates iff every line does, and
    then the output is the lines' results each followed by a newline. -/
theorem file_all_or_nothing (env : Lookup) (ign : Bool) (ls : List Bytes) (out : Bytes) :
    interpLines env ign ls = .ok out ↔
    ∃ outs : List Bytes, ls.map (interpStr env ign) = outs.map Except.ok ∧
      out = (outs.map (fun o => o ++ [10])).flatten := by
  induction ls generalizing out with
  | nil =>
    simp only [interpLines]
    constructor
    · intro h; cases h; exact ⟨[], rfl, rfl⟩
    · rintro ⟨outs, h1, h2⟩
      cases outs with
      | nil => simp at h2; rw [h2]
      | cons o os => simp at h1
  | cons l ls ih =>
    simp only [interpLines]
    constructor
    · intro h
      cases h1 : interpStr env ign l with
      | error e => simp [h1] at h
      | ok a =>
        simp only [h1] at h
        cases h2 : interpLines env ign ls with
        | error e => simp [h2] at h
        | ok b =>
          simp only [h2] at h
          cases h
          obtain ⟨outs, f, e⟩ := (ih b).mp h2
          exact ⟨a :: outs, by simp [h1, f], by simp [e]⟩
    · rintro ⟨outs, h1, h2⟩
      cases outs with
      | nil => simp at h1
      | cons o os =>
        simp only [List.map_cons, List.cons.injEq] at h1
        have := (ih _).mpr ⟨os, h1.2, rfl⟩
        simp [h1.1, this, h2]

/-- Fail closed: when the interpolation fails the command prints nothing. -/
theorem error_no_output (e : Err) : cliStdout (.error e) = [] := rfl

/-! ### non-vacuity: a concrete environment with a chain, a cycle and a
    malformed template meets the hypotheses of the theorems above -/
private def env1 : Lookup := fun n =>
  if n = [97] then some [120, 36, 123, 98, 125, 121]      -- a = "x${b}y"
  else if n = [98] then some [66]                           -- b = "B"
  else if n = [115] then some [36, 123, 115, 125]           -- s = "${s}"
  else none

/-- "1${a}2" expands to "1xBy2" with three levels -/
example : Expands env1 3 [49, 36, 123, 97, 125, 50] [49, 120, 66, 121, 50] :=
  Expands.ref 2 [49] [97] [50] [120, 36, 123, 98, 125, 121] [120, 66, 121] [50]
    (by decide) (by decide) (by decide) rfl
    (Expands.ref 1 [120] [98] [121] [66] [66] [121] (by decide) (by decide) (by decide) rfl
      (Expands.lit 0 [66] (by decide)) (Expands.lit 1 [121] (by decide)))
    (Expands.lit 2 [50] (by decide))
example : interp env1 false 3 [49, 36, 123, 97, 125, 50] = .ok [49, 120, 66, 121, 50] :=
  interp_complete _ _ _ _ (Expands.ref 2 [49] [97] [50] [120, 36, 123, 98, 125, 121] [120, 66, 121] [50]
    (by decide) (by decide) (by decide) rfl
    (Expands.ref 1 [120] [98] [121] [66] [66] [121] (by decide) (by decide) (by decide) rfl
      (Expands.lit 0 [66] (by decide)) (Expands.lit 1 [121] (by decide)))
    (Expands.lit 2 [50] (by decide)))
example : ∀ d, ∃ e, interp env1 false d [36, 123, 115, 125] = .error e :=
  self_reference_fails env1 false [115] [36, 123, 115, 125] [] [] rfl (by decide)
example : interp env1 false 4 [36, 120] = .error .expectedLBrace :=
  malformed_fails env1 false 3 [36, 120] .expectedLBrace (by decide)

end C09
end Robsd
