import Robsd.Model.Report
import Robsd.Lemmas.Decimal
/-
  C18: report durations, deltas and size changes are computed and formatted correctly.
-/
namespace Robsd
namespace C18
open Bytes StepFile Report

/-! ### the shell twins of `steps_total_duration` (util.sh / util-regress.sh) -/

/-- util.sh `duration_total`: the `while step_eval i` loop -/
def shellTotal : List Row → Int
  | [] => 0
  | r :: rs =>
    if rowSkipped r then shellTotal rs
    else if rowName r = END then shellTotal rs
    else rowDuration r + shellTotal rs

/-- util-regress.sh `regress_duration_total` -/
def shellRegressTotal (rows : List Row) : Int :=
  let t0 := match rows.head? with | some r => rowTime r | none => 0
  let t1 := match rows.getLast? with | some r => rowTime r | none => 0
  t1 - t0

def shellDurationTotal (mode : Mode) (rows : List Row) : Int :=
  match mode with
  | .regress => shellRegressTotal rows
  | _ => shellTotal rows

theorem foldl_add_acc (l : List Row) (a : Int) :
    l.foldl (fun acc r => acc + rowDuration r) a = a + l.foldl (fun acc r => acc + rowDuration r) 0 := by
  induction l generalizing a with
  | nil => simp
  | cons x xs ih =>
    simp only [List.foldl_cons]
    rw [ih (a + rowDuration x), ih (0 + rowDuration x)]
    omega

theorem shellTotal_eq (rows : List Row) :
    shellTotal rows = (rows.filter (fun r => !rowSkipped r && rowName r != END)).foldl (fun acc r => acc + rowDuration r) 0 := by
  induction rows with
  | nil => rfl
  | cons r rs ih =>
    simp only [shellTotal, List.filter_cons]
    by_cases hs : rowSkipped r = true
    · simp [hs, ih]
    · have hs' : rowSkipped r = false := by simpa using hs
      by_cases hn : rowName r = END
      · simp [hs', hn, ih]
      · have hk : (!false && rowName r != END) = true := by simp [hn]
        simp only [hs', Bool.false_eq_true, if_false, hn, hk, if_true, List.foldl_cons]
        rw [foldl_add_acc _ (0 + rowDuration r), ← ih]
        omega

/-- **the shell and the C computation of the total agree**, on every step file, in every mode -/
theorem shell_eq_c (mode : Mode) (rows : List Row) :
    shellDurationTotal mode rows = totalDuration mode rows := by
  cases mode <;> simp only [shellDurationTotal, totalDuration, shellTotal_eq]
  -- regress
  unfold shellRegressTotal
  cases rows with
  | nil => rfl
  | cons r rs =>
    simp only [List.head?_cons]
    cases h : (r :: rs).getLast? with
    | none => simp at h
    | some l => rfl

/-- The total shown is the end step's duration when an end record exists,
    otherwise the computed total; the delta threshold is the generated constant. -/
theorem total_def (e : Env) (rows : List Row) :
    statsDuration e rows =
      match rows.find? (fun r => rowName r == END && r.getD nameIdx .unknown != .unknown) with
      | some endRow => formatDurationDelta (rowDuration endRow) (rowDelta endRow) Gen.reportDurationThreshold
      | none => formatDurationDelta (totalDuration e.mode rows) 0 Gen.reportDurationThreshold := rfl

/-! ### HH:MM:SS -/

theorem toInt32_id (x : Int) (h0 : 0 ≤ x) (h1 : x < 2147483648) : toInt32 x = x := by
  unfold toInt32
  have : x % 4294967296 = x := Int.emod_eq_of_lt h0 (by omega)
  simp only [this]
  split <;> omega

/-- **Duration round trip**: for `0 ≤ d < 2^40` the text is `HH:MM:SS` with
    minutes and seconds below 60, and the three numbers recombine to `d`. -/
theorem format_duration_roundtrip (d : Int) (h0 : 0 ≤ d) (h1 : d < 1099511627776) :
    ∃ h m s : Nat, (d = 3600 * h + 60 * m + s) ∧ m < 60 ∧ s < 60 ∧
      formatDuration d = pad2 h ++ [58] ++ pad2 m ++ [58] ++ pad2 s := by
  have hh : 0 ≤ Int.tdiv d 3600 := Int.tdiv_nonneg h0 (by decide)
  have e1 : Int.tdiv d 3600 = d / 3600 := Int.tdiv_eq_ediv_of_nonneg h0
  have e2 : Int.tmod d 3600 = d % 3600 := Int.tmod_eq_emod_of_nonneg h0
  have hr0 : 0 ≤ d % 3600 := Int.emod_nonneg d (by decide)
  have hr1 : d % 3600 < 3600 := Int.emod_lt_of_pos d (by decide)
  have e3 : Int.tdiv (d % 3600) 60 = (d % 3600) / 60 := Int.tdiv_eq_ediv_of_nonneg hr0
  have e4 : Int.tmod (d % 3600) 60 = (d % 3600) % 60 := Int.tmod_eq_emod_of_nonneg hr0
  refine ⟨(d / 3600).toNat, ((d % 3600) / 60).toNat, ((d % 3600) % 60).toNat, ?_, ?_, ?_, ?_⟩
  · omega
  · omega
  · omega
  · unfold formatDuration
    simp only [e1, e2, e3, e4]
    have a1 : toInt32 (d / 3600) = d / 3600 := toInt32_id _ (by omega) (by omega)
    have a2 : toInt32 (d % 3600 / 60) = d % 3600 / 60 := toInt32_id _ (by omega) (by omega)
    have a3 : toInt32 (d % 3600 % 60) = d % 3600 % 60 := toInt32_id _ (by omega) (by omega)
    rw [a1, a2, a3]
    have f : ∀ x : Int, 0 ≤ x → fmt02 x = pad2 x.toNat := by
      intro x hx; unfold fmt02; have : ¬ x < 0 := by omega
      simp [this]
    rw [f _ (by omega), f _ (by omega), f _ (by omega)]

/-! ### the delta is shown exactly when it exceeds the threshold -/

theorem delta_shown_iff (d delta thr : Int) (hthr : 0 ≤ thr) :
    ((if delta < 0 then -delta else delta) ≤ thr → formatDurationDelta d delta thr = formatDuration d) ∧
    ((if delta < 0 then -delta else delta) > thr →
      formatDurationDelta d delta thr =
        formatDuration d ++ S " (" ++ [if delta < 0 then 45 else 43] ++
          formatDuration (if delta < 0 then -delta else delta) ++ S ")") := by
  unfold formatDurationDelta
  constructor
  · intro h
    by_cases h0 : delta = 0
    · simp [h0]
    · simp only [h0, if_false, h, if_true]
  · intro h
    have h0 : delta ≠ 0 := by
      intro e; subst e; simp at h; omega
    have : ¬ (if delta < 0 then -delta else delta) ≤ thr := by omega
    simp only [h0, if_false, this]

/-- total: 60 seconds; a single step: any non-zero delta -/
theorem thresholds : Gen.reportDurationThreshold = 60 := by decide

theorem step_delta_shown (d delta : Int) :
    formatDurationDelta d delta 0 = formatDuration d ↔ delta = 0 := by
  constructor
  · intro h
    by_cases h0 : delta = 0
    · exact h0
    · exfalso
      have hm : (if delta < 0 then -delta else delta) > 0 := by split <;> omega
      rw [(delta_shown_iff d delta 0 (by decide)).2 hm] at h
      have := congrArg List.length h
      simp [S] at this
  · intro h; subst h; simp [formatDurationDelta]

/-! ### sizes -/

/-- a size line is produced exactly when the change reaches the threshold
    (1 KiB for the ramdisk kernel, 1 MiB otherwise) -/
theorem size_listed_iff (name : Bytes) (size prev : Nat) :
    (sizeLine name size prev).isSome ↔
      (if size ≥ prev then size - prev else prev - size) ≥
        (if name = S "bsd.rd" then Gen.reportSizeThresholdRamdisk else Gen.reportSizeThreshold) := by
  unfold sizeLine
  by_cases h : (if size ≥ prev then size - prev else prev - size) <
      (if name = S "bsd.rd" then Gen.reportSizeThresholdRamdisk else Gen.reportSizeThreshold)
  · simp only [h, if_true, Option.isSome_none, Bool.false_eq_true, false_iff]; omega
  · simp only [h, if_false, Option.isSome_some, true_iff]; omega

theorem size_sign (name : Bytes) (size prev : Nat) (l : Bytes) (h : sizeLine name size prev = some l) :
    l = S "Size: " ++ name ++ S " " ++ formatSize size ++ S " (" ++ [if size < prev then 45 else 43] ++
      formatSize (if size ≥ prev then size - prev else prev - size) ++ S ")" := by
  unfold sizeLine at h
  by_cases hlt : (if size ≥ prev then size - prev else prev - size) <
      (if name = S "bsd.rd" then Gen.reportSizeThresholdRamdisk else Gen.reportSizeThreshold)
  · simp only [hlt, if_true] at h; cases h
  · simp only [hlt, if_false, Option.some.injEq] at h; exact h.symm

/-- `%.1f` with a power-of-two divisor: the printed tenths are the exact
    quotient rounded to the nearest tenth (ties to even), i.e. within half a
    tenth of the true value -/
def tenthsOf (size div : Nat) : Nat :=
  let q10 := size * 10 / div
  let rem2 := 2 * (size * 10 % div)
  if rem2 > div then q10 + 1 else if rem2 < div then q10 else (if q10 % 2 = 0 then q10 else q10 + 1)

theorem tenths_nearest (size div : Nat) (hd : 0 < div) :
    2 * (size * 10) ≤ 2 * (tenthsOf size div * div) + div ∧ 2 * (tenthsOf size div * div) ≤ 2 * (size * 10) + div := by
  unfold tenthsOf
  have hdm := Nat.div_add_mod (size * 10) div
  have hlt := Nat.mod_lt (size * 10) hd
  generalize size * 10 / div = q at *
  generalize size * 10 % div = r at *
  have hq : size * 10 = div * q + r := hdm.symm
  simp only
  split
  · rw [Nat.add_mul, Nat.mul_comm q div]; omega
  · split
    · rw [Nat.mul_comm q div]; omega
    · split
      · rw [Nat.mul_comm q div]; omega
      · rw [Nat.add_mul, Nat.mul_comm q div]; omega

theorem size_format (size : Nat) :
    formatSize size =
      (let p : Nat × Bytes := if size ≥ 1048576 then (1048576, S "M") else if size ≥ 1024 then (1024, S "K") else (1, [])
       renderNat (tenthsOf size p.1 / 10) ++ [46] ++ renderNat (tenthsOf size p.1 % 10) ++ p.2) := by
  unfold formatSize tenthsOf
  by_cases h1 : size ≥ 1048576
  · simp only [h1, if_true]
  · by_cases h2 : size ≥ 1024
    · simp only [h1, h2, if_true, if_false]
    · simp only [h1, h2, if_false]

/-! ### non-vacuity -/
example : formatDuration 3661 = S "01:01:01" := by decide
example : formatDurationDelta 7322 (-61) 60 = S "02:02:02 (-00:01:01)" := by decide
example : formatDurationDelta 7322 60 60 = S "02:02:02" := by decide
example : formatSize 1587 = S "1.5K" ∧ formatSize 1638400 = S "1.6M" ∧ formatSize 1023 = S "1023.0" := by decide

end C18
end Robsd
