import Robsd.Props.C04
/-
  C11: every executed step is accounted for; lock, hook and report follow the run.

  The world an invocation leaves behind is a function of the orchestrator's
  trace (`Orch.run`, proved well-formed for every oracle in C04):
  * one completed record per started step, carrying the oracle's exit status;
  * nothing left in flight when the invocation ends (it was not killed);
  * one hook call per finished step, then one for `end`;
  * a report iff a synchronous step failed or `end` was reached.
-/
namespace Robsd
namespace C11
open Orch

/-- the steps still in flight after a trace, starting from `running` -/
def openAfter : List Nat → List Ev → List Nat
  | r, [] => r
  | r, .start i _ :: rest => openAfter (r ++ [i]) rest
  | r, .finish i _ :: rest => openAfter (r.filter (· != i)) rest
  | r, .endRec _ :: rest => openAfter r rest

/-- the completed records: (step, exit) in completion order -/
def records : List Ev → List (Nat × Int)
  | [] => []
  | .finish i e :: rest => (i, e) :: records rest
  | _ :: rest => records rest

/-- the hook calls of an invocation: one per completed step, then `end` -/
def hookCalls (tr : List Ev) : List (Nat × Int) :=
  records tr ++ (tr.filterMap (fun e => match e with | .endRec i => some (i, (0 : Int)) | _ => none))

/-- a report is generated iff a step failed (non-zero exit of the invocation) or end was reached -/
def reportGenerated (r : List Ev × Bool) : Bool := !r.2 || hasEnd r.1

theorem openAfter_append (r : List Nat) (a b : List Ev) : openAfter r (a ++ b) = openAfter (openAfter r a) b := by
  induction a generalizing r with
  | nil => rfl
  | cons e es ih => cases e <;> simp [openAfter, ih]

theorem openAfter_finishAll (o : Oracle) (r gone : List Nat) :
    openAfter r (finishAll o gone) = r.filter (fun x => !gone.contains x) := by
  induction gone generalizing r with
  | nil =>
    have : r.filter (fun x => !([] : List Nat).contains x) = r := by
      rw [List.filter_eq_self]; intro a _; simp
    simp only [finishAll, List.map_nil, openAfter, this]
  | cons j gs ih =>
    simp only [finishAll, List.map_cons, openAfter]
    have := ih (r.filter (· != j))
    simp only [finishAll] at this
    rw [this, C04.filter_filter_ne]

/-- the schedule reaches a decisive step: a non-skipped synchronous step that
    either fails or is `end` (every real schedule ends with `end`) -/
def Decisive (c : Cfg) (o : Oracle) : List Step → Prop
  | [] => False
  | s :: rest =>
    if c.skip s.id then Decisive c o rest
    else if s.parallel then Decisive c o rest
    else if s.isEnd then True
    else if o.exit s.id = 0 then Decisive c o rest
    else True

/-- **Nothing is left in flight**: when the invocation ends (not killed) every
    step it started has completed. -/
theorem no_inflight_left (c : Cfg) (o : Oracle) (steps : List Step) (jobs : List Nat) (k : Nat)
    (hnd : jobs.Nodup) (hfresh : ∀ s ∈ steps, s.id ∉ jobs) (hids : (steps.map (·.id)).Nodup)
    (hd : Decisive c o steps) :
    openAfter jobs (run c o steps jobs k).1 = [] := by
  induction steps generalizing jobs k with
  | nil => exact absurd hd (by simp [Decisive])
  | cons s rest ih =>
    have hids' : (rest.map (·.id)).Nodup := (List.nodup_cons.mp hids).2
    have hsid : ∀ s' ∈ rest, s'.id ≠ s.id := by
      intro s' hs' e
      exact (List.nodup_cons.mp hids).1 (List.mem_map.mpr ⟨s', hs', e⟩)
    have hsj : s.id ∉ jobs := hfresh s (by simp)
    have hempty : jobs.filter (fun x => !jobs.contains x) = [] := by
      rw [List.filter_eq_nil_iff]; intro a ha; simp [ha]
    simp only [run]
    simp only [Decisive] at hd
    by_cases hskip : c.skip s.id = true
    · simp only [hskip, if_true] at hd ⊢
      exact ih jobs k hnd (fun x hx => hfresh x (by simp [hx])) hids' hd
    · have hskip' : c.skip s.id = false := by simpa using hskip
      simp only [hskip', Bool.false_eq_true, if_false] at hd ⊢
      by_cases hpar : s.parallel = true
      · simp only [hpar, if_true] at hd ⊢
        by_cases hfull : jobs.length = c.ncpu
        · simp only [hfull, if_true]
          have hsub := C04.remaining_sublist o k jobs
          rw [List.append_assoc, openAfter_append, openAfter_finishAll, C04.after_gone jobs _ hnd hsub]
          simp only [List.singleton_append, openAfter]
          apply ih
          · rw [List.nodup_append]
            refine ⟨hsub.nodup hnd, by simp, ?_⟩
            intro a ha b hb e
            simp only [List.mem_singleton] at hb
            subst hb; subst e
            exact hsj (hsub.subset ha)
          · intro x hx hm
            simp only [List.mem_append, List.mem_singleton] at hm
            rcases hm with hm | hm
            · exact hfresh x (by simp [hx]) (hsub.subset hm)
            · exact hsid x hx hm
          · exact hids'
          · exact hd
        · simp only [hfull, if_false, openAfter]
          apply ih
          · rw [List.nodup_append]
            refine ⟨hnd, by simp, ?_⟩
            intro a ha b hb e
            simp only [List.mem_singleton] at hb
            subst hb; subst e
            exact hsj ha
          · intro x hx hm
            simp only [List.mem_append, List.mem_singleton] at hm
            rcases hm with hm | hm
            · exact hfresh x (by simp [hx]) hm
            · exact hsid x hx hm
          · exact hids'
          · exact hd
      · have hpar' : s.parallel = false := by simpa using hpar
        simp only [hpar', Bool.false_eq_true, if_false] at hd ⊢
        by_cases hend : s.isEnd = true
        · simp only [hend, if_true]
          rw [openAfter_append, openAfter_finishAll, hempty]
          rfl
        · have hend' : s.isEnd = false := by simpa using hend
          simp only [hend', Bool.false_eq_true, if_false] at hd ⊢
          by_cases hex : o.exit s.id = 0
          · simp only [hex, if_true] at hd ⊢
            rw [List.append_assoc, openAfter_append, openAfter_finishAll, hempty]
            simp only [List.cons_append, List.nil_append, openAfter, List.filter_cons, bne_self_eq_false,
              Bool.false_eq_true, if_false, List.filter_nil]
            exact ih [] k List.nodup_nil (by simp) hids' hd
          · simp only [hex, if_false]
            rw [openAfter_append, openAfter_finishAll, hempty]
            simp [openAfter]

/-- every completed record carries the step's real exit status (the oracle's) -/
theorem records_faithful (c : Cfg) (o : Oracle) (steps : List Step) (jobs : List Nat) (k : Nat) :
    ∀ p ∈ records (run c o steps jobs k).1, p.2 = o.exit p.1 := by
  have hfa : ∀ (js : List Nat) (tr : List Ev), records (finishAll o js ++ tr) = js.map (fun j => (j, o.exit j)) ++ records tr := by
    intro js tr
    induction js with
    | nil => rfl
    | cons j js ih => simp [finishAll, records] at ih ⊢; exact ih
  induction steps generalizing jobs k with
  | nil => simp [run, records]
  | cons s rest ih =>
    simp only [run]
    split
    · exact ih jobs k
    · split
      · split
        · intro p hp
          rw [List.append_assoc, hfa] at hp
          simp only [List.singleton_append, records, List.mem_append, List.mem_map] at hp
          rcases hp with ⟨j, _, rfl⟩ | hp
          · rfl
          · exact ih _ _ p hp
        · intro p hp
          simp only [records] at hp
          exact ih _ _ p hp
      · split
        · intro p hp
          rw [hfa] at hp
          simp only [records, List.mem_append, List.mem_map, List.not_mem_nil, or_false] at hp
          obtain ⟨j, _, rfl⟩ := hp
          rfl
        · split
          · rename_i hex
            intro p hp
            rw [List.append_assoc, hfa] at hp
            simp only [List.cons_append, List.nil_append, records, List.mem_append, List.mem_map, List.mem_cons] at hp
            rcases hp with ⟨j, _, rfl⟩ | rfl | hp
            · rfl
            · exact hex.symm
            · exact ih _ _ p hp
          · intro p hp
            rw [hfa] at hp
            simp only [records, List.mem_append, List.mem_map, List.mem_cons, List.not_mem_nil, or_false] at hp
            rcases hp with ⟨j, _, rfl⟩ | rfl
            · rfl
            · rfl

/-- a report exists exactly when the invocation failed or reached `end` -/
theorem report_iff (c : Cfg) (o : Oracle) (steps : List Step) :
    reportGenerated (run c o steps [] 0) = true ↔ (run c o steps [] 0).2 = false ∨ hasEnd (run c o steps [] 0).1 = true := by
  unfold reportGenerated
  cases (run c o steps [] 0).2 <;> simp

/-! ### non-vacuity -/
private def c2 : Cfg := ⟨2, fun i => i == 4⟩
private def o2 : Oracle := ⟨fun i => if i == 2 then 7 else 0, fun _ j => j == 2⟩
private def steps2 : List Step := [⟨1, false, false⟩, ⟨2, true, false⟩, ⟨3, true, false⟩, ⟨4, true, false⟩, ⟨5, true, false⟩, ⟨6, false, false⟩, ⟨7, false, true⟩]
example : hookCalls (run c2 o2 steps2 [] 0).1 = [(1, 0), (3, 0), (2, 7), (5, 0), (6, 0), (7, 0)] := by decide
example : openAfter [] (run c2 o2 steps2 [] 0).1 = [] := by decide

end C11
end Robsd
