import Robsd.Model.Wait
/-
  C04, the barrier and the queue-full wait as robsd-wait.c implements them.

  * `any_returns_rest` — without `-a` the helper returns after the first batch
    of exits and prints exactly the pids that have not exited, in argument
    order: that is the list `robsd()` keeps as `_jobs`.
  * `all_waits_for_all` — with `-a` (the barrier in front of a synchronous
    step), for distinct pids all of which eventually exit, it returns only
    after every one has been reported, and prints nothing.
  * `all_never_early` — with `-a` it does not return while a pid is unreported.
  * `dup_hangs` — the same pid given twice and `-a`: one exit event removes one
    entry, the other is never reported, the helper blocks (the orchestrator
    never passes duplicates: `_jobs` holds the pids of distinct children).
-/
namespace Robsd
namespace C04Wait
open Wait

theorem handle_nil (b : List Nat) : handle [] b = [] := by
  induction b with
  | nil => rfl
  | cons x xs ih => simpa [handle] using ih

theorem handle_sublist (pids b : List Nat) : (handle pids b).Sublist pids := by
  induction b generalizing pids with
  | nil => exact List.Sublist.refl _
  | cons x xs ih =>
    simp only [handle, List.foldl_cons]
    exact (ih (pids.erase x)).trans List.erase_sublist

theorem mem_handle (pids b : List Nat) (hn : pids.Nodup) (p : Nat) :
    p ∈ handle pids b ↔ p ∈ pids ∧ p ∉ b := by
  induction b generalizing pids with
  | nil => simp [handle]
  | cons x xs ih =>
    simp only [handle, List.foldl_cons]
    have := ih (pids.erase x) (hn.erase x)
    simp only [handle] at this
    rw [this, hn.mem_erase_iff]
    simp only [List.mem_cons, not_or]
    constructor
    · rintro ⟨⟨h1, h2⟩, h3⟩; exact ⟨h2, h1, h3⟩
    · rintro ⟨h1, h2, h3⟩; exact ⟨⟨h2, h1⟩, h3⟩

/-- without `-a`: what is printed is exactly the unreported pids, in argument order -/
theorem any_returns_rest (args : List Bytes) (pids : List Nat) (b : List Nat) (bs : List (List Nat))
    (hp : parsePids args = some pids) (hn : pids.Nodup) :
    ∃ rest, run false args (b :: bs) = some (0, rest) ∧ rest.Sublist pids ∧ ∀ p, p ∈ rest ↔ p ∈ pids ∧ p ∉ b := by
  refine ⟨handle pids b, by simp [run, hp], handle_sublist pids b, mem_handle pids b hn⟩

theorem mem_handle_of_not_mem (b : List Nat) : ∀ (pids : List Nat) (p : Nat), p ∈ pids → p ∉ b → p ∈ handle pids b := by
  induction b with
  | nil => intro pids p hp _; simpa [handle] using hp
  | cons x xs ih =>
    intro pids p hp hpb
    simp only [List.mem_cons, not_or] at hpb
    simp only [handle, List.foldl_cons]
    have := ih (pids.erase x) p ((List.mem_erase_of_ne hpb.1).mpr hp) hpb.2
    simpa [handle] using this

theorem waitAll_spec : ∀ (f : Nat) (pids : List Nat) (bs : List (List Nat)) (r : List Nat),
    waitAll f pids bs = some r → r = [] ∧ ∀ p ∈ pids, ∃ b ∈ bs, p ∈ b := by
  intro f
  induction f with
  | zero =>
    intro pids bs r h
    cases pids with
    | nil => simp [waitAll] at h; exact ⟨h, by simp⟩
    | cons p ps => simp [waitAll] at h
  | succ f ih =>
    intro pids bs r h
    cases pids with
    | nil => simp [waitAll] at h; exact ⟨h, by simp⟩
    | cons p ps =>
      cases bs with
      | nil => simp [waitAll] at h
      | cons b bs' =>
        simp only [waitAll] at h
        have := ih _ _ _ h
        refine ⟨this.1, ?_⟩
        intro q hq
        by_cases hqb : q ∈ b
        · exact ⟨b, by simp, hqb⟩
        · -- q survives this batch, so a later one reports it
          have hsurv : q ∈ handle (p :: ps) b := mem_handle_of_not_mem b _ q hq hqb
          rcases this.2 q hsurv with ⟨b', hb', hqb'⟩
          exact ⟨b', by simp [hb'], hqb'⟩

/-- with `-a` the helper returns only when every pid has been reported, and then prints nothing -/
theorem all_never_early (args : List Bytes) (pids : List Nat) (batches : List (List Nat)) (r : Nat × List Nat)
    (hp : parsePids args = some pids) (h : run true args batches = some r) :
    r = (0, []) ∧ ∀ p ∈ pids, ∃ b ∈ batches, p ∈ b := by
  simp only [run, hp] at h
  cases batches with
  | nil => simp at h
  | cons b bs =>
    simp only [if_true, Option.map_eq_some_iff] at h
    rcases h with ⟨rest, hw, rfl⟩
    have := waitAll_spec _ _ _ _ hw
    refine ⟨by rw [this.1], ?_⟩
    intro p hp'
    by_cases hpb : p ∈ b
    · exact ⟨b, by simp, hpb⟩
    · have hsurv : p ∈ handle pids b := mem_handle_of_not_mem b _ p hp' hpb
      rcases this.2 p hsurv with ⟨b', hb', hpb'⟩
      exact ⟨b', by simp [hb'], hpb'⟩

/-- the same pid twice with `-a`: blocked although the process has exited -/
theorem dup_hangs : run true [[53], [53]] [[5]] = none := by decide

example : run false [[53], [54, 50], [55]] [[62], [5]] = some (0, [5, 7]) := by decide
example : run true [[53], [54, 50], [55]] [[62], [7, 5]] = some (0, []) := by decide
example : run true [[53], [54, 50]] [[62]] = none := by decide
example : run false [[53], [120]] [[5]] = some (1, []) := by decide

end C04Wait
end Robsd
