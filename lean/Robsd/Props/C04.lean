import Robsd.Model.Orch
/-
  C04: steps run in configured order behind barriers and stop at the first failure.

  `Orch.check` is the property as an executable checker over a trace of
  start/finish/end events.  `run_accepted` shows that EVERY trace the
  orchestrator model can produce — for every schedule, skip set, ncpu ≥ 1, exit
  codes and completion timings (the oracle) — passes it.  The same checker is
  applied to traces observed from the real `canvas`.
-/
namespace Robsd
namespace C04
open Orch

theorem filter_filter_ne (l : List Nat) (j : Nat) (g : List Nat) :
    (l.filter (· != j)).filter (fun x => !g.contains x) = l.filter (fun x => !(j :: g).contains x) := by
  rw [List.filter_filter]
  congr 1
  funext x
  by_cases h : x = j
  · subst h; simp
  · have h1 : (x != j) = true := by simpa using h
    have h2 : (x == j) = false := by simpa using h
    simp [h1, h2, h]

/-- finishing a set of running background jobs -/
theorem check_finishAll (c : Cfg) (o : Oracle) (gone : List Nat) (st : ChkSt) (tr : List Ev)
    (hsub : ∀ j ∈ gone, j ∈ st.running) (hnd : st.running.Nodup) (hgn : gone.Nodup)
    (hls : ∀ i, st.lastSync = some i → i ∉ gone) :
    check c st (finishAll o gone ++ tr) =
      check c ⟨st.running.filter (fun x => !gone.contains x), st.lastSync, st.failed⟩ tr := by
  induction gone generalizing st with
  | nil =>
    have : st.running.filter (fun x => !([] : List Nat).contains x) = st.running := by
      rw [List.filter_eq_self]; intro a _; simp
    simp only [finishAll, List.map_nil, List.nil_append, this]
  | cons j gs ih =>
    simp only [finishAll, List.map_cons, List.cons_append, check]
    have hj : st.running.contains j = true := by simpa using hsub j (by simp)
    have hls' : (st.lastSync == some j) = false := by
      cases h : st.lastSync with
      | none => rfl
      | some i =>
        have := hls i h
        simp only [List.mem_cons, not_or] at this
        simp only [beq_eq_false_iff_ne, ne_eq, Option.some.injEq]
        exact this.1
    simp only [hj, Bool.true_and, hls', Bool.false_and, Bool.or_false]
    rw [List.nodup_cons] at hgn
    have := ih ⟨st.running.filter (· != j), st.lastSync, st.failed⟩
      (by intro x hx
          have h1 := hsub x (by simp [hx])
          have hne : x ≠ j := fun e => hgn.1 (e ▸ hx)
          exact List.mem_filter.mpr ⟨h1, by simpa using hne⟩)
      (hnd.filter _) hgn.2
      (by intro i hi; have := hls i hi; simp only [List.mem_cons, not_or] at this; exact this.2)
    simp only [finishAll] at this
    rw [this, filter_filter_ne]

theorem filter_mem_sublist (l r : List Nat) (hnd : l.Nodup) (hs : r.Sublist l) :
    l.filter (fun x => r.contains x) = r := by
  induction hs with
  | slnil => rfl
  | cons a hs ih =>
    rename_i r' l'
    rw [List.nodup_cons] at hnd
    have hna : r'.contains a = false := by
      simp only [List.contains_eq_mem, decide_eq_false_iff_not]
      exact fun h => hnd.1 (hs.subset h)
    rw [List.filter_cons]
    simp only [hna, Bool.false_eq_true, if_false]
    exact ih hnd.2
  | cons_cons a hs ih =>
    rename_i r' l'
    rw [List.nodup_cons] at hnd
    rw [List.filter_cons]
    have h1 : (a :: r').contains a = true := by simp
    simp only [h1, if_true, List.cons.injEq, true_and]
    have : l'.filter (fun x => (a :: r').contains x) = l'.filter (fun x => r'.contains x) := by
      apply List.filter_congr
      intro x hx
      have hxa : ¬ x = a := by
        intro e; subst e; exact hnd.1 hx
      simp [hxa]
    rw [this]; exact ih hnd.2

theorem remaining_sublist (o : Oracle) (k : Nat) (jobs : List Nat) : (remaining o k jobs).Sublist jobs := by
  unfold remaining
  simp only
  split
  · exact List.drop_sublist 1 jobs
  · exact List.filter_sublist

theorem remaining_shorter (o : Oracle) (k : Nat) (jobs : List Nat) (h : jobs ≠ []) :
    (remaining o k jobs).length < jobs.length := by
  unfold remaining
  simp only
  split
  · cases jobs with
    | nil => exact absurd rfl h
    | cons a as => simp
  · rename_i hne
    have := List.length_filter_le (o.keep k) jobs
    omega

/-- the jobs still running after the ones that are gone have been finished -/
theorem after_gone (jobs rem : List Nat) (hnd : jobs.Nodup) (hs : rem.Sublist jobs) :
    jobs.filter (fun x => !(jobs.filter (fun j => !rem.contains j)).contains x) = rem := by
  have : jobs.filter (fun x => !(jobs.filter (fun j => !rem.contains j)).contains x) = jobs.filter (fun x => rem.contains x) := by
    apply List.filter_congr
    intro x hx
    by_cases hr : x ∈ rem
    · simp [hr]
    · simp [hr, hx]
  rw [this]
  exact filter_mem_sublist jobs rem hnd hs

/-- **Every trace of the orchestrator satisfies the property**, for every
    schedule, skip set, ncpu ≥ 1, exit codes and completion timings. -/
theorem run_checked (c : Cfg) (o : Oracle) (hn : 1 ≤ c.ncpu) :
    ∀ (steps : List Step) (jobs : List Nat) (k : Nat) (st : ChkSt),
      st.running = jobs → st.failed = false → jobs.Nodup → jobs.length ≤ c.ncpu →
      (∀ s ∈ steps, s.id ∉ jobs) → (steps.map (·.id)).Nodup →
      (∀ i, st.lastSync = some i → i ∉ jobs ∧ ∀ s ∈ steps, s.id ≠ i) →
      check c st (run c o steps jobs k).1 = true := by
  intro steps
  induction steps with
  | nil => intro jobs k st _ _ _ _ _ _ _; simp [run, check]
  | cons s rest ih =>
    intro jobs k st hrun hfail hnd hlen hfresh hids hls
    have hids' : (rest.map (·.id)).Nodup := (List.nodup_cons.mp hids).2
    have hsid : ∀ s' ∈ rest, s'.id ≠ s.id := by
      intro s' hs' e
      have := (List.nodup_cons.mp hids).1
      exact this (List.mem_map.mpr ⟨s', hs', e⟩)
    have hsj : s.id ∉ jobs := hfresh s (by simp)
    simp only [run]
    by_cases hskip : c.skip s.id = true
    · simp only [hskip, if_true]
      exact ih jobs k st hrun hfail hnd hlen (fun x hx => hfresh x (by simp [hx])) hids'
        (fun i hi => ⟨(hls i hi).1, fun x hx => (hls i hi).2 x (by simp [hx])⟩)
    · have hskip' : c.skip s.id = false := by simpa using hskip
      simp only [hskip', Bool.false_eq_true, if_false]
      by_cases hpar : s.parallel = true
      · simp only [hpar, if_true]
        by_cases hfull : jobs.length = c.ncpu
        · -- queue full: wait for any
          simp only [hfull, if_true]
          have hne : jobs ≠ [] := by intro e; rw [e] at hfull; simp at hfull; omega
          have hsub := remaining_sublist o k jobs
          have hshort := remaining_shorter o k jobs hne
          have hgone_sub : ∀ j ∈ jobs.filter (fun j => !(remaining o k jobs).contains j), j ∈ st.running := by
            intro j hj; rw [hrun]; exact (List.mem_filter.mp hj).1
          rw [List.append_assoc, check_finishAll c o _ st _ hgone_sub (hrun ▸ hnd) (hnd.filter _)
            (by intro i hi hm; exact (hls i hi).1 (List.mem_filter.mp hm).1)]
          rw [hrun, after_gone jobs _ hnd hsub]
          simp only [List.singleton_append, check, hfail, hskip', Bool.not_false, Bool.true_and, Bool.false_eq_true, if_false]
          have hb : (remaining o k jobs).length + 1 ≤ c.ncpu := by omega
          simp only [hb, decide_true, Bool.true_and]
          apply ih
          · rfl
          · rfl
          · rw [List.nodup_append]
            refine ⟨hsub.nodup hnd, by simp, ?_⟩
            intro a ha b hb' e
            simp only [List.mem_singleton] at hb'
            subst hb'; subst e
            exact hsj (hsub.subset ha)
          · simp; omega
          · intro x hx hm
            simp only [List.mem_append, List.mem_singleton] at hm
            rcases hm with hm | hm
            · exact hfresh x (by simp [hx]) (hsub.subset hm)
            · exact hsid x hx hm
          · exact hids'
          · intro i hi
            refine ⟨?_, fun x hx => (hls i hi).2 x (by simp [hx])⟩
            intro hm
            simp only [List.mem_append, List.mem_singleton] at hm
            rcases hm with hm | hm
            · exact (hls i hi).1 (hsub.subset hm)
            · exact (hls i hi).2 s (by simp) hm.symm
        · simp only [hfull, if_false, check, hfail, hskip', Bool.not_false, Bool.true_and, Bool.false_eq_true]
          have hb : st.running.length + 1 ≤ c.ncpu := by rw [hrun]; omega
          simp only [hb, decide_true, Bool.true_and]
          apply ih
          · rw [hrun]
          · rfl
          · rw [List.nodup_append]
            refine ⟨hnd, by simp, ?_⟩
            intro a ha b hb' e
            simp only [List.mem_singleton] at hb'
            subst hb'; subst e
            exact hsj ha
          · simp; omega
          · intro x hx hm
            simp only [List.mem_append, List.mem_singleton] at hm
            rcases hm with hm | hm
            · exact hfresh x (by simp [hx]) hm
            · exact hsid x hx hm
          · exact hids'
          · intro i hi
            refine ⟨?_, fun x hx => (hls i hi).2 x (by simp [hx])⟩
            intro hm
            simp only [List.mem_append, List.mem_singleton] at hm
            rcases hm with hm | hm
            · exact (hls i hi).1 hm
            · exact (hls i hi).2 s (by simp) hm.symm
      · -- synchronous: barrier first
        have hpar' : s.parallel = false := by simpa using hpar
        simp only [hpar', Bool.false_eq_true, if_false]
        have hall_sub : ∀ j ∈ jobs, j ∈ st.running := by intro j hj; rw [hrun]; exact hj
        have hempty : jobs.filter (fun x => !jobs.contains x) = [] := by
          rw [List.filter_eq_nil_iff]; intro a ha; simp [ha]
        by_cases hend : s.isEnd = true
        · simp only [hend, if_true]
          rw [check_finishAll c o jobs st _ hall_sub (hrun ▸ hnd) hnd (fun i hi => (hls i hi).1)]
          rw [hrun, hempty]
          simp [check, hfail]
        · have hend' : s.isEnd = false := by simpa using hend
          simp only [hend', Bool.false_eq_true, if_false]
          by_cases hex : o.exit s.id = 0
          · simp only [hex, if_true]
            rw [List.append_assoc, check_finishAll c o jobs st _ hall_sub (hrun ▸ hnd) hnd (fun i hi => (hls i hi).1)]
            rw [hrun, hempty]
            simp only [List.cons_append, List.nil_append, check, hfail, hskip', Bool.not_false, Bool.true_and, if_true,
              List.isEmpty_nil, List.length_nil, Nat.zero_add, hn, decide_true, List.contains_cons, BEq.rfl, Bool.true_or,
              List.filter_cons, bne_self_eq_false, Bool.false_eq_true, if_false, List.filter_nil, Bool.or_false]

            apply ih
            · rfl
            · rfl
            · exact List.nodup_nil
            · simp
            · intro x _ hm; cases hm
            · exact hids'
            · intro i hi
              simp only [Option.some.injEq] at hi
              subst hi
              exact ⟨by simp, hsid⟩
          · simp only [hex, if_false]
            rw [check_finishAll c o jobs st _ hall_sub (hrun ▸ hnd) hnd (fun i hi => (hls i hi).1)]
            rw [hrun, hempty]
            simp [check, hfail, hskip', hn]

/-- the statement for a whole invocation -/
theorem run_accepted (c : Cfg) (o : Oracle) (hn : 1 ≤ c.ncpu) (steps : List Step) (hids : (steps.map (·.id)).Nodup) :
    accepts c (run c o steps [] 0).1 = true :=
  run_checked c o hn steps [] 0 ⟨[], none, false⟩ rfl rfl List.nodup_nil (by simp) (by simp) hids (by simp)

/-! ### what the checker demands, spelled out -/

/-- a synchronous step is accepted only when nothing started before is still running -/
theorem check_sync_needs_quiet (c : Cfg) (st : ChkSt) (i : Nat) (rest : List Ev)
    (h : check c st (.start i true :: rest) = true) : st.running = [] ∧ st.failed = false ∧ c.skip i = false := by
  simp only [check, if_true, Bool.and_eq_true, Bool.not_eq_true', List.isEmpty_iff, decide_eq_true_eq] at h
  exact ⟨h.1.1.2, h.1.1.1.1, h.1.1.1.2⟩

/-- a parallel step is accepted only within the ncpu bound, and never a skipped one -/
theorem check_par_bound (c : Cfg) (st : ChkSt) (i : Nat) (rest : List Ev)
    (h : check c st (.start i false :: rest) = true) : st.running.length + 1 ≤ c.ncpu ∧ c.skip i = false ∧ st.failed = false := by
  simp only [check, Bool.false_eq_true, if_false, Bool.and_eq_true, Bool.not_eq_true', decide_eq_true_eq, Bool.and_true] at h
  exact ⟨h.1.2, h.1.1.2, h.1.1.1⟩

/-- the end record is accepted only when no synchronous step failed and nothing is running -/
theorem check_end (c : Cfg) (st : ChkSt) (i : Nat) (rest : List Ev)
    (h : check c st (.endRec i :: rest) = true) : st.failed = false ∧ st.running = [] := by
  simp only [check, Bool.and_eq_true, Bool.not_eq_true', List.isEmpty_iff] at h
  exact ⟨h.1.1, h.1.2⟩

/-! ### outcome -/

/-- a step after which the loop carries on -/
def Continues (c : Cfg) (o : Oracle) (t : Step) : Prop :=
  c.skip t.id = true ∨ t.parallel = true ∨ (t.isEnd = false ∧ o.exit t.id = 0)

/-- a step at which the invocation fails -/
def Fails (c : Cfg) (o : Oracle) (s : Step) : Prop :=
  c.skip s.id = false ∧ s.parallel = false ∧ s.isEnd = false ∧ o.exit s.id ≠ 0

/-- the invocation fails exactly when the loop reaches a non-skipped
    synchronous step that fails (every step before it was skipped, parallel —
    whatever its exit status — or a successful synchronous one) -/
theorem run_result (c : Cfg) (o : Oracle) (steps : List Step) (jobs : List Nat) (k : Nat) :
    (run c o steps jobs k).2 = false ↔
      ∃ pre s post, steps = pre ++ s :: post ∧ Fails c o s ∧ ∀ t ∈ pre, Continues c o t := by
  induction steps generalizing jobs k with
  | nil => simp [run]
  | cons s rest ih =>
    -- shifting a witness through a step that lets the loop continue
    have shift : Continues c o s →
        ((∃ pre t post, rest = pre ++ t :: post ∧ Fails c o t ∧ ∀ u ∈ pre, Continues c o u) ↔
         (∃ pre t post, s :: rest = pre ++ t :: post ∧ Fails c o t ∧ ∀ u ∈ pre, Continues c o u)) := by
      intro hcont
      constructor
      · rintro ⟨pre, t, post, e, hf, hp⟩
        exact ⟨s :: pre, t, post, by simp [e], hf, by
          intro u hu
          simp only [List.mem_cons] at hu
          rcases hu with rfl | hu
          · exact hcont
          · exact hp u hu⟩
      · rintro ⟨pre, t, post, e, hf, hp⟩
        cases pre with
        | nil =>
          simp only [List.nil_append, List.cons.injEq] at e
          obtain ⟨rfl, _⟩ := e
          obtain ⟨f1, f2, f3, f4⟩ := hf
          rcases hcont with h | h | ⟨_, h⟩
          · rw [h] at f1; cases f1
          · rw [h] at f2; cases f2
          · exact absurd h f4
        | cons p ps =>
          simp only [List.cons_append, List.cons.injEq] at e
          exact ⟨ps, t, post, e.2, hf, fun u hu => hp u (by simp [hu])⟩
    simp only [run]
    by_cases hskip : c.skip s.id = true
    · simp only [hskip, if_true, ih]
      exact shift (Or.inl hskip)
    · have hskip' : c.skip s.id = false := by simpa using hskip
      simp only [hskip', Bool.false_eq_true, if_false]
      by_cases hpar : s.parallel = true
      · simp only [hpar, if_true]
        have hc := shift (Or.inr (Or.inl hpar))
        split
        · simp only [ih]; exact hc
        · simp only [ih]; exact hc
      · have hpar' : s.parallel = false := by simpa using hpar
        simp only [hpar', Bool.false_eq_true, if_false]
        by_cases hend : s.isEnd = true
        · simp only [hend, if_true, Bool.true_eq_false, false_iff]
          rintro ⟨pre, t, post, e, hf, hp⟩
          cases pre with
          | nil =>
            simp only [List.nil_append, List.cons.injEq] at e
            obtain ⟨rfl, _⟩ := e
            have := hf.2.2.1
            rw [hend] at this; cases this
          | cons p ps =>
            simp only [List.cons_append, List.cons.injEq] at e
            obtain ⟨rfl, _⟩ := e
            rcases hp s (by simp) with h | h | ⟨h, _⟩
            · rw [hskip'] at h; cases h
            · rw [hpar'] at h; cases h
            · rw [hend] at h; cases h
        · have hend' : s.isEnd = false := by simpa using hend
          simp only [hend', Bool.false_eq_true, if_false]
          by_cases hex : o.exit s.id = 0
          · simp only [hex, if_true, ih]
            exact shift (Or.inr (Or.inr ⟨hend', hex⟩))
          · simp only [hex, if_false, true_iff]
            exact ⟨[], s, rest, rfl, ⟨hskip', hpar', hend', hex⟩, by simp⟩

/-- a failing parallel step never makes the invocation fail by itself -/
theorem par_failure_does_not_stop (c : Cfg) (o : Oracle) (steps : List Step)
    (h : ∀ s ∈ steps, Continues c o s ∨ s.isEnd = true) : (run c o steps [] 0).2 = true := by
  cases hr : (run c o steps [] 0).2 with
  | true => rfl
  | false =>
    obtain ⟨pre, s, post, e, ⟨f1, f2, f3, f4⟩, _⟩ := (run_result c o steps [] 0).mp hr
    have hs : s ∈ steps := by rw [e]; simp
    rcases h s hs with (h1 | h1 | ⟨_, h1⟩) | h1
    · rw [h1] at f1; cases f1
    · rw [h1] at f2; cases f2
    · exact absurd h1 f4
    · rw [h1] at f3; cases f3

/-! ### non-vacuity -/
private def c2 : Cfg := ⟨2, fun i => i == 4⟩
private def o2 : Oracle := ⟨fun i => if i == 2 then 7 else 0, fun _ j => j == 2⟩
private def steps2 : List Step := [⟨1, false, false⟩, ⟨2, true, false⟩, ⟨3, true, false⟩, ⟨4, true, false⟩, ⟨5, true, false⟩, ⟨6, false, false⟩, ⟨7, false, true⟩]
example : (run c2 o2 steps2 [] 0) =
    ([.start 1 true, .finish 1 0, .start 2 false, .start 3 false, .finish 3 0, .start 5 false,
      .finish 2 7, .finish 5 0, .start 6 true, .finish 6 0, .endRec 7], true) := by decide
example : accepts c2 (run c2 o2 steps2 [] 0).1 = true := run_accepted c2 o2 (by decide) steps2 (by decide)
/-- two parallel steps overlap (a parallel step does not wait for the others) … -/
example : accepts c2 [.start 2 false, .start 3 false, .finish 2 0, .finish 3 0] = true := by decide
/-- … but three on two cpus, a synchronous start during a parallel one, or a start after a synchronous failure are rejected -/
example : accepts c2 [.start 2 false, .start 3 false, .start 5 false] = false := by decide
example : accepts c2 [.start 2 false, .start 6 true] = false := by decide
example : accepts c2 [.start 1 true, .finish 1 1, .start 2 false] = false := by decide
example : accepts c2 [.start 4 false] = false := by decide

end C04
end Robsd
