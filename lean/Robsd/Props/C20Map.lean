import Robsd.Lemmas.Map
/-
  C20 (hash map part): libks/map.c behaves as an insertion-ordered association
  list, for EVERY hash function.

  * `map_refines` — any sequence of insert (of an absent key) / find / remove /
    whole-iteration-with-removal operations gives, step by step, the outputs
    of the association-list specification `Spec`, and the application-order
    list stays equal to the specification's list.  The hash function is a
    parameter: bucket placement, bucket expansion, `expand_mult`,
    `ideal_chain_maxlen`, `nonideal_items`, `ineff_expands` and the `noexpand`
    state are therefore unobservable.
  * `find_is_lookup`, `find_after_expand` — HASH_FIND is a dictionary lookup
    before and after HASH_EXPAND_BUCKETS.
  * `iterate_next`, `iterate_exactly_once`, `iterate_while_removing` — the
    iterator yields the live entries once each, in insertion order, also when
    the loop body removes the current entry; it never touches a freed entry.
  * `value_address_stable` — the address (id) returned by insert is what every
    later find returns until the key is removed, across any growth.
  * `inv_reachable` — the table invariant (every bucket chain holds exactly
    the live entries whose hash selects it, once; counters agree) holds in
    every reachable state.
-/
namespace Robsd
namespace C20Map
open Map

/-! ### the specification: an insertion-ordered association list -/

structure Spec where
  al : List (Nat × Bytes) := []
  next : Nat := 0

def Spec.step (sp : Spec) : Op → Spec × Out
  | .insert k => (⟨sp.al ++ [(sp.next, k)], sp.next + 1⟩, .elem sp.next)
  | .find k => (sp, .found ((sp.al.find? (fun p => p.2 == k)).map (·.1)))
  | .remove k => (⟨sp.al.filter (fun p => p.2 != k), sp.next⟩, .unit)
  | .iterAll ks => (⟨sp.al.filter (fun p => !ks.contains p.2), sp.next⟩, .iter (sp.al.map (·.1)) true)

def Spec.run : Spec → List Op → Spec × List Out
  | sp, [] => (sp, [])
  | sp, op :: ops =>
    let r := sp.step op
    let r' := Spec.run r.1 ops
    (r'.1, r.2 :: r'.2)

/-- the caller's side of the contract: a key is inserted only while absent -/
def Spec.pre (sp : Spec) : Op → Prop
  | .insert k => ∀ p ∈ sp.al, p.2 ≠ k
  | _ => True

def Spec.guarded : Spec → List Op → Prop
  | _, [] => True
  | sp, op :: ops => sp.pre op ∧ Spec.guarded (sp.step op).1 ops

def abs (s : St) : List (Nat × Bytes) := s.order.map (fun e => (e.id, e.key))

/-! ### lookups -/

/-- HASH_FIND is a dictionary lookup, for every hash function -/
theorem find_is_lookup (h : Bytes → Nat) (s : St) (k : Bytes) (hi : Inv h s) (hk : KeysNodup s.order) :
    find h s k = s.order.find? (fun e => e.key == k) := find_eq h s k hi hk

/-- bucket expansion does not change any lookup -/
theorem find_after_expand (h : Bytes → Nat) (s : St) (k : Bytes) (hi : Inv h s) (hk : KeysNodup s.order) :
    find h { s with table := expand s.table } k = find h s k := by
  have hi' : Inv h { s with table := expand s.table } :=
    ⟨hi.ids, hi.fresh, hi.hash, fun ho => tinv_expand _ _ (hi.tbl ho)⟩
  rw [find_eq h _ k hi' hk, find_eq h s k hi hk]

/-! ### iteration -/

theorem succ?_append (kept rest : List Elem) (e : Elem) (hn : e ∉ kept) :
    succ? (kept ++ e :: rest) e = rest.head? := by
  induction kept with
  | nil => simp [succ?]
  | cons x xs ih =>
    simp only [List.mem_cons, not_or] at hn
    simp only [List.cons_append, succ?]
    rw [if_neg (fun hx => hn.1 hx.symm)]
    exact ih hn.2

/-- One call of map_iterate.  `rest` is what has not been returned yet; the
    entries in front of it may have been removed or kept at will. -/
theorem iterate_next (s : St) (it : Iter) (kept rest : List Elem)
    (ho : s.order = kept ++ rest) (hn : s.order.Nodup)
    (hit : it = ⟨true, rest.head?⟩ ∨ (it = {} ∧ kept = [])) :
    iterate s it = match rest with
      | [] => (.done, it)
      | e :: r => (.elem e, ⟨true, r.head?⟩) := by
  rcases hit with rfl | ⟨rfl, rfl⟩
  · cases rest with
    | nil => simp [iterate]
    | cons e r =>
      have hmem : e ∈ s.order := by rw [ho]; simp
      have hnk : e ∉ kept := by
        rw [ho, List.nodup_append] at hn
        intro hk
        exact hn.2.2 e hk e (by simp) rfl
      simp only [iterate, List.head?_cons, Bool.true_eq_false, false_and, if_false, hmem, if_true]
      rw [ho, succ?_append kept r e hnk]
  · simp only [List.nil_append] at ho
    cases rest with
    | nil => simp [iterate, ho]
    | cons e r => simp [iterate, ho]

theorem drain_spec (h : Bytes → Nat) (rm : Elem → Bool) (rest : List Elem) :
    ∀ (fuel : Nat) (s : St) (it : Iter) (kept acc : List Elem),
      Inv h s → KeysNodup s.order → s.order = kept ++ rest →
      (it = ⟨true, rest.head?⟩ ∨ (it = {} ∧ kept = [])) → rest.length < fuel →
      ∃ s', drain h rm fuel s it acc = (acc.reverse ++ rest, s', true) ∧ Inv h s' ∧ KeysNodup s'.order ∧
        s'.order = kept ++ rest.filter (fun e => !rm e) ∧ s'.next = s.next := by
  induction rest with
  | nil =>
    intro fuel s it kept acc hi hk ho hit hf
    cases fuel with
    | zero => simp at hf
    | succ f =>
      have := iterate_next s it kept [] ho hi.nodup hit
      refine ⟨s, ?_, hi, hk, by simpa using ho, rfl⟩
      simp [drain, this]
  | cons e r ih =>
    intro fuel s it kept acc hi hk ho hit hf
    cases fuel with
    | zero => simp at hf
    | succ f =>
      have hstep := iterate_next s it kept (e :: r) ho hi.nodup hit
      simp only at hstep
      have hnk : e ∉ kept := by
        have hn := hi.nodup
        rw [ho, List.nodup_append] at hn
        intro hk'
        exact hn.2.2 e hk' e (by simp) rfl
      have hmem : e ∈ s.order := by rw [ho]; simp
      by_cases hrm : rm e = true
      · have hr := inv_remove h s e.key hi hk
        have hord : (remove h s e.key).order = kept ++ r := by
          rw [hr.2.1, ← erase_eq_filter_key _ _ hk hmem, ho, List.erase_append_right _ hnk,
            List.erase_cons_head]
        have hk' : KeysNodup (remove h s e.key).order := by
          rw [hr.2.1, ← erase_eq_filter_key _ _ hk hmem]; exact keys_erase _ _ hk
        rcases ih f (remove h s e.key) ⟨true, r.head?⟩ kept (e :: acc) hr.1 hk' hord (Or.inl rfl)
          (by simp at hf; omega) with ⟨s', h1, h2, h3, h4, h5⟩
        refine ⟨s', ?_, h2, h3, ?_, by rw [h5, hr.2.2]⟩
        · simp only [drain, hstep, hrm, if_true, h1]
          simp
        · rw [h4]; simp [hrm]
      · have hord : s.order = (kept ++ [e]) ++ r := by rw [ho]; simp
        rcases ih f s ⟨true, r.head?⟩ (kept ++ [e]) (e :: acc) hi hk hord (Or.inl rfl)
          (by simp at hf; omega) with ⟨s', h1, h2, h3, h4, h5⟩
        refine ⟨s', ?_, h2, h3, ?_, h5⟩
        · simp only [drain, hstep, hrm, Bool.false_eq_true, if_false, h1]
          simp
        · rw [h4]; simp [hrm]

/-- a complete iteration returns every live entry exactly once, in insertion
    order, and leaves the map unchanged -/
theorem iterate_exactly_once (h : Bytes → Nat) (s : St) (hi : Inv h s) (hk : KeysNodup s.order) :
    drain h (fun _ => false) (s.order.length + 1) s {} [] = (s.order, s, true) := by
  rcases drain_spec h (fun _ => false) s.order (s.order.length + 1) s {} [] [] hi hk (by simp)
    (Or.inr ⟨rfl, rfl⟩) (by omega) with ⟨s', h1, _, _, _, _⟩
  have hs : s' = s := by
    have : drain h (fun _ => false) (s.order.length + 1) s {} [] = ([] ++ s.order, s', true) := by
      simpa using h1
    -- the loop body never changes the state when nothing is removed
    clear h1
    suffices ∀ fuel st it acc, (drain h (fun _ => false) fuel st it acc).2.1 = st by
      have e := this (s.order.length + 1) s {} []
      rw [‹drain h (fun _ => false) (s.order.length + 1) s {} [] = ([] ++ s.order, s', true)›] at e
      exact e
    intro fuel
    induction fuel with
    | zero => intro st it acc; rfl
    | succ f ihf =>
      intro st it acc
      simp only [drain]
      split
      · simp only [Bool.false_eq_true, if_false]; exact ihf _ _ _
      · rfl
      · rfl
  rw [h1, hs]; simp

/-- removing the current entry in the loop body: every entry is still returned
    exactly once, in insertion order, no freed entry is touched, and exactly the
    removed ones are gone afterwards -/
theorem iterate_while_removing (h : Bytes → Nat) (rm : Elem → Bool) (s : St) (hi : Inv h s)
    (hk : KeysNodup s.order) :
    ∃ s', drain h rm (s.order.length + 1) s {} [] = (s.order, s', true) ∧
      s'.order = s.order.filter (fun e => !rm e) ∧ Inv h s' := by
  rcases drain_spec h rm s.order (s.order.length + 1) s {} [] [] hi hk (by simp)
    (Or.inr ⟨rfl, rfl⟩) (by omega) with ⟨s', h1, h2, _, h4, _⟩
  exact ⟨s', by simpa using h1, by simpa using h4, h2⟩

/-! ### refinement, one step and any number of steps -/

theorem mem_abs {s : St} {e : Elem} (he : e ∈ s.order) : (e.id, e.key) ∈ abs s :=
  List.mem_map.mpr ⟨e, he, rfl⟩

theorem step_refines (h : Bytes → Nat) (s : St) (sp : Spec) (op : Op)
    (hi : Inv h s) (hk : KeysNodup s.order) (ha : abs s = sp.al) (hn : s.next = sp.next)
    (hg : sp.pre op) :
    (step h s op).2 = (sp.step op).2 ∧ Inv h (step h s op).1 ∧ KeysNodup (step h s op).1.order ∧
    abs (step h s op).1 = (sp.step op).1.al ∧ (step h s op).1.next = (sp.step op).1.next := by
  cases op with
  | insert k =>
    have hab : ∀ e ∈ s.order, e.key ≠ k := by
      intro e he
      have := hg (e.id, e.key) (by rw [← ha]; exact mem_abs he)
      exact this
    refine ⟨by simp [step, Spec.step, Map.insert, hn], inv_insert h s k hi, keys_insert h s k hk hab, ?_, ?_⟩
    · simp [step, Spec.step, Map.insert, abs, ← ha, hn]
    · simp [step, Spec.step, Map.insert, hn]
  | find k =>
    refine ⟨?_, hi, hk, ha, hn⟩
    simp only [step, Spec.step, Out.found.injEq]
    rw [find_eq h s k hi hk, ← ha, abs, List.find?_map]
    simp [Option.map_map, Function.comp_def]
  | remove k =>
    have hr := inv_remove h s k hi hk
    refine ⟨rfl, hr.1, ?_, ?_, ?_⟩
    · simp only [step]
      rw [hr.2.1]
      unfold KeysNodup at *
      exact hk.sublist ((List.filter_sublist).map _)
    · simp only [step, Spec.step, abs]
      rw [hr.2.1, ← ha, abs, List.filter_map]
      simp [Function.comp_def]
    · simp only [step, Spec.step]; rw [hr.2.2, hn]
  | iterAll ks =>
    rcases drain_spec h (fun e => ks.contains e.key) s.order (s.order.length + 1) s {} [] [] hi hk
      (by simp) (Or.inr ⟨rfl, rfl⟩) (by omega) with ⟨s', h1, h2, h3, h4, h5⟩
    simp only [step, Spec.step, h1]
    refine ⟨?_, h2, h3, ?_, by rw [h5, hn]⟩
    · simp [← ha, abs]
    · rw [abs, h4, ← ha, abs, List.filter_map]
      simp [Function.comp_def]

/-- **C20, map**: for every hash function and every operation sequence in which
    a key is inserted only while absent, libks/map.c answers like the
    insertion-ordered association list. -/
theorem map_refines (h : Bytes → Nat) (ops : List Op) :
    ∀ (s : St) (sp : Spec), Inv h s → KeysNodup s.order → abs s = sp.al → s.next = sp.next →
      sp.guarded ops →
      (run h s ops).2 = (sp.run ops).2 ∧ abs (run h s ops).1 = (sp.run ops).1.al ∧
      Inv h (run h s ops).1 := by
  induction ops with
  | nil => intro s sp hi _ ha _ _; exact ⟨rfl, ha, hi⟩
  | cons op ops ih =>
    intro s sp hi hk ha hn hg
    have hs := step_refines h s sp op hi hk ha hn hg.1
    have := ih (step h s op).1 (sp.step op).1 hs.2.1 hs.2.2.1 hs.2.2.2.1 hs.2.2.2.2 hg.2
    simp only [run, Spec.run]
    exact ⟨by rw [hs.1, this.1], this.2.1, this.2.2⟩

/-- from the empty map -/
theorem map_refines_init (h : Bytes → Nat) (ops : List Op) (hg : ({} : Spec).guarded ops) :
    (run h {} ops).2 = (({} : Spec).run ops).2 ∧ abs (run h {} ops).1 = (({} : Spec).run ops).1.al :=
  let r := map_refines h ops {} {} (inv_init h) (by simp [KeysNodup]) rfl rfl hg
  ⟨r.1, r.2.1⟩

/-- the table invariant holds in every reachable state -/
theorem inv_reachable (h : Bytes → Nat) (ops : List Op) (hg : ({} : Spec).guarded ops) :
    Inv h (run h {} ops).1 :=
  (map_refines h ops {} {} (inv_init h) (by simp [KeysNodup]) rfl rfl hg).2.2

/-! ### the value address is stable until the key is removed -/

def touches (k : Bytes) : Op → Bool
  | .remove k' => k' == k
  | .iterAll ks => ks.contains k
  | _ => false

theorem spec_keys_step (sp : Spec) (op : Op) (hk : (sp.al.map (·.2)).Nodup)
    (hg : sp.pre op) :
    ((sp.step op).1.al.map (·.2)).Nodup := by
  cases op with
  | insert k =>
    simp only [Spec.step, List.map_append, List.map_cons, List.map_nil]
    rw [List.nodup_append]
    refine ⟨hk, by simp, ?_⟩
    intro a ha b hb hab
    simp only [List.mem_cons, List.not_mem_nil, or_false] at hb
    subst hb; subst hab
    rcases List.mem_map.mp ha with ⟨p, hp, hpk⟩
    exact hg p hp hpk
  | find k => exact hk
  | remove k => exact hk.sublist ((List.filter_sublist).map _)
  | iterAll ks => exact hk.sublist ((List.filter_sublist).map _)

theorem spec_entry_survives (ops : List Op) :
    ∀ (sp : Spec) (i : Nat) (k : Bytes), (i, k) ∈ sp.al → (sp.al.map (·.2)).Nodup → sp.guarded ops →
      (∀ op ∈ ops, touches k op = false) →
      (i, k) ∈ (sp.run ops).1.al ∧ ((sp.run ops).1.al.map (·.2)).Nodup := by
  induction ops with
  | nil => intro sp i k hm hk _ _; exact ⟨hm, hk⟩
  | cons op ops ih =>
    intro sp i k hm hk hg ht
    have hk' := spec_keys_step sp op hk hg.1
    have hm' : (i, k) ∈ (sp.step op).1.al := by
      have hto := ht op (by simp)
      cases op with
      | insert k' => simp [Spec.step, hm]
      | find k' => exact hm
      | remove k' =>
        simp only [touches, beq_eq_false_iff_ne] at hto
        simp only [Spec.step, List.mem_filter, bne_iff_ne]
        exact ⟨hm, fun e => hto e.symm⟩
      | iterAll ks =>
        simp only [touches] at hto
        simp only [Spec.step, List.mem_filter]
        refine ⟨hm, ?_⟩
        simp only [Bool.not_eq_eq_eq_not, Bool.not_true]
        exact hto
    exact ih (sp.step op).1 i k hm' hk' hg.2 (fun o ho => ht o (by simp [ho]))

theorem lookup_of_mem (al : List (Nat × Bytes)) (i : Nat) (k : Bytes) (hm : (i, k) ∈ al)
    (hk : (al.map (·.2)).Nodup) : (al.find? (fun p => p.2 == k)).map (·.1) = some i := by
  induction al with
  | nil => simp at hm
  | cons p ps ih =>
    simp only [List.map_cons, List.nodup_cons, List.mem_map, not_exists, not_and] at hk
    rcases List.mem_cons.mp hm with rfl | hm'
    · simp
    · have hne : p.2 ≠ k := fun e => hk.1 (i, k) hm' e.symm
      have hb : (p.2 == k) = false := by simpa using hne
      rw [List.find?_cons, hb]
      exact ih hm' hk.2

theorem spec_keys_run (ops : List Op) : ∀ (sp : Spec), (sp.al.map (·.2)).Nodup → sp.guarded ops →
    ((sp.run ops).1.al.map (·.2)).Nodup := by
  induction ops with
  | nil => intro sp hk _; exact hk
  | cons op ops ih => intro sp hk hg; exact ih _ (spec_keys_step sp op hk hg.1) hg.2

theorem guarded_append (a b : List Op) : ∀ (sp : Spec), sp.guarded (a ++ b) →
    sp.guarded a ∧ (sp.run a).1.guarded b := by
  induction a with
  | nil => intro sp hg; exact ⟨trivial, hg⟩
  | cons x xs ih =>
    intro sp hg
    have := ih (sp.step x).1 hg.2
    exact ⟨⟨hg.1, this.1⟩, this.2⟩

theorem keys_of_abs (s : St) (al : List (Nat × Bytes)) (ha : abs s = al) (hk : (al.map (·.2)).Nodup) :
    KeysNodup s.order := by
  unfold KeysNodup
  have e : s.order.map (·.key) = (abs s).map (·.2) := by simp [abs, Function.comp_def]
  rw [e, ha]; exact hk

/-- Insert `k` (absent) in any reachable state, run any further operations that
    do not remove `k`: `find k` returns the element created by that insert — the
    value has not moved, whatever growth happened in between. -/
theorem value_address_stable (h : Bytes → Nat) (pre post : List Op) (k : Bytes)
    (hg : ({} : Spec).guarded (pre ++ Op.insert k :: post))
    (ht : ∀ op ∈ post, touches k op = false) :
    let s1 := (run h {} pre).1
    let s2 := (run h (Map.insert h s1 k).1 post).1
    (find h s2 k).map (·.id) = some (Map.insert h s1 k).2.id := by
  intro s1 s2
  have g1 := guarded_append pre (Op.insert k :: post) {} hg
  have r1 := map_refines h pre {} {} (inv_init h) (by simp [KeysNodup]) rfl rfl g1.1
  have kn1 := spec_keys_run pre {} (by simp) g1.1
  have hk1 : KeysNodup s1.order := keys_of_abs s1 _ r1.2.1 kn1
  have hn1 : s1.next = (({} : Spec).run pre).1.next := by
    suffices ∀ (ops : List Op) (s : St) (sp : Spec), Inv h s → KeysNodup s.order → abs s = sp.al →
        s.next = sp.next → sp.guarded ops → (run h s ops).1.next = (sp.run ops).1.next from
      this pre {} {} (inv_init h) (by simp [KeysNodup]) rfl rfl g1.1
    intro ops
    induction ops with
    | nil => intro s sp _ _ _ hn _; exact hn
    | cons op ops ih =>
      intro s sp hi hk ha hn hg
      have hs := step_refines h s sp op hi hk ha hn hg.1
      exact ih _ _ hs.2.1 hs.2.2.1 hs.2.2.2.1 hs.2.2.2.2 hg.2
  -- the insert
  have st := step_refines h s1 _ (.insert k) r1.2.2 hk1 r1.2.1 hn1 g1.2.1
  -- the rest
  have r2 := map_refines h post (Map.insert h s1 k).1 _ st.2.1 st.2.2.1 st.2.2.2.1 st.2.2.2.2 g1.2.2
  have kn2 := spec_keys_step _ (.insert k) kn1 g1.2.1
  have hin : ((({} : Spec).run pre).1.next, k) ∈ ((({} : Spec).run pre).1.step (.insert k)).1.al := by
    simp [Spec.step]
  have sv := spec_entry_survives post _ _ k hin kn2 g1.2.2 ht
  have hk2 : KeysNodup s2.order := keys_of_abs s2 _ r2.2.1 sv.2
  rw [find_eq h s2 k r2.2.2 hk2]
  have := lookup_of_mem _ _ k sv.1 sv.2
  rw [← r2.2.1, abs, List.find?_map] at this
  simp only [Option.map_map, Function.comp_def] at this
  have hid : (Map.insert h s1 k).2.id = (({} : Spec).run pre).1.next := by simp [Map.insert, hn1]
  rw [hid]
  exact this

/-! ### non-vacuity: concrete runs that meet the hypotheses and cross expansions -/

instance Spec.decPre (sp : Spec) (op : Op) : Decidable (sp.pre op) := by
  cases op <;> unfold Spec.pre <;> infer_instance

instance Spec.decGuarded : (sp : Spec) → (ops : List Op) → Decidable (sp.guarded ops)
  | _, [] => isTrue trivial
  | sp, op :: ops => by
    unfold Spec.guarded
    exact @instDecidableAnd _ _ (Spec.decPre sp op) (Spec.decGuarded (sp.step op).1 ops)

def exKey (n : Nat) : Bytes := [UInt8.ofNat (n / 256), UInt8.ofNat (n % 256)]
def exIns (n : Nat) : List Op := (List.range n).map (fun i => Op.insert (exKey i))

/-- the guard is satisfiable by a long sequence with removals and iteration -/
example : ({} : Spec).guarded (exIns 120 ++ [.remove (exKey 3), .iterAll [exKey 5], .insert (exKey 3)]) := by
  decide +kernel

/-- with a constant hash 120 insertions cross two expansions and end in the
    `noexpand` state — the theorems cover it because the hash is arbitrary -/
example : (run (fun _ => 0) {} (exIns 120)).1.table.noexpand = true ∧
    (run (fun _ => 0) {} (exIns 120)).1.table.buckets.length = 128 := by decide +kernel

/-- Jenkins' hash: 200 keys, one expansion, lookups/removal/iteration as specified -/
example : (run jen {} (exIns 200 ++ [.find (exKey 3), .remove (exKey 3), .find (exKey 3),
      .iterAll [exKey 5, exKey 199], .find (exKey 5), .find (exKey 198)])).2.drop 200 =
    [.found (some 3), .unit, .found none,
     .iter ((List.range 200).filter (· ≠ 3)) true, .found none, .found (some 198)] ∧
    (run jen {} (exIns 200)).1.table.buckets.length = 64 := by decide +kernel

end C20Map
end Robsd
