import Robsd.Lemmas.ArenaInv
/-
  C19: arena allocations stay intact until their scope ends.

  Model: Robsd/Model/Arena.lean (libks/arena.c).  All theorems hold for every
  `Params` satisfying `Params.ok` (sizes that are multiples of the pointer
  size; the values of the compiled code are checked against it on every run),
  every operation sequence — any number of frames, scopes, blocks, any sizes —
  starting from `arena_alloc`.
-/
namespace Robsd
namespace C19
open Arena

/-- every operation keeps the invariant, never ends in `err(1)`, and leaves the
    blocks it is not aimed at alone -/
theorem step_spec {p : Params} (hp : p.ok) {s : St} (h : Inv p s) (op : Op) :
    Inv p (step p s op).1 ∧ (step p s op).2 ≠ .fail ∧ Frame' s (step p s op).1 op := by
  cases op with
  | enter => exact spec_enter h
  | leave => exact spec_leave h
  | malloc k n =>
    exact allocStep_spec hp h k n (fun m _ => m) (fun _ _ _ _ _ _ => rfl) (.malloc k n)
  | calloc k n =>
    refine allocStep_spec hp h k n (fun m b => fill m b.h b.off (List.replicate n 0)) ?_ (.calloc k n)
    intro m b h' o _ hout
    exact fill_outside m b.h b.off _ h' o (by simpa using hout)
  | str k bytes =>
    refine allocStep_spec hp h k (bytes.length + 1) (fun m b => fill m b.h b.off (bytes ++ [0])) ?_ (.str k bytes)
    intro m b h' o _ hout
    exact fill_outside m b.h b.off _ h' o (by simpa using hout)
  | cleanup k => exact spec_cleanup hp h k
  | realloc k id old n =>
    obtain ⟨h1, h2, h3, _⟩ := spec_realloc hp h k id old n _ rfl
    exact ⟨h1, h2, h3⟩
  | write id i v => exact spec_write h id i v

theorem inv_init {p : Params} (hp : p.ok) : Inv p (init p) := by
  have h1 : (init p).blocks = [] := rfl
  have h2 : (init p).ran ++ pending (init p) = [] := rfl
  refine ⟨core_init hp, ?_, ?_, ?_⟩
  · intro b hb; rw [h1] at hb; cases hb
  · intro t ht; rw [h2] at ht; cases ht
  · rw [h2]; exact List.nodup_nil

/-- the invariant holds in every reachable state -/
theorem inv_run {p : Params} (hp : p.ok) (ops : List Op) : Inv p (run p (init p) ops) := by
  suffices ∀ s, Inv p s → Inv p (run p s ops) from this _ (inv_init hp)
  induction ops with
  | nil => intro s h; exact h
  | cons op rest ih => intro s h; exact ih _ (step_spec hp h op).1

/-! ### The property, clause by clause -/

/-- every live block is pointer aligned and lies behind the frame header -/
theorem aligned {p : Params} (hp : p.ok) (ops : List Op) :
    ∀ b ∈ (run p (init p) ops).blocks, 8 ∣ b.off ∧ p.hdr ≤ b.off :=
  fun b hb => let h := (inv_run hp ops).core.bl_ok b hb; ⟨h.1, h.2.1⟩

/-- a returned pointer is the address of a live block (hence aligned) -/
theorem ptr_live {p : Params} (hp : p.ok) {s : St} (h : Inv p s) (op : Op) (id hh off : Nat)
    (hout : (step p s op).2 = .ptr id hh off) :
    ∃ b ∈ (step p s op).1.blocks, b.id = id ∧ b.h = hh ∧ b.off = off ∧ 8 ∣ off := by
  have hinv := (step_spec hp h op).1
  suffices ∃ b ∈ (step p s op).1.blocks, b.id = id ∧ b.h = hh ∧ b.off = off by
    obtain ⟨b, hb, e1, e2, e3⟩ := this
    exact ⟨b, hb, e1, e2, e3, e3 ▸ (hinv.core.bl_ok b hb).1⟩
  have halloc : ∀ (k n : Nat) (M : (Nat → Nat → UInt8) → Block → Nat → Nat → UInt8),
      (allocStep p s k n M).2 = .ptr id hh off →
      ∃ b ∈ (allocStep p s k n M).1.blocks, b.id = id ∧ b.h = hh ∧ b.off = off := by
    intro k n M
    unfold allocStep
    rcases Option.eq_none_or_eq_some (scopeCheck s k) with hck | ⟨o, hck⟩
    · simp only [hck]
      rcases Option.eq_none_or_eq_some (alloc p s n s.next) with ha | ⟨⟨s', b⟩, ha⟩
      · simp [ha]
      · simp only [ha]
        intro e
        simp only [Out.ptr.injEq] at e
        have hb : b ∈ s'.blocks := by
          unfold alloc at ha
          split at ha
          · cases ha
          · simp only [Option.some.injEq, Prod.mk.injEq] at ha
            obtain ⟨rfl, rfl⟩ := ha
            exact List.mem_cons_self
        exact ⟨b, hb, e.1, e.2.1, e.2.2⟩
    · simp only [hck]
      intro e
      rcases scopeCheck_some hck with rfl | rfl <;> cases e
  cases op with
  | enter =>
    simp only [step] at hout
    split at hout <;> cases hout
  | leave =>
    simp only [step] at hout
    split at hout <;> cases hout
  | malloc k n => exact halloc k n (fun m _ => m) hout
  | calloc k n => exact halloc k n (fun m b => fill m b.h b.off (List.replicate n 0)) hout
  | str k bytes => exact halloc k (bytes.length + 1) (fun m b => fill m b.h b.off (bytes ++ [0])) hout
  | cleanup k =>
    simp only [step] at hout ⊢
    rcases Option.eq_none_or_eq_some (scopeCheck s k) with hck | ⟨o, hck⟩
    · obtain ⟨hsc, _⟩ := scopeCheck_none hck
      obtain ⟨sc, rest, hsq⟩ := List.exists_cons_of_ne_nil hsc
      obtain ⟨fr, b, ha, _⟩ := core_alloc hp h.core hsc p.csz s.next (fun c hc => Nat.ne_of_lt (h.bl_lt c hc))
      simp only [hck, ha, hsq] at hout ⊢
      simp only [Out.ptr.injEq] at hout
      exact ⟨b, List.mem_cons_self, hout.1, hout.2.1, hout.2.2⟩
    · simp only [hck] at hout
      rcases scopeCheck_some hck with rfl | rfl <;> cases hout
  | realloc k id' old n =>
    obtain ⟨_, _, _, h4⟩ := spec_realloc hp h k id' old n _ rfl
    have hout' := hout
    simp only [step] at hout
    rcases Option.eq_none_or_eq_some (findBlock s.blocks id') with hfb | ⟨b, hfb⟩
    · simp [hfb] at hout
    · simp only [hfb] at hout
      by_cases hold : b.size < old
      · simp [hold] at hout
      · simp only [if_neg hold] at hout
        rcases Option.eq_none_or_eq_some (scopeCheck s k) with hck | ⟨o, hck⟩
        · obtain ⟨nb, hnb, e1, _, _, e4, _⟩ := h4 b hfb (by omega) hck
          rw [e4] at hout'
          simp only [Out.ptr.injEq] at hout'
          exact ⟨nb, hnb, by omega, hout'.2.1, hout'.2.2⟩
        · simp only [hck] at hout
          rcases scopeCheck_some hck with rfl | rfl <;> cases hout
  | write id' i v =>
    simp only [step] at hout
    split at hout
    · cases hout
    · split at hout <;> cases hout

/-- two live blocks never share a byte (blocks of different frames are in
    different malloc'd chunks) -/
theorem live_disjoint {p : Params} (hp : p.ok) (ops : List Op) (b c : Block)
    (hb : b ∈ (run p (init p) ops).blocks) (hc : c ∈ (run p (init p) ops).blocks) (hne : b.id ≠ c.id) (hh : b.h = c.h) :
    b.size = 0 ∨ c.size = 0 ∨ b.off + b.size ≤ c.off ∨ c.off + c.size ≤ b.off :=
  core_disjoint (inv_run hp ops).core hb hc hne hh

/-- a live block lies inside its frame, below the bump pointer -/
theorem live_in_frame {p : Params} (hp : p.ok) (ops : List Op) :
    ∀ b ∈ (run p (init p) ops).blocks, ∃ f ∈ (run p (init p) ops).frames, f.h = b.h ∧ b.off + b.size ≤ f.len ∧ f.len ≤ f.size := by
  intro b hb
  have hi := inv_run hp ops
  obtain ⟨f, hf, h1, h2, h3⟩ := hi.core.bl_fr b hb
  have := clampA_ge (P := p.P) (hi.core.bl_ok b hb).2.2
  exact ⟨f, hf, h1, by simp only [Block.fin] at *; omega, (hi.core.fr_ok f hf).2.2.2⟩

/-- the contents of a live block are not changed by any operation that is not
    a write to / realloc of that very block: other allocations, reallocations of
    other blocks (in place or moved), entering and leaving scopes -/
theorem contents_stable {p : Params} (hp : p.ok) (ops : List Op) (op : Op) (b : Block)
    (hb : b ∈ (run p (init p) ops).blocks) (hnt : ¬ targets op b.id) (i : Nat) (hi : i < b.size) :
    (step p (run p (init p) ops) op).1.mem b.h (b.off + i) = (run p (init p) ops).mem b.h (b.off + i) :=
  ((step_spec hp (inv_run hp ops) op).2.2 b hb hnt).1 i hi

/-- ... and the block stays live until its own scope is left -/
theorem survives {p : Params} (hp : p.ok) (ops : List Op) (op : Op) (b : Block)
    (hb : b ∈ (run p (init p) ops).blocks) (hnt : ¬ targets op b.id) :
    b ∈ (step p (run p (init p) ops) op).1.blocks ∨ (op = .leave ∧ b.depth = curDepth (run p (init p) ops)) :=
  ((step_spec hp (inv_run hp ops) op).2.2 b hb hnt).2

/-- reallocation (from the innermost scope) returns a live block of the new
    size whose first `min old new` bytes are the old block's -/
theorem realloc_prefix {p : Params} (hp : p.ok) (ops : List Op) (id old n : Nat) (b : Block)
    (hfb : findBlock (run p (init p) ops).blocks id = some b) (hold : old ≤ b.size)
    (hsc : (run p (init p) ops).scopes ≠ []) :
    ∃ nb ∈ (step p (run p (init p) ops) (.realloc 0 id old n)).1.blocks, nb.id = id ∧ nb.size = n ∧
      (step p (run p (init p) ops) (.realloc 0 id old n)).2 = .ptr id nb.h nb.off ∧
      ∀ i, i < min old n →
        (step p (run p (init p) ops) (.realloc 0 id old n)).1.mem nb.h (nb.off + i) = (run p (init p) ops).mem b.h (b.off + i) := by
  have hck : scopeCheck (run p (init p) ops) 0 = none := by
    unfold scopeCheck
    have : 0 < (run p (init p) ops).scopes.length := List.length_pos_iff.mpr hsc
    rw [if_neg (by omega)]; simp
  obtain ⟨_, _, _, h4⟩ := spec_realloc hp (inv_run hp ops) 0 id old n _ rfl
  obtain ⟨nb, hnb, e1, e2, _, e4, e5⟩ := h4 b hfb hold hck
  exact ⟨nb, hnb, e1, e2, e4, e5⟩

/-- leaving a scope: exactly that scope's blocks go, its cleanups run (newest
    first), the bump pointer returns to where the scope was entered — the
    `: 0` arm of `arena_scope_leave` is never taken -/
theorem leave_exact {p : Params} (hp : p.ok) (ops : List Op) (sc : Scope) (rest : List Scope)
    (hsc : (run p (init p) ops).scopes = sc :: rest) :
    let s := run p (init p) ops
    let s' := (step p s .leave).1
    s'.blocks = s.blocks.filter (fun b => b.depth != sc.depth) ∧ s'.ran = s.ran ++ sc.cleanups ∧ s'.scopes = rest ∧
    s'.mem = s.mem ∧
    ∃ f post, s.frames.dropWhile (fun g => g.h != sc.h) = f :: post ∧ sc.len ≤ f.len ∧
      s'.frames = { f with len := sc.len } :: post := by
  intro s s'
  have hi := inv_run hp ops
  obtain ⟨⟨f, post, hdrop, hlen⟩, _⟩ := core_leave hi.core sc rest hsc
  have hs' : s' = (step p s .leave).1 := rfl
  simp only [step, s, hsc] at hs'
  refine ⟨by rw [hs'], by rw [hs'], by rw [hs'], by rw [hs'], f, post, hdrop, hlen, ?_⟩
  rw [hs']
  simp only [hdrop, if_pos hlen]

/-- a cleanup never runs twice, and one that ran is no longer pending -/
theorem cleanups_once {p : Params} (hp : p.ok) (ops : List Op) :
    ((run p (init p) ops).ran ++ pending (run p (init p) ops)).Nodup :=
  (inv_run hp ops).cl_nodup

/-- block ids (handles) are unique among live blocks -/
theorem ids_unique {p : Params} (hp : p.ok) (ops : List Op) (b c : Block)
    (hb : b ∈ (run p (init p) ops).blocks) (hc : c ∈ (run p (init p) ops).blocks) (h : b.id = c.id) : b = c :=
  block_unique (inv_run hp ops).core.bl_ord hb hc h

/-- allocating from an outer scope while a nested one is open traps and changes nothing -/
theorem outer_alloc_trapped (p : Params) (s : St) (k : Nat) (hk : k ≠ 0) (hlt : k < s.scopes.length) :
    (∀ n, step p s (.malloc k n) = (s, .trap)) ∧ (∀ n, step p s (.calloc k n) = (s, .trap)) ∧
    (∀ bs, step p s (.str k bs) = (s, .trap)) ∧ step p s (.cleanup k) = (s, .trap) ∧
    (∀ id old n b, findBlock s.blocks id = some b → old ≤ b.size → step p s (.realloc k id old n) = (s, .trap)) := by
  have hck : scopeCheck s k = some .trap := by
    unfold scopeCheck
    rw [if_neg (by omega), if_pos hk]
  refine ⟨?_, ?_, ?_, ?_, ?_⟩
  · intro n; simp only [step, hck]
  · intro n; simp only [step, hck]
  · intro bs; simp only [step, hck]
  · simp only [step, hck]
  · intro id old n b hfb hold
    simp only [step, hfb, if_neg (show ¬ b.size < old by omega), hck]

/-- `arena_malloc` and friends never reach `err(1)`: a frame that is large enough is always found -/
theorem never_fails {p : Params} (hp : p.ok) (ops : List Op) (op : Op) :
    (step p (run p (init p) ops) op).2 ≠ .fail :=
  (step_spec hp (inv_run hp ops) op).2.1

/-! ### Non-vacuity: concrete parameters and programs -/

def p0 : Params := { hdr := 32, fsz := 65536, P := 8, csz := 24 }

example : p0.ok := by unfold Params.ok p0; decide

/-- R10 (fixed): growing a block from the outer scope while a nested scope is open -/
example : (step p0 (run p0 (init p0) [.enter, .malloc 0 8, .enter]) (.realloc 1 0 8 64)).2 = .trap := by decide

example : (run p0 (init p0) [.enter, .malloc 0 10, .enter, .realloc 0 0 10 100, .cleanup 0, .leave]).ran = [1] := by decide
example : ((run p0 (init p0) [.enter, .malloc 0 10, .malloc 0 70000, .enter, .malloc 0 3, .leave]).blocks.map (fun b => (b.h, b.off, b.size)))
    = [(1, 40, 70000), (0, 40, 10)] := by decide

end C19
end Robsd
