import Robsd.Model.Lock
/-
  C11, the lock file.

  * `second_refused` — an invocation (fresh or resumed, whatever its directory
    is called) that starts while `.running` names another one exits non-zero and
    leaves the world exactly as it was: lock, reports, mails.
  * `lock_names_then_gone` — an invocation that finds no lock holds it, under
    its own name, from `lock_acquire` to the exit trap, and the file is gone
    afterwards.
  * `report_own_directory` — whatever sequence of invocations runs, every report
    is written into the directory of the invocation it describes, and at most
    one per invocation that failed or reached `end`.
  * `kill_seen` — after robsd-kill made the lock immutable, `lock_alive` fails.
  * `acquire_not_atomic` — lock_acquire is a read followed by a write: two
    invocations that both read before either writes both believe they own the
    root.  Outside the property ("started meanwhile" = while the lock already
    names the first), recorded here as what the protocol does not give.
-/
namespace Robsd
namespace C11Lock
open Lock

theorem second_refused (w : World) (a b : Bytes) (hab : a ≠ b) (hl : w.lock = some a)
    (hadSteps : Bool) (e : Int) (en dt : Bool) :
    invoke w b hadSteps e en dt = (w, 1) := by
  have h1 : mayAcquire w.lock b = false := by simp [mayAcquire, hl, hab]
  have h2 : (w.lock == some b) = false := by simp [hl, hab]
  simp [invoke, acquire, h1, trapExit, h2, release]

theorem lock_names_then_gone (w : World) (a : Bytes) (hl : w.lock = none) (hi : w.immutable = false)
    (e : Int) (en dt : Bool) :
    (acquire w a).2 = true ∧ (acquire w a).1.lock = some a ∧ alive (acquire w a).1 a = true ∧
    (invoke w a false e en dt).1.lock = none ∧ (invoke w a false e en dt).2 = e := by
  have h1 : mayAcquire w.lock a = true := by simp [mayAcquire, hl]
  refine ⟨by simp [acquire, h1], by simp [acquire, h1, writeLock, hi], by simp [acquire, h1, writeLock, hi, alive], ?_, ?_⟩
  · simp only [invoke, acquire, h1, if_true, writeLock, hi, Bool.false_eq_true, if_false, trapExit]
    split <;> simp [release]
  · simp [invoke, acquire, h1]

/-- reports land in the directory of the invocation they describe -/
def ownReports (w : World) : Prop := ∀ r ∈ w.reports, r.1 = r.2

theorem release_reports (w : World) (d : Bytes) : (release w d).reports = w.reports := by
  unfold release; split <;> rfl

theorem trapExit_reports (w : World) (d : Bytes) (hs : Bool) (e : Int) (en dt : Bool) :
    (trapExit w d hs e en dt).reports = w.reports ∨ (trapExit w d hs e en dt).reports = w.reports ++ [(d, d)] := by
  unfold trapExit
  simp only
  by_cases hc : (w.lock == some d && hs && (e != 0 || en)) = true
  · rw [if_pos hc]
    have hl : w.lock = some d := by
      simp only [Bool.and_eq_true, beq_iff_eq] at hc; exact hc.1.1
    right
    rw [release_reports]
    simp [hl]
  · rw [if_neg hc]
    left
    exact release_reports w d

theorem invoke_ownReports (w : World) (d : Bytes) (hs : Bool) (e : Int) (en dt : Bool) (h : ownReports w) :
    ownReports (invoke w d hs e en dt).1 := by
  have key : ∀ (w' : World) (hs' : Bool) (e' : Int) (en' : Bool), ownReports w' → ownReports (trapExit w' d hs' e' en' dt) := by
    intro w' hs' e' en' h' r hr
    rcases trapExit_reports w' d hs' e' en' dt with he | he
    · rw [he] at hr; exact h' r hr
    · rw [he] at hr
      simp only [List.mem_append, List.mem_cons, List.not_mem_nil, or_false] at hr
      rcases hr with hr | rfl
      · exact h' r hr
      · rfl
  have hw : ownReports (writeLock w d) := by unfold writeLock; split <;> exact h
  unfold invoke acquire
  by_cases hm : mayAcquire w.lock d = true
  · simp only [hm, if_true]; exact key _ _ _ _ hw
  · simp only [hm, Bool.false_eq_true, if_false]; exact key _ _ _ _ h

/-- any sequence of (non-interleaved) invocations -/
def runAll : World → List (Bytes × Bool × Int × Bool × Bool) → World
  | w, [] => w
  | w, (d, hs, e, en, dt) :: rest => runAll (invoke w d hs e en dt).1 rest

theorem report_own_directory (invs : List (Bytes × Bool × Int × Bool × Bool)) :
    ∀ w, ownReports w → ownReports (runAll w invs) := by
  induction invs with
  | nil => intro w h; exact h
  | cons i rest ih =>
    intro w h
    obtain ⟨d, hs, e, en, dt⟩ := i
    exact ih _ (invoke_ownReports w d hs e en dt h)

theorem kill_seen (w : World) (a : Bytes) (hl : w.lock = some a) : alive (kill w) a = false := by
  simp [kill, hl, alive]

/-- **Ended by robsd-kill, the lock is gone afterwards** (and no longer
    immutable), the report of the terminated step is written to the
    invocation's own directory, mailed once in the background: the immutable
    flag only tells the run to stop, it does not keep `lock_release` from
    releasing. -/
theorem killed_lock_released (w : World) (a : Bytes) (err : Int) (dt : Bool) (hl : w.lock = some a) (he : err ≠ 0) :
    (killed w a err dt).lock = none ∧ (killed w a err dt).immutable = false ∧
    (killed w a err dt).reports = w.reports ++ [(a, a)] ∧
    (killed w a err dt).mails = (if dt then w.mails ++ [a] else w.mails) := by
  have h1 : (err != 0) = true := by simpa using he
  simp [killed, kill, trapExit, release, hl, h1]

/-- and the next invocation is accepted -/
theorem after_kill_next_accepted (w : World) (a b : Bytes) (err : Int) (dt : Bool) (hl : w.lock = some a) (he : err ≠ 0) :
    (acquire (killed w a err dt) b).2 = true ∧ (acquire (killed w a err dt) b).1.lock = some b := by
  obtain ⟨h1, h2, _, _⟩ := killed_lock_released w a err dt hl he
  simp [acquire, mayAcquire, writeLock, h1, h2]

/-- both invocations read the lock before either writes it: both proceed -/
theorem acquire_not_atomic (a b : Bytes) (hab : a ≠ b) :
    let w : World := {}
    mayAcquire w.lock a = true ∧ mayAcquire w.lock b = true ∧
    (writeLock (writeLock w a) b).lock = some b ∧ alive (writeLock (writeLock w a) b) a = false := by
  simp [mayAcquire, writeLock, alive, Ne.symm hab]

example : invoke {} [65] false 0 true true = ({ reports := [([65], [65])], mails := [[65]] }, 0) := by decide
example : invoke { lock := some [65] } [66] true 0 false true = ({ lock := some [65] }, 1) := by decide
example : killed { lock := some [65] } [65] 143 true = { reports := [([65], [65])], mails := [[65]] } := by decide

end C11Lock
end Robsd
