import Robsd.Props.C08Complete
import Robsd.Props.C12
import Robsd.Lemmas.Decimal
/-
  C08, completeness from the TEXT for the value keywords.

  `render` writes a statement list in a plain layout (`keyword value\n`, list
  members separated by single spaces).  `lex_render`: the configuration lexer
  turns that text into exactly the statements' tokens, with no lexer error;
  `complete_text`: hence `config_parse` accepts the text and every variable
  has its configured value.  Other layouts (runs of blanks, tabs, comments,
  several statements per line) are covered by `lex_skips_space` /
  `lex_skips_comment`, which say that the lexer's result does not change when
  blanks or a comment line are put in front of any token.
-/
namespace Robsd
namespace C08
open Conf Gen

def lexAll (m : Mode) (inp : Bytes) (acc : List Tok) (err : Bool) : Option (List Tok × Bool) :=
  lexFrom m (inp.length + 1) inp acc err

theorem lexFrom_fuel_ge (m : Mode) (inp : Bytes) (acc : List Tok) (err : Bool) (k : Nat) :
    lexFrom m (inp.length + 1 + k) inp acc err = lexAll m inp acc err := by
  induction k with
  | zero => rfl
  | succ k ih =>
    show lexFrom m ((inp.length + 1 + k) + 1) inp acc err = _
    rw [← C12.lex_fuel_adequate m (inp.length + 1 + k) inp acc err (by omega)]
    exact ih

theorem lexFrom_eq_lexAll (m : Mode) (fuel : Nat) (inp : Bytes) (acc : List Tok) (err : Bool)
    (h : inp.length < fuel) : lexFrom m fuel inp acc err = lexAll m inp acc err := by
  have : fuel = inp.length + 1 + (fuel - inp.length - 1) := by omega
  rw [this]; exact lexFrom_fuel_ge m inp acc err _

/-! ### byte classes -/

theorem lower_facts (c : UInt8) (h : isLower c = true) :
    isSpace c = false ∧ c ≠ 0 ∧ c ≠ 35 ∧ isWord c = true := by
  have hc := h
  simp only [isLower, Bool.and_eq_true, decide_eq_true_eq, UInt8.le_iff_toNat_le] at h
  have h1 : 97 ≤ c.toNat := by simpa using h.1
  have h2 : c.toNat ≤ 122 := by simpa using h.2
  refine ⟨?_, ?_, ?_, ?_⟩
  · simp only [isSpace, Bool.or_eq_false_iff, beq_eq_false_iff_ne, ne_eq, Bool.and_eq_false_iff,
      decide_eq_false_iff_not, UInt8.le_iff_toNat_le]
    refine ⟨?_, Or.inr ?_⟩
    · intro e; rw [e] at h1; simp at h1
    · show ¬ c.toNat ≤ (13 : UInt8).toNat; simp; omega
  · intro e; rw [e] at h1; simp at h1
  · intro e; rw [e] at h1; simp at h1
  · simp only [isWord, hc, Bool.true_or]

theorem digit_facts' (c : UInt8) (h : isDigit c = true) :
    isSpace c = false ∧ c ≠ 0 ∧ c ≠ 35 ∧ isLower c = false := by
  simp only [isDigit, Bool.and_eq_true, decide_eq_true_eq, UInt8.le_iff_toNat_le] at h
  have h1 : 48 ≤ c.toNat := by simpa using h.1
  have h2 : c.toNat ≤ 57 := by simpa using h.2
  refine ⟨?_, ?_, ?_, ?_⟩
  · simp only [isSpace, Bool.or_eq_false_iff, beq_eq_false_iff_ne, ne_eq, Bool.and_eq_false_iff,
      decide_eq_false_iff_not, UInt8.le_iff_toNat_le]
    refine ⟨?_, Or.inr ?_⟩
    · intro e; rw [e] at h1; simp at h1
    · show ¬ c.toNat ≤ (13 : UInt8).toNat; simp; omega
  · intro e; rw [e] at h1; simp at h1
  · intro e; rw [e] at h1; simp at h1
  · simp only [isLower, Bool.and_eq_false_iff, decide_eq_false_iff_not, UInt8.le_iff_toNat_le]
    left
    show ¬ (97 : UInt8).toNat ≤ c.toNat; simp; omega

/-- `p` holds on all of `a` and fails on the first element of `b` (if any) -/
theorem takeWhile_append_stop {α} (p : α → Bool) (a b : List α) (ha : ∀ x ∈ a, p x = true)
    (hb : ∀ x ∈ b.head?, p x = false) :
    (a ++ b).takeWhile p = a ∧ (a ++ b).dropWhile p = b := by
  induction a with
  | nil =>
    cases b with
    | nil => simp
    | cons y ys =>
      have := hb y (by simp)
      simp [List.takeWhile_cons, List.dropWhile_cons, this]
  | cons x xs ih =>
    have hx := ha x (by simp)
    have := ih (fun y hy => ha y (by simp [hy]))
    simp [List.takeWhile_cons, List.dropWhile_cons, hx, this.1, this.2]

/-! ### one token at a time -/

theorem lexAll_nil (m : Mode) (acc : List Tok) (err : Bool) :
    lexAll m [] acc err = some ((Tok.eof :: acc).reverse, err) := by
  simp [lexAll, lexFrom]

/-- blanks in front of anything are skipped -/
theorem lex_skips_space (m : Mode) (c : UInt8) (rest : Bytes) (acc : List Tok) (err : Bool)
    (h : isSpace c = true) : lexAll m (c :: rest) acc err = lexAll m rest acc err := by
  have e : lexFrom m ((c :: rest).length + 1) (c :: rest) acc err =
      lexFrom m ((c :: rest).length + 1) rest acc err := by
    rw [lexFrom, lexFrom, List.dropWhile_cons_of_pos h]
  unfold lexAll at *
  rw [e]
  exact lexFrom_eq_lexAll m _ rest acc err (by simp only [List.length_cons]; omega)

/-- a comment line in front of anything is skipped -/
theorem lex_skips_comment (m : Mode) (text rest : Bytes) (acc : List Tok) (err : Bool)
    (h : ∀ x ∈ text, x ≠ 10 ∧ x ≠ 0) :
    lexAll m (35 :: text ++ 10 :: rest) acc err = lexAll m rest acc err := by
  have ht := takeWhile_append_stop (fun x => x != 10 && x != 0) text (10 :: rest)
    (fun x hx => by have := h x hx; simp [this.1, this.2]) (by simp)
  show lexFrom m ((35 :: (text ++ 10 :: rest)).length + 1) (35 :: (text ++ 10 :: rest)) acc err = _
  rw [lexFrom, List.dropWhile_cons_of_neg (by decide)]
  simp only [ht.2, List.drop_succ_cons, List.drop_zero, ↓reduceIte]
  exact lexFrom_eq_lexAll m _ rest acc err (by simp only [List.length_cons, List.length_append]; omega)

def wordTok (m : Mode) (word : Bytes) : Tok :=
  match lookupTok m word with
  | none => Tok.kw word
  | some t => if t = S "KEYWORD" then .kw word else if t = S "YES" then .bool true else if t = S "NO" then .bool false else .typ t

theorem lexAll_word (m : Mode) (c : UInt8) (w rest : Bytes) (acc : List Tok) (err : Bool)
    (hc : isLower c = true) (hw : ∀ x ∈ w, isWord x = true) (hr : ∀ x ∈ rest.head?, isWord x = false) :
    lexAll m (c :: w ++ rest) acc err = lexAll m rest (wordTok m (c :: w) :: acc) err := by
  obtain ⟨hsp, h0, h35, hcw⟩ := lower_facts c hc
  have ht := takeWhile_append_stop isWord (c :: w) rest
    (fun x hx => by rcases List.mem_cons.mp hx with rfl | hx; exact hcw; exact hw x hx) hr
  unfold lexAll
  rw [lexFrom]
  simp only [List.cons_append, List.dropWhile_cons_of_neg (by simp [hsp] : ¬ isSpace c = true)]
  rw [if_neg h0, if_neg h35, if_pos hc]
  simp only [List.cons_append] at ht
  rw [ht.1, ht.2]
  exact lexFrom_eq_lexAll m _ rest _ err (by simp; omega)

theorem lexAll_int (m : Mode) (c : UInt8) (ds rest : Bytes) (acc : List Tok) (err : Bool)
    (hc : isDigit c = true) (hd : ∀ x ∈ ds, isDigit x = true) (hr : ∀ x ∈ rest.head?, isDigit x = false) :
    lexAll m (c :: ds ++ rest) acc err =
      lexAll m rest (.int (digitsVal (c :: ds)) :: acc) (err || decide (intMax < digitsVal (c :: ds))) := by
  obtain ⟨hsp, h0, h35, hlo⟩ := digit_facts' c hc
  have ht := takeWhile_append_stop isDigit (c :: ds) rest
    (fun x hx => by rcases List.mem_cons.mp hx with rfl | hx; exact hc; exact hd x hx) hr
  unfold lexAll
  rw [lexFrom]
  simp only [List.cons_append, List.dropWhile_cons_of_neg (by simp [hsp] : ¬ isSpace c = true)]
  rw [if_neg h0, if_neg h35, if_neg (by simp [hlo]), if_pos hc]
  simp only [List.cons_append] at ht
  rw [ht.1, ht.2]
  exact lexFrom_eq_lexAll m _ rest _ _ (by simp; omega)

theorem lexAll_str (m : Mode) (x rest : Bytes) (acc : List Tok) (err : Bool)
    (hx : ∀ b ∈ x, b ≠ 34 ∧ b ≠ 0) :
    lexAll m (34 :: x ++ 34 :: rest) acc err = lexAll m rest (.str x :: acc) (err || x.isEmpty) := by
  have ht := takeWhile_append_stop (fun b => b != 34 && b != 0) x (34 :: rest)
    (fun b hb => by have := hx b hb; simp [this.1, this.2]) (by simp)
  show lexFrom m ((34 :: (x ++ 34 :: rest)).length + 1) (34 :: (x ++ 34 :: rest)) acc err = _
  rw [lexFrom, List.dropWhile_cons_of_neg (by decide)]
  simp only [ht.1, ht.2, ↓reduceIte]
  exact lexFrom_eq_lexAll m _ rest _ _ (by simp only [List.length_cons, List.length_append]; omega)

/-- `{` and `}` -/
theorem lexAll_brace (m : Mode) (c : UInt8) (rest : Bytes) (acc : List Tok) (err : Bool)
    (hc : c = 123 ∨ c = 125) :
    lexAll m (c :: rest) acc err =
      lexAll m rest ((if c = 123 then lbrace else rbrace) :: acc) err := by
  have hl : lookupTok m [123] = some (S "LBRACE") := by cases m <;> decide
  have hr : lookupTok m [125] = some (S "RBRACE") := by cases m <;> decide
  unfold lexAll
  rcases hc with rfl | rfl
  · rw [lexFrom, List.dropWhile_cons_of_neg (by decide)]
    simp only [hl, ↓reduceIte, lbrace]
    exact lexFrom_eq_lexAll m _ rest _ _ (by simp)
  · rw [lexFrom, List.dropWhile_cons_of_neg (by decide)]
    simp only [hr, ↓reduceIte, rbrace]
    exact lexFrom_eq_lexAll m _ rest _ _ (by simp)

/-! ### rendering statements and lexing them back -/

def renderStr (x : Bytes) : Bytes := 34 :: x ++ [34]

def renderVal : SVal → Bytes
  | .bool b => if b then S "yes" else S "no"
  | .int n => StepFile.renderNat n
  | .str x => renderStr x
  | .user x => renderStr x
  | .dir x => renderStr x
  | .list xs => 123 :: 32 :: ((xs.flatMap fun x => renderStr x ++ [32]) ++ [125])

/-- `keyword value` and a newline -/
def render (st : Stmt) : Bytes := st.name ++ 32 :: (renderVal st.val ++ [10])

def okStr (x : Bytes) : Prop := x ≠ [] ∧ ∀ b ∈ x, b ≠ 34 ∧ b ≠ 0

/-- the keyword is a word the token table does not claim, strings are what a
    double-quoted string can hold, numbers fit an `int` -/
def Stmt.lexable (m : Mode) (st : Stmt) : Prop :=
  (∃ c w, st.name = c :: w ∧ isLower c = true ∧ (∀ x ∈ w, isWord x = true) ∧ wordTok m (c :: w) = .kw (c :: w)) ∧
  match st.val with
  | .bool _ => True
  | .int n => n ≤ intMax
  | .str x => okStr x
  | .user x => okStr x
  | .dir x => okStr x
  | .list xs => ∀ x ∈ xs, okStr x

theorem head_cons_false (p : UInt8 → Bool) (c : UInt8) (rest : Bytes) (h : p c = false) :
    ∀ x ∈ (c :: rest).head?, p x = false := by
  intro x hx
  simp only [List.head?_cons, Option.mem_def, Option.some.injEq] at hx
  subst hx; exact h

theorem isDigit_eq (c : UInt8) : isDigit c = StepFile.isDigitB c := by
  simp [isDigit, StepFile.isDigitB]

theorem digitsVal_eq (ds : Bytes) : digitsVal ds = StepFile.digitsVal ds := by
  unfold digitsVal StepFile.digitsVal
  suffices ∀ a, ds.foldl (fun v c => v * 10 + (c.toNat - 48)) a = ds.foldl (fun acc d => 10 * acc + (d.toNat - 48)) a from this 0
  induction ds with
  | nil => intro a; rfl
  | cons d ds ih => intro a; simp only [List.foldl_cons]; rw [Nat.mul_comm]; exact ih _

theorem lexAll_strval (m : Mode) (x rest : Bytes) (acc : List Tok) (hx : okStr x) :
    lexAll m (renderStr x ++ rest) acc false = lexAll m rest (.str x :: acc) false := by
  have := lexAll_str m x rest acc false hx.2
  have he : x.isEmpty = false := by cases x with
    | nil => exact absurd rfl hx.1
    | cons _ _ => rfl
  simp only [renderStr, List.cons_append, List.append_assoc, List.singleton_append, List.nil_append] at *
  rw [this, he]; rfl

theorem lexAll_items (m : Mode) (xs : List Bytes) (rest : Bytes) (acc : List Tok) (hx : ∀ x ∈ xs, okStr x) :
    lexAll m ((xs.flatMap fun x => renderStr x ++ [32]) ++ rest) acc false =
      lexAll m rest ((xs.map Tok.str).reverse ++ acc) false := by
  induction xs generalizing acc with
  | nil => rfl
  | cons x xs ih =>
    simp only [List.flatMap_cons, List.append_assoc, List.map_cons, List.reverse_cons]
    rw [lexAll_strval m x _ acc (hx x (by simp))]
    simp only [List.singleton_append]
    rw [lex_skips_space m 32 _ _ _ (by decide), ih _ (fun y hy => hx y (by simp [hy]))]

theorem lexAll_value (m : Mode) (v : SVal) (rest : Bytes) (acc : List Tok)
    (hv : match v with
          | .bool _ => True
          | .int n => n ≤ intMax
          | .str x => okStr x
          | .user x => okStr x
          | .dir x => okStr x
          | .list xs => ∀ x ∈ xs, okStr x) :
    lexAll m (renderVal v ++ 10 :: rest) acc false = lexAll m rest (v.toks.reverse ++ acc) false := by
  cases v with
  | bool b =>
    cases b with
    | true =>
      have h := lexAll_word m 121 [101, 115] (10 :: rest) acc false (by decide) (by decide) (head_cons_false _ _ _ (by decide))
      have ht : wordTok m [121, 101, 115] = .bool true := by cases m <;> decide
      simp only [renderVal, if_true, SVal.toks]
      show lexAll m (121 :: [101, 115] ++ 10 :: rest) acc false = _
      rw [h, ht, lex_skips_space m 10 _ _ _ (by decide)]; rfl
    | false =>
      have h := lexAll_word m 110 [111] (10 :: rest) acc false (by decide) (by decide) (head_cons_false _ _ _ (by decide))
      have ht : wordTok m [110, 111] = .bool false := by cases m <;> decide
      simp only [renderVal, Bool.false_eq_true, if_false, SVal.toks]
      show lexAll m (110 :: [111] ++ 10 :: rest) acc false = _
      rw [h, ht, lex_skips_space m 10 _ _ _ (by decide)]; rfl
  | int n =>
    simp only at hv
    obtain ⟨hval, hall, hne⟩ := StepFile.natDigits_spec (n + 1) n (by omega)
    simp only [renderVal, StepFile.renderNat, SVal.toks]
    cases hd : StepFile.natDigits (n + 1) n with
    | nil => exact absurd hd hne
    | cons c ds =>
      rw [hd] at hval hall
      simp only [List.all_cons, Bool.and_eq_true, List.all_eq_true] at hall
      have h := lexAll_int m c ds (10 :: rest) acc false (by rw [isDigit_eq]; exact hall.1)
        (fun x hx => by rw [isDigit_eq]; exact hall.2 x hx) (head_cons_false _ _ _ (by decide))
      rw [h, digitsVal_eq, hval, lex_skips_space m 10 _ _ _ (by decide)]
      have : decide (intMax < n) = false := by simpa using hv
      simp [this]
  | str x =>
    simp only [renderVal, SVal.toks]
    rw [lexAll_strval m x _ acc hv, lex_skips_space m 10 _ _ _ (by decide)]; rfl
  | user x =>
    simp only [renderVal, SVal.toks]
    rw [lexAll_strval m x _ acc hv, lex_skips_space m 10 _ _ _ (by decide)]; rfl
  | dir x =>
    simp only [renderVal, SVal.toks]
    rw [lexAll_strval m x _ acc hv, lex_skips_space m 10 _ _ _ (by decide)]; rfl
  | list xs =>
    simp only [renderVal, SVal.toks, List.cons_append, List.append_assoc, List.singleton_append, List.nil_append]
    rw [lexAll_brace m 123 _ acc false (Or.inl rfl), lex_skips_space m 32 _ _ _ (by decide),
      lexAll_items m xs _ _ hv, lexAll_brace m 125 _ _ false (Or.inr rfl),
      lex_skips_space m 10 _ _ _ (by decide)]
    simp

theorem lexAll_stmt (m : Mode) (st : Stmt) (rest : Bytes) (acc : List Tok) (hl : st.lexable m) :
    lexAll m (render st ++ rest) acc false = lexAll m rest (st.toks.reverse ++ acc) false := by
  obtain ⟨⟨c, w, hn, hc, hw, htok⟩, hv⟩ := hl
  simp only [render, hn, List.append_assoc, List.cons_append, Stmt.toks, List.reverse_cons, List.nil_append]
  have h := lexAll_word m c w (32 :: (renderVal st.val ++ 10 :: rest)) acc false hc hw (head_cons_false _ _ _ (by decide))
  simp only [List.cons_append] at h
  rw [h, htok, lex_skips_space m 32 _ _ _ (by decide), lexAll_value m st.val rest _ hv]

theorem lexAll_stmts (m : Mode) (stmts : List Stmt) (rest : Bytes) (acc : List Tok)
    (hl : ∀ st ∈ stmts, st.lexable m) :
    lexAll m (stmts.flatMap render ++ rest) acc false =
      lexAll m rest ((stmts.flatMap Stmt.toks).reverse ++ acc) false := by
  induction stmts generalizing acc with
  | nil => rfl
  | cons st sts ih =>
    simp only [List.flatMap_cons, List.append_assoc, List.reverse_append]
    rw [lexAll_stmt m st _ acc (hl st (by simp)), ih _ (fun x hx => hl x (by simp [hx]))]

/-- **the lexer reads a rendered statement list back as its tokens**, with no
    lexer diagnostic -/
theorem lex_render (m : Mode) (stmts : List Stmt) (hl : ∀ st ∈ stmts, st.lexable m) :
    lex m (stmts.flatMap render) = some (stmts.flatMap Stmt.toks ++ [.eof], false) := by
  have := lexAll_stmts m stmts [] [] hl
  simp only [List.append_nil] at this
  show lexAll m (stmts.flatMap render) [] false = _
  rw [this, lexAll_nil]
  simp

theorem length_le_flatMap_toks (stmts : List Stmt) : stmts.length ≤ (stmts.flatMap Stmt.toks).length := by
  induction stmts with
  | nil => simp
  | cons st sts ih => simp only [List.flatMap_cons, List.length_append, List.length_cons, Stmt.toks]; omega

/-- **C08 completeness from the text** (value keywords, plain layout): a
    statement list whose values have the shape the grammar gives their
    keywords, with distinct keywords in any order and every required keyword
    present, is accepted by `config_parse`, and the variables are exactly the
    configured ones. -/
theorem complete_text (m : Mode) (env : Env) (stmts : List Stmt)
    (hok : ∀ st ∈ stmts, st.ok m env) (hl : ∀ st ∈ stmts, st.lexable m)
    (hnd : (stmts.map (·.name)).Nodup)
    (hreq : ∀ g ∈ m.grammar, g.req = true → g.kw ∈ stmts.map (·.name)) :
    parse m env (stmts.flatMap render) = some { initSt with vars := varsOf stmts } := by
  unfold parse
  rw [lex_render m stmts hl]
  simp only
  have hp := complete_tokens_from m env stmts initSt ((stmts.flatMap Stmt.toks ++ [Tok.eof]).length + 1)
    (by have := length_le_flatMap_toks stmts; simp only [List.length_append, List.length_cons, List.length_nil]; omega)
    hok hnd (by intro st _; simp [present, initSt])
  rw [hp]
  have hv := (accepted_iff_required m stmts [] rdomainMin).mpr hreq
  simp only [initSt, List.nil_append] at hv ⊢
  simp [hv]

/-! ### non-vacuity -/

def lexableB (m : Mode) (st : Stmt) : Bool :=
  (match st.name with
   | [] => false
   | c :: w => isLower c && w.all isWord && (wordTok m (c :: w) == .kw (c :: w))) &&
  (match st.val with
   | .bool _ => true
   | .int n => decide (n ≤ intMax)
   | .str x => x != [] && x.all (fun b => b != 34 && b != 0)
   | .user x => x != [] && x.all (fun b => b != 34 && b != 0)
   | .dir x => x != [] && x.all (fun b => b != 34 && b != 0)
   | .list xs => xs.all (fun x => x != [] && x.all (fun b => b != 34 && b != 0)))

example : exStmts.all (lexableB .robsd) = true := by decide
example : (exStmts.flatMap render) = S "kernel \"GENERIC\"\ndestdir \"/dest\"\nreboot yes\nkeep 7\ncvs-user \"anton\"\nskip { \"cvs\" \"reboot\" }\nrobsddir \"/home/robsd\"\n" := by
  decide
example : (parse .robsd exEnv (exStmts.flatMap render)).map (·.vars) = some (varsOf exStmts) := by
  decide +kernel

end C08
end Robsd
