import Robsd.Model.Schedule
/-
  C10: the step schedule is complete, ordered and agrees with what can be executed.
-/
namespace Robsd
namespace C10
open Bytes Gen Schedule

/-! ### numbering and offsets -/

theorem number_length (i : Nat) (ss : List Step) : (number i ss).length = ss.length := by
  induction ss generalizing i with
  | nil => rfl
  | cons s ss ih => simp [number, ih]

theorem number_get (i : Nat) (ss : List Step) (k : Nat) (hk : k < ss.length) :
    (number i ss)[k]? = some (i + k, ss[k].name, ss[k].parallel) := by
  induction ss generalizing i k with
  | nil => simp at hk
  | cons s ss ih =>
    cases k with
    | zero => simp [number]
    | succ k =>
      simp only [number, List.getElem?_cons_succ, List.getElem_cons_succ]
      rw [ih (i + 1) k (by simpa using hk)]
      congr 2; omega

/-- steps are numbered consecutively from 1 -/
theorem numbering (ss : List Step) (hne : ss ≠ []) :
    ∃ ls, listFrom ss 1 = some ls ∧ ls.length = ss.length ∧
      ∀ k (hk : k < ss.length), ls[k]? = some (k + 1, ss[k].name, ss[k].parallel) := by
  have hl : 0 < ss.length := List.length_pos_iff.mpr hne
  refine ⟨number 1 ss, ?_, number_length 1 ss, ?_⟩
  · unfold listFrom
    have : ¬ (1 = 0 ∨ 1 - 1 ≥ ss.length) := by omega
    rw [if_neg this]; rfl
  · intro k hk
    rw [number_get 1 ss k hk]
    congr 2; omega

theorem number_drop (i k : Nat) (ss : List Step) : (number i ss).drop k = number (i + k) (ss.drop k) := by
  induction k generalizing i ss with
  | zero => simp
  | succ k ih =>
    cases ss with
    | nil => simp [number]
    | cons s ss =>
      simp only [number, List.drop_succ_cons]
      rw [ih (i + 1) ss]
      congr 1; omega

/-- listing from offset k (1 ≤ k ≤ n) yields exactly the suffix starting at
    step k of the full listing; offset n+1 (or 0) is rejected -/
theorem offset_suffix (ss : List Step) (k : Nat) :
    (1 ≤ k ∧ k ≤ ss.length → ∃ full, listFrom ss 1 = some full ∧ listFrom ss k = some (full.drop (k - 1))) ∧
    (k = 0 ∨ k > ss.length → listFrom ss k = none) := by
  constructor
  · rintro ⟨h1, h2⟩
    refine ⟨number 1 ss, ?_, ?_⟩
    · unfold listFrom
      have : ¬ (1 = 0 ∨ 1 - 1 ≥ ss.length) := by omega
      rw [if_neg this]; rfl
    · unfold listFrom
      have : ¬ (k = 0 ∨ k - 1 ≥ ss.length) := by omega
      rw [if_neg this]
      simp only [Option.some.injEq]
      rw [number_drop 1 (k - 1) ss]
      congr 1; omega
  · intro h
    unfold listFrom
    have : k = 0 ∨ k - 1 ≥ ss.length := by omega
    simp [this]

/-! ### the fixed steps of each mode, in documented order, ending with `end` -/

def names (t : List FixedStep) : List Bytes := t.filterMap (fun x => x.map (·.1))

/-- the code's fixed step names, first occurrences only -/
def dedup : List Bytes → List Bytes
  | [] => []
  | x :: xs => x :: (dedup xs).filter (· != x)

theorem robsd_fixed : dedup (names robsdSteps) = robsdDocSteps ∧ (names robsdSteps).getLast? = some END := by decide
theorem cross_fixed : dedup (names crossSteps) = crossDocSteps ∧ (names crossSteps).getLast? = some END := by decide
theorem ports_fixed : dedup (names portsSteps) = portsDocSteps ∧ (names portsSteps).getLast? = some END := by decide
/-- robsd-regress(8) documents the expanded block as one item `regress` -/
theorem regress_fixed :
    names (Gen.regressSteps.takeWhile (·.isSome)) ++ [[114, 101, 103, 114, 101, 115, 115]] ++
      names ((Gen.regressSteps.dropWhile (·.isSome)).drop 1) = regressDocSteps ∧
    (names Gen.regressSteps).getLast? = some END ∧
    (Gen.regressSteps.filter (·.isNone)).length = 1 := by decide

/-- every script a fixed step names is one the Makefile installs (or /dev/null) -/
def scriptInstalled (script : Bytes) : Bool :=
  script == [47, 100, 101, 118, 47, 110, 117, 108, 108] ||
  installedScripts.any (fun s => ([36, 123, 101, 120, 101, 99, 45, 100, 105, 114, 125, 47] ++ s) == script)

theorem scripts_exist :
    (robsdSteps ++ crossSteps ++ portsSteps ++ Gen.regressSteps).all
      (fun x => match x with | none => true | some f => scriptInstalled f.2) = true ∧
    scriptInstalled regressExecScript = true := by decide

/-! ### the regress block -/

/-- the expanded block: parallel tests first, then the others, each in configuration order -/
theorem regress_order (g : Bool) (ents : List RegressEntry) :
    ∃ before after, regressSteps Gen.regressSteps g ents =
      before ++
      (ents.filter (fun e => isParallel g ents e.name)).map (fun e => Step.mk e.name true) ++
      (ents.filter (fun e => !isParallel g ents e.name)).map (fun e => Step.mk e.name false) ++
      after ∧
      (∀ s ∈ before ++ after, s.parallel = false) := by
  refine ⟨_, _, rfl, ?_⟩
  intro s hs
  simp only [List.mem_append, List.mem_filterMap] at hs
  rcases hs with ⟨x, _, hx⟩ | ⟨x, _, hx⟩ <;>
  · cases x with
    | none => simp at hx
    | some f => simp only [Option.map_some, Option.some.injEq] at hx; rw [← hx]; rfl

/-- each configured test appears exactly as often as configured -/
theorem regress_each_as_configured (g : Bool) (ents : List RegressEntry) (n : Bytes) :
    (((ents.filter (fun e => isParallel g ents e.name)).map (fun e => Step.mk e.name true) ++
      (ents.filter (fun e => !isParallel g ents e.name)).map (fun e => Step.mk e.name false)).filter (fun s => s.name == n)).length =
    (ents.filter (fun e => e.name == n)).length := by
  simp only [List.filter_append, List.filter_map, List.length_append, List.length_map, List.filter_filter]
  have key : ∀ l : List RegressEntry,
      (l.filter (fun e => ((fun s : Step => s.name == n) ∘ fun e : RegressEntry => Step.mk e.name true) e && isParallel g ents e.name)).length +
      (l.filter (fun e => ((fun s : Step => s.name == n) ∘ fun e : RegressEntry => Step.mk e.name false) e && !isParallel g ents e.name)).length =
      (l.filter (fun e => e.name == n)).length := by
    intro l
    induction l with
    | nil => rfl
    | cons x xs ihx =>
      simp only [List.filter_cons, Function.comp]
      simp only [Function.comp] at ihx
      by_cases h1 : (x.name == n) = true <;> by_cases h2 : isParallel g ents x.name = true <;> simp [h1, h2] <;> omega
  exact key ents

/-- with the global switch off every test is non-parallel, in configuration order -/
theorem regress_all_sequential (ents : List RegressEntry) :
    (ents.filter (fun e => isParallel false ents e.name)) = [] ∧
    (ents.filter (fun e => !isParallel false ents e.name)) = ents := by
  simp [isParallel]

/-- a test flagged `no-parallel` is never scheduled as parallel -/
theorem no_parallel_respected (g : Bool) (ents : List RegressEntry) (e : RegressEntry) (he : e ∈ ents)
    (hn : e.noParallel = true) : isParallel g ents e.name = false := by
  unfold isParallel
  have : ents.any (fun x => x.name == e.name && x.noParallel) = true := by
    rw [List.any_eq_true]; exact ⟨e, he, by simp [hn]⟩
  simp [this]

/-! ### canvas -/

theorem canvas_order (cs : List CanvasStep) :
    (canvasSteps cs).map (·.name) = cs.map (·.name) ++ [END] ∧
    (canvasSteps cs).length = cs.length + 1 ∧
    ∀ k (hk : k < cs.length), (canvasSteps cs)[k]? = some ⟨cs[k].name, cs[k].parallel⟩ := by
  refine ⟨by simp [canvasSteps], by simp [canvasSteps], ?_⟩
  intro k hk
  simp [canvasSteps, List.getElem?_append_left, hk]

/-! ### every listed name can be resolved by the step runner -/

theorem resolvable (ss : List Step) (s : Step) (hs : s ∈ ss) : ∃ t, findStep ss s.name = some t ∧ t.name = s.name := by
  unfold findStep
  cases h : ss.find? (fun t => t.name == s.name) with
  | none =>
    rw [List.find?_eq_none] at h
    have := h s hs
    simp at this
  | some t =>
    have := List.find?_some h
    exact ⟨t, rfl, by simpa using this⟩

/-- the runner resolves a name to the FIRST step of the schedule carrying it:
    nothing before it has that name (in particular never to a step chosen by
    position, whatever the name looks like) -/
theorem resolves_to_first (ss : List Step) (n : Bytes) (t : Step) (h : findStep ss n = some t) :
    ∃ pre post, ss = pre ++ t :: post ∧ t.name = n ∧ ∀ x ∈ pre, x.name ≠ n := by
  unfold findStep at h
  obtain ⟨hp, pre, post, rfl, hpre⟩ := List.find?_eq_some_iff_append.mp h
  refine ⟨pre, post, rfl, by simpa using hp, ?_⟩
  intro x hx
  have := hpre x hx
  simpa using this

theorem nodup_map_inj {α β : Type} (f : α → β) : ∀ (l : List α), (l.map f).Nodup →
    ∀ a ∈ l, ∀ b ∈ l, f a = f b → a = b
  | [], _, a, ha, _, _, _ => by cases ha
  | x :: xs, h, a, ha, b, hb, hab => by
    rw [List.map_cons, List.nodup_cons] at h
    rcases List.mem_cons.mp ha with rfl | ha' <;> rcases List.mem_cons.mp hb with rfl | hb'
    · rfl
    · exact absurd (hab ▸ List.mem_map_of_mem (f := f) hb') h.1
    · exact absurd (hab.symm ▸ List.mem_map_of_mem (f := f) ha') h.1
    · exact nodup_map_inj f xs h.2 a ha' b hb' hab

/-- with pairwise distinct names (every schedule but robsd's, whose `env`
    appears twice with the same command) each listed step resolves to itself -/
theorem resolves_to_itself (ss : List Step) (hnd : (ss.map (·.name)).Nodup) (s : Step) (hs : s ∈ ss) :
    findStep ss s.name = some s := by
  obtain ⟨t, ht, hn⟩ := resolvable ss s hs
  have htm : t ∈ ss := by
    unfold findStep at ht
    exact List.mem_of_find?_eq_some ht
  have : t = s := by
    have inj : ∀ a ∈ ss, ∀ b ∈ ss, a.name = b.name → a = b := by
      intro a ha b hb hab
      exact nodup_map_inj (·.name) ss hnd a ha b hb hab
    exact inj t htm s hs hn
  rw [ht, this]

/-! ### non-vacuity -/
example : findStep (canvasSteps [⟨[51], false⟩, ⟨[49], true⟩]) [49] = some ⟨[49], true⟩ := by decide
example : ((canvasSteps [⟨[51], false⟩, ⟨[49], true⟩]).map (·.name)).Nodup := by decide
example : (steps (.regress true [⟨[97], false⟩, ⟨[98], true⟩, ⟨[99], false⟩])).map (fun s => (s.name, s.parallel)) =
    (names (Gen.regressSteps.takeWhile (·.isSome))).map (·, false) ++ [([97], true), ([99], true), ([98], false)] ++
    (names ((Gen.regressSteps.dropWhile (·.isSome)).drop 1)).map (·, false) := by decide

end C10
end Robsd
