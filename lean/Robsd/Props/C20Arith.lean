import Robsd.Gen.Arith
import Robsd.Lemmas.Tdiv
/-
  C20 (arithmetic part): every portable fallback `KS_*_overflow0` — translated
  from libks/arithmetic.c on every run into `Gen/Arith.lean` — reports overflow
  exactly when the mathematical result is unrepresentable, stores the exact
  result otherwise, and neither traps nor executes undefined behaviour
  (`spec` never yields `.trap`/`.ub`, so equality with `spec` says all three).

  The six macro theorems are generic in the width (`T.M` is any positive
  bound); the 15 instantiation theorems follow for i32/i64/u32/u64/size_t.
-/
namespace Robsd
namespace C20Arith
open CArith Gen Lemmas

/-! ### the six macros, generic in the width -/

theorem signed_add_exact (T : CTy) (hs : T.signed = true) (a b : Int)
    (ha : T.inRange a) (hb : T.inRange b) :
    SIGNED_ADD_OVERFLOW T T.max T.min a b = spec T (a + b) := by
  unfold CTy.inRange at ha hb
  simp only [SIGNED_ADD_OVERFLOW, land, lor, CTy.sub, CTy.add, CTy.wrapOrUb, hs, spec,
    CTy.min, CTy.max, if_true, R.bind_ok] at *
  grind [R.bind]

theorem signed_sub_exact (T : CTy) (hs : T.signed = true) (a b : Int)
    (ha : T.inRange a) (hb : T.inRange b) :
    SIGNED_SUB_OVERFLOW T T.max T.min a b = spec T (a - b) := by
  unfold CTy.inRange at ha hb
  simp only [SIGNED_SUB_OVERFLOW, land, lor, CTy.sub, CTy.add, CTy.wrapOrUb, hs, spec,
    CTy.min, CTy.max, if_true, R.bind_ok] at *
  grind [R.bind]

set_option linter.unusedSimpArgs false in
theorem signed_mul_exact (T : CTy) (hs : T.signed = true) (hM : 0 < T.M) (a b : Int)
    (ha : T.inRange a) (hb : T.inRange b) :
    SIGNED_MUL_OVERFLOW T T.max T.min a b = spec T (a * b) := by
  unfold CTy.inRange at ha hb
  simp only [SIGNED_MUL_OVERFLOW, land, lor, CTy.div, CTy.mul, CTy.wrapOrUb, hs, spec,
    CTy.min, CTy.max, if_true, R.bind_ok] at *
  rcases Int.lt_trichotomy a 0 with ha0 | ha0 | ha0 <;>
  rcases Int.lt_trichotomy b 0 with hb0 | hb0 | hb0
  · have l := lt_tdiv_neg (T.M - 1) a b (by omega) ha0
    have p : 0 < a * b := Int.mul_pos_of_neg_of_neg ha0 hb0
    grind [R.bind]
  · subst hb0; grind [R.bind]
  · have l := lt_negtdiv T.M b a (by omega) hb0
    have p : a * b < 0 := Int.mul_neg_of_neg_of_pos ha0 hb0
    have e : b * a = a * b := Int.mul_comm b a
    grind [R.bind]
  · subst ha0; grind [R.bind]
  · subst ha0; grind [R.bind]
  · subst ha0; grind [R.bind]
  · have l := lt_negtdiv T.M a b (by omega) ha0
    have p : a * b < 0 := Int.mul_neg_of_pos_of_neg ha0 hb0
    grind [R.bind]
  · subst hb0; grind [R.bind]
  · have l := gt_tdiv_pos (T.M - 1) a b (by omega) hb0
    have p : 0 < a * b := Int.mul_pos ha0 hb0
    grind [R.bind]

theorem unsigned_add_exact (T : CTy) (hs : T.signed = false) (a b : Int)
    (ha : T.inRange a) (hb : T.inRange b) :
    UNSIGNED_ADD_OVERFLOW T T.max a b = spec T (a + b) := by
  unfold CTy.inRange at ha hb
  simp only [UNSIGNED_ADD_OVERFLOW, CTy.sub, CTy.add, CTy.wrapOrUb, hs, spec,
    CTy.min, CTy.max, R.bind_ok, Bool.false_eq_true, if_false] at *
  have e1 : (T.M - 1 - b) % T.M = T.M - 1 - b := Int.emod_eq_of_lt (by omega) (by omega)
  rw [e1]
  by_cases h : a > T.M - 1 - b
  · grind [R.bind]
  · have e2 : (a + b) % T.M = a + b := Int.emod_eq_of_lt (by omega) (by omega)
    grind [R.bind]

theorem unsigned_sub_exact (T : CTy) (hs : T.signed = false) (a b : Int)
    (ha : T.inRange a) (hb : T.inRange b) :
    UNSIGNED_SUB_OVERFLOW T T.max a b = spec T (a - b) := by
  unfold CTy.inRange at ha hb
  simp only [UNSIGNED_SUB_OVERFLOW, CTy.sub, CTy.wrapOrUb, hs, spec,
    CTy.min, CTy.max, R.bind_ok, Bool.false_eq_true, if_false] at *
  by_cases h : b > a
  · grind [R.bind]
  · have e2 : (a - b) % T.M = a - b := Int.emod_eq_of_lt (by omega) (by omega)
    grind [R.bind]

set_option linter.unusedSimpArgs false in
theorem unsigned_mul_exact (T : CTy) (hs : T.signed = false) (hM : 0 < T.M) (a b : Int)
    (ha : T.inRange a) (hb : T.inRange b) :
    UNSIGNED_MUL_OVERFLOW T T.max a b = spec T (a * b) := by
  unfold CTy.inRange at ha hb
  simp only [UNSIGNED_MUL_OVERFLOW, land, CTy.div, CTy.mul, CTy.wrapOrUb, hs, spec,
    CTy.min, CTy.max, R.bind_ok, Bool.false_eq_true, if_false, false_and] at *
  rcases Int.lt_trichotomy b 0 with hb0 | hb0 | hb0
  · omega
  · subst hb0
    simp [R.bind]
    omega
  · have l := gt_tdiv_pos (T.M - 1) a b (by omega) hb0
    have p : 0 ≤ a * b := Int.mul_nonneg (by omega) (by omega)
    by_cases h : a * b > T.M - 1
    · grind [R.bind]
    · have e2 : (a * b) % T.M = a * b := Int.emod_eq_of_lt p (by omega)
      grind [R.bind]

/-! ### the 15 instantiations -/

theorem KS_i32_add_exact (a b : Int) (ha : i32.inRange a) (hb : i32.inRange b) :
    KS_i32_add_overflow0 a b = spec i32 (a + b) := signed_add_exact i32 rfl a b ha hb
theorem KS_i32_sub_exact (a b : Int) (ha : i32.inRange a) (hb : i32.inRange b) :
    KS_i32_sub_overflow0 a b = spec i32 (a - b) := signed_sub_exact i32 rfl a b ha hb
theorem KS_i32_mul_exact (a b : Int) (ha : i32.inRange a) (hb : i32.inRange b) :
    KS_i32_mul_overflow0 a b = spec i32 (a * b) := signed_mul_exact i32 rfl (by decide) a b ha hb
theorem KS_i64_add_exact (a b : Int) (ha : i64.inRange a) (hb : i64.inRange b) :
    KS_i64_add_overflow0 a b = spec i64 (a + b) := signed_add_exact i64 rfl a b ha hb
theorem KS_i64_sub_exact (a b : Int) (ha : i64.inRange a) (hb : i64.inRange b) :
    KS_i64_sub_overflow0 a b = spec i64 (a - b) := signed_sub_exact i64 rfl a b ha hb
theorem KS_i64_mul_exact (a b : Int) (ha : i64.inRange a) (hb : i64.inRange b) :
    KS_i64_mul_overflow0 a b = spec i64 (a * b) := signed_mul_exact i64 rfl (by decide) a b ha hb
theorem KS_u32_add_exact (a b : Int) (ha : u32.inRange a) (hb : u32.inRange b) :
    KS_u32_add_overflow0 a b = spec u32 (a + b) := unsigned_add_exact u32 rfl a b ha hb
theorem KS_u32_sub_exact (a b : Int) (ha : u32.inRange a) (hb : u32.inRange b) :
    KS_u32_sub_overflow0 a b = spec u32 (a - b) := unsigned_sub_exact u32 rfl a b ha hb
theorem KS_u32_mul_exact (a b : Int) (ha : u32.inRange a) (hb : u32.inRange b) :
    KS_u32_mul_overflow0 a b = spec u32 (a * b) := unsigned_mul_exact u32 rfl (by decide) a b ha hb
theorem KS_u64_add_exact (a b : Int) (ha : u64.inRange a) (hb : u64.inRange b) :
    KS_u64_add_overflow0 a b = spec u64 (a + b) := unsigned_add_exact u64 rfl a b ha hb
theorem KS_u64_sub_exact (a b : Int) (ha : u64.inRange a) (hb : u64.inRange b) :
    KS_u64_sub_overflow0 a b = spec u64 (a - b) := unsigned_sub_exact u64 rfl a b ha hb
theorem KS_u64_mul_exact (a b : Int) (ha : u64.inRange a) (hb : u64.inRange b) :
    KS_u64_mul_overflow0 a b = spec u64 (a * b) := unsigned_mul_exact u64 rfl (by decide) a b ha hb
theorem KS_size_add_exact (a b : Int) (ha : usize.inRange a) (hb : usize.inRange b) :
    KS_size_add_overflow0 a b = spec usize (a + b) := unsigned_add_exact usize rfl a b ha hb
theorem KS_size_sub_exact (a b : Int) (ha : usize.inRange a) (hb : usize.inRange b) :
    KS_size_sub_overflow0 a b = spec usize (a - b) := unsigned_sub_exact usize rfl a b ha hb
theorem KS_size_mul_exact (a b : Int) (ha : usize.inRange a) (hb : usize.inRange b) :
    KS_size_mul_overflow0 a b = spec usize (a * b) := unsigned_mul_exact usize rfl (by decide) a b ha hb

/-- `spec` never traps and never is undefined: equality with it rules both out. -/
theorem spec_no_trap (T : CTy) (x : Int) : spec T x ≠ .trap ∧ spec T x ≠ .ub := by
  unfold spec; split <;> simp

/-! ### non-vacuity: concrete operands meet the hypotheses, both outcomes occur -/
example : i32.inRange 2147483647 ∧ i32.inRange 1 ∧
    KS_i32_add_overflow0 2147483647 1 = .ok .overflow ∧
    KS_i32_add_overflow0 2147483646 1 = .ok (.value 2147483647) := by decide
example : KS_u64_mul_overflow0 4294967296 4294967296 = .ok .overflow ∧
    KS_u64_mul_overflow0 4294967295 4294967297 = .ok (.value 18446744073709551615) := by decide

end C20Arith
end Robsd
