/-
  Model of util.sh `robsd()` for canvas configurations with parallel steps:
  the ordered loop over the schedule, the job list, the queue-full wait
  (`robsd-wait pids`), the barrier (`robsd-wait -a`), `set -e` on a failing
  synchronous step, and the `end` step.

  The oracle is the adversary: every step's exit status, and at every
  queue-full wait which of the running jobs are still running afterwards.
  A background job's `finish` event is placed where the orchestrator learns
  about it (the latest possible moment), so "X starts only after Y finished"
  and the bound on concurrently running steps proved here hold a fortiori for
  the real completion times, which are never later.
-/
namespace Robsd
namespace Orch

structure Step where
  id : Nat
  parallel : Bool
  isEnd : Bool
  deriving DecidableEq, Repr

structure Cfg where
  ncpu : Nat
  skip : Nat → Bool

structure Oracle where
  exit : Nat → Int
  /-- wait number `k` with jobs `js`: which of them are still running afterwards -/
  keep : Nat → Nat → Bool

inductive Ev where
  | start (i : Nat) (sync : Bool)
  | finish (i : Nat) (e : Int)
  | endRec (i : Nat)
  deriving DecidableEq, Repr

/-- the jobs still running after a queue-full wait: a sublist chosen by the
    oracle, at least one job is gone -/
def remaining (o : Oracle) (k : Nat) (jobs : List Nat) : List Nat :=
  let r := jobs.filter (o.keep k)
  if r.length = jobs.length then jobs.drop 1 else r

def finishAll (o : Oracle) (js : List Nat) : List Ev := js.map (fun j => Ev.finish j (o.exit j))

/-- the loop; returns the trace and whether the invocation succeeded -/
def run (c : Cfg) (o : Oracle) : List Step → List Nat → Nat → List Ev × Bool
  | [], _, _ => ([], true)
  | s :: rest, jobs, k =>
    if c.skip s.id then run c o rest jobs k
    else if s.parallel then
      if jobs.length = c.ncpu then
        let rem := remaining o k jobs
        let gone := jobs.filter (fun j => !rem.contains j)
        let r := run c o rest (rem ++ [s.id]) (k + 1)
        (finishAll o gone ++ [Ev.start s.id false] ++ r.1, r.2)
      else
        let r := run c o rest (jobs ++ [s.id]) k
        (Ev.start s.id false :: r.1, r.2)
    else
      if s.isEnd then (finishAll o jobs ++ [Ev.endRec s.id], true)
      else if o.exit s.id = 0 then
        let r := run c o rest [] k
        (finishAll o jobs ++ [Ev.start s.id true, Ev.finish s.id 0] ++ r.1, r.2)
      else (finishAll o jobs ++ [Ev.start s.id true, Ev.finish s.id (o.exit s.id)], false)

/-- the same loop with robsd-kill in the picture: `kp i` says that the
    `lock_alive` test at the end of the loop body of step `i` fails (the lock
    file was made immutable meanwhile).  The test is reached after a parallel
    step was put in the background and after a synchronous step succeeded; a
    skipped step `continue`s past it and `end` returns before it.  When it
    fails the orchestrator waits for every job still running and returns 1. -/
def runK (c : Cfg) (o : Oracle) (kp : Nat → Bool) : List Step → List Nat → Nat → List Ev × Bool
  | [], _, _ => ([], true)
  | s :: rest, jobs, k =>
    if c.skip s.id then runK c o kp rest jobs k
    else if s.parallel then
      if jobs.length = c.ncpu then
        let rem := remaining o k jobs
        let gone := jobs.filter (fun j => !rem.contains j)
        if kp s.id then (finishAll o gone ++ [Ev.start s.id false] ++ finishAll o (rem ++ [s.id]), false)
        else
          let r := runK c o kp rest (rem ++ [s.id]) (k + 1)
          (finishAll o gone ++ [Ev.start s.id false] ++ r.1, r.2)
      else
        if kp s.id then (Ev.start s.id false :: finishAll o (jobs ++ [s.id]), false)
        else
          let r := runK c o kp rest (jobs ++ [s.id]) k
          (Ev.start s.id false :: r.1, r.2)
    else
      if s.isEnd then (finishAll o jobs ++ [Ev.endRec s.id], true)
      else if o.exit s.id = 0 then
        if kp s.id then (finishAll o jobs ++ [Ev.start s.id true, Ev.finish s.id 0], false)
        else
          let r := runK c o kp rest [] k
          (finishAll o jobs ++ [Ev.start s.id true, Ev.finish s.id 0] ++ r.1, r.2)
      else (finishAll o jobs ++ [Ev.start s.id true, Ev.finish s.id (o.exit s.id)], false)

/-- The property as a checker over a trace: scans the events keeping the set of
    running steps and whether a synchronous step has failed.
    * a synchronous start (and the end record) needs nothing running;
    * never more than `ncpu` steps running (`ncpu ≥ 1`);
    * a skipped step never starts;
    * nothing starts (and end is not recorded) after a synchronous failure. -/
structure ChkSt where
  running : List Nat
  lastSync : Option Nat
  failed : Bool

def check (c : Cfg) : ChkSt → List Ev → Bool
  | _, [] => true
  | st, ev :: rest =>
    match ev with
    | .start i sync =>
      !st.failed && !c.skip i && (if sync then st.running.isEmpty else true) &&
      decide (st.running.length + 1 ≤ c.ncpu) &&
      check c ⟨st.running ++ [i], if sync then some i else st.lastSync, st.failed⟩ rest
    | .finish i e =>
      st.running.contains i &&
      check c ⟨st.running.filter (· != i), st.lastSync, st.failed || (st.lastSync == some i && e != 0)⟩ rest
    | .endRec _ => !st.failed && st.running.isEmpty && check c st rest

def accepts (c : Cfg) (tr : List Ev) : Bool := check c ⟨[], none, false⟩ tr

/-- did a synchronous step fail in this trace (a `start i true` whose finish has a non-zero exit) -/
def syncFailed : List Ev → Bool
  | [] => false
  | .start i true :: .finish j e :: rest => (i == j && e != 0) || syncFailed rest
  | _ :: rest => syncFailed rest

def hasEnd (tr : List Ev) : Bool := tr.any (fun e => match e with | .endRec _ => true | _ => false)

def started (tr : List Ev) : List Nat := tr.filterMap (fun e => match e with | .start i _ => some i | _ => none)

end Orch
end Robsd
