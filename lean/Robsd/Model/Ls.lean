import Robsd.Model.Bytes
/-
  Model of invocation.c (`invocation_read`, `match_directory`,
  `invocation_alloc`, `invocation_walk`) and robsd-ls.c `main`.
-/
namespace Robsd
namespace Ls
open Bytes

inductive Kind where
  | dir | file | symlink | other
  deriving DecidableEq, Repr

structure Ent where
  name : Bytes
  kind : Kind       -- `d_type`
  deriving DecidableEq, Repr

def SLASH : UInt8 := 47
def DOT : UInt8 := 46

def pathOf (root : Bytes) (e : Ent) : Bytes := root ++ SLASH :: e.name

/-- `invocation_read` + `match_directory`: not hidden, a directory, not the keep directory -/
def listed (root keep : Bytes) (e : Ent) : Bool :=
  e.name.head? != some DOT && e.kind == .dir && pathOf root e != keep

/-- `config_default_build_dir`: the first line of `<robsddir>/.running`, when
    the file exists and contains a newline -/
def lockBuilddir (lock : Option Bytes) : Option Bytes :=
  match lock with
  | none => none
  | some b =>
    let c := cstr b
    match splitAt1 10 c with
    | (_, none) => none
    | (line, some _) => some line

/-- `robsd-ls [-B]`: sort ascending by path, pop from the end, drop the build
    directory when asked.  `sort` is any sorting function (qsort). -/
def ls (sort : List Bytes → List Bytes) (root keep : Bytes) (builddir : Option Bytes) (ents : List Ent) : List Bytes :=
  let paths := (ents.filter (listed root keep)).map (pathOf root)
  (sort paths).reverse.filter (fun p => some p != builddir)

/-- the command: (exit status, stdout lines) -/
def lsCmd (root keep : Bytes) (skipBuilddir : Bool) (lock : Option Bytes) (ents : Option (List Ent)) : Nat × List Bytes :=
  match ents with
  | none => (1, [])     -- opendir failed
  | some es => (0, ls sortBytes root keep (if skipBuilddir then lockBuilddir lock else none) es)

end Ls
end Robsd
