import Robsd.Model.Interp
import Robsd.Gen.Consts
/-
  Model of the argument and exit-status handling of the step runner and the
  hook runner: conf.c `config_get_steps` (per-argument interpolation),
  step-exec.c `find_step`/`resolve_step_command`/`exitstatus`/`step_exec`,
  robsd-hook.c `hook_to_argv`/`main`.
-/
namespace Robsd
namespace Exec
open Bytes Interp

/-- `config_get_steps` for one step: every argument interpolated as a whole,
    arguments that become empty dropped; `none` if one fails to interpolate -/
def stepArgv (lookup : Lookup) : List Bytes → Option (List Bytes)
  | [] => some []
  | a :: as =>
    match interpStr lookup false a with
    | .error _ => none
    | .ok v =>
      match stepArgv lookup as with
      | none => none
      | some rest => some (if v.isEmpty then rest else v :: rest)

/-- all steps: the whole schedule fails if any argument of any step fails -/
def allArgv (lookup : Lookup) : List (Bytes × List Bytes) → Option (List (Bytes × List Bytes))
  | [] => some []
  | (n, args) :: rest =>
    match stepArgv lookup args with
    | none => none
    | some v =>
      match allArgv lookup rest with
      | none => none
      | some r => some ((n, v) :: r)

/-- `hook_to_argv`: element-wise, empty results kept -/
def hookArgvList (lookup : Lookup) : List Bytes → Option (List Bytes)
  | [] => some []
  | a :: as =>
    match interpStr lookup false a with
    | .error _ => none
    | .ok v =>
      match hookArgvList lookup as with
      | none => none
      | some rest => some (v :: rest)

inductive HookAction where
  | nothing                      -- no hook configured (or empty): exit 0, nothing runs
  | exec (argv : List Bytes)
  | error                        -- exit 1
  deriving DecidableEq, Repr

def hookAction (lookup : Lookup) (hook : Option (List Bytes)) : HookAction :=
  match hook with
  | none => .nothing
  | some [] => .nothing
  | some l =>
    match hookArgvList lookup l with
    | none => .error
    | some argv => .exec argv

inductive WaitStatus where
  | exited (code : Nat)
  | signaled (sig : Nat)
  deriving DecidableEq, Repr

def SIGALRM : Nat := 14

/-- `exitstatus(status, gotsig)` -/
def exitstatus (st : WaitStatus) (gotsig : Nat) : Nat :=
  if gotsig = SIGALRM then Gen.exTimeout
  else
    match st with
    | .exited c => c
    | .signaled s => 128 + s

inductive Outcome where
  | ran (argv : List Bytes) (exit : Nat)   -- the command ran with this argv, runner exit
  | notRun (exit : Nat)                    -- nothing was started
  deriving DecidableEq, Repr

/-- `step_exec` without signals arriving at the runner: resolve, run, map the status.
    `st = none` means execvp failed in the child, which then exits 1. -/
def stepExec (lookup : Lookup) (schedule : List (Bytes × List Bytes)) (name : Bytes)
    (st : Option WaitStatus) : Outcome :=
  match allArgv lookup schedule with
  | none => .notRun 1
  | some steps =>
    match steps.find? (fun s => s.1 == name) with
    | none => .notRun 1
    | some (_, argv) =>
      match st with
      | none => .ran argv 1
      | some w => .ran argv (exitstatus w 0)

end Exec
end Robsd
