import Robsd.Model.Bytes
import Robsd.Gen.Consts
/-
  libks/map.c: the uthash-derived table.

  What is transcribed, function by function:
    HASH_MAKE_TABLE, HASH_ADD (+ HASH_APPEND_LIST, HASH_ADD_TO_TABLE),
    HASH_EXPAND_BUCKETS (the redistribution loop with its `count`,
    `expand_mult`, `ideal_chain_maxlen`, `nonideal_items`, `ineff_expands`,
    `noexpand` bookkeeping), HASH_FIND, HASH_DELETE (+ HASH_DEL_IN_BKT),
    map_insert, map_find, map_remove, map_iterate, HASH_JEN.

  How the C data structure is represented:
    * an element is `(id, key, hashv)`; `id` stands for its address (the value
      returned by map_insert lives at a fixed offset of it);
    * the application-order doubly linked list (`prev`/`next`, `head`, `tail`)
      is the list `order`, head first;
    * a bucket's `hh_next` chain is the list `chain`, `hh_head` first;
      the back pointers (`prev`, `hh_prev`) are not represented: the harness
      checks on the real memory that they mirror the forward lists, and
      compares every forward list with the model after every operation;
    * `tbl->num_buckets` is `buckets.length`;
    * the table is freed when its only element is deleted and made afresh by
      the next insert; the model keeps the stale value, which nothing reads.
  The model is parametric in the hash function `h`, so every theorem holds
  for every hash; the driver instantiates it with `jen` (HASH_JEN below).
  Not modelled: calloc failure and the 2^31-bucket `KS_u32_mul_overflow` exit.
-/
namespace Robsd
namespace Map

structure Elem where
  id : Nat
  key : Bytes
  hashv : Nat
deriving DecidableEq, Repr

structure Bucket where
  chain : List Elem := []
  count : Nat := 0
  mult : Nat := 0
deriving DecidableEq, Repr

structure Table where
  buckets : List Bucket
  log2 : Nat
  numItems : Nat := 0
  ideal : Nat := 0
  nonideal : Nat := 0
  ineff : Nat := 0
  noexpand : Bool := false
deriving Repr

structure St where
  order : List Elem := []
  table : Table := ⟨[], 0, 0, 0, 0, 0, false⟩
  next : Nat := 0
deriving Repr

/-- HASH_TO_BKT: `hashv & (num_bkts - 1)` -/
def bidx (hv n : Nat) : Nat := hv &&& (n - 1)

theorem bidx_lt (hv n : Nat) (h : 0 < n) : bidx hv n < n := by
  unfold bidx
  have := @Nat.and_le_right hv (n - 1)
  omega

def updAt {α} (l : List α) (i : Nat) (f : α → α) : List α :=
  match l, i with
  | [], _ => []
  | x :: xs, 0 => f x :: xs
  | x :: xs, i + 1 => x :: updAt xs i f

def bucketAt (bs : List Bucket) (j : Nat) : Bucket := bs.getD j {}

/-- HASH_MAKE_TABLE -/
def mkTable : Table :=
  { buckets := List.replicate Gen.mapInitialBuckets {}, log2 := Gen.mapInitialBucketsLog2 }

/-- one iteration of the inner loop of HASH_EXPAND_BUCKETS: the element is
    linked at the head of its new bucket -/
def expandStep (ideal : Nat) (acc : List Bucket × Nat) (e : Elem) : List Bucket × Nat :=
  let j := bidx e.hashv acc.1.length
  let b := bucketAt acc.1 j
  let c := b.count + 1
  let non := if c > ideal then acc.2 + 1 else acc.2
  let m := if c > ideal ∧ c > b.mult * ideal then b.mult + 1 else b.mult
  (updAt acc.1 j (fun _ => { chain := e :: b.chain, count := c, mult := m }), non)

/-- HASH_EXPAND_BUCKETS -/
def expand (t : Table) : Table :=
  let n := t.buckets.length
  let ideal := (t.numItems >>> (t.log2 + 1)) + (if t.numItems &&& (n * 2 - 1) ≠ 0 then 1 else 0)
  let all := t.buckets.flatMap (·.chain)
  let r := all.foldl (expandStep ideal) (List.replicate (n * 2) {}, 0)
  let ineff := if r.2 > t.numItems >>> 1 then t.ineff + 1 else 0
  { buckets := r.1, log2 := t.log2 + 1, numItems := t.numItems, ideal := ideal, nonideal := r.2,
    ineff := ineff, noexpand := t.noexpand || decide (ineff > 1) }

/-- HASH_ADD_TO_TABLE -/
def addToTable (t : Table) (e : Elem) : Table :=
  let j := bidx e.hashv t.buckets.length
  let bs := updAt t.buckets j (fun b => { b with chain := e :: b.chain, count := b.count + 1 })
  let t1 := { t with numItems := t.numItems + 1, buckets := bs }
  let b := bucketAt bs j
  if b.count ≥ (b.mult + 1) * Gen.mapBucketThresh ∧ t.noexpand = false then expand t1 else t1

/-- map_insert: returns the new state and the element (its value address) -/
def insert (h : Bytes → Nat) (s : St) (k : Bytes) : St × Elem :=
  let e : Elem := ⟨s.next, k, h k⟩
  let t0 := if s.order = [] then mkTable else s.table
  ({ order := s.order ++ [e], table := addToTable t0 e, next := s.next + 1 }, e)

/-- HASH_FIND -/
def find (h : Bytes → Nat) (s : St) (k : Bytes) : Option Elem :=
  if s.order = [] then none
  else
    let hv := h k
    (bucketAt s.table.buckets (bidx hv s.table.buckets.length)).chain.find?
      (fun e => e.hashv == hv && e.key == k)

/-- HASH_DEL_IN_BKT -/
def delInBkt (t : Table) (e : Elem) : Table :=
  let j := bidx e.hashv t.buckets.length
  { t with buckets := updAt t.buckets j (fun b => { b with chain := b.chain.erase e, count := b.count - 1 }),
           numItems := t.numItems - 1 }

/-- HASH_DELETE of an element of the map.  `prev == NULL && next == NULL`
    is "the element is head and tail". -/
def delete (s : St) (e : Elem) : St :=
  if s.order.head? = some e ∧ s.order.getLast? = some e then { s with order := [] }
  else { s with order := s.order.erase e, table := delInBkt s.table e }

/-- map_remove -/
def remove (h : Bytes → Nat) (s : St) (k : Bytes) : St :=
  match find h s k with
  | none => s
  | some e => delete s e

/-! ### map_iterate -/

structure Iter where
  started : Bool := false      -- it->el != NULL
  nx : Option Elem := none     -- it->nx
deriving DecidableEq, Repr

inductive IterOut where
  | elem (e : Elem)
  | done
  | uaf            -- `it->nx` was removed meanwhile: the C code reads freed memory
deriving DecidableEq, Repr

/-- the `next` pointer of `e` in the application-order list -/
def succ? : List Elem → Elem → Option Elem
  | [], _ => none
  | x :: xs, e => if x = e then xs.head? else succ? xs e

def iterate (s : St) (it : Iter) : IterOut × Iter :=
  if it.started = false ∧ it.nx = none then
    match s.order with
    | [] => (.done, it)
    | e :: rest => (.elem e, ⟨true, rest.head?⟩)
  else
    match it.nx with
    | none => (.done, it)
    | some e => if e ∈ s.order then (.elem e, { it with nx := succ? s.order e }) else (.uaf, it)

/-- A whole `while (MAP_ITERATE(m, &it))` loop whose body removes the current
    entry when `rm` says so.  `fuel` bounds the number of calls. -/
def drain (h : Bytes → Nat) (rm : Elem → Bool) : Nat → St → Iter → List Elem → (List Elem × St × Bool)
  | 0, s, _, acc => (acc.reverse, s, false)
  | fuel + 1, s, it, acc =>
    match iterate s it with
    | (.elem e, it') =>
      let s' := if rm e then remove h s e.key else s
      drain h rm fuel s' it' (e :: acc)
    | (.done, _) => (acc.reverse, s, true)
    | (.uaf, _) => (acc.reverse, s, false)

/-! ### HASH_JEN (Bob Jenkins' hash as vendored by uthash), 32-bit arithmetic -/

def M32 : Nat := 4294967296
def sub32 (a b : Nat) : Nat := (a + M32 - b % M32) % M32
def shl32 (a k : Nat) : Nat := (a <<< k) % M32

/-- HASH_JEN_MIX -/
def jenMix (a b c : Nat) : Nat × Nat × Nat :=
  let a := sub32 a b; let a := sub32 a c; let a := a ^^^ (c >>> 13)
  let b := sub32 b c; let b := sub32 b a; let b := b ^^^ shl32 a 8
  let c := sub32 c a; let c := sub32 c b; let c := c ^^^ (b >>> 13)
  let a := sub32 a b; let a := sub32 a c; let a := a ^^^ (c >>> 12)
  let b := sub32 b c; let b := sub32 b a; let b := b ^^^ shl32 a 16
  let c := sub32 c a; let c := sub32 c b; let c := c ^^^ (b >>> 5)
  let a := sub32 a b; let a := sub32 a c; let a := a ^^^ (c >>> 3)
  let b := sub32 b c; let b := sub32 b a; let b := b ^^^ shl32 a 10
  let c := sub32 c a; let c := sub32 c b; let c := c ^^^ (b >>> 15)
  (a, b, c)

def byteAt (k : Bytes) (i : Nat) : Nat := (k.getD i 0).toNat
/-- little-endian 32-bit word at byte offset `i` -/
def word (k : Bytes) (i : Nat) : Nat :=
  byteAt k i + (byteAt k (i + 1) <<< 8) + (byteAt k (i + 2) <<< 16) + (byteAt k (i + 3) <<< 24)

def jenLoop : Nat → Bytes → Nat → Nat → Nat → (Bytes × Nat × Nat × Nat)
  | 0, k, i, j, hv => (k, i, j, hv)
  | fuel + 1, k, i, j, hv =>
    if k.length ≥ 12 then
      let i := (i + word k 0) % M32
      let j := (j + word k 4) % M32
      let hv := (hv + word k 8) % M32
      let (i, j, hv) := jenMix i j hv
      jenLoop fuel (k.drop 12) i j hv
    else (k, i, j, hv)

def jen (key : Bytes) : Nat :=
  let (k, i, j, hv) := jenLoop (key.length / 12 + 1) key 0x9e3779b9 0x9e3779b9 0xfeedbeef
  let hv := (hv + key.length) % M32
  let n := k.length
  let b := fun (x sh : Nat) => if x < n then shl32 (byteAt k x) sh else 0
  let hv := (hv + b 10 24 + b 9 16 + b 8 8) % M32
  let j := (j + b 7 24 + b 6 16 + b 5 8 + b 4 0) % M32
  let i := (i + b 3 24 + b 2 16 + b 1 8 + b 0 0) % M32
  (jenMix i j hv).2.2

/-! ### operation sequences -/

inductive Op where
  | insert (k : Bytes)
  | find (k : Bytes)
  | remove (k : Bytes)
  | iterAll (rmKeys : List Bytes)   -- iterate to the end, removing the current entry when its key is listed
deriving Repr

inductive Out where
  | elem (id : Nat)
  | found (id : Option Nat)
  | unit
  | iter (ids : List Nat) (complete : Bool)
deriving DecidableEq, Repr

def step (h : Bytes → Nat) (s : St) : Op → St × Out
  | .insert k => let r := insert h s k; (r.1, .elem r.2.id)
  | .find k => (s, .found ((find h s k).map (·.id)))
  | .remove k => (remove h s k, .unit)
  | .iterAll ks =>
    let r := drain h (fun e => ks.contains e.key) (s.order.length + 1) s {} []
    (r.2.1, .iter (r.1.map (·.id)) r.2.2)

def run (h : Bytes → Nat) : St → List Op → St × List Out
  | s, [] => (s, [])
  | s, op :: ops =>
    let r := step h s op
    let r' := run h r.1 ops
    (r'.1, r.2 :: r'.2)

end Map
end Robsd
