import Robsd.Model.Bytes
/-
  Model of the locking protocol of step.c (`steps_parse`, `steps_write`,
  `steps_free`) for any number of concurrent `robsd-step -R` / `-W`,
  `robsd-report`, `robsd-regress-html` processes on one step file:

    open → flock(LOCK_EX) → read (second open) → [truncate → write] → unlock

  One advisory lock per inode (kernel `flock` semantics are trusted); every
  other operation is one atomic step; a schedule is any list of process ids —
  a process whose next operation is `lock` while the lock is held does not move.
-/
namespace Robsd
namespace Flock

/-- program counter of a process -/
inductive Pc where
  | start | opened | locked | haveRead | truncated | written | done
  deriving DecidableEq, Repr

structure Proc where
  pc : Pc
  snapshot : Bytes            -- what it read under the lock
  deriving Repr

structure State where
  content : Bytes             -- the file (one inode, rewritten in place)
  holder : Option Nat
  procs : Nat → Proc
  order : List Nat            -- the processes in the order they acquired the lock (ghost)

/-- a process is a reader (`write p = none`) or a writer with its update
    function (C01's `writeCmd` on the snapshot; the identity when the write is
    rejected) -/
structure Sys where
  write : Nat → Option (Bytes → Bytes)

def setProc (s : State) (p : Nat) (q : Proc) : State :=
  { s with procs := fun j => if j = p then q else s.procs j }

/-- one step of process `p` -/
def step (sys : Sys) (s : State) (p : Nat) : State :=
  let q := s.procs p
  match q.pc with
  | .start => setProc s p { q with pc := .opened }
  | .opened =>
    if s.holder = none then
      { setProc s p { q with pc := .locked } with holder := some p, order := s.order ++ [p] }
    else s                                         -- blocked in flock(2)
  | .locked => setProc s p { pc := .haveRead, snapshot := s.content }
  | .haveRead =>
    match sys.write p with
    | none => { setProc s p { q with pc := .done } with holder := none }          -- reader: unlock
    | some _ => { setProc s p { q with pc := .truncated } with content := [] }    -- fopen("w")
  | .truncated =>
    match sys.write p with
    | none => s
    | some f => { setProc s p { q with pc := .written } with content := f q.snapshot }
  | .written => { setProc s p { q with pc := .done } with holder := none }        -- unlock in steps_free
  | .done => s

def runSched (sys : Sys) (s : State) (sched : List Nat) : State := sched.foldl (step sys) s

def init (c0 : Bytes) : State :=
  { content := c0, holder := none, procs := fun _ => ⟨.start, []⟩, order := [] }

/-- the serial effect of the processes in `order` -/
def effect (sys : Sys) (c0 : Bytes) (order : List Nat) : Bytes :=
  order.foldl (fun c p => match sys.write p with | none => c | some f => f c) c0

/-- the same protocol WITHOUT taking the lock (for `lock_is_needed`) -/
def stepNoLock (sys : Sys) (s : State) (p : Nat) : State :=
  let q := s.procs p
  match q.pc with
  | .start => setProc s p { q with pc := .opened }
  | .opened => { setProc s p { q with pc := .locked } with order := s.order ++ [p] }
  | _ => step sys s p

end Flock
end Robsd
