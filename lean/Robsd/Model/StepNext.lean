import Robsd.Model.StepFile
/-
  util.sh `step_next` (on the rows `robsd-step -R -i -k` yields from the end),
  and the sequential orchestrator as a write-by-write machine over step slots
  (`canvas`/`robsd*` + util.sh `robsd()`, `step_exec_job`, skip records).
-/
namespace Robsd
namespace StepFile

def skipIdx : Nat := (fieldIdx [115, 107, 105, 112]).getD 8
def exitIdx : Nat := (fieldIdx [101, 120, 105, 116]).getD 2
def END : Bytes := [101, 110, 100]

def rowSkip (r : Row) : Bool := r.getD skipIdx .unknown == .int 1
def rowExit (r : Row) : Int :=
  match r.getD exitIdx .unknown with
  | .int e => e
  | _ => 0
def rowName (r : Row) : Bytes :=
  match r.getD nameIdx .unknown with
  | .str s => s
  | _ => []

/-- `step_next`, walking the rows from the end -/
def stepNextRev : List Row → Option Int
  | [] => none
  | r :: rs =>
    if rowSkip r then stepNextRev rs
    else if rowExit r ≠ 0 ∨ rowName r = END then some (rowKey r)
    else some (rowKey r + 1)

def stepNext (rows : List Row) : Option Int := stepNextRev rows.reverse

/-- `step_next file` as a command: (exit status, stdout) -/
def stepNextCmd (file : Bytes) : Nat × Option Int :=
  match parseFile file with
  | none => (1, none)
  | some rows =>
    match stepNext rows with
    | none => (1, none)
    | some p => (0, some p)

/-- util.sh `has_steps`: walking the rows from the front, is there a record
    that is not a skip record?  `trap_exit` removes the invocation directory
    exactly when this is false ("do not leave an empty build around"). -/
def hasSteps : List Row → Bool
  | [] => false
  | r :: rs => if rowSkip r then hasSteps rs else true

/-- `has_steps file` as a command: its exit status (an unreadable file ends
    the walk at once) -/
def hasStepsCmd (file : Bytes) : Nat :=
  match parseFile file with
  | none => 1
  | some rows => if hasSteps rows then 0 else 1

/-- what `trap_exit` decides from the step file: (report wanted, directory
    kept).  `err` is the invocation's exit status, `own` whether the lock file
    names this invocation. -/
def trapExitDecision (rows : List Row) (own : Bool) (err : Int) : Bool × Bool :=
  let hs := hasSteps rows
  let reachedEnd := rows.any (fun r => rowName r == END)
  (own && hs && (err != 0 || reachedEnd), hs)

end StepFile

/-! ### the sequential orchestrator -/
namespace OrchSeq

inductive Slot where
  | empty
  | skipped
  | rcd (exit : Int)
  deriving DecidableEq, Repr

/-- the step file, abstractly: one slot per scheduled step (0-based index) -/
abbrev File := Nat → Slot

structure Cfg where
  n : Nat                 -- number of steps, the last one (index n-1) is `end`
  skip : Nat → Bool       -- configured / command-line skip set
  deriving Inhabited

inductive Wr where
  | skipRec (i : Nat)
  | inflight (i : Nat)
  | done (i : Nat) (e : Int)
  | endRec (i : Nat)
  deriving DecidableEq, Repr

def upd (f : File) (i : Nat) (v : Slot) : File := fun j => if j = i then v else f j

def applyW (f : File) : Wr → File
  | .skipRec i => upd f i .skipped
  | .inflight i => upd f i (.rcd (-1))
  | .done i e => upd f i (.rcd e)
  | .endRec i => upd f i (.rcd 0)

def applyWs (f : File) (ws : List Wr) : File := ws.foldl applyW f

/-- the last non-skipped record among slots `0 … k-1`: (index, exit) -/
def lastRec (f : File) : Nat → Option (Nat × Int)
  | 0 => none
  | k + 1 =>
    match f k with
    | .rcd e => some (k, e)
    | _ => lastRec f k

/-- `step_next` on the abstract file: the 0-based index to resume at -/
def resumeAt (c : Cfg) (f : File) : Option Nat :=
  match lastRec f c.n with
  | none => none
  | some (i, e) => if e ≠ 0 ∨ i + 1 = c.n then some i else some (i + 1)

/-- the loop of `robsd()` from index `i` for `k` more indices: the writes it
    performs, given the exit status of every step (the oracle) -/
def runFrom (c : Cfg) (exits : Nat → Int) (f : File) : Nat → Nat → List Wr
  | _, 0 => []
  | i, k + 1 =>
    if f i = .skipped then runFrom c exits f (i + 1) k
    else if i + 1 = c.n then [.endRec i]
    else if exits i = 0 then .inflight i :: .done i 0 :: runFrom c exits f (i + 1) k
    else [.inflight i, .done i (exits i)]

/-- a fresh invocation: skip records first (in the order given), then the loop -/
def freshWrites (c : Cfg) (exits : Nat → Int) (skipOrder : List Nat) : List Wr :=
  let ws : List Wr := skipOrder.map (fun i => Wr.skipRec i)
  let f0 : File := fun _ => Slot.empty
  ws ++ runFrom c exits (applyWs f0 ws) 0 c.n

/-- a resumed invocation (`-r`): `step_next`, then the loop from there -/
def resumeWrites (c : Cfg) (exits : Nat → Int) (f : File) : Option (List Wr) :=
  match resumeAt c f with
  | none => none
  | some p => some (runFrom c exits f p (c.n - p))

/-- the steps an invocation starts, in order -/
def started : List Wr → List Nat
  | [] => []
  | .inflight i :: ws => i :: started ws
  | .endRec i :: ws => i :: started ws
  | _ :: ws => started ws

end OrchSeq
end Robsd
