import Robsd.Model.Bytes
import Robsd.Gen.Steps
/-
  Model of `config_get_steps` as far as the schedule is concerned
  (`config_default_get_steps`, `config_robsd_regress_get_steps`,
  `config_canvas_get_steps`/`after_parse`) and of `robsd-step -L [-o k]`.
-/
namespace Robsd
namespace Schedule
open Bytes Gen

structure Step where
  name : Bytes
  parallel : Bool
  deriving DecidableEq, Repr

/-- a `regress "path" [no-parallel]` entry, in configuration order -/
structure RegressEntry where
  name : Bytes
  noParallel : Bool
  deriving DecidableEq, Repr

/-- a canvas `step "name" … [parallel]` -/
structure CanvasStep where
  name : Bytes
  parallel : Bool
  deriving DecidableEq, Repr

def END : Bytes := [101, 110, 100]

/-- `is_parallel`: the global switch, then `regress-<name>-parallel`, which
    `no-parallel` sets to 0 for that path (looked up by name) -/
def isParallel (globalParallel : Bool) (ents : List RegressEntry) (name : Bytes) : Bool :=
  globalParallel && !(ents.any (fun e => e.name == name && e.noParallel))

def fixedToStep (f : Bytes × Bytes) : Step := ⟨f.1, false⟩

/-- `config_robsd_regress_get_steps` -/
def regressSteps (table : List FixedStep) (globalParallel : Bool) (ents : List RegressEntry) : List Step :=
  let before := (table.takeWhile (·.isSome)).filterMap (fun x => x.map fixedToStep)
  let after := ((table.dropWhile (·.isSome)).drop 1).filterMap (fun x => x.map fixedToStep)
  let par := (ents.filter (fun e => isParallel globalParallel ents e.name)).map (fun e => Step.mk e.name true)
  let seq := (ents.filter (fun e => !isParallel globalParallel ents e.name)).map (fun e => Step.mk e.name false)
  before ++ par ++ seq ++ after

/-- `config_default_get_steps` -/
def defaultSteps (table : List FixedStep) : List Step := table.filterMap (fun x => x.map fixedToStep)

/-- canvas: the configured steps in file order plus the synthetic `end` -/
def canvasSteps (cs : List CanvasStep) : List Step := cs.map (fun c => Step.mk c.name c.parallel) ++ [⟨END, false⟩]

inductive Cfg where
  | robsd | cross | ports
  | regress (globalParallel : Bool) (ents : List RegressEntry)
  | canvas (steps : List CanvasStep)

def steps : Cfg → List Step
  | .robsd => defaultSteps robsdSteps
  | .cross => defaultSteps crossSteps
  | .ports => defaultSteps portsSteps
  | .regress g e => regressSteps Gen.regressSteps g e
  | .canvas cs => canvasSteps cs

/-- one line of `robsd-step -L`: (number, name, parallel) -/
abbrev Line := Nat × Bytes × Bool

/-- lines for `ss`, the first numbered `i` -/
def number : Nat → List Step → List Line
  | _, [] => []
  | i, s :: ss => (i, s.name, s.parallel) :: number (i + 1) ss

/-- `steps_list`: `none` when the offset is too large -/
def listFrom (ss : List Step) (offset : Nat) : Option (List Line) :=
  if offset = 0 ∨ offset - 1 ≥ ss.length then none
  else some (number offset (ss.drop (offset - 1)))

/-- `find_step` (step-exec.c): the first scheduled step with that name -/
def findStep (ss : List Step) (name : Bytes) : Option Step := ss.find? (fun s => s.name == name)

end Schedule
end Robsd
