import Robsd.Model.Bytes
import Robsd.Gen.Consts
/-
  Model of interpolate.c: `interpolate` / `interpolate_inner`.

  * the outer recursion is structural in the depth counter the C code itself
    keeps (`++c->depth == LIMIT` fails), not an artificial fuel;
  * the inner scan recurses on the length of the input still to be read.
  Lean accepting these definitions is the termination argument.
-/
namespace Robsd
namespace Interp
open Bytes

inductive Err where
  | expectedLBrace
  | expectedRBrace
  | emptyName
  | unknown (name : Bytes)
  | tooDeep
  deriving DecidableEq, Repr

abbrev Lookup := Bytes → Option Bytes

abbrev DOLLAR : UInt8 := 36
abbrev LBRACE : UInt8 := 123
abbrev RBRACE : UInt8 := 125

/-- `interpolate_inner`, parametrised by what `interpolate` does with a
    looked-up value (`rec`).  `ign` is INTERPOLATE_IGNORE_LOOKUP_ERRORS. -/
def inner (lookup : Lookup) (ign : Bool) (rec : Bytes → Except Err Bytes) (s : Bytes) :
    Except Err Bytes :=
  match h : splitAt1 DOLLAR s with
  | (pre, none) => .ok pre
  | (pre, some rest) =>
    match rest with
    | [] => .error .expectedLBrace
    | c :: rest' =>
      if c ≠ LBRACE then .error .expectedLBrace
      else
        match h2 : splitAt1 RBRACE rest' with
        | (_, none) => .error .expectedRBrace
        | (name, some tail) =>
          have : tail.length < s.length := by
            have h1 := splitAt1_length DOLLAR s (c :: rest') pre h
            have h3 := splitAt1_length RBRACE rest' tail name h2
            simp at h1; omega
          if name = [] then .error .emptyName
          else
            match lookup name with
            | none =>
              if ign then
                match inner lookup ign rec tail with
                | .ok b => .ok (pre ++ DOLLAR :: LBRACE :: name ++ RBRACE :: b)
                | .error e => .error e
              else .error (.unknown name)
            | some v =>
              match rec v with
              | .error e => .error e
              | .ok a =>
                match inner lookup ign rec tail with
                | .ok b => .ok (pre ++ a ++ b)
                | .error e => .error e
termination_by s.length

/-- `interpolate` with `d` levels of nesting still allowed.  The C code fails
    when `++depth == LIMIT`; the top-level call is `interp (LIMIT-1)`. -/
def interp (lookup : Lookup) (ign : Bool) : Nat → Bytes → Except Err Bytes
  | 0 => fun _ => .error .tooDeep
  | d + 1 => inner lookup ign (interp lookup ign d)

/-- `interpolate_buffer` / `interpolate_str` as the callers use them. -/
def interpStr (lookup : Lookup) (ign : Bool) (s : Bytes) : Except Err Bytes :=
  interp lookup ign (Gen.interpolateDepthLimit - 1) s

/-- `interpolate_file`: every line (cut at NUL) is interpolated and followed by
    a newline; the first failing line fails the whole file and nothing is
    returned. -/
def interpLines (lookup : Lookup) (ign : Bool) : List Bytes → Except Err Bytes
  | [] => .ok []
  | l :: ls =>
    match interpStr lookup ign l with
    | .error e => .error e
    | .ok a =>
      match interpLines lookup ign ls with
      | .error e => .error e
      | .ok b => .ok (a ++ 10 :: b)

def interpFile (lookup : Lookup) (ign : Bool) (content : Bytes) : Except Err Bytes :=
  interpLines lookup ign (lines content)

/-- What the CLI prints (`printf("%s", str)` of the result, nothing on error). -/
def cliStdout (r : Except Err Bytes) : Bytes :=
  match r with
  | .ok b => cstr b
  | .error _ => []

end Interp
end Robsd
