import Robsd.Model.Bytes
import Robsd.Gen.Consts
/-
  Model of interpolate.c: `interpolate` / `interpolate_inner`.

  * the outer recursion is structural in the depth counter the C code itself
    keeps (`++c->depth == LIMIT` fails), not an artificial fuel;
  * the inner scan recurses on the length of the input still to be read.
  Lean accepting these definitions is the termination argument.
-/
namespace Robsd
namespace Interp
open Bytes

inductive Err where
  | expectedLBrace
  | expectedRBrace
  | emptyName
  | unknown (name : Bytes)
  | tooDeep
  deriving DecidableEq, Repr

abbrev Lookup := Bytes → Option Bytes

abbrev DOLLAR : UInt8 := 36
abbrev LBRACE : UInt8 := 123
abbrev RBRACE : UInt8 := 125

/-- One step of the scan in `interpolate_inner`: the text up to the next `$`,
    then `{name}`; or the reason the reference is malformed. -/
inductive Scan where
  | lit (s : Bytes)
  | bad (e : Err)
  | ref (pre name tail : Bytes)
  deriving DecidableEq, Repr

def scan (s : Bytes) : Scan :=
  match splitAt1 DOLLAR s with
  | (pre, none) => .lit pre
  | (_, some []) => .bad .expectedLBrace
  | (pre, some (c :: rest)) =>
    if c ≠ LBRACE then .bad .expectedLBrace
    else
      match splitAt1 RBRACE rest with
      | (_, none) => .bad .expectedRBrace
      | (name, some tail) => if name = [] then .bad .emptyName else .ref pre name tail

theorem scan_ref (s pre name tail : Bytes) (h : scan s = .ref pre name tail) :
    s = pre ++ DOLLAR :: LBRACE :: name ++ RBRACE :: tail ∧ DOLLAR ∉ pre ∧ RBRACE ∉ name ∧ name ≠ [] := by
  unfold scan at h
  split at h
  · simp at h
  · simp at h
  · rename_i pre' c rest h1
    split at h
    · simp at h
    · rename_i hc
      simp only [ne_eq, Decidable.not_not] at hc
      split at h
      · simp at h
      · rename_i name' tail' h2
        split at h
        · simp at h
        · rename_i hne
          simp only [Scan.ref.injEq] at h
          obtain ⟨rfl, rfl, rfl⟩ := h
          have a1 := splitAt1_some DOLLAR s pre' (c :: rest) h1
          have a2 := splitAt1_some RBRACE rest name' tail' h2
          subst hc
          refine ⟨?_, a1.2, a2.2, hne⟩
          rw [a1.1, a2.1]
          simp

theorem scan_ref_length (s pre name tail : Bytes) (h : scan s = .ref pre name tail) :
    tail.length < s.length := by
  have := (scan_ref s pre name tail h).1
  subst this
  simp
  omega

theorem scan_of_ref (pre name tail : Bytes) (h1 : DOLLAR ∉ pre) (h2 : RBRACE ∉ name) (h3 : name ≠ []) :
    scan (pre ++ DOLLAR :: LBRACE :: name ++ RBRACE :: tail) = .ref pre name tail := by
  unfold scan
  have e : pre ++ DOLLAR :: LBRACE :: name ++ RBRACE :: tail = pre ++ DOLLAR :: (LBRACE :: (name ++ RBRACE :: tail)) := by simp
  rw [e, splitAt1_append_of_not_mem DOLLAR pre _ h1]
  simp only [ne_eq, not_true_eq_false, if_false]
  rw [splitAt1_append_of_not_mem RBRACE name tail h2]
  simp [h3]

theorem scan_lit (s p : Bytes) (h : scan s = .lit p) : p = s ∧ DOLLAR ∉ s := by
  unfold scan at h
  split at h
  · rename_i pre h1
    simp only [Scan.lit.injEq] at h
    subst h
    have h2 : (splitAt1 DOLLAR s).2 = none := by rw [h1]
    exact ⟨by have := splitAt1_none_fst DOLLAR s h2; rw [h1] at this; exact this,
      (splitAt1_none DOLLAR s).mp h2⟩
  · simp at h
  · split at h
    · simp at h
    · split at h
      · simp at h
      · split at h <;> simp at h

theorem scan_of_lit (s : Bytes) (h : DOLLAR ∉ s) : scan s = .lit s := by
  unfold scan
  rw [splitAt1_of_not_mem DOLLAR s h]

/-- `interpolate_inner`, parametrised by what `interpolate` does with a
    looked-up value (`rec`).  `ign` is INTERPOLATE_IGNORE_LOOKUP_ERRORS. -/
def inner (lookup : Lookup) (ign : Bool) (rec : Bytes → Except Err Bytes) (s : Bytes) :
    Except Err Bytes :=
  match h : scan s with
  | .lit p => .ok p
  | .bad e => .error e
  | .ref pre name tail =>
    have : tail.length < s.length := scan_ref_length s pre name tail h
    match lookup name with
    | none =>
      if ign then
        match inner lookup ign rec tail with
        | .ok b => .ok (pre ++ DOLLAR :: LBRACE :: name ++ RBRACE :: b)
        | .error e => .error e
      else .error (.unknown name)
    | some v =>
      match rec v with
      | .error e => .error e
      | .ok a =>
        match inner lookup ign rec tail with
        | .ok b => .ok (pre ++ a ++ b)
        | .error e => .error e
termination_by s.length

/-- `interpolate` with `d` levels of nesting still allowed.  The C code fails
    when `++depth == LIMIT`; the top-level call is `interp (LIMIT-1)`. -/
def interp (lookup : Lookup) (ign : Bool) : Nat → Bytes → Except Err Bytes
  | 0 => fun _ => .error .tooDeep
  | d + 1 => inner lookup ign (interp lookup ign d)

/-- `interpolate_buffer` / `interpolate_str` as the callers use them. -/
def interpStr (lookup : Lookup) (ign : Bool) (s : Bytes) : Except Err Bytes :=
  interp lookup ign (Gen.interpolateDepthLimit - 1) s

/-- `interpolate_file`: every line (cut at NUL) is interpolated and followed by
    a newline; the first failing line fails the whole file and nothing is
    returned. -/
def interpLines (lookup : Lookup) (ign : Bool) : List Bytes → Except Err Bytes
  | [] => .ok []
  | l :: ls =>
    match interpStr lookup ign l with
    | .error e => .error e
    | .ok a =>
      match interpLines lookup ign ls with
      | .error e => .error e
      | .ok b => .ok (a ++ 10 :: b)

def interpFile (lookup : Lookup) (ign : Bool) (content : Bytes) : Except Err Bytes :=
  interpLines lookup ign (lines content)

/-- What the CLI prints (`printf("%s", str)` of the result, nothing on error). -/
def cliStdout (r : Except Err Bytes) : Bytes :=
  match r with
  | .ok b => cstr b
  | .error _ => []

end Interp
end Robsd
