import Robsd.Model.Ls
import Robsd.Model.StepFile
import Robsd.Model.RegressLog
/-
  Model of util.sh `purge` (as called by robsd-clean), `build_id` and `log_id`.
  Directory listings and file-name sets are plain lists of names.
-/
namespace Robsd
namespace Clean
open Bytes StepFile

def DOT : UInt8 := 46
def DASH : UInt8 := 45
def SLASH : UInt8 := 47

/-! ### purge -/

/-- `purge`: the invocations (paths) that are moved away / removed.
    `listing` is `robsd-ls` (newest first, everything), `lockLine` the first
    line of `.running` when the lock file has one (`config_value builddir`),
    `n` the retention. -/
def purged (listing : List Bytes) (lockLine : Option Bytes) (n : Nat) : List Bytes :=
  match lockLine with
  | some b => (listing.filter (· != b)).drop (n - 1)   -- robsd-ls -B | tail -n +n
  | none => listing.drop n                              -- not running: n is incremented

/-- robsd-clean: retention 0 (argument and configuration) removes nothing -/
def cleaned (listing : List Bytes) (lockLine : Option Bytes) (n : Nat) : List Bytes :=
  if n = 0 then [] else purged listing lockLine n

def kept (listing : List Bytes) (lockLine : Option Bytes) (n : Nat) : List Bytes :=
  listing.filter (fun p => !(cleaned listing lockLine n).contains p)

/-- `tr '-' '/'` on the directory name: `YYYY-MM-DD.X` ↦ `YYYY/MM/DD.X` -/
def atticName (name : Bytes) : Bytes := name.map (fun c => if c == DASH then SLASH else c)

/-- the files that survive in the attic copy (by base name), everything under `tmp` is gone -/
def preservedName (base : Bytes) : Bool :=
  let S := fun (s : String) => s.toList.map (fun c => UInt8.ofNat c.toNat)
  base == S "comment" || base == S "index.txt" || base == S "report" || base == S "stat.csv" ||
  base == S "step.csv" || base == S "tags" ||
  RegressLog.hasSub [46, 100, 105, 102, 102, 46] base   -- *.diff.*

/-! ### build_id (fix: highest existing suffix of the day + 1) -/

/-- the text after the last '.', as `sed 's/.*\\.//'` leaves it -/
def afterLastDot (name : Bytes) : Bytes :=
  (name.reverse.takeWhile (· != DOT)).reverse

/-- `sort -n` key: leading decimal digits, 0 when there are none -/
def numericKey (s : Bytes) : Nat := digitsVal (s.takeWhile isDigitB)

/-- directories of the day: `find -maxdepth 1 -type d -name "<date>.*"` -/
def ofDay (date : Bytes) (name : Bytes) : Bool := (date ++ [DOT]).isPrefixOf name

def maxSuffix (date : Bytes) (dirs : List Bytes) : Nat :=
  ((dirs.filter (ofDay date)).map (fun d => numericKey (afterLastDot d))).foldl max 0

def buildId (date : Bytes) (dirs : List Bytes) : Bytes :=
  date ++ [DOT] ++ renderNat (maxSuffix date dirs + 1)

/-! ### log_id -/

def pad3 (n : Nat) : Bytes :=
  if n < 10 then [48, 48] ++ renderNat n else if n < 100 then [48] ++ renderNat n else renderNat n

def logBase (step : Nat) (name : Bytes) : Bytes :=
  pad3 step ++ [DASH] ++ name.map (fun c => if c == SLASH then DASH else c) ++ [DOT, 108, 111, 103]

/-- `log_id`: `files` are the base names of everything below the build directory -/
def logId (step : Nat) (name : Bytes) (files : List Bytes) : Bytes :=
  let base := logBase step name
  let dups := (files.filter (fun f => base.isPrefixOf f)).length
  if dups > 0 then base ++ [DOT] ++ renderNat dups else base

end Clean
end Robsd
