import Robsd.Model.Bytes
import Robsd.Model.Interp
import Robsd.Gen.StepFields
/-
  Model of step.c / robsd-step.c: the step file (CSV), `-W` and `-R`.

  The lexer/parser are modelled at the level of lines and comma-separated
  fields (the character-level lexer of step.c is tied to this by the
  correspondence run, byte for byte on the file and on exit status):

  * a NUL byte reads as end of input (`lexer_getc`), so only the bytes before
    the first NUL count; a non-empty input must end in '\n' (otherwise the last
    token is an unterminated value, or the parser meets EOF inside a row);
  * header: every column name non-empty;
  * row: the field at position i goes to column i; empty fields are skipped;
    the last field of a line must be non-empty (the parser wants a VALUE after
    a COMMA and at the start of a row); unknown columns/fields and bad
    integers fail; required fields must be present (`step_validate`).
-/
namespace Robsd
namespace StepFile
open Bytes Gen

/-! ### decimal integers: `strtonum` and `%d` -/

def isSpaceB (b : UInt8) : Bool := b == 32 || (9 ≤ b && b ≤ 13)
def isDigitB (b : UInt8) : Bool := 48 ≤ b && b ≤ 57

/-- decimal digits of `n`, most significant first (`f` is fuel, `n < f`) -/
def natDigits : Nat → Nat → Bytes
  | 0, _ => []
  | f + 1, n => if n < 10 then [UInt8.ofNat (48 + n)] else natDigits f (n / 10) ++ [UInt8.ofNat (48 + n % 10)]

def renderNat (n : Nat) : Bytes := natDigits (n + 1) n

/-- `printf("%" PRId64)` -/
def renderInt (i : Int) : Bytes :=
  if i < 0 then 45 :: renderNat i.natAbs else renderNat i.toNat

def digitsVal (ds : Bytes) : Nat := ds.foldl (fun acc d => 10 * acc + (d.toNat - 48)) 0

def parseDigits (ds : Bytes) : Option Nat :=
  if ds.isEmpty || !ds.all isDigitB then none else some (digitsVal ds)

/-- `strtoll` + full consumption: `isspace* [+-]? digit+`, no range check. -/
def parseDecimal (s : Bytes) : Option Int :=
  match s.dropWhile isSpaceB with
  | 45 :: r => (parseDigits r).map (fun v => -(v : Int))
  | 43 :: r => (parseDigits r).map (fun v => (v : Int))
  | r => (parseDigits r).map (fun v => (v : Int))

def i64Min : Int := -9223372036854775808
def i64Max : Int := 9223372036854775807
def intMax : Int := 2147483647

/-- `strtonum(s, lo, hi, &errstr)`: `none` when errstr is set.  (Values outside
    the 64-bit range are "too small/large" for every caller's bounds.) -/
def strtonum (s : Bytes) (lo hi : Int) : Option Int :=
  match parseDecimal s with
  | none => none
  | some v => if lo ≤ v ∧ v ≤ hi then some v else none

/-! ### rows -/

inductive FVal where
  | unknown
  | str (s : Bytes)
  | int (i : Int)
  deriving DecidableEq, Repr

/-- A row: one value per entry of `Gen.stepFields`, by index. -/
abbrev Row := List FVal

def nfields : Nat := stepFields.length

def fieldIdx (name : Bytes) : Option Nat :=
  stepFields.findIdx? (fun f => f.name == name)

def fieldDef (name : Bytes) : Option FieldDef :=
  stepFields.find? (fun f => f.name == name)

def COMMA : UInt8 := 44
def NL : UInt8 := 10
def EQS : UInt8 := 61

/-- `step_set_field` (shared by the read and write paths) -/
def setField (row : Row) (name val : Bytes) : Option Row :=
  match fieldDef name with
  | none => none
  | some fd =>
    match fd.type with
    | .string => some (row.set fd.index (.str val))
    | .integer =>
      match strtonum val i64Min i64Max with
      | none => none
      | some v => some (row.set fd.index (.int v))

/-- `step_init`: all fields UNKNOWN, then the OPTIONAL ones set from their defaults. -/
def initRow : Option Row :=
  stepFields.foldlM (fun row fd =>
    match fd.dflt with
    | some d => if fd.optional then setField row fd.name d else some row
    | none => some row) (List.replicate nfields FVal.unknown)

/-- `step_validate`: every non-OPTIONAL field is set. -/
def validRow (row : Row) : Bool :=
  stepFields.all (fun fd => fd.optional || row.getD fd.index .unknown != .unknown)

def stepIdx : Nat := (fieldIdx [115, 116, 101, 112]).getD 0
def nameIdx : Nat := (fieldIdx [110, 97, 109, 101]).getD 1

def rowId (row : Row) : Option Int :=
  match row.getD stepIdx .unknown with
  | .int i => some i
  | _ => none

/-- integer payload used by the comparison in `step_cmp` (the union is read as
    an integer whatever the type; rows reaching it always have INTEGER there) -/
def rowKey (row : Row) : Int := (rowId row).getD 0

/-! ### parsing -/

/-- split on a separator: "a,b" ↦ ["a","b"], "" ↦ [""] -/
def splitAux (c : UInt8) : Bytes → Bytes → List Bytes
  | [], cur => [cur]
  | x :: xs, cur => if x = c then cur :: splitAux c xs [] else splitAux c xs (cur ++ [x])

def splitOn (c : UInt8) (s : Bytes) : List Bytes := splitAux c s []

/-- the bytes the lexer sees: everything before the first NUL -/
def visible (content : Bytes) : Bytes := cstr content

/-- the lines of a well-terminated file, or `none` (lexing/parsing fails) -/
def fileLines (content : Bytes) : Option (List Bytes) :=
  let c := visible content
  if c = [] then some []
  else
    let parts := splitOn NL c
    if parts.getLast? = some [] then some parts.dropLast else none

def parseHeader (line : Bytes) : Option (List Bytes) :=
  let cols := splitOn COMMA line
  if cols.all (fun c => !c.isEmpty) then some cols else none

/-- assign the fields of one line, left to right, starting at column `i` -/
def assignFields (cols : List Bytes) : Nat → List Bytes → Row → Option Row
  | _, [], row => some row
  | i, f :: fs, row =>
    if f.isEmpty then assignFields cols (i + 1) fs row
    else
      match cols[i]? with
      | none => none
      | some key =>
        match setField row key f with
        | none => none
        | some row' => assignFields cols (i + 1) fs row'

def parseRow (cols : List Bytes) (line : Bytes) : Option Row :=
  let fs := splitOn COMMA line
  match fs.getLast? with
  | none => none
  | some last =>
    if last.isEmpty then none
    else
      match initRow with
      | none => none
      | some r0 =>
        match assignFields cols 0 fs r0 with
        | none => none
        | some row => if validRow row then some row else none

def parseRows (cols : List Bytes) : List Bytes → Option (List Row)
  | [] => some []
  | l :: ls =>
    match parseRow cols l with
    | none => none
    | some r =>
      match parseRows cols ls with
      | none => none
      | some rs => some (r :: rs)

/-- `steps_parse`: the rows of a step file, or `none` when it does not parse. -/
def parseFile (content : Bytes) : Option (List Row) :=
  match fileLines content with
  | none => none
  | some [] => some []
  | some (h :: ls) =>
    match parseHeader h with
    | none => none
    | some cols => parseRows cols ls

/-! ### serialising -/

def intercalateB (sep : UInt8) : List Bytes → Bytes
  | [] => []
  | [x] => x
  | x :: y :: rest => x ++ sep :: intercalateB sep (y :: rest)

/-- `steps_header` -/
def header : Bytes := intercalateB COMMA (stepFields.map (·.name)) ++ [NL]

/-- the template `step_serialize` builds: `${step},${name},…\n` -/
def template : Bytes :=
  intercalateB COMMA (stepFields.map (fun f => [Interp.DOLLAR, Interp.LBRACE] ++ f.name ++ [Interp.RBRACE])) ++ [NL]

/-- `step_interpolate_lookup` -/
def rowLookup (row : Row) : Interp.Lookup := fun name =>
  match fieldDef name with
  | none => none
  | some fd =>
    match row.getD fd.index .unknown with
    | .unknown => none
    | .str s => some s
    | .int i => some (renderInt i)

/-- `step_serialize`: through the interpolation engine (values are re-interpolated) -/
def serializeRow (row : Row) : Option Bytes :=
  match Interp.interpStr (rowLookup row) false template with
  | .ok b => some b
  | .error _ => none

def serializeRows : List Row → Option Bytes
  | [] => some []
  | r :: rs =>
    match serializeRow r with
    | none => none
    | some a =>
      match serializeRows rs with
      | none => none
      | some b => some (a ++ b)

/-- insertion sort by id: `steps_sort` (any correct sort gives the same list
    when ids are distinct; equal ids are tied to qsort by the correspondence) -/
def insertRow (r : Row) : List Row → List Row
  | [] => [r]
  | x :: xs => if rowKey r ≤ rowKey x then r :: x :: xs else x :: insertRow r xs

def sortRows (rs : List Row) : List Row := rs.foldr insertRow []

def serializeFile (rows : List Row) : Option Bytes :=
  match serializeRows (sortRows rows) with
  | none => none
  | some b => some (header ++ b)

/-! ### `-W` -/

/-- the check the write path applies to string values (fix: R1/R2): the value
    must be representable in the file and come back unchanged through `-R` -/
def representable (fd : FieldDef) (val : Bytes) : Bool :=
  !(val.contains COMMA || val.contains NL || val.contains Interp.DOLLAR) &&
  (fd.optional || !val.isEmpty)

/-- `step_set_keyval` -/
def setKeyval (row : Row) (kv : Bytes) : Option Row :=
  match splitAt1 EQS kv with
  | (_, none) => none
  | (key, some val) =>
    match fieldDef key with
    | none => none
    | some fd =>
      if fd.type = .string && !representable fd val then none
      else setField row key val

def setKeyvals : Row → List Bytes → Option Row
  | row, [] => some row
  | row, kv :: kvs =>
    match setKeyval row kv with
    | none => none
    | some r => setKeyvals r kvs

def findById (rows : List Row) (id : Int) : Option Nat :=
  rows.findIdx? (fun r => rowId r == some id)

/-- the row-level effect of `action_write`: the new (unsorted) row list -/
def applyWrite (rows : List Row) (id : Int) (kvs : List Bytes) : Option (List Row) :=
  match findById rows id with
  | some k =>
    match setKeyvals (rows.getD k []) kvs with
    | none => none
    | some r => some (rows.set k r)
  | none =>
    match initRow with
    | none => none
    | some r0 =>
      match setKeyvals (r0.set stepIdx (.int id)) kvs with
      | none => none
      | some r => some (rows ++ [r])

inductive Flush where
  | ok
  | failed (leftover : Bytes)   -- what the failed write left in the file
  deriving DecidableEq, Repr

/-- `robsd-step -W -f file -i id -- kv…`: (exit status, file afterwards).
    `idOk` is `parse_id` having accepted the `-i` argument. -/
def writeCmd (file : Bytes) (id : Int) (kvs : List Bytes) (flush : Flush) : Nat × Bytes :=
  if id = 0 ∨ id < -intMax ∨ intMax < id ∨ kvs = [] then (1, file)
  else
    match parseFile file with
    | none => (1, file)
    | some rows =>
      match applyWrite rows id kvs with
      | none => (1, file)
      | some rows' =>
        match serializeFile rows' with
        | none => (1, file)
        | some out =>
          match flush with
          | .ok => (0, out)
          | .failed left => (1, left)

/-! ### `-R` -/

inductive Sel where
  | idx (i : Int)      -- `-i k`, positive from the start, negative from the end
  | name (n : Bytes)   -- `-n name`
  deriving DecidableEq, Repr

def selectRow (rows : List Row) : Sel → Option Row
  | .idx i =>
    if 0 < i ∧ i ≤ rows.length then rows[(i - 1).toNat]?
    else if i < 0 ∧ -i ≤ rows.length then rows[(rows.length + i).toNat]?
    else none
  | .name n => rows.find? (fun r => r.getD nameIdx .unknown == .str n)

/-- `robsd-step -R -f file (-i k | -n name)` with the template on stdin:
    (exit status, stdout) -/
def readCmd (file : Bytes) (sel : Sel) (tmpl : Bytes) : Nat × Bytes :=
  match parseFile file with
  | none => (1, [])
  | some rows =>
    match selectRow rows sel with
    | none => (1, [])
    | some row =>
      match Interp.interpFile (rowLookup row) false tmpl with
      | .ok out => (0, cstr out)
      | .error _ => (1, [])

end StepFile
end Robsd
