import Robsd.Model.Bytes
/-
  util.sh `lock_acquire`, `lock_alive`, `lock_release`, the report/mail part of
  `trap_exit`, and robsd-kill's `chflags uchg`: the life of `<robsddir>/.running`.

  `.running` holds the build directory of the invocation that owns the root.
  `lock_acquire` reads it (`cat`, empty when absent) and then writes it — two
  steps, not one: see `acquire_not_atomic` in Props/C11Lock.
-/
namespace Robsd
namespace Lock

structure World where
  lock : Option Bytes := none          -- content of .running; none = absent (or empty)
  immutable : Bool := false            -- robsd-kill: chflags uchg
  reports : List (Bytes × Bytes) := [] -- (directory the report was written to, invocation it describes)
  mails : List Bytes := []             -- invocations whose report was mailed
deriving DecidableEq, Repr

/-- the read half of lock_acquire: may this invocation take the lock? -/
def mayAcquire (owner : Option Bytes) (dir : Bytes) : Bool :=
  match owner with
  | none => true
  | some o => o == dir

/-- the write half -/
def writeLock (w : World) (dir : Bytes) : World := if w.immutable then w else { w with lock := some dir }

/-- lock_acquire, run without interruption -/
def acquire (w : World) (dir : Bytes) : World × Bool :=
  if mayAcquire w.lock dir then (writeLock w dir, true) else (w, false)

/-- lock_alive: `touch` fails on an immutable file; then the content must be ours -/
def alive (w : World) (dir : Bytes) : Bool := !w.immutable && w.lock == some dir

/-- lock_release -/
def release (w : World) (dir : Bytes) : World :=
  if w.lock == some dir then { w with lock := none, immutable := false } else w

/-- trap_exit: the report goes to `${report-path}`, which derives from the lock
    file's content; it is written only by the owner of the lock -/
def trapExit (w : World) (dir : Bytes) (hasSteps : Bool) (err : Int) (endReached detach : Bool) : World :=
  let w1 :=
    if w.lock == some dir && hasSteps && (err != 0 || endReached) then
      match w.lock with
      | some target => { w with reports := w.reports ++ [(target, dir)],
                                mails := if detach then w.mails ++ [dir] else w.mails }
      | none => w
    else w
  release w1 dir

/-- a whole invocation that is not interleaved with another one's lock_acquire:
    `body` is what happens between acquiring and the exit trap (its exit status,
    whether `end` was reached); a refused invocation has no steps of its own unless
    it is a resumed one (`hadSteps`) -/
def invoke (w : World) (dir : Bytes) (hadSteps : Bool) (bodyErr : Int) (endReached detach : Bool) : World × Int :=
  match acquire w dir with
  | (w1, true) => (trapExit w1 dir true bodyErr endReached detach, bodyErr)
  | (w1, false) => (trapExit w1 dir hadSteps 1 false detach, 1)

/-- robsd-kill -/
def kill (w : World) : World := if w.lock.isSome then { w with immutable := true } else w

/-- an invocation that owns the lock is ended by robsd-kill: the flag goes up,
    the step runner is terminated (the step, and with it the run, fails with
    `err`), the exit trap runs -/
def killed (w : World) (dir : Bytes) (err : Int) (detach : Bool) : World :=
  trapExit (kill w) dir true err false detach

end Lock
end Robsd
