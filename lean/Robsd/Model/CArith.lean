/-
  C integer semantics used by the *generated* `Gen/Arith.lean` (the translation
  of libks/arithmetic.c's `*_OVERFLOW` macro bodies).  Every C operator is an
  explicit function returning `R`: a value, a hardware trap (division by zero,
  `MIN / -1`), or undefined behaviour (signed overflow of an intermediate).
-/
namespace Robsd
namespace CArith

inductive R (α : Type) where
  | ok (v : α)
  | trap
  | ub
  deriving DecidableEq, Repr

namespace R
def bind {α β} : R α → (α → R β) → R β
  | ok v, f => f v
  | trap, _ => trap
  | ub, _ => ub

@[simp] theorem bind_ok {α β} (v : α) (f : α → R β) : (ok v).bind f = f v := rfl
@[simp] theorem bind_trap {α β} (f : α → R β) : (trap : R α).bind f = trap := rfl
@[simp] theorem bind_ub {α β} (f : α → R β) : (ub : R α).bind f = ub := rfl
end R

/-- An integer type: signedness and the magnitude bound `M`
    (signed: `-M .. M-1`; unsigned: `0 .. M-1`). -/
structure CTy where
  signed : Bool
  M : Int
  deriving DecidableEq, Repr

namespace CTy
def min (T : CTy) : Int := if T.signed then -T.M else 0
def max (T : CTy) : Int := T.M - 1
def inRange (T : CTy) (x : Int) : Prop := T.min ≤ x ∧ x ≤ T.max
instance (T : CTy) (x : Int) : Decidable (T.inRange x) := by unfold inRange; exact inferInstance

/-- result of an arithmetic operator whose exact result is `x` -/
def wrapOrUb (T : CTy) (x : Int) : R Int :=
  if T.signed then (if T.min ≤ x ∧ x ≤ T.max then .ok x else .ub)
  else .ok (x % T.M)

def add (T : CTy) (x y : Int) : R Int := T.wrapOrUb (x + y)
def sub (T : CTy) (x y : Int) : R Int := T.wrapOrUb (x - y)
def mul (T : CTy) (x y : Int) : R Int := T.wrapOrUb (x * y)
def div (T : CTy) (x y : Int) : R Int :=
  if y = 0 then .trap
  else if T.signed ∧ x = T.min ∧ y = -1 then .trap
  else .ok (Int.tdiv x y)
end CTy

def i32 : CTy := ⟨true, 2147483648⟩
def i64 : CTy := ⟨true, 9223372036854775808⟩
def u32 : CTy := ⟨false, 4294967296⟩
def u64 : CTy := ⟨false, 18446744073709551616⟩
/-- `size_t` on the only platform the harness runs on (LP64). -/
def usize : CTy := u64

/-- Outcome of a checked operation: overflow reported (`*c` untouched) or the
    value stored through `c`. -/
inductive Out where
  | overflow
  | value (v : Int)
  deriving DecidableEq, Repr

/-- C's `A && B` with short-circuit evaluation. -/
def land (a : R Bool) (b : Unit → R Bool) : R Bool :=
  a.bind fun x => if x then b () else .ok false
/-- C's `A || B` with short-circuit evaluation. -/
def lor (a : R Bool) (b : Unit → R Bool) : R Bool :=
  a.bind fun x => if x then .ok true else b ()

/-- The mathematical specification of a checked operation. -/
def spec (T : CTy) (exact : Int) : R Out :=
  if T.min ≤ exact ∧ exact ≤ T.max then .ok (.value exact) else .ok .overflow

def showOut : R Out → String
  | .ok .overflow => "overflow"
  | .ok (.value v) => s!"value {v}"
  | .trap => "trap"
  | .ub => "ub"

end CArith
end Robsd
