/-
  Model of libks/arena.c: frames with a bump pointer, nested scopes, malloc /
  calloc / realloc (fast path and spill) / strdup / cleanup, and the run-time
  check `arena_scope_validate`.

  Addresses are (frame height, offset into the frame).  The frame itself is a
  malloc'd chunk (trusted: distinct live chunks are disjoint and at least
  pointer aligned), so an offset that is a multiple of 8 is a pointer-aligned
  address, and blocks of different frames are disjoint.

  `Params` are read from the compiled code on every run (sizeof(struct
  arena_frame), the initial frame size, the ASan poison size, sizeof(struct
  arena_cleanup)); nothing below depends on their values beyond `Params.ok`.

  Ghost state (not in the C code): the list of live blocks with the scope
  they belong to, the log of cleanup calls.  Scopes are entered and left well
  nested (the `cleanup` attribute of the `arena_scope` macro enforces that).
  size_t overflow of a requested size is not modelled (`errx` in the code).
-/
namespace Robsd
namespace Arena

structure Params where
  hdr : Nat      -- sizeof(struct arena_frame): the first push of every frame
  fsz : Nat      -- a->frame_size
  P : Nat        -- a->poison_size
  csz : Nat      -- sizeof(struct arena_cleanup)
  deriving Repr

def Params.ok (p : Params) : Prop := 0 < p.hdr ∧ 8 ∣ p.hdr ∧ 8 ∣ p.fsz ∧ 8 ∣ p.P ∧ p.hdr ≤ p.fsz

/-- `(addr + maxalign - 1) & ~(maxalign - 1)` -/
def align8 (x : Nat) : Nat := (x + 7) / 8 * 8

/-- `align_address` -/
def alignP (P x : Nat) : Nat := if 0 < P ∧ align8 x - x < P then align8 x + P else align8 x

structure Frame where
  h : Nat        -- height: 0 for the first frame (identity of the frame)
  size : Nat
  len : Nat
  deriving Repr, DecidableEq

structure Block where
  id : Nat
  h : Nat
  off : Nat
  size : Nat
  depth : Nat    -- the scope it belongs to
  cap : Nat      -- ghost: the size of its frame
  deriving Repr, DecidableEq

structure Scope where
  depth : Nat    -- s->id - 1
  h : Nat        -- s->frame
  len : Nat      -- s->frame_len
  cleanups : List Nat   -- newest first, as the linked list
  deriving Repr, DecidableEq

structure St where
  frames : List Frame          -- newest first (a->frame)
  scopes : List Scope          -- innermost first
  blocks : List Block          -- live blocks, newest first (ghost)
  mem : Nat → Nat → UInt8
  next : Nat                   -- ghost: next block id / cleanup tag
  ran : List Nat               -- ghost: cleanup calls so far

/-- `arena_push`: `none` when the frame is exhausted -/
def push (P : Nat) (f : Frame) (n : Nat) : Option (Nat × Frame) :=
  if f.len + n > f.size then none
  else some (f.len, { f with len := min (alignP P (f.len + n)) f.size })

/-- `while (frame_size < total_size) frame_size *= 2` (fuel = total is enough) -/
def grow (fs total : Nat) : Nat → Nat
  | 0 => fs
  | fuel + 1 => if fs < total then grow (2 * fs) total fuel else fs

/-- the allocation part of `arena_malloc`: new frame list and the address -/
def mallocCore (p : Params) (frames : List Frame) (n : Nat) : Option (List Frame × Nat × Nat × Nat) :=
  match frames with
  | [] => none
  | f :: fs =>
    match push p.P f n with
    | some (off, f') => some (f' :: fs, f.h, off, f.size)
    | none =>
      let total := n + p.hdr + p.P
      let f0 : Frame := { h := f.h + 1, size := grow p.fsz total total, len := 0 }
      match push p.P f0 p.hdr with
      | none => none
      | some (_, f1) =>
        match push p.P f1 n with
        | none => none
        | some (off, f2) => some (f2 :: f :: fs, f2.h, off, f2.size)

inductive Op where
  | enter
  | leave
  | malloc (k n : Nat)                 -- k: which open scope is passed, 0 = innermost
  | calloc (k n : Nat)
  | str (k : Nat) (bytes : List UInt8) -- arena_strdup / arena_strndup / arena_sprintf("%s")
  | cleanup (k : Nat)
  | realloc (k id old n : Nat)          -- old ≤ the block's size (vector.c passes the used part)
  | write (id i : Nat) (v : UInt8)
  deriving Repr

inductive Out where
  | unit
  | ptr (id h off : Nat)
  | trap            -- arena_scope_validate
  | bad             -- not a call a program can make (no scope open, unknown block, index out of range)
  | fail            -- err(1)/errx(1) in the code
  deriving Repr, DecidableEq

def curDepth (s : St) : Nat := match s.scopes with | [] => 0 | sc :: _ => sc.depth

def fill (mem : Nat → Nat → UInt8) (h off : Nat) (bs : List UInt8) : Nat → Nat → UInt8 :=
  fun h' o => if h' = h ∧ off ≤ o ∧ o < off + bs.length then bs.getD (o - off) 0 else mem h' o

/-- `memcpy(new, old, n)` between two addresses -/
def copy (mem : Nat → Nat → UInt8) (h off h0 off0 n : Nat) : Nat → Nat → UInt8 :=
  fun h' o => if h' = h ∧ off ≤ o ∧ o < off + n then mem h0 (off0 + (o - off)) else mem h' o

def findBlock (bs : List Block) (id : Nat) : Option Block := bs.find? (fun b => b.id == id)

/-- malloc from the innermost scope and register the block -/
def alloc (p : Params) (s : St) (n : Nat) (id : Nat) : Option (St × Block) :=
  match mallocCore p s.frames n with
  | none => none
  | some (fr, h, off, cap) =>
    let b : Block := { id := id, h := h, off := off, size := n, depth := curDepth s, cap := cap }
    some ({ s with frames := fr, blocks := b :: s.blocks }, b)

/-- the scope checks shared by every allocating call -/
def scopeCheck (s : St) (k : Nat) : Option Out :=
  if s.scopes.length ≤ k then some .bad
  else if k ≠ 0 then some .trap
  else none

/-- the block stays where it is with a new size; it now belongs to the innermost scope -/
def keepBlocks (s : St) (b : Block) (n : Nat) : List Block :=
  s.blocks.map (fun c => if c.id == b.id then { b with size := n, depth := curDepth s } else c)

/-- the slow path of `arena_realloc`: `arena_malloc` + `memcpy` of the old size -/
def spill (p : Params) (s : St) (b : Block) (old n : Nat) : St × Out :=
  match alloc p { s with blocks := s.blocks.filter (fun c => c.id != b.id) } n b.id with
  | none => (s, .fail)
  | some (s', nb) => ({ s' with mem := copy s'.mem nb.h nb.off b.h b.off old }, .ptr b.id nb.h nb.off)

def step (p : Params) (s : St) (op : Op) : St × Out :=
  match op with
  | .enter =>
    match s.frames.head? with
    | none => (s, .bad)
    | some f => ({ s with scopes := { depth := curDepth s + 1, h := f.h, len := f.len, cleanups := [] } :: s.scopes }, .unit)
  | .leave =>
    match s.scopes with
    | [] => (s, .bad)
    | sc :: rest =>
      let fr := s.frames.dropWhile (fun f => f.h != sc.h)
      let fr' := match fr with
        | [] => []
        | f :: fs => { f with len := if sc.len ≤ f.len then sc.len else 0 } :: fs
      ({ s with frames := fr', scopes := rest, blocks := s.blocks.filter (fun b => b.depth != sc.depth),
                ran := s.ran ++ sc.cleanups }, .unit)
  | .malloc k n =>
    match scopeCheck s k with
    | some o => (s, o)
    | none =>
      match alloc p s n s.next with
      | none => (s, .fail)
      | some (s', b) => ({ s' with next := s.next + 1 }, .ptr b.id b.h b.off)
  | .calloc k n =>
    match scopeCheck s k with
    | some o => (s, o)
    | none =>
      match alloc p s n s.next with
      | none => (s, .fail)
      | some (s', b) => ({ s' with next := s.next + 1, mem := fill s'.mem b.h b.off (List.replicate n 0) }, .ptr b.id b.h b.off)
  | .str k bytes =>
    match scopeCheck s k with
    | some o => (s, o)
    | none =>
      match alloc p s (bytes.length + 1) s.next with
      | none => (s, .fail)
      | some (s', b) => ({ s' with next := s.next + 1, mem := fill s'.mem b.h b.off (bytes ++ [0]) }, .ptr b.id b.h b.off)
  | .cleanup k =>
    match scopeCheck s k with
    | some o => (s, o)
    | none =>
      match alloc p s p.csz s.next, s.scopes with
      | some (s', b), sc :: rest =>
        ({ s' with next := s.next + 1, scopes := { sc with cleanups := s.next :: sc.cleanups } :: rest }, .ptr b.id b.h b.off)
      | _, _ => (s, .fail)
  | .realloc k id old n =>
    match findBlock s.blocks id with
    | none => (s, .bad)
    | some b =>
      if b.size < old then (s, .bad) else
      match scopeCheck s k with
      | some o => (s, o)
      | none =>
        if n ≤ old then
          ({ s with blocks := keepBlocks s b n }, .ptr b.id b.h b.off)
        else
          match s.frames.head? with
          | none => (s, .bad)
          | some f =>
            if b.h = f.h ∧ alignP p.P (b.off + old) = f.len then
              if b.off + n ≤ f.size then
                ({ s with frames := { f with len := min (alignP p.P (b.off + n)) f.size } :: s.frames.tail, blocks := keepBlocks s b n },
                  .ptr b.id b.h b.off)
              else spill p s b old n
            else spill p s b old n
  | .write id i v =>
    match findBlock s.blocks id with
    | none => (s, .bad)
    | some b =>
      if i < b.size then ({ s with mem := fill s.mem b.h (b.off + i) [v] }, .unit) else (s, .bad)

/-- `arena_alloc`: one frame holding its own header -/
def init (p : Params) : St :=
  let f0 : Frame := { h := 0, size := p.fsz, len := 0 }
  let f := match push p.P f0 p.hdr with | some (_, f1) => f1 | none => f0
  { frames := [f], scopes := [], blocks := [], mem := fun _ _ => 0, next := 0, ran := [] }

def run (p : Params) (s : St) (ops : List Op) : St := ops.foldl (fun s op => (step p s op).1) s

end Arena
end Robsd
