import Robsd.Model.Bytes
/-
  libks/vector.c and libks/buffer.c.

  Both are "header + doubling storage".  What is transcribed:
    vector_reserve1 (all four overflow exits, the doubling loop, the size
    handed to the realloc callback), vector_reserve, vector_alloc (zero or
    not), vector_pop, vector_clear, vector_sort, vector_first, vector_last,
    vector_length;
    buffer_reserve, buffer_alloc, buffer_puts, buffer_putc, buffer_vprintf
    (two passes: the formatted text is a parameter, vsnprintf is trusted),
    buffer_release, buffer_str, buffer_reset, buffer_pop, buffer_cmp,
    buffer_getline_impl, buffer_read_fd_impl (the kernel's choice of how many
    bytes each read(2) returns is an oracle).
  Elements of a vector are machine words (`Nat`); the storage beyond `len` is
  not represented (the C code never reads it before writing it, except that a
  popped slot stays readable, which `pop` returns).
  Not modelled: a failing allocator callback.
-/
namespace Robsd
namespace Grow

/-- ULONG_MAX on LP64 -/
def maxSize : Nat := 18446744073709551615

/-- `while (newsiz < need) { if (newsiz > ULONG_MAX / 2) goto overflow; newsiz *= 2; }` -/
def grow (need : Nat) : Nat → Nat → Option Nat
  | 0, _ => none
  | fuel + 1, newsiz =>
    if newsiz < need then
      if newsiz > maxSize / 2 then none else grow need fuel (newsiz * 2)
    else some newsiz

/-- enough for any start value ≥ 1: 64 doublings exceed ULONG_MAX / 2 -/
def fuel : Nat := 65

end Grow

namespace Vec
open Grow

structure Params where
  stride : Nat   -- sizeof(element)
  hdr : Nat      -- sizeof(struct vector)
deriving Repr

structure St where
  items : List Nat := []   -- the p.len live elements
  siz : Nat := 0           -- vc_siz: capacity in elements
deriving Repr, DecidableEq

inductive Res where
  | ok | realloc | err
deriving DecidableEq, Repr

/-- vector_reserve1; on `.realloc` the callback is asked for
    `newsiz * stride + hdr` bytes and keeps the first `hdr + len * stride` -/
def reserve1 (p : Params) (s : St) (n : Nat) : St × Res :=
  let len := s.items.length
  if len > maxSize - n then (s, .err)
  else if len + n ≤ s.siz then (s, .ok)
  else
    match grow (len + n) fuel (if s.siz ≠ 0 then s.siz else 16) with
    | none => (s, .err)
    | some newsiz =>
      if newsiz > maxSize / p.stride then (s, .err)
      else if newsiz * p.stride > maxSize - p.hdr then (s, .err)
      else ({ s with siz := newsiz }, .realloc)

inductive Op where
  | reserve (n : Nat)
  | alloc (v : Nat)     -- VECTOR_ALLOC followed by the caller's store of `v`
  | calloc              -- VECTOR_CALLOC: the new element is zero
  | pop
  | clear
  | sort
  | first
  | last
  | length
deriving Repr

inductive Out where
  | status (failed : Bool)
  | slot (r : Option (Nat × Nat))    -- index and the value found there; none = NULL
  | len (n : Nat)
  | unit
deriving DecidableEq, Repr

/-- insertion into an ascending list: stands for `qsort` with the integer
    comparator; the theorems quantify over every correct sort -/
def insertAsc (x : Nat) : List Nat → List Nat
  | [] => [x]
  | y :: ys => if x ≤ y then x :: y :: ys else y :: insertAsc x ys

def sortAsc : List Nat → List Nat
  | [] => []
  | x :: xs => insertAsc x (sortAsc xs)

def step (p : Params) (s : St) : Op → St × Out
  | .reserve n => let r := reserve1 p s n; (r.1, .status (r.2 == .err))
  | .alloc v =>
    let r := reserve1 p s 1
    if r.2 == .err then (s, .slot none)
    else ({ r.1 with items := r.1.items ++ [v] }, .slot (some (s.items.length, v)))
  | .calloc =>
    let r := reserve1 p s 1
    if r.2 == .err then (s, .slot none)
    else ({ r.1 with items := r.1.items ++ [0] }, .slot (some (s.items.length, 0)))
  | .pop =>
    match s.items.getLast? with
    | none => (s, .slot none)
    | some v => ({ s with items := s.items.dropLast }, .slot (some (s.items.length - 1, v)))
  | .clear => ({ s with items := [] }, .unit)
  | .sort => ({ s with items := sortAsc s.items }, .unit)
  | .first => (s, .slot (s.items.head?.map fun v => (0, v)))
  | .last => (s, .slot (s.items.getLast?.map fun v => (s.items.length - 1, v)))
  | .length => (s, .len s.items.length)

def run (p : Params) : St → List Op → St × List Out
  | s, [] => (s, [])
  | s, op :: ops =>
    let r := step p s op
    let r' := run p r.1 ops
    (r'.1, r.2 :: r'.2)

end Vec

namespace Buf
open Grow

structure St where
  bytes : Bytes := []   -- bf_ptr[0 .. bf_len)
  siz : Nat := 0        -- bf_siz
deriving Repr, DecidableEq

/-- buffer_reserve; `none` = EOVERFLOW -/
def reserve (s : St) (n : Nat) : Option St :=
  let len := s.bytes.length
  if n > maxSize - len then none
  else if s.siz > 0 ∧ s.siz ≥ len + n then some s
  else (grow (len + n) fuel (if s.siz ≠ 0 then s.siz else 16)).map fun ns => { s with siz := ns }

/-- buffer_alloc -/
def alloc (init : Nat) : Option St := reserve {} init

/-- buffer_puts; the Bool is the error return -/
def puts (s : St) (b : Bytes) : St × Bool :=
  if b = [] then (s, false)
  else match reserve s b.length with
    | none => (s, true)
    | some s' => ({ s' with bytes := s'.bytes ++ b }, false)

def putc (s : St) (c : UInt8) : St × Bool := puts s [c]

/-- buffer_vprintf: `out` is what vsnprintf produces for the arguments
    (without the terminating NUL, which is written behind `bf_len`) -/
def printf (s : St) (out : Bytes) : St × Bool :=
  match reserve s (out.length + 1) with
  | none => (s, true)
  | some s' =>
    if out.length ≥ s'.siz - s'.bytes.length then (s', true)
    else ({ s' with bytes := s'.bytes ++ out }, false)

/-- buffer_release -/
def release (s : St) : Bytes × St := (s.bytes, {})

/-- buffer_str: the returned storage, NUL terminated -/
def str (s : St) : Option Bytes × St :=
  if s.bytes = [] ∨ s.bytes.getLast? ≠ some 0 then
    let r := putc s 0
    if r.2 then (none, r.1) else (some r.1.bytes, {})
  else (some s.bytes, {})

def reset (s : St) : St := { s with bytes := [] }

/-- buffer_pop -/
def pop (s : St) (n : Nat) : St × Nat :=
  let k := min n s.bytes.length
  ({ s with bytes := s.bytes.take (s.bytes.length - k) }, k)

/-- buffer_cmp ≠ 0 -/
def cmpNe (a b : St) : Bool :=
  if a.bytes.length ≠ b.bytes.length then true
  else if a.bytes.length = 0 then false
  else a.bytes != b.bytes

/-- `struct buffer_getline`: whether the line buffer exists, and the offset -/
structure GL where
  active : Bool := false
  off : Nat := 0
deriving DecidableEq, Repr

/-- buffer_getline(_impl): the line as stored in the line buffer (the caller
    sees it as a C string) -/
def getline (s : St) (g : GL) : Option Bytes × GL :=
  if g.off ≥ s.bytes.length then (none, {})
  else
    let line := (s.bytes.drop g.off).takeWhile (· ≠ 10)
    (some line, ⟨true, g.off + line.length + 1⟩)

def getlineAll : Nat → St → GL → List Bytes
  | 0, _, _ => []
  | fuel + 1, s, g =>
    match getline s g with
    | (none, _) => []
    | (some l, g') => l :: getlineAll fuel s g'

/-- how many bytes the kernel offers for the next read(2): the oracle's choice,
    at least one; without an oracle entry, all that was asked for -/
def wantOf (cs : List Nat) (avail : Nat) : Nat :=
  match cs with
  | c :: _ => max 1 c
  | [] => avail

/-- buffer_read_fd_impl.  `rem` is what the descriptor still has to deliver;
    `cs` is the kernel's choice of how much each read(2) returns (at least one
    byte, at most what was asked for and what is left). -/
def readFd : Nat → St → Bytes → List Nat → Option St
  | 0, _, _, _ => none
  | fuel + 1, s, rem, cs =>
    let avail := s.siz - s.bytes.length
    let n := min (wantOf cs avail) (min avail rem.length)
    if n = 0 then some s
    else
      let s1 : St := { s with bytes := s.bytes ++ rem.take n }
      match reserve s1 (s1.siz / 2) with
      | none => none
      | some s2 => readFd fuel s2 (rem.drop n) cs.tail

inductive Op where
  | puts (b : Bytes)
  | putc (c : UInt8)
  | printf (out : Bytes)
  | reset
  | pop (n : Nat)
  | str                      -- buffer_str; the buffer is empty afterwards
  | read (file : Bytes) (cs : List Nat)
  | lines
  | len
deriving Repr

inductive Out where
  | status (failed : Bool)
  | n (k : Nat)
  | bytes (b : Option Bytes)
  | lines (l : List Bytes)
  | unit
deriving DecidableEq, Repr

def step (s : St) : Op → St × Out
  | .puts b => let r := puts s b; (r.1, .status r.2)
  | .putc c => let r := putc s c; (r.1, .status r.2)
  | .printf o => let r := printf s o; (r.1, .status r.2)
  | .reset => (reset s, .unit)
  | .pop n => let r := pop s n; (r.1, .n r.2)
  | .str => let r := str s; (r.2, .bytes r.1)
  | .read f cs =>
    match readFd (f.length + 1) s f cs with
    | none => (s, .status true)
    | some s' => (s', .status false)
  | .lines => (s, .lines (getlineAll (s.bytes.length + 1) s {}))
  | .len => (s, .n s.bytes.length)

def run : St → List Op → St × List Out
  | s, [] => (s, [])
  | s, op :: ops =>
    let r := step s op
    let r' := run r.1 ops
    (r'.1, r.2 :: r'.2)

end Buf
end Robsd
