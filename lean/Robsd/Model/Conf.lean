import Robsd.Model.Bytes
import Robsd.Model.Interp
import Robsd.Gen.Consts
import Robsd.Gen.Grammar
/-
  Model of the configuration reader: conf.c (`config_lexer_read`,
  `config_parse_inner`, `config_parse_keyword`, the typed value parsers,
  `config_validate`, `config_find`, `config_interpolate_lookup`),
  conf-robsd-regress.c (regress options, timeouts, rdomain), conf-canvas.c
  (steps), and `robsd-config -` (interpolation of a template).

  The grammar tables, the token table and the constants are generated from the
  source on every run (Gen/Grammar.lean, Gen/Consts.lean).  The world outside
  the file is an explicit `Env`: which paths are directories, which users
  exist, what a glob pattern matches, MACHINE/MACHINE_ARCH, the lock file,
  EXECDIR, the number of processors, the egress addresses.

  Every diagnostic makes the configuration rejected, so the parser stops at
  the first one (`none`); the C code goes on only to print further
  diagnostics.
-/
namespace Robsd
namespace Conf
open Bytes Gen

inductive Mode where
  | robsd | cross | ports | regress | canvas
  deriving DecidableEq, Repr

def S (s : String) : Bytes := s.toList.map (fun c => UInt8.ofNat c.toNat)

def Mode.tag : Mode → Bytes
  | .robsd => S "ROBSD"
  | .cross => S "ROBSD_CROSS"
  | .ports => S "ROBSD_PORTS"
  | .regress => S "ROBSD_REGRESS"
  | .canvas => S "CANVAS"

/-- `config_copy_grammar`: the mode's own table first, then the common one -/
def Mode.grammar : Mode → List GEntry
  | .robsd => grammar_robsd ++ grammar_common
  | .cross => grammar_cross ++ grammar_common
  | .ports => grammar_ports ++ grammar_common
  | .regress => grammar_regress ++ grammar_common
  | .canvas => grammar_canvas ++ grammar_common

/-! ### lexer -/

inductive Tok where
  | kw (s : Bytes)
  | bool (b : Bool)
  | int (n : Int)
  | str (s : Bytes)
  | typ (t : Bytes)      -- LBRACE, RBRACE, COMMAND, ENV, ..., UNKNOWN
  | eof
  deriving DecidableEq, Repr

def isSpace (c : UInt8) : Bool := c == 32 || (9 ≤ c && c ≤ 13)
def isLower (c : UInt8) : Bool := 97 ≤ c && c ≤ 122
def isDigit (c : UInt8) : Bool := 48 ≤ c && c ≤ 57
def isWord (c : UInt8) : Bool := isLower c || isDigit c || c == 45

/-- `token_type_lookup` for this mode -/
def lookupTok (m : Mode) (s : Bytes) : Option Bytes :=
  if s = [] then none
  else (tokenTable.find? (fun e => e.2.1 == s && (e.2.2 == S "0" || e.2.2 == m.tag))).map (·.1)

def intMax : Nat := 2147483647

def digitsVal (ds : Bytes) : Nat := ds.foldl (fun v c => v * 10 + (c.toNat - 48)) 0

/-- the tokens of the file; the flag is `lexer_get_error` (integer too big,
    empty string); `none` when the lexer gives up (unterminated string) -/
def lexFrom (m : Mode) : Nat → Bytes → List Tok → Bool → Option (List Tok × Bool)
  | 0, _, acc, err => some ((.eof :: acc).reverse, err)
  | fuel + 1, inp, acc, err =>
    match inp.dropWhile isSpace with
    | [] => some ((.eof :: acc).reverse, err)
    | c :: rest =>
      if c = 0 then some ((.eof :: acc).reverse, err)
      else if c = 35 then
        -- comment: up to and including the newline (or a NUL byte)
        lexFrom m fuel ((rest.dropWhile (fun x => x != 10 && x != 0)).drop 1) acc err
      else if isLower c then
        let word := (c :: rest).takeWhile isWord
        let rest' := (c :: rest).dropWhile isWord
        let tok := match lookupTok m word with
          | none => Tok.kw word
          | some t => if t = S "KEYWORD" then .kw word else if t = S "YES" then .bool true else if t = S "NO" then .bool false else .typ t
        lexFrom m fuel rest' (tok :: acc) err
      else if isDigit c then
        let ds := (c :: rest).takeWhile isDigit
        let rest' := (c :: rest).dropWhile isDigit
        let v := digitsVal ds
        lexFrom m fuel rest' (.int v :: acc) (err || decide (intMax < v))
      else if c = 34 then
        let content := rest.takeWhile (fun x => x != 34 && x != 0)
        match rest.dropWhile (fun x => x != 34 && x != 0) with
        | [] => none
        | q :: rest' =>
          if q = 0 then none
          else lexFrom m fuel rest' (.str content :: acc) (err || content.isEmpty)
      else
        let tok := match lookupTok m [c] with
          | none => Tok.typ (S "UNKNOWN")
          | some t => .typ t
        lexFrom m fuel rest (tok :: acc) err

def lex (m : Mode) (inp : Bytes) : Option (List Tok × Bool) := lexFrom m (inp.length + 1) inp [] false

/-! ### variables -/

inductive Val where
  | int (n : Int)
  | str (s : Bytes)
  | list (l : List Bytes)
  | invalid
  deriving DecidableEq, Repr

structure Var where
  name : Bytes
  val : Val
  deriving DecidableEq, Repr

structure CStep where
  name : Bytes
  command : List Bytes
  parallel : Bool
  deriving DecidableEq, Repr

structure Env where
  isDir : Bytes → Bool
  userExists : Bytes → Bool
  glob : Bytes → Option (Option (List Bytes))   -- none: error; some none: no match
  arch : Bytes
  machine : Bytes
  lock : Option Bytes        -- first line of ${robsddir}/.running
  execDir : Bytes
  ncpu : Nat
  inet : Bytes
  inet6 : Bytes

structure St where
  vars : List Var
  steps : List CStep
  rdomain : Nat
  deriving Repr

def present (s : St) (name : Bytes) : Bool := s.vars.any (fun v => v.name == name)
def append (s : St) (name : Bytes) (v : Val) : St := { s with vars := s.vars ++ [⟨name, v⟩] }

/-- `grammar_equals`: exact, or (PAT) a pattern `prefix*suffix` -/
def grammarEquals (g : GEntry) (name : Bytes) : Bool :=
  g.kw == name ||
  (g.pat &&
    (let pre := g.kw.takeWhile (· != 42)
     let suf := (g.kw.dropWhile (· != 42)).drop 1
     pre.isPrefixOf name && suf.isSuffixOf name && decide (pre.length + suf.length ≤ name.length)))

def findGrammarInterp (m : Mode) (name : Bytes) : Option GEntry := m.grammar.find? (fun g => grammarEquals g name)
def findGrammarKw (m : Mode) (name : Bytes) : Option GEntry := m.grammar.find? (fun g => g.fn != S "NULL" && g.kw == name)

def isEarly (m : Mode) (name : Bytes) : Bool :=
  match findGrammarInterp m name with
  | some g => g.early
  | none => false

def typedDefault (env : Env) (g : GEntry) : Val :=
  if g.type = S "INTEGER" then .int (match g.dflt with | .int n => n | _ => 0)
  else if g.type = S "LIST" then .list []
  else if g.type = S "INVALID" then .invalid
  else .str (match g.dflt with
    | .str s => s
    | .macro n => if n = S "MACHINE_ARCH" then env.arch else env.machine
    | _ => [])

/-- `config_find`: the first variable of that name, else the grammar's default
    (function defaults may define the variable or, for rdomain, count) -/
def find (m : Mode) (env : Env) (s : St) (name : Bytes) : Option Val × St :=
  match s.vars.find? (fun v => v.name == name) with
  | some v => (some v.val, s)
  | none =>
    match findGrammarInterp m name with
    | none => (none, s)
    | some g =>
      if g.req then (none, s)
      else if g.fun_ then
        match g.dflt with
        | .fn f =>
          if f = S "config_default_build_dir" then
            match env.lock with
            | some b => (some (.str b), append s name (.str b))
            | none => (none, s)
          else if f = S "config_default_exec_dir" then (some (.str env.execDir), append s name (.str env.execDir))
          else if f = S "config_default_inet4" then (some (.str env.inet), append s name (.str env.inet))
          else if f = S "config_default_inet6" then (some (.str env.inet6), append s name (.str env.inet6))
          else if f = S "config_default_ncpu" then (some (.int env.ncpu), append s name (.int env.ncpu))
          else if f = S "config_default_trace" then (some (.str []), append s name (.str []))
          else if f = S "config_default_regress_targets" then (some (.list [S "regress"]), append s name (.list [S "regress"]))
          else if f = S "config_default_parallel" then
            match s.vars.find? (fun v => v.name == S "parallel") with
            | some v => (some v.val, s)
            | none => (some (.int 1), s)
          else if f = S "config_default_rdomain" then
            -- rdomain = counter++; on reaching the maximum start over
            if s.rdomain = rdomainMax then (some (.int rdomainMin), { s with rdomain := rdomainMin + 1 })
            else (some (.int s.rdomain), { s with rdomain := s.rdomain + 1 })
          else (none, s)
        | _ => (none, s)
      else (some (typedDefault env g), s)

def natDec (n : Nat) : Bytes := (toString n).toList.map (fun c => UInt8.ofNat c.toNat)
def intDec (n : Int) : Bytes := if n < 0 then 45 :: natDec n.natAbs else natDec n.toNat

def joinSp : List Bytes → Bytes
  | [] => []
  | [x] => x
  | x :: xs => x ++ 32 :: joinSp xs

def fmtVal : Val → Option Bytes
  | .int n => some (intDec n)
  | .str s => some s
  | .list l => some (joinSp l)
  | .invalid => none

/-- `config_interpolate_lookup` -/
def lookup (m : Mode) (env : Env) (early : Bool) (s : St) (name : Bytes) : Option Bytes × St :=
  if early && !isEarly m name then (none, s)
  else
    match find m env s name with
    | (none, s') => (none, s')
    | (some v, s') => (fmtVal v, s')

/-! ### interpolation with a stateful lookup (interpolate.c, as Model/Interp but threading the state) -/

def innerS (look : St → Bytes → Option Bytes × St) (ign : Bool) (rec : St → Bytes → Option (Bytes × St))
    (st : St) (s : Bytes) : Option (Bytes × St) :=
  match h : Interp.scan s with
  | .lit p => some (p, st)
  | .bad _ => none
  | .ref pre name tail =>
    have : tail.length < s.length := Interp.scan_ref_length s pre name tail h
    match look st name with
    | (none, st1) =>
      if ign then
        match innerS look ign rec st1 tail with
        | some (b, st2) => some (pre ++ Interp.DOLLAR :: Interp.LBRACE :: name ++ Interp.RBRACE :: b, st2)
        | none => none
      else none
    | (some v, st1) =>
      match rec st1 v with
      | none => none
      | some (a, st2) =>
        match innerS look ign rec st2 tail with
        | some (b, st3) => some (pre ++ a ++ b, st3)
        | none => none
termination_by s.length

def interpS (look : St → Bytes → Option Bytes × St) (ign : Bool) : Nat → St → Bytes → Option (Bytes × St)
  | 0 => fun _ _ => none
  | d + 1 => innerS look ign (interpS look ign d)

def interpStr (m : Mode) (env : Env) (early ign : Bool) (st : St) (s : Bytes) : Option (Bytes × St) :=
  interpS (lookup m env early) ign (interpolateDepthLimit - 1) st s

/-! ### value parsers (over the remaining tokens) -/

abbrev P := Option (St × List Tok)

def lbrace : Tok := .typ (S "LBRACE")
def rbrace : Tok := .typ (S "RBRACE")

/-- `config_parse_list`: `{ "a" "b" ... }` -/
def parseListItems : List Tok → List Bytes → Option (List Bytes × List Tok)
  | .str s :: rest, acc => parseListItems rest (acc ++ [s])
  | t :: rest, acc => if t = rbrace then some (acc, rest) else none
  | [], _ => none

def parseList : List Tok → Option (List Bytes × List Tok)
  | t :: rest => if t = lbrace then parseListItems rest [] else none
  | [] => none

def regressName (path suffix : Bytes) : Bytes := S "regress-" ++ path ++ 45 :: suffix

/-- extend the first list variable called `name` (created empty if absent) -/
def extendFirst : List Var → Bytes → List Bytes → List Var
  | [], _, _ => []
  | v :: vs, name, xs =>
    if v.name == name then
      (match v.val with
        | .list l => { v with val := .list (l ++ xs) }
        | _ => v) :: vs
    else v :: extendFirst vs name xs

def findOrCreateExtend (s : St) (name : Bytes) (xs : List Bytes) : St :=
  let s1 := if present s name then s else append s name (.list [])
  { s1 with vars := extendFirst s1.vars name xs }

/-- the options after `regress "path"` -/
def regressOptions (m : Mode) (env : Env) (path : Bytes) : Nat → St → List Tok → P
  | 0, s, ts => some (s, ts)
  | fuel + 1, s, ts =>
    match ts with
    | .typ t :: rest =>
      if t = S "ENV" then
        match parseList rest with
        | none => none
        | some (xs, rest') =>
          let name := regressName path (S "env")
          let s1 := append s name (.list (S "${regress-env}" :: xs))
          -- early interpolation of ${regress-<path>-env}: expands rdomain now
          match interpStr m env true true s1 (S "${" ++ name ++ S "}") with
          | none => none
          | some (str, s2) =>
            -- the freshly appended variable becomes the string
            let vars' : List Var := s2.vars.reverse
            let vars'' : List Var := (match vars'.span (fun (v : Var) => !(v.name == name)) with
              | (a, v :: b) => a ++ { v with val := Val.str str } :: b
              | (a, []) => a).reverse
            regressOptions m env path fuel { s2 with vars := vars'' } rest'
      else if t = S "NO_PARALLEL" then regressOptions m env path fuel (append s (regressName path (S "parallel")) (.int 0)) rest
      else if t = S "OBJ" then
        match parseList rest with
        | none => none
        | some (xs, rest') => regressOptions m env path fuel (findOrCreateExtend s (S "regress-obj") xs) rest'
      else if t = S "PACKAGES" then
        match parseList rest with
        | none => none
        | some (xs, rest') => regressOptions m env path fuel (findOrCreateExtend s (S "regress-packages") xs) rest'
      else if t = S "QUIET" then regressOptions m env path fuel (append s (regressName path (S "quiet")) (.int 1)) rest
      else if t = S "ROOT" then regressOptions m env path fuel (append s (regressName path (S "root")) (.int 1)) rest
      else if t = S "TARGETS" then
        match parseList rest with
        | none => none
        | some (xs, rest') => regressOptions m env path fuel (findOrCreateExtend s (regressName path (S "targets")) xs) rest'
      else some (s, ts)
    | _ => some (s, ts)

def canvasOptions : Nat → Option (List Bytes) → Bool → List Tok → Option (Option (List Bytes) × Bool × List Tok)
  | 0, c, p, ts => some (c, p, ts)
  | fuel + 1, c, p, ts =>
    match ts with
    | .typ t :: rest =>
      if t = S "COMMAND" then
        match parseList rest with
        | none => none
        | some (xs, rest') => canvasOptions fuel (some xs) p rest'
      else if t = S "PARALLEL" then canvasOptions fuel c true rest
      else some (c, p, ts)
    | _ => some (c, p, ts)

/-- the string of a directory keyword names an existing directory after interpolation -/
def checkDir (m : Mode) (env : Env) (s : St) (dir : Bytes) : Option St :=
  if dir = [] then none
  else
    match interpStr m env false false s dir with
    | none => none
    | some (path, s1) => if env.isDir path then some s1 else none

/-- one keyword with its value; `none` = a diagnostic was printed -/
def parseKeyword (m : Mode) (env : Env) (s : St) (name : Bytes) (ts : List Tok) : P :=
  match findGrammarKw m name with
  | none => none                                                  -- unknown keyword
  | some g =>
    if !g.rep && present s name then none                          -- already defined
    else
      let fn := g.fn
      if fn = S "config_parse_boolean" then
        match ts with
        | .bool b :: rest => some (append s name (.int (if b then 1 else 0)), rest)
        | _ => none
      else if fn = S "config_parse_integer" then
        match ts with
        | .int n :: rest => some (append s name (.int n), rest)
        | _ => none
      else if fn = S "config_parse_string" then
        match ts with
        | .str x :: rest => some (append s name (.str x), rest)
        | _ => none
      else if fn = S "config_parse_list" then
        match parseList ts with
        | some (xs, rest) => some (append s name (.list xs), rest)
        | none => none
      else if fn = S "config_parse_user" then
        match ts with
        | .str x :: rest => if env.userExists x then some (append s name (.str x), rest) else none
        | _ => none
      else if fn = S "config_parse_directory" then
        match ts with
        | .str x :: rest => (checkDir m env s x).map (fun s1 => (append s1 name (.str x), rest))
        | _ => none
      else if fn = S "config_parse_glob" then
        match ts with
        | .str x :: rest =>
          match env.glob x with
          | none => none
          | some none => some (append s name (.list []), rest)
          | some (some l) => some (append s name (.list l), rest)
        | _ => none
      else if fn = S "config_parse_canvas_directory" then
        match ts with
        | .str x :: rest =>
          (checkDir m env s x).map (fun s1 => (append (append s1 (S "canvas-dir") (.str x)) (S "robsddir") (.str x), rest))
        | _ => none
      else if fn = S "config_parse_canvas_step" then
        match ts with
        | .str x :: rest =>
          match canvasOptions (rest.length + 1) none false rest with
          | none => none
          | some (cmd, par, rest') =>
            match cmd with
            | none => none
            | some [] => none
            | some c =>
              let s1 := if s.steps.isEmpty then append s (S "step") .invalid else s
              some ({ s1 with steps := s1.steps ++ [⟨x, c, par⟩] }, rest')
        | _ => none
      else if fn = S "config_parse_regress" then
        match ts with
        | .str path :: rest =>
          match regressOptions m env path (rest.length + 1) s rest with
          | none => none
          | some (s1, rest') => some (findOrCreateExtend s1 (S "regress") [path], rest')
        | _ => none
      else if fn = S "config_parse_regress_env" then
        match parseList ts with
        | some (xs, rest) => some (findOrCreateExtend s (S "regress-env") xs, rest)
        | none => none
      else if fn = S "config_parse_regress_timeout" then
        match ts with
        | .int n :: .typ u :: rest =>
          let scalar : Int := if u = S "SECONDS" then 1 else if u = S "MINUTES" then 60 else if u = S "HOURS" then 3600 else 0
          if scalar = 0 then none
          else if (intMax : Int) < scalar * n then none
          else some (append s name (.int (scalar * n)), rest)
        | _ => none
      else none

def parseLoop (m : Mode) (env : Env) : Nat → St → List Tok → Option St
  | 0, _, _ => none
  | fuel + 1, s, ts =>
    match ts with
    | .eof :: _ => some s
    | .kw name :: rest =>
      match parseKeyword m env s name rest with
      | none => none
      | some (s1, rest') => parseLoop m env fuel s1 rest'
    | _ => none

/-- `config_validate`: every required variable is present -/
def validate (m : Mode) (s : St) : Bool := m.grammar.all (fun g => !g.req || present s g.kw)

def initSt : St := { vars := [], steps := [], rdomain := rdomainMin }

/-- `config_parse`: the state when the file is accepted -/
def parse (m : Mode) (env : Env) (file : Bytes) : Option St :=
  match lex m file with
  | none => none
  | some (toks, err) =>
    match parseLoop m env (toks.length + 1) initSt toks with
    | none => none
    | some s => if err || !validate m s then none else some s

/-- `interpolate_file` over the template lines, threading the state -/
def interpLines (m : Mode) (env : Env) : St → List Bytes → Option Bytes
  | _, [] => some []
  | s, l :: ls =>
    match interpStr m env false false s l with
    | none => none
    | some (a, s1) =>
      match interpLines m env s1 ls with
      | none => none
      | some b => some (a ++ 10 :: b)

/-- `robsd-config -m mode -C file -` with the template on stdin: (exit status, stdout) -/
def configCmd (m : Mode) (env : Env) (file tmpl : Bytes) : Nat × Bytes :=
  match parse m env file with
  | none => (1, [])
  | some s =>
    match interpLines m env s (lines tmpl) with
    | none => (1, [])
    | some out => (0, cstr out)

end Conf
end Robsd
