import Robsd.Model.Bytes
/-
  Model of regress-log.c (`regress_log_parse_impl`, `regress_log_peek`,
  `regress_log_trim`) and robsd-regress-log.c `main`.

  A log is the list of its lines as `buffer_getline` yields them
  (`Bytes.lines`: split on '\n', each line cut at its first NUL).
-/
namespace Robsd
namespace RegressLog
open Bytes

/-- `strncmp(s, p, len p) == 0` -/
def startsWith (p : Bytes) (s : Bytes) : Bool := p.isPrefixOf s

/-- `strstr(s, needle) != NULL` -/
def hasSub (needle : Bytes) : Bytes → Bool
  | [] => needle.isEmpty
  | s@(_ :: t) => needle.isPrefixOf s || hasSub needle t

def EQ : UInt8 := 61
def SP : UInt8 := 32
def PLUS : UInt8 := 43

def s_FAILED : Bytes := [70, 65, 73, 76, 69, 68]
def s_SKIPPED : Bytes := [83, 75, 73, 80, 80, 69, 68]
def s_DISABLED : Bytes := [68, 73, 83, 65, 66, 76, 69, 68]
def s_EXPECTED_FAIL : Bytes := [69, 88, 80, 69, 67, 84, 69, 68, 95, 70, 65, 73, 76]
def s_UNEXPECTED_PASS : Bytes := [85, 78, 69, 88, 80, 69, 67, 84, 69, 68, 95, 80, 65, 83, 83]
def s_eq4 : Bytes := [61, 61, 61, 61]
def s_subdir : Bytes := [61, 61, 61, 62]

def isXtrace (l : Bytes) : Bool := l.head? == some PLUS
def isSkipped (l : Bytes) : Bool := hasSub s_SKIPPED l || hasSub s_DISABLED l
def isFailed (l : Bytes) : Bool := hasSub s_FAILED l
def isXfailed (l : Bytes) : Bool := hasSub s_EXPECTED_FAIL l
def isXpassed (l : Bytes) : Bool := hasSub s_UNEXPECTED_PASS l

/-- the `for (; str[0] != '\0'; str++) if (str[-1] == ' ' && str[0] == '=') break;`
    loop of `ismarker_regress`: returns the remaining string at the break. -/
def markerScan (prev : UInt8) : Bytes → Bytes
  | [] => []
  | c :: rest => if prev == SP && c == EQ then c :: rest else markerScan c rest

/-- `/^==== .* ====$/` as the C code decides it -/
def isMarkerRegress (l : Bytes) : Bool :=
  if startsWith s_eq4 l then
    match l.drop 4 with
    | c :: rest => if c == SP then markerScan SP rest == s_eq4 else false
    | [] => false
  else false

def isMarkerSubdir (l : Bytes) : Bool := startsWith s_subdir l
def isMarker (l : Bytes) : Bool := isMarkerRegress l || isMarkerSubdir l

structure Sel where
  failed : Bool
  skipped : Bool
  xfailed : Bool
  xpassed : Bool
  deriving DecidableEq, Repr

def Sel.any (s : Sel) : Bool := s.failed || s.skipped || s.xfailed || s.xpassed

def selected (sel : Sel) (l : Bytes) : Bool :=
  (sel.skipped && isSkipped l) || (sel.failed && isFailed l) ||
  (sel.xfailed && isXfailed l) || (sel.xpassed && isXpassed l)

/-- The body of the parse loop after the leading `+` block: `scratch` is the
    scratch buffer (as lines), the result the extracted blocks in order.
    Generic in the marker and match predicates. -/
def blocksFrom (mark sel : Bytes → Bool) (scratch : List Bytes) : List Bytes → List (List Bytes)
  | [] => []
  | l :: ls =>
    let s := (if mark l then [] else scratch) ++ [l]
    if sel l then s :: blocksFrom mark sel [] ls else blocksFrom mark sel s ls

/-- `regress_log_parse`: the extracted blocks. -/
def parse (sel : Sel) (ls : List Bytes) : List (List Bytes) :=
  blocksFrom isMarker (selected sel) [] (ls.dropWhile isXtrace)

/-- `regress_log_peek`: the loop with `break` at the first hit; returns nfound. -/
def peekFrom (sel : Bytes → Bool) : List Bytes → Nat
  | [] => 0
  | l :: ls => if sel l then 1 else peekFrom sel ls

def peek (sel : Sel) (ls : List Bytes) : Nat :=
  peekFrom (selected sel) (ls.dropWhile isXtrace)

def renderBlock (b : List Bytes) : Bytes := (b.map (fun l => l ++ [10])).flatten

/-- What `regress_log_parse` appends to `out`: blocks separated by one empty
    line; with REGRESS_LOG_NEWLINE also before the first. -/
def renderBlocks (newline : Bool) : List (List Bytes) → Bytes
  | [] => []
  | b :: bs => (if newline then [10] else []) ++ renderBlock b ++ renderBlocks true bs

def parseOut (sel : Sel) (newline : Bool) (content : Bytes) : Nat × Bytes :=
  let bs := parse sel (lines content)
  (bs.length, renderBlocks newline bs)

/-- `regress_log_trim`: leading `+` lines dropped, then the trailing run of `+`
    lines cut (via the offset `xend`, 0 meaning "none"). -/
def trimLoop : List Bytes → (bf : Bytes) → (xend : Nat) → Bytes
  | [], bf, xend => if xend ≠ 0 then bf.take xend else bf
  | l :: ls, bf, xend =>
    let xend' := if isXtrace l then (if xend = 0 then bf.length else xend) else 0
    trimLoop ls (bf ++ l ++ [10]) xend'

def trim (content : Bytes) : Bytes :=
  trimLoop ((lines content).dropWhile isXtrace) [] 0

/-- robsd-regress-log `main`: files are `none` when unreadable.
    Returns (exit status, stdout). -/
def mainLoop (sel : Sel) : List (Option Bytes) → (n : Nat) → (bf : Bytes) → (err : Bool) → Nat × Bytes × Bool
  | [], n, bf, err => (n, bf, err)
  | f :: fs, n, bf, err =>
    let bf1 := if n > 0 then bf ++ [10] else bf
    match f with
    | none => mainLoop sel fs n bf1 true
    | some content =>
      let r := parseOut sel false content
      if r.1 = 0 then mainLoop sel fs n (if n > 0 then bf1.dropLast else bf1) err
      else mainLoop sel fs (n + 1) (bf1 ++ r.2) err

def main (sel : Sel) (doprint : Bool) (files : List (Option Bytes)) : Nat × Bytes :=
  let r := mainLoop sel files 0 [] false
  let n := r.1
  let bf := r.2.1
  let err := r.2.2
  let out := if !err && n > 0 && doprint then cstr bf else []
  (if err then 2 else if n = 0 then 1 else 0, out)

end RegressLog
end Robsd
