import Robsd.Model.StepFile
/-
  robsd-wait.c: wait for process exits.

  `robsd-wait [-a] pid ...` registers every pid with the kernel (kqueue,
  EVFILT_PROC/NOTE_EXIT), handles the first batch of exit events, with `-a`
  keeps waiting until no pid is left, and prints the pids that are still
  running, one per line, in argument order.  The kernel is an oracle: the
  batches of pids whose exit it reports (each process at most once).

  The pid set is the libks map of C20 (insertion ordered); duplicates among the
  arguments are kept as separate entries, and one exit event removes one of
  them (MAP_REMOVE removes the first match) — see `dup_hangs`.
-/
namespace Robsd
namespace Wait

/-- `strtonum(arg, 1, INT_MAX)` on every argument; `none` if one is invalid (exit 1) -/
def parsePids : List Bytes → Option (List Nat)
  | [] => some []
  | a :: as =>
    match StepFile.strtonum a 1 StepFile.intMax, parsePids as with
    | some p, some ps => some (p.toNat :: ps)
    | _, _ => none

/-- one batch of NOTE_EXIT events: each removes the first entry with that pid -/
def handle (pids : List Nat) (batch : List Nat) : List Nat := batch.foldl (fun ps p => ps.erase p) pids

/-- the `-a` loop: `fuel` bounds the number of kevent calls; `none` = still blocked in kevent -/
def waitAll : Nat → List Nat → List (List Nat) → Option (List Nat)
  | _, [], _ => some []
  | 0, _ :: _, _ => none
  | _ + 1, _ :: _, [] => none                      -- nothing more will be reported: blocked for ever
  | f + 1, p :: ps, b :: bs => waitAll f (handle (p :: ps) b) bs

/-- exit status and printed pids; `none` = does not return -/
def run (all : Bool) (args : List Bytes) (batches : List (List Nat)) : Option (Nat × List Nat) :=
  match parsePids args with
  | none => some (1, [])
  | some pids =>
    match batches with
    | [] => none                                    -- the first kevent blocks until something exits
    | b :: bs =>
      let rest := handle pids b
      if all then (waitAll (bs.length + 1) rest bs).map fun r => (0, r)
      else some (0, rest)

end Wait
end Robsd
