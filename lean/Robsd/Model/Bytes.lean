/-
  Shared byte-level vocabulary for all models.  A C string is a `List UInt8`
  without NUL; raw file contents may contain NUL and are cut where the C code
  cuts them (`cstr`).
-/
namespace Robsd

abbrev Bytes := List UInt8

namespace Bytes

def ofString (s : String) : Bytes := s.toUTF8.toList

/-- C-string view of a byte sequence: everything before the first NUL. -/
def cstr : Bytes → Bytes
  | [] => []
  | x :: xs => if x = 0 then [] else x :: cstr xs

theorem cstr_no_nul (b : Bytes) : (0 : UInt8) ∉ cstr b := by
  induction b with
  | nil => simp [cstr]
  | cons x xs ih =>
    unfold cstr
    split
    · simp
    · rename_i h
      simp only [List.mem_cons, not_or]
      exact ⟨fun e => h e.symm, ih⟩

theorem cstr_eq_self_of_no_nul (b : Bytes) (h : (0 : UInt8) ∉ b) : cstr b = b := by
  induction b with
  | nil => rfl
  | cons x xs ih =>
    simp only [List.mem_cons, not_or] at h
    unfold cstr
    have : ¬ x = 0 := fun e => h.1 e.symm
    simp [this, ih h.2]

/-- Split at the first occurrence of `c`: `(before, some after)` or `(all, none)`.
    This is `strchr`/`memchr` on a NUL-free string. -/
def splitAt1 (c : UInt8) : Bytes → Bytes × Option Bytes
  | [] => ([], none)
  | x :: xs =>
    if x = c then ([], some xs)
    else
      let r := splitAt1 c xs
      (x :: r.1, r.2)

theorem splitAt1_none (c : UInt8) (s : Bytes) :
    (splitAt1 c s).2 = none ↔ c ∉ s := by
  induction s with
  | nil => simp [splitAt1]
  | cons x xs ih =>
    unfold splitAt1
    by_cases h : x = c
    · simp [h]
    · simp only [h, if_false, List.mem_cons, not_or]
      constructor
      · intro h2; exact ⟨fun e => h e.symm, ih.mp h2⟩
      · intro h2; exact ih.mpr h2.2

theorem splitAt1_none_fst (c : UInt8) (s : Bytes) (h : (splitAt1 c s).2 = none) :
    (splitAt1 c s).1 = s := by
  induction s with
  | nil => simp [splitAt1]
  | cons x xs ih =>
    unfold splitAt1 at h ⊢
    by_cases hx : x = c
    · simp [hx] at h
    · simp only [hx, if_false] at h ⊢
      simp [ih h]

theorem splitAt1_some (c : UInt8) (s pre post : Bytes)
    (h : splitAt1 c s = (pre, some post)) :
    s = pre ++ c :: post ∧ c ∉ pre := by
  induction s generalizing pre post with
  | nil => simp [splitAt1] at h
  | cons x xs ih =>
    unfold splitAt1 at h
    by_cases hx : x = c
    · simp only [hx, if_true, Prod.mk.injEq, Option.some.injEq] at h
      obtain ⟨h1, h2⟩ := h
      subst h1 h2 hx
      simp
    · simp only [hx, if_false, Prod.mk.injEq] at h
      obtain ⟨h1, h2⟩ := h
      have := ih (splitAt1 c xs).1 post (by rw [← h2])
      subst h1
      refine ⟨by rw [List.cons_append, ← this.1], ?_⟩
      simp only [List.mem_cons, not_or]
      exact ⟨fun e => hx e.symm, this.2⟩

theorem splitAt1_append_of_not_mem (c : UInt8) (pre post : Bytes) (h : c ∉ pre) :
    splitAt1 c (pre ++ c :: post) = (pre, some post) := by
  induction pre with
  | nil => simp [splitAt1]
  | cons x xs ih =>
    simp only [List.mem_cons, not_or] at h
    have hx : ¬ x = c := fun e => h.1 e.symm
    simp [splitAt1, hx, ih h.2]

theorem splitAt1_of_not_mem (c : UInt8) (s : Bytes) (h : c ∉ s) :
    splitAt1 c s = (s, none) := by
  have h2 := (splitAt1_none c s).mpr h
  have h1 := splitAt1_none_fst c s h2
  exact Prod.ext h1 h2

theorem splitAt1_length (c : UInt8) (s post : Bytes) (pre : Bytes)
    (h : splitAt1 c s = (pre, some post)) : post.length < s.length := by
  have := (splitAt1_some c s pre post h).1
  subst this
  simp
  omega

/-- Lines as `buffer_getline` yields them: split on '\n'; a trailing newline
    does not produce a final empty line (`cur` is the line being collected). -/
def rawLinesAux : Bytes → Bytes → List Bytes
  | [], cur => if cur.isEmpty then [] else [cur]
  | c :: rest, cur => if c = 10 then cur :: rawLinesAux rest [] else rawLinesAux rest (cur ++ [c])

def rawLines (s : Bytes) : List Bytes := rawLinesAux s []

/-- … each line cut at its first NUL (callers use them as C strings). -/
def lines (s : Bytes) : List Bytes := (rawLines s).map cstr

/-- byte-wise `strcmp` order -/
def bytesLt : Bytes → Bytes → Bool
  | [], [] => false
  | [], _ :: _ => true
  | _ :: _, [] => false
  | a :: as, b :: bs => if a < b then true else if b < a then false else bytesLt as bs

/-- insertion sort in ascending `strcmp` order (stands for `qsort` with a
    `strcmp` comparator; theorems quantify over any correct sort) -/
def insertSorted (x : Bytes) : List Bytes → List Bytes
  | [] => [x]
  | y :: ys => if bytesLt y x then y :: insertSorted x ys else x :: y :: ys

def sortBytes (l : List Bytes) : List Bytes := l.foldr insertSorted []

/-- Hex encoding for the driver protocol. -/
def hexDigit (n : Nat) : Char :=
  if n < 10 then Char.ofNat (48 + n) else Char.ofNat (87 + n)

def toHex (b : Bytes) : String :=
  if b.isEmpty then "-" else
  String.ofList (b.flatMap fun x => [hexDigit (x.toNat / 16), hexDigit (x.toNat % 16)])

def hexVal (c : Char) : Option Nat :=
  if '0' ≤ c ∧ c ≤ '9' then some (c.toNat - 48)
  else if 'a' ≤ c ∧ c ≤ 'f' then some (c.toNat - 87)
  else none

def ofHexAux : List Char → Option Bytes
  | [] => some []
  | [_] => none
  | a :: b :: rest => do
    let x ← hexVal a
    let y ← hexVal b
    let r ← ofHexAux rest
    pure (UInt8.ofNat (x * 16 + y) :: r)

def ofHex (s : String) : Option Bytes :=
  if s = "-" then some [] else ofHexAux s.toList

end Bytes
end Robsd
