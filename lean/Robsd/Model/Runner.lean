import Robsd.Gen.Consts
/-
  Model of step-exec.c `step_exec` after the process group exists: the wait
  loop, `killwaitpg`/`killwaitpg1` and `exitstatus`.

  The runner polls: each iteration first takes delivery of a signal that
  arrived since the previous one (the handler stores it in `gotsig`), then
  either starts killing the process group or asks `waitpid(WNOHANG)` whether
  the step's main process is gone, then sleeps.

  The environment is adversarial and unconstrained: when which signal
  arrives (`sig`), when the main process can be reaped on its own
  (`natural`), and whether/when it can be reaped after SIGTERM and after
  SIGKILL were sent to the group (`afterTerm`, `afterKill`, one entry per
  poll).  `late i` is a signal that arrives in iteration `i` AFTER the runner
  looked at `gotsig` and before its `waitpid`: if that `waitpid` reaps the main
  process the loop is left and the check after the loop sends SIGTERM to what
  is left of the group; otherwise the next iteration's check sees the signal.
  What `kill(-pgid, sig)` does to the members of the group is the
  kernel's business and not modelled (C07 is partial for that reason).
-/
namespace Robsd
namespace Runner

inductive Sig where
  | term | alrm
  deriving DecidableEq, Repr

/-- a wait status as `exitstatus` looks at it -/
inductive WStatus where
  | exited (code : Nat)
  | signaled (sig : Nat)
  | other
  deriving DecidableEq, Repr

structure Env where
  sig : Nat → Option Sig
  natural : Nat → Option WStatus
  afterTerm : Nat → Option WStatus
  afterKill : Nat → Option WStatus
  late : Nat → Option Sig := fun _ => none

inductive Act where
  | killTerm            -- kill(-pgid, SIGTERM)
  | killTermLate        -- the check after the loop: kill(-pgid, SIGTERM), the main process is already reaped
  | killKill            -- kill(-pgid, SIGKILL)
  | reap (st : WStatus) -- waitpid returned the main process
  | giveUp              -- both bounded waits expired
  | running             -- model artefact: fuel exhausted, the step is still running
  deriving DecidableEq, Repr

def sigTermNo : Nat := 15
/-- polls per bounded wait: the budget divided by the poll interval, both taken from step-exec.c -/
def polls : Nat := Gen.runnerKillWaitMs / Gen.runnerKillPollMs

/-- `exitstatus`, and a caught signal never yields success -/
def exitOf (st : WStatus) (got : Option Sig) : Nat :=
  if got = some .alrm then Gen.exTimeout
  else
    let base := match st with
      | .exited c => c
      | .signaled n => 128 + n
      | .other => 1
    if got.isSome && base == 0 then 128 + sigTermNo else base

/-- the first poll (below `n`) at which the main process can be reaped -/
def firstReap (f : Nat → Option WStatus) : Nat → Nat → Option WStatus
  | 0, _ => none
  | n + 1, j => match f j with
    | some st => some st
    | none => firstReap f n (j + 1)

/-- `killwaitpg`: TERM, bounded wait, KILL, bounded wait; `*status = 1` when both expire -/
def killwait (e : Env) : List Act × WStatus :=
  match firstReap e.afterTerm polls 0 with
  | some st => ([.killTerm, .reap st], st)
  | none =>
    match firstReap e.afterKill polls 0 with
    | some st => ([.killTerm, .killKill, .reap st], st)
    | none => ([.killTerm, .killKill, .giveUp], .signaled 1)

/-- the wait loop from iteration `i` -/
def loop (e : Env) : Nat → Nat → List Act × Nat
  | 0, _ => ([.running], 0)
  | fuel + 1, i =>
    match e.sig i with
    | some s =>
      let (acts, st) := killwait e
      (acts, exitOf st (some s))
    | none =>
      match e.natural i with
      | some st =>
        match e.late i with
        | some s => ([.reap st, .killTermLate], exitOf st (some s))
        | none => ([.reap st], exitOf st none)
      | none =>
        match e.late i with
        | some s =>
          let (acts, st) := killwait e
          (acts, exitOf st (some s))
        | none => loop e fuel (i + 1)

def run (e : Env) (fuel : Nat) : List Act × Nat := loop e fuel 0

/-! ### `step_fork`: the handshake before the wait loop

The runner forks, the child calls `setsid()` and closes its end of a pipe, the
runner reads the pipe until end of file (`waiteof`, at most 1000 ms of 1 ms
naps on a non-blocking descriptor, so a signal never makes the read fail).  A
signal caught meanwhile only sets `gotsig`; the first iteration of the wait
loop sees it unless a later signal overwrote it.  When the process group does
not appear in time the runner reaps the child and returns its status, never
zero ("process group failure"). -/

structure Fork where
  hsSig : Option Sig      -- caught while waiting for the process group
  hsOk : Bool             -- end of file seen within the allowance
  failStatus : WStatus    -- the child's wait status when the handshake fails

/-- the flag as the first iteration finds it: the later signal wins -/
def pending (e : Env) (f : Fork) : Option Sig :=
  match e.sig 0 with
  | some s => some s
  | none => f.hsSig

def withPending (e : Env) (f : Fork) : Env :=
  { e with sig := fun i => if i = 0 then pending e f else e.sig i }

def stepExec (e : Env) (f : Fork) (fuel : Nat) : List Act × Nat :=
  if f.hsOk then run (withPending e f) fuel
  else
    let c := exitOf f.failStatus none
    ([.reap f.failStatus], if c = 0 then 1 else c)

end Runner
end Robsd
