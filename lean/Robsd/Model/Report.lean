import Robsd.Model.StepNext
import Robsd.Model.RegressLog
import Robsd.Gen.Consts
/-
  Model of report.c (`report_generate` and everything under it) as a pure
  function of the mode, the names that go into the subject, the parsed step
  file and the files it reads.
-/
namespace Robsd
namespace Report
open Bytes StepFile

inductive Mode where
  | robsd | cross | ports | regress | canvas
  deriving DecidableEq, Repr

/-- ASCII string literal as bytes (kernel-reducible, unlike `String.toUTF8`) -/
def S (s : String) : Bytes := s.toList.map (fun c => UInt8.ofNat c.toNat)

def Mode.str : Mode → Bytes
  | .robsd => S "robsd"
  | .cross => S "robsd-cross"
  | .ports => S "robsd-ports"
  | .regress => S "robsd-regress"
  | .canvas => S "canvas"

/-- everything outside the step file that `report_generate` looks at -/
structure Env where
  mode : Mode
  hostname : Bytes                -- gethostname, cut at the first '.'
  canvasName : Bytes
  machine : Bytes
  target : Option Bytes           -- <builddir>/target (robsd-cross)
  builddir : Bytes
  logs : Bytes → Option Bytes     -- <builddir>/<log name>
  comment : Option Bytes          -- ${comment-path}; none = ENOENT
  tags : Option Bytes             -- ${tags-path}
  cvsLogs : List (Option Bytes)   -- the mode's cvs-*.log files in table order; none = cannot be read
  packagesDiff : Option Bytes     -- ${tmp-dir}/packages.diff
  suites : List Bytes             -- ${regress}
  quiet : List Bytes              -- suites flagged quiet
  sizes : List (Bytes × Nat × Nat) -- rel/<name> present in both invocations: (name, size, previous size), any order
  hasPrev : Bool

/-! ### small helpers -/

def dropTrailingNL (b : Bytes) : Bytes := (b.reverse.dropWhile (· == 10)).reverse

/-- `format_file`: the file without trailing newlines, then one newline -/
def formatFile (b : Bytes) : Bytes := dropTrailingNL b ++ [10]

/-- `last_lines(str, len, &outlen, n)`: the remaining prefix (reversed) after
    stripping `n` line groups from the end; `[]` when the start was reached -/
def lastLinesRev : Nat → Bytes → Bytes
  | 0, rev => rev
  | n + 1, rev =>
    let r1 := rev.dropWhile (· == 10)
    let r2 := r1.dropWhile (· != 10)
    if r2.isEmpty then [] else lastLinesRev n r2

def lastLines (n : Nat) (s : Bytes) : Bytes :=
  s.drop (lastLinesRev n s.reverse).length

def pad2 (n : Nat) : Bytes := if n < 10 then 48 :: renderNat n else renderNat n

/-- `%02d` of an `int` -/
def fmt02 (i : Int) : Bytes :=
  if i < 0 then (if i > -10 then 45 :: renderNat i.natAbs else 45 :: renderNat i.natAbs) else pad2 i.toNat

/-- C `(int)x` for an int64 value -/
def toInt32 (x : Int) : Int :=
  let m := x % 4294967296
  if m ≥ 2147483648 then m - 4294967296 else m

/-- `format_duration` (C division truncates toward zero; `(int)` casts) -/
def formatDuration (d : Int) : Bytes :=
  let hours := Int.tdiv d 3600
  let r := Int.tmod d 3600
  let minutes := Int.tdiv r 60
  let seconds := Int.tmod r 60
  fmt02 (toInt32 hours) ++ [58] ++ fmt02 (toInt32 minutes) ++ [58] ++ fmt02 (toInt32 seconds)

/-- `format_duration_and_delta` -/
def formatDurationDelta (duration delta threshold : Int) : Bytes :=
  if delta = 0 then formatDuration duration
  else
    let dabs := if delta < 0 then -delta else delta
    if dabs ≤ threshold then formatDuration duration
    else formatDuration duration ++ S " (" ++ [if delta < 0 then 45 else 43] ++ formatDuration dabs ++ S ")"

/-- `format_size`: `%.01f` of size/div with suffix; the divisors are powers of
    two so the quotient is exact in binary floating point below 2^53 and
    `%.1f` rounds half to even on the exact decimal expansion -/
def formatSize (size : Nat) : Bytes :=
  let (div, suffix) : Nat × Bytes :=
    if size ≥ 1048576 then (1048576, S "M") else if size ≥ 1024 then (1024, S "K") else (1, [])
  -- tenths, rounded half to even
  let q10 := size * 10 / div
  let rem2 := 2 * (size * 10 % div)
  let tenths := if rem2 > div then q10 + 1 else if rem2 < div then q10 else (if q10 % 2 = 0 then q10 else q10 + 1)
  renderNat (tenths / 10) ++ [46] ++ renderNat (tenths % 10) ++ suffix

/-! ### rows -/

def durationIdx : Nat := (fieldIdx (S "duration")).getD 3
def deltaIdx : Nat := (fieldIdx (S "delta")).getD 4
def logIdx : Nat := (fieldIdx (S "log")).getD 5
def timeIdx : Nat := (fieldIdx (S "time")).getD 7

def rowInt (r : Row) (idx : Nat) : Int :=
  match r.getD idx .unknown with
  | .int i => i
  | _ => 0
def rowStr (r : Row) (idx : Nat) : Bytes :=
  match r.getD idx .unknown with
  | .str s => s
  | _ => []

def rowDuration (r : Row) : Int := rowInt r durationIdx
def rowDelta (r : Row) : Int := rowInt r deltaIdx
def rowLog (r : Row) : Bytes := rowStr r logIdx
def rowTime (r : Row) : Int := rowInt r timeIdx
def rowSkipped (r : Row) : Bool := rowInt r skipIdx == 1

/-- `steps_total_duration` -/
def totalDuration (mode : Mode) (rows : List Row) : Int :=
  match mode with
  | .regress =>
    match rows.head?, rows.getLast? with
    | some a, some b => rowTime b - rowTime a
    | _, _ => 0
  | _ =>
    (rows.filter (fun r => !rowSkipped r && rowName r != END)).foldl (fun acc r => acc + rowDuration r) 0

/-! ### status -/

def failureCount (rows : List Row) : Nat := (rows.filter (fun r => rowExit r != 0)).length

/-- `report_status` -/
def status (mode : Mode) (rows : List Row) : Bytes :=
  match mode with
  | .regress | .canvas =>
    let n := failureCount rows
    if n > 0 then renderNat n ++ S " failure" ++ (if n > 1 then S "s" else []) else S "ok"
  | _ =>
    match (rows.reverse.find? (fun r => !rowSkipped r)) with
    | none => S "ok"
    | some r => if rowExit r = 0 then S "ok" else S "failed in " ++ rowName r

def subject (e : Env) (rows : List Row) : Option Bytes :=
  match e.mode with
  | .canvas => some (S "Subject: " ++ e.mode.str ++ S ": " ++ e.canvasName ++ S ": " ++ status e.mode rows ++ S "\n\n")
  | .cross =>
    match e.target with
    | none =>
      -- cross_report_subject returns NULL and glibc prints "(null)" for %s
      some (S "Subject: " ++ e.mode.str ++ S ": " ++ e.hostname ++ S ":" ++ S "(null)" ++ status e.mode rows ++ S "\n\n")
    | some t =>
      let tgt := (splitAt1 10 (cstr t)).1
      some (S "Subject: " ++ e.mode.str ++ S ": " ++ e.hostname ++ S ":" ++ S " " ++ e.machine ++ S "." ++ tgt ++ S ": " ++
        status e.mode rows ++ S "\n\n")
  | _ => some (S "Subject: " ++ e.mode.str ++ S ": " ++ e.hostname ++ S ":" ++ S " " ++ status e.mode rows ++ S "\n\n")

/-! ### stats -/

def statsDuration (e : Env) (rows : List Row) : Bytes :=
  match rows.find? (fun r => rowName r == END && r.getD nameIdx .unknown != .unknown) with
  | some endRow => formatDurationDelta (rowDuration endRow) (rowDelta endRow) Gen.reportDurationThreshold
  | none => formatDurationDelta (totalDuration e.mode rows) 0 Gen.reportDurationThreshold

def sizeLine (name : Bytes) (size prev : Nat) : Option Bytes :=
  let deltaAbs := if size ≥ prev then size - prev else prev - size
  let thr := if name = S "bsd.rd" then Gen.reportSizeThresholdRamdisk else Gen.reportSizeThreshold
  if deltaAbs < thr then none
  else some (S "Size: " ++ name ++ S " " ++ formatSize size ++ S " (" ++ [if size < prev then 45 else 43] ++
    formatSize deltaAbs ++ S ")")

def statsSizes (e : Env) : Bytes :=
  if e.mode = .robsd ∧ e.hasPrev then
    let ls := e.sizes.filterMap (fun p => sizeLine p.1 p.2.1 p.2.2)
    (sortBytes ls).flatMap (fun l => l ++ [10])
  else []

def stats (e : Env) (rows : List Row) : Bytes :=
  S "> stats\n" ++ S "Status: " ++ status e.mode rows ++ [10] ++
  S "Duration: " ++ statsDuration e rows ++ [10] ++
  S "Build: " ++ e.builddir ++ [10] ++
  (match e.tags with
   | some t => S "Tags: " ++ t
   | none => []) ++
  statsSizes e

def commentPart (e : Env) : Bytes :=
  match e.comment with
  | none => []
  | some c => S "\n> comment\n" ++ formatFile c

/-! ### per-step sections -/

/-- `is_log_empty`: only ksh trace lines (or unreadable) -/
def isLogEmpty (log : Option Bytes) : Bool :=
  match log with
  | none => true
  | some b => (rawLines b).all (fun l => l.head? == some 43)

/-- `report_cvs_log`: leading newline, the non-empty files separated by an
    empty line; stops at a file that cannot be read.  Returns (text, failed). -/
def cvsLog (e : Env) : Bytes × Bool :=
  let rec go : List (Option Bytes) → Nat → Bytes × Bool
    | [], _ => ([], false)
    | none :: _, n => ((if n > 0 then [10] else []), true)
    | some b :: rest, n =>
      if b.isEmpty then go rest n
      else
        let r := go rest (n + 1)
        ((if n > 0 then [10] else []) ++ formatFile b ++ r.1, r.2)
  let r := go e.cvsLogs 0
  ([10] ++ r.1, r.2)

inductive StepLog where
  | handled (out : Bytes)
  | unhandled
  | error (out : Bytes)   -- what had been written when the error was met

def isSuite (e : Env) (name : Bytes) : Bool := e.suites.contains name
def isQuiet (e : Env) (name : Bytes) : Bool := e.quiet.contains name

/-- `report_skip_step` for a row with exit 0: 1 = omit, 0 = keep, -1 = error -/
def skipStep (e : Env) (r : Row) : Int :=
  let name := rowName r
  match e.mode with
  | .ports => if name = S "cvs" ∨ name = S "dpb" then 0 else 1
  | .regress =>
    if !isSuite e name || isQuiet e name then 1
    else if (rowLog r).isEmpty then -1
    else
      match e.logs (rowLog r) with
      | none => 1   -- regress_log_peek returns -1: not > 0
      | some b => if RegressLog.peek ⟨false, true, true, false⟩ (lines b) > 0 then 0 else 1
  | _ =>
    if name = S "cvs" then 0
    else if name = S "checkflist" ∧ !isLogEmpty (e.logs (rowLog r)) then 0
    else 1

/-- mode specific part of `report_step_log` -/
def modeStepLog (e : Env) (r : Row) : StepLog :=
  let name := rowName r
  match e.mode with
  | .ports =>
    if name = S "cvs" then
      let c := cvsLog e
      if c.2 then .error c.1 else .handled c.1
    else if name = S "dpb" ∧ rowExit r = 0 then
      match e.packagesDiff with
      | none => .error [10]
      | some b => .handled ([10] ++ formatFile b)
    else .unhandled
  | .regress =>
    if (rowLog r).isEmpty then .error []
    else
      match e.logs (rowLog r) with
      | none => .error []
      | some b =>
        let sel : RegressLog.Sel := if isQuiet e name then ⟨true, false, false, true⟩ else ⟨true, true, true, true⟩
        let p := RegressLog.parseOut sel false b
        if p.1 > 0 then .handled ([10] ++ p.2) else .unhandled
  | .canvas =>
    if (rowLog r).isEmpty then .unhandled
    else
      match e.logs (rowLog r) with
      | none => .error []
      | some b => .handled ([10] ++ b)
  | _ => .unhandled

/-- `report_step_log`: the text after the `Log:` line, or `none` on error -/
def stepLog (e : Env) (r : Row) : Option Bytes :=
  match modeStepLog e r with
  | .error _ => none
  | .handled out => some out
  | .unhandled =>
    if rowName r = S "cvs" then some (cvsLog e).1
    else if (rowLog r).isEmpty then some []
    else
      match e.logs (rowLog r) with
      | none => none
      | some b =>
        let t := lastLines Gen.reportTailLines b
        some ([10] ++ t ++ (if !t.isEmpty ∧ t.getLast? ≠ some 10 then [10] else []))

/-- `%d` of `(int)exit` -/
def renderExit (x : Int) : Bytes := renderInt (toInt32 x)

def sectionHead (r : Row) : Bytes :=
  S "\n> " ++ rowName r ++ [10] ++
  S "Exit: " ++ renderExit (rowExit r) ++ [10] ++
  S "Duration: " ++ formatDurationDelta (rowDuration r) (rowDelta r) 0 ++ [10] ++
  S "Log: " ++ rowLog r ++ [10]

/-- `report_steps` -/
def steps (e : Env) : List Row → Option Bytes
  | [] => some []
  | r :: rs =>
    if rowSkipped r then steps e rs
    else
      let decision : Int := if rowExit r = 0 then skipStep e r else 0
      if decision = 1 then steps e rs
      else if decision = -1 then none
      else
        match stepLog e r with
        | none => none
        | some body =>
          match steps e rs with
          | none => none
          | some rest => some (sectionHead r ++ body ++ rest)

/-- `report_sanitize` -/
def sanitize (b : Bytes) : Bytes :=
  b.flatMap (fun c => if c = 0 then S "\\x00" else if c = 13 then S "\\r" else [c])

/-- `report_generate` followed by `printf("%s")`: the report, or `none` (exit 1) -/
def generate (e : Env) (rows : List Row) : Option Bytes :=
  match subject e rows with
  | none => none
  | some subj =>
    match steps e rows with
    | none => none
    | some st => some (sanitize (subj ++ stats e rows ++ commentPart e ++ st))

end Report
end Robsd
