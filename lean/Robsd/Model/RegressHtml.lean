import Robsd.Model.RegressLog
import Robsd.Gen.Consts
import Robsd.Gen.RegressHtml
/-
  Model of regress-html.c: `regress_html_parse` (per architecture, invocation
  directories in ascending order), the suite map with its run lists,
  `sort_suites`, and the table body rendered by `render_suite`.

  Input: the invocations as the program sees them — (arch, date, start time,
  duration, the regress rows of step.csv in file order with exit code, log
  name and log content).  Output: the column descriptions and, per suite row,
  the cells.  The HTML text itself (html.c) is not modelled; the check parses
  index.html back into this matrix.

  The column order among invocations with equal start time is whatever
  qsort(3) produces: the model takes the rendered order as an input and
  accepts it iff it is a permutation sorted by descending time
  (`validOrder`).
-/
namespace Robsd
namespace RegressHtml
open RegressLog

inductive Status where
  | PASS | FAIL | XFAIL | XPASS | SKIP | NOTERM
  deriving DecidableEq, Repr

def Status.name : Status → Bytes
  | .PASS => [80, 65, 83, 83]
  | .FAIL => [70, 65, 73, 76]
  | .XFAIL => [88, 70, 65, 73, 76]
  | .XPASS => [88, 80, 65, 83, 83]
  | .SKIP => [83, 75, 73, 80]
  | .NOTERM => [78, 79, 84, 69, 82, 77]

def Status.failure : Status → Bool
  | .FAIL | .XPASS | .NOTERM => true
  | _ => false

def statusTable : List (Bytes × Bool) :=
  [Status.PASS, .FAIL, .XFAIL, .XPASS, .SKIP, .NOTERM].map (fun s => (s.name, s.failure))

def selX (failed skipped xfailed xpassed : Bool) : Sel := ⟨failed, skipped, xfailed, xpassed⟩

/-- `parse_run_log`: the status of a run from its exit code and its log -/
def classify (exit : Int) (log : Bytes) : Status :=
  let ls := Bytes.lines log
  if exit = Gen.exTimeout then .NOTERM
  else if exit ≠ 0 then (if peek (selX false false false true) ls > 0 then .XPASS else .FAIL)
  else if peek (selX false false true false) ls > 0 then .XFAIL
  else if peek (selX false true false false) ls > 0 then .SKIP
  else .PASS

/-- a regress row of step.csv (`is_regress_step`: the name contains a slash) -/
structure Rec where
  suite : Bytes
  exit : Int
  logName : Bytes
  log : Bytes
  deriving Repr

structure Invocation where
  arch : Bytes
  date : Bytes
  time : Int
  duration : Int
  recs : List Rec
  deriving Repr

structure Run where
  inv : Nat            -- which invocation (index in parse order)
  status : Status
  link : Bytes         -- arch/date/log
  deriving Repr, DecidableEq

structure Suite where
  name : Bytes
  fail : Nat
  runs : List Run
  deriving Repr

def SLASH : UInt8 := 47

def linkOf (inv : Invocation) (r : Rec) : Bytes := inv.arch ++ SLASH :: (inv.date ++ SLASH :: r.logName)

/-- `find_suite` + `VECTOR_CALLOC(suite->runs)`; a suite recorded twice in one
    invocation keeps its first record -/
def addRun (suites : List Suite) (name : Bytes) (run : Run) : List Suite × Bool :=
  match suites with
  | [] => ([{ name := name, fail := if run.status.failure then 1 else 0, runs := [run] }], true)
  | s :: rest =>
    if s.name = name then
      if s.runs.any (fun r => r.inv == run.inv) then (s :: rest, false)
      else ({ s with fail := s.fail + (if run.status.failure then 1 else 0), runs := s.runs ++ [run] } :: rest, true)
    else
      let (rest', added) := addRun rest name run
      (s :: rest', added)

structure Col where
  id : Nat
  arch : Bytes
  date : Bytes
  time : Int
  duration : Int
  total : Nat
  fail : Nat
  deriving Repr

structure Parsed where
  suites : List Suite
  cols : List Col       -- in parse order

def parseRecs (i : Nat) (inv : Invocation) : List Rec → (List Suite × Nat × Nat) → (List Suite × Nat × Nat)
  | [], st => st
  | r :: rs, (suites, total, fail) =>
    let st := classify r.exit r.log
    let (suites', added) := addRun suites r.suite { inv := i, status := st, link := linkOf inv r }
    parseRecs i inv rs (suites', if added then total + 1 else total, if added && st.failure then fail + 1 else fail)

def parseInv (p : Parsed) (inv : Invocation) : Parsed :=
  let i := p.cols.length
  let (suites, total, fail) := parseRecs i inv inv.recs (p.suites, 0, 0)
  { suites := suites,
    cols := p.cols ++ [{ id := i, arch := inv.arch, date := inv.date, time := inv.time, duration := inv.duration,
                         total := total, fail := fail }] }

def parseAll (invs : List Invocation) : Parsed := invs.foldl parseInv ⟨[], []⟩

/-! ### sort_suites -/

def suiteLt (a b : Suite) : Bool := decide (a.fail > b.fail) || (decide (a.fail = b.fail) && Bytes.bytesLt a.name b.name)

def insertBy {α : Type} (lt : α → α → Bool) (x : α) : List α → List α
  | [] => [x]
  | y :: ys => if lt x y then x :: y :: ys else y :: insertBy lt x ys

def sortBy {α : Type} (lt : α → α → Bool) (l : List α) : List α := l.foldr (insertBy lt) []

def isNonRegress (s : Suite) : Bool := [46, 46, 47].isPrefixOf s.name

def sortSuites (suites : List Suite) : List Suite :=
  sortBy suiteLt (suites.filter (fun s => decide (s.fail > 0))) ++
  sortBy suiteLt (suites.filter (fun s => !decide (s.fail > 0) && !isNonRegress s)) ++
  sortBy suiteLt (suites.filter (fun s => !decide (s.fail > 0) && isNonRegress s))

/-! ### render -/

/-- the rendered column order is acceptable: a permutation of the invocations, newest first -/
def sortedDesc : List Int → Bool
  | [] => true
  | [_] => true
  | a :: b :: rest => decide (b ≤ a) && sortedDesc (b :: rest)

def validOrder (cols : List Col) (order : List Nat) : Bool :=
  order.length == cols.length && (List.range cols.length).all (fun i => order.contains i) &&
  sortedDesc (order.map (fun i => match cols[i]? with | some c => c.time | none => 0))

/-- the cell of a suite under an invocation -/
def cell (s : Suite) (id : Nat) : Option (Status × Bytes) :=
  (s.runs.find? (fun r => r.inv == id)).map (fun r => (r.status, r.link))

def dropTrailingNone {α : Type} : List (Option α) → List (Option α)
  | [] => []
  | x :: xs =>
    match dropTrailingNone xs, x with
    | [], none => []
    | rest, x => x :: rest

/-- `render_suite`: one cell per column, nothing after the suite's last run -/
def row (s : Suite) (order : List Nat) : List (Option (Status × Bytes)) :=
  dropTrailingNone (order.map (cell s))

def deltaOf (cur prev : Int) : Int :=
  let d := cur - prev
  let a := if d < 0 then -d else d
  if a ≤ Gen.durationDeltaThreshold then 0 else if d < 0 then -1 else 1

end RegressHtml
end Robsd
