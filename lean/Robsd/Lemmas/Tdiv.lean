/- Helper lemmas about C's truncating division (`Int.tdiv`). -/
namespace Robsd
namespace Lemmas


theorem gt_tdiv_pos (x a b : Int) (hx : 0 ≤ x) (hb : 0 < b) : a > x.tdiv b ↔ a * b > x := by
  rw [Int.tdiv_eq_ediv_of_nonneg hx]
  exact Int.ediv_lt_iff_lt_mul hb

theorem lt_negtdiv (M a b : Int) (hM : 0 ≤ M) (ha : 0 < a) : b < (-M).tdiv a ↔ a * b < -M := by
  rw [Int.neg_tdiv]
  have := gt_tdiv_pos M (-b) a hM ha
  have e : -b * a = -(a * b) := by rw [Int.neg_mul, Int.mul_comm]
  constructor
  · intro h
    have h2 : -b > M.tdiv a := by omega
    have := this.mp h2
    omega
  · intro h
    have h2 : -b * a > M := by omega
    have := this.mpr h2
    omega

theorem lt_tdiv_neg (x a b : Int) (hx : 0 ≤ x) (ha : a < 0) : b < x.tdiv a ↔ a * b > x := by
  have e1 : a = -(-a) := by omega
  rw [e1, Int.tdiv_neg]
  have := gt_tdiv_pos x (-b) (-a) hx (by omega)
  have e : -b * -a = - -a * b := by rw [Int.neg_mul_neg, Int.neg_neg, Int.mul_comm]
  constructor
  · intro h
    have h2 : -b > x.tdiv (-a) := by omega
    have := this.mp h2
    omega
  · intro h
    have h2 : -b * -a > x := by omega
    have := this.mpr h2
    omega

end Lemmas
end Robsd
