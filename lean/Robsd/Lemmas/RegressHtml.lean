import Robsd.Model.RegressHtml
import Robsd.Lemmas.BytesOrder
/-
  Helper lemmas for C14: the generic insertion sort, `addRun`, the parse fold.
-/
namespace Robsd
namespace RegressHtml
open Bytes

/-! ### insertion sort by a strict order -/

theorem mem_insertBy {α : Type} (lt : α → α → Bool) (x y : α) (l : List α) : y ∈ insertBy lt x l ↔ y = x ∨ y ∈ l := by
  induction l with
  | nil => simp [insertBy]
  | cons z zs ih =>
    unfold insertBy
    split
    · simp
    · simp only [List.mem_cons, ih]
      constructor
      · rintro (h | h | h)
        · exact Or.inr (Or.inl h)
        · exact Or.inl h
        · exact Or.inr (Or.inr h)
      · rintro (h | h | h)
        · exact Or.inr (Or.inl h)
        · exact Or.inl h
        · exact Or.inr (Or.inr h)

theorem insertBy_perm {α : Type} (lt : α → α → Bool) (x : α) (l : List α) : (insertBy lt x l).Perm (x :: l) := by
  induction l with
  | nil => exact List.Perm.refl _
  | cons z zs ih =>
    unfold insertBy
    split
    · exact List.Perm.refl _
    · exact (List.Perm.cons z ih).trans (List.Perm.swap x z zs)

theorem sortBy_perm {α : Type} (lt : α → α → Bool) (l : List α) : (sortBy lt l).Perm l := by
  induction l with
  | nil => exact List.Perm.refl _
  | cons x xs ih =>
    show (insertBy lt x (sortBy lt xs)).Perm (x :: xs)
    exact (insertBy_perm lt x _).trans (List.Perm.cons x ih)

theorem mem_sortBy {α : Type} (lt : α → α → Bool) (l : List α) (x : α) : x ∈ sortBy lt l ↔ x ∈ l :=
  (sortBy_perm lt l).mem_iff

/-- sorted: no later element is strictly smaller than an earlier one -/
theorem insertBy_sorted {α : Type} (lt : α → α → Bool)
    (trans : ∀ a b c, lt a b = true → lt b c = true → lt a c = true)
    (asymm : ∀ a b, lt a b = true → lt b a = false)
    (x : α) (l : List α) (h : l.Pairwise (fun a b => lt b a = false)) :
    (insertBy lt x l).Pairwise (fun a b => lt b a = false) := by
  induction l with
  | nil => exact List.pairwise_singleton _ _
  | cons z zs ih =>
    rw [List.pairwise_cons] at h
    unfold insertBy
    split
    · rename_i hxz
      refine List.pairwise_cons.mpr ⟨?_, List.pairwise_cons.mpr h⟩
      intro y hy
      rcases List.mem_cons.mp hy with rfl | hy
      · exact asymm _ _ hxz
      · have := h.1 y hy
        cases hyx : lt y x with
        | false => rfl
        | true => rw [trans y x z hyx hxz] at this; exact this
    · rename_i hxz
      refine List.pairwise_cons.mpr ⟨?_, ih h.2⟩
      intro y hy
      rcases (mem_insertBy lt x y zs).mp hy with rfl | hy
      · simpa using hxz
      · exact h.1 y hy

theorem sortBy_sorted {α : Type} (lt : α → α → Bool)
    (trans : ∀ a b c, lt a b = true → lt b c = true → lt a c = true)
    (asymm : ∀ a b, lt a b = true → lt b a = false)
    (l : List α) : (sortBy lt l).Pairwise (fun a b => lt b a = false) := by
  induction l with
  | nil => exact List.Pairwise.nil
  | cons x xs ih => exact insertBy_sorted lt trans asymm x _ ih

theorem suiteLt_trans (a b c : Suite) (h1 : suiteLt a b = true) (h2 : suiteLt b c = true) : suiteLt a c = true := by
  simp only [suiteLt, Bool.or_eq_true, decide_eq_true_eq, Bool.and_eq_true] at *
  rcases h1 with h1 | ⟨e1, l1⟩ <;> rcases h2 with h2 | ⟨e2, l2⟩
  · left; omega
  · left; omega
  · left; omega
  · right; exact ⟨by omega, bytesLt_trans _ _ _ l1 l2⟩

theorem suiteLt_asymm (a b : Suite) (h : suiteLt a b = true) : suiteLt b a = false := by
  simp only [suiteLt, Bool.or_eq_true, decide_eq_true_eq, Bool.and_eq_true] at h
  simp only [suiteLt, Bool.or_eq_false_iff, decide_eq_false_iff_not, Bool.and_eq_false_iff]
  rcases h with h | ⟨e, l⟩
  · exact ⟨by omega, Or.inl (by omega)⟩
  · exact ⟨by omega, Or.inr (bytesLt_asymm _ _ l)⟩

/-! ### `addRun` -/

def lookup (suites : List Suite) (nm : Bytes) : Option Suite := suites.find? (fun s => decide (s.name = nm))

def hasRun (s : Suite) (i : Nat) : Bool := s.runs.any (fun r => r.inv == i)

/-- the suite after `addRun` hit it -/
def bump (s : Suite) (run : Run) : Suite :=
  if hasRun s run.inv then s
  else { s with fail := s.fail + (if run.status.failure then 1 else 0), runs := s.runs ++ [run] }

def fresh (name : Bytes) (run : Run) : Suite :=
  { name := name, fail := if run.status.failure then 1 else 0, runs := [run] }

theorem addRun_lookup_other (suites : List Suite) (name : Bytes) (run : Run) (nm : Bytes) (h : nm ≠ name) :
    lookup (addRun suites name run).1 nm = lookup suites nm := by
  induction suites with
  | nil => simp [addRun, lookup, List.find?]; exact fun e => h e.symm
  | cons s rest ih =>
    unfold addRun
    by_cases e : s.name = name
    · rw [if_pos e]
      split
      · rfl
      · simp only [lookup, List.find?]
        have : ¬ s.name = nm := fun e2 => h (e2.symm.trans e)
        simp [this]
    · rw [if_neg e]
      simp only [lookup, List.find?] at ih ⊢
      by_cases e2 : s.name = nm
      · simp [e2]
      · simp only [e2, decide_false]
        exact ih

theorem addRun_lookup_self (suites : List Suite) (name : Bytes) (run : Run) :
    lookup (addRun suites name run).1 name =
      some (match lookup suites name with | none => fresh name run | some s => bump s run) ∧
    (addRun suites name run).2 = (match lookup suites name with | none => true | some s => !hasRun s run.inv) := by
  induction suites with
  | nil => simp [addRun, lookup, List.find?, fresh]
  | cons s rest ih =>
    unfold addRun
    by_cases e : s.name = name
    · rw [if_pos e]
      simp only [lookup, List.find?, e, decide_true]
      by_cases hd : (s.runs.any fun r => r.inv == run.inv) = true
      · rw [if_pos hd]
        simp [List.find?, e, bump, hasRun, hd]
      · rw [if_neg hd]
        simp only [Bool.not_eq_true] at hd
        simp [List.find?, e, bump, hasRun, hd]
    · rw [if_neg e]
      simp only [lookup, List.find?, e, decide_false] at ih ⊢
      exact ih

theorem addRun_names (suites : List Suite) (name : Bytes) (run : Run) :
    (addRun suites name run).1.map (·.name) =
      if name ∈ suites.map (·.name) then suites.map (·.name) else suites.map (·.name) ++ [name] := by
  induction suites with
  | nil => simp [addRun]
  | cons s rest ih =>
    unfold addRun
    by_cases e : s.name = name
    · rw [if_pos e]
      split <;> simp [e]
    · rw [if_neg e]
      simp only [List.map_cons, List.mem_cons, ih]
      have : ¬ name = s.name := fun e2 => e e2.symm
      by_cases hm : name ∈ rest.map (·.name)
      · simp [hm]
      · simp [hm, this]

theorem lookup_some_mem {suites : List Suite} {nm : Bytes} {s : Suite} (h : lookup suites nm = some s) :
    s ∈ suites ∧ s.name = nm := by
  unfold lookup at h
  exact ⟨List.mem_of_find?_eq_some h, by have := List.find?_some h; simpa using this⟩

theorem mem_lookup {suites : List Suite} (hnd : (suites.map (·.name)).Nodup) {s : Suite} (h : s ∈ suites) :
    lookup suites s.name = some s := by
  induction suites with
  | nil => cases h
  | cons x xs ih =>
    simp only [List.map_cons, List.nodup_cons] at hnd
    rcases List.mem_cons.mp h with rfl | h
    · simp [lookup, List.find?]
    · have hne : ¬ x.name = s.name := by
        intro e; apply hnd.1; rw [e]; exact List.mem_map.mpr ⟨s, h, rfl⟩
      simp only [lookup, List.find?, hne, decide_false]
      exact ih hnd.2 h

/-! ### cells -/

def cellOpt (o : Option Suite) (j : Nat) : Option (Status × Bytes) := o.bind (fun s => cell s j)

def recCell (inv : Invocation) (rc : Rec) : Status × Bytes := (classify rc.exit rc.log, linkOf inv rc)

theorem hasRun_iff (s : Suite) (i : Nat) : hasRun s i = (cell s i).isSome := by
  unfold hasRun cell
  rw [Option.isSome_map]
  induction s.runs with
  | nil => rfl
  | cons r rs ih =>
    simp only [List.any_cons, List.find?]
    cases h : (r.inv == i) <;> simp [ih]

theorem cell_bump (s : Suite) (run : Run) (j : Nat) :
    cell (bump s run) j =
      if j = run.inv then (match cell s j with | some c => some c | none => some (run.status, run.link)) else cell s j := by
  unfold bump
  by_cases hh : hasRun s run.inv = true
  · rw [if_pos hh]
    by_cases e : j = run.inv
    · rw [if_pos e]
      rw [hasRun_iff] at hh
      subst e
      cases hc : cell s run.inv with
      | none => rw [hc] at hh; cases hh
      | some c => rfl
    · rw [if_neg e]
  · rw [if_neg hh]
    simp only [Bool.not_eq_true] at hh
    have hcell : cell s run.inv = none := by
      rw [hasRun_iff] at hh
      cases hc : cell s run.inv with
      | none => rfl
      | some c => rw [hc] at hh; cases hh
    by_cases e : j = run.inv
    · rw [if_pos e]
      subst e
      rw [hcell]
      unfold cell at hcell ⊢
      simp only [Option.map_eq_none_iff] at hcell
      simp only [List.find?_append, hcell, List.find?, beq_self_eq_true, Option.none_or, Option.map_some]
    · rw [if_neg e]
      unfold cell
      have : (run.inv == j) = false := by simp; exact fun e2 => e e2.symm
      simp only [List.find?_append, List.find?, this, Option.or_none]

theorem cell_fresh (name : Bytes) (run : Run) (j : Nat) :
    cell (fresh name run) j = if j = run.inv then some (run.status, run.link) else none := by
  unfold cell fresh
  by_cases e : j = run.inv
  · subst e; simp [List.find?]
  · have : (run.inv == j) = false := by simp; exact fun e2 => e e2.symm
    simp [List.find?, this, e]

/-- one step.csv row -/
theorem addRun_cells (suites : List Suite) (name : Bytes) (run : Run) (nm : Bytes) (j : Nat) :
    cellOpt (lookup (addRun suites name run).1 nm) j =
      if nm = name ∧ j = run.inv then
        (match cellOpt (lookup suites nm) j with | some c => some c | none => some (run.status, run.link))
      else cellOpt (lookup suites nm) j := by
  by_cases hn : nm = name
  · subst hn
    rw [(addRun_lookup_self suites nm run).1]
    cases hl : lookup suites nm with
    | none =>
      simp only [cellOpt, Option.bind_some, Option.bind_none, cell_fresh]
      by_cases e : j = run.inv <;> simp [e]
    | some s =>
      simp only [cellOpt, Option.bind_some, cell_bump]
      by_cases e : j = run.inv <;> simp [e]
  · rw [addRun_lookup_other suites name run nm hn]
    simp [hn]

theorem parseRecs_spec (i : Nat) (inv : Invocation) : ∀ (recs : List Rec) (suites : List Suite) (total fail : Nat),
    (suites.map (·.name)).Nodup →
    ((parseRecs i inv recs (suites, total, fail)).1.map (·.name)).Nodup ∧
    (∀ nm, nm ∈ (parseRecs i inv recs (suites, total, fail)).1.map (·.name) ↔
      nm ∈ suites.map (·.name) ∨ ∃ rc ∈ recs, rc.suite = nm) ∧
    (∀ nm j, j ≠ i → cellOpt (lookup (parseRecs i inv recs (suites, total, fail)).1 nm) j = cellOpt (lookup suites nm) j) ∧
    (∀ nm, cellOpt (lookup (parseRecs i inv recs (suites, total, fail)).1 nm) i =
      match cellOpt (lookup suites nm) i with
      | some c => some c
      | none => (recs.find? (fun rc => decide (rc.suite = nm))).map (recCell inv)) := by
  intro recs
  induction recs with
  | nil =>
    intro suites total fail hnd
    refine ⟨hnd, fun nm => by simp [parseRecs], fun _ _ _ => rfl, fun nm => ?_⟩
    simp only [parseRecs, List.find?, Option.map_none]
    cases cellOpt (lookup suites nm) i <;> rfl
  | cons r rs ih =>
    intro suites total fail hnd
    simp only [parseRecs]
    have hnames := addRun_names suites r.suite { inv := i, status := classify r.exit r.log, link := linkOf inv r }
    have hnd' : ((addRun suites r.suite { inv := i, status := classify r.exit r.log, link := linkOf inv r }).1.map (·.name)).Nodup := by
      rw [hnames]
      split
      · exact hnd
      · rename_i hm
        exact List.nodup_append.mpr ⟨hnd, (List.pairwise_singleton _ _), fun a ha b hb => by
          rw [List.mem_singleton] at hb; subst hb; exact fun e => hm (e ▸ ha)⟩
    obtain ⟨h1, h2, h3, h4⟩ := ih _ (if (addRun suites r.suite { inv := i, status := classify r.exit r.log, link := linkOf inv r }).2 then total + 1 else total)
      (if ((addRun suites r.suite { inv := i, status := classify r.exit r.log, link := linkOf inv r }).2 && (classify r.exit r.log).failure) then fail + 1 else fail) hnd'
    refine ⟨h1, ?_, ?_, ?_⟩
    · intro nm
      rw [h2 nm, hnames]
      constructor
      · rintro (hm | ⟨rc, hrc, e⟩)
        · split at hm
          · exact Or.inl hm
          · rcases List.mem_append.mp hm with hm | hm
            · exact Or.inl hm
            · rw [List.mem_singleton] at hm
              exact Or.inr ⟨r, List.mem_cons_self, hm.symm⟩
        · exact Or.inr ⟨rc, List.mem_cons_of_mem _ hrc, e⟩
      · rintro (hm | ⟨rc, hrc, e⟩)
        · left; split
          · exact hm
          · exact List.mem_append_left _ hm
        · rcases List.mem_cons.mp hrc with rfl | hrc
          · left; split
            · rename_i hm; rw [← e]; exact hm
            · rw [← e]; exact List.mem_append_right _ (List.mem_singleton.mpr rfl)
          · exact Or.inr ⟨rc, hrc, e⟩
    · intro nm j hj
      rw [h3 nm j hj, addRun_cells]
      rw [if_neg (fun h => hj h.2)]
    · intro nm
      rw [h4 nm, addRun_cells]
      by_cases e : nm = r.suite
      · rw [if_pos ⟨e, rfl⟩]
        have : decide (r.suite = nm) = true := by simp [e]
        simp only [List.find?, this]
        cases cellOpt (lookup suites nm) i with
        | some c => rfl
        | none => rfl
      · rw [if_neg (fun h => e h.1)]
        have : decide (r.suite = nm) = false := by simp; exact fun e2 => e e2.symm
        simp only [List.find?, this]

/-! ### the whole parse -/

/-- what the property demands of the cell of suite `nm` under invocation `j` -/
def specCell (invs : List Invocation) (nm : Bytes) (j : Nat) : Option (Status × Bytes) :=
  (invs[j]?).bind (fun inv => (inv.recs.find? (fun rc => decide (rc.suite = nm))).map (recCell inv))

structure ParseInv (p : Parsed) (done : List Invocation) : Prop where
  len : p.cols.length = done.length
  nodup : (p.suites.map (·.name)).Nodup
  names : ∀ nm, nm ∈ p.suites.map (·.name) ↔ ∃ inv ∈ done, ∃ rc ∈ inv.recs, rc.suite = nm
  cells : ∀ nm j, cellOpt (lookup p.suites nm) j = specCell done nm j
  colsId : ∀ k (c : Col), p.cols[k]? = some c → c.id = k ∧ ∃ inv, done[k]? = some inv ∧ c.arch = inv.arch ∧ c.date = inv.date ∧ c.time = inv.time

theorem parseInv_spec (p : Parsed) (done : List Invocation) (h : ParseInv p done) (inv : Invocation) :
    ParseInv (parseInv p inv) (done ++ [inv]) := by
  have hspec := parseRecs_spec p.cols.length inv inv.recs p.suites 0 0 h.nodup
  obtain ⟨h1, h2, h3, h4⟩ := hspec
  unfold parseInv
  refine ⟨?_, h1, ?_, ?_, ?_⟩
  · simp [h.len]
  · intro nm
    show nm ∈ (parseRecs p.cols.length inv inv.recs (p.suites, 0, 0)).1.map (·.name) ↔ _
    rw [h2 nm, h.names nm]
    constructor
    · rintro (⟨i0, hi0, rc, hrc, e⟩ | ⟨rc, hrc, e⟩)
      · exact ⟨i0, List.mem_append_left _ hi0, rc, hrc, e⟩
      · exact ⟨inv, List.mem_append_right _ (List.mem_singleton.mpr rfl), rc, hrc, e⟩
    · rintro ⟨i0, hi0, rc, hrc, e⟩
      rcases List.mem_append.mp hi0 with hi0 | hi0
      · exact Or.inl ⟨i0, hi0, rc, hrc, e⟩
      · rw [List.mem_singleton] at hi0; subst hi0
        exact Or.inr ⟨rc, hrc, e⟩
  · intro nm j
    show cellOpt (lookup (parseRecs p.cols.length inv inv.recs (p.suites, 0, 0)).1 nm) j = _
    by_cases e : j = p.cols.length
    · subst e
      rw [h4 nm, h.cells nm]
      have hnone : specCell done nm p.cols.length = none := by
        unfold specCell
        rw [h.len, List.getElem?_eq_none (Nat.le_refl _)]; rfl
      rw [hnone]
      unfold specCell
      rw [h.len]
      simp
    · rw [h3 nm j e, h.cells nm j]
      unfold specCell
      rw [h.len] at e
      by_cases hlt : j < done.length
      · rw [List.getElem?_append_left hlt]
      · have hgt : done.length < j := by omega
        rw [List.getElem?_eq_none (by omega), List.getElem?_eq_none (by simp; omega)]
  · intro k c hk
    show c.id = k ∧ _
    by_cases hlt : k < p.cols.length
    · have hk' : (p.cols ++ [_])[k]? = some c := hk
      rw [List.getElem?_append_left hlt] at hk'
      obtain ⟨e1, i0, e2, e3⟩ := h.colsId k c hk'
      refine ⟨e1, i0, ?_, e3⟩
      rw [List.getElem?_append_left (by rw [← h.len]; exact hlt)]
      exact e2
    · have hk' : (p.cols ++ [_])[k]? = some c := hk
      have hge : p.cols.length ≤ k := by omega
      rw [List.getElem?_append_right hge] at hk'
      have hk0 : k - p.cols.length = 0 := by
        by_cases hne : k - p.cols.length = 0
        · exact hne
        · exfalso
          rw [List.getElem?_eq_none (by simp; omega)] at hk'
          cases hk'
      rw [hk0] at hk'
      simp only [List.getElem?_cons_zero, Option.some.injEq] at hk'
      have hkeq : k = p.cols.length := by omega
      subst hk'
      refine ⟨hkeq.symm, inv, ?_, rfl, rfl, rfl⟩
      rw [hkeq, h.len, List.getElem?_append_right (Nat.le_refl _)]
      simp

theorem parseAll_spec (invs : List Invocation) : ParseInv (parseAll invs) invs := by
  unfold parseAll
  suffices ∀ (rest done : List Invocation) (p : Parsed), ParseInv p done → ParseInv (rest.foldl parseInv p) (done ++ rest) by
    have h0 : ParseInv ⟨[], []⟩ [] :=
      ⟨rfl, List.nodup_nil, fun nm => by simp, fun nm j => by simp [lookup, cellOpt, specCell], fun k c hk => by simp at hk⟩
    simpa using this invs [] _ h0
  intro rest
  induction rest with
  | nil => intro done p h; simpa using h
  | cons x xs ih =>
    intro done p h
    have := ih (done ++ [x]) (parseInv p x) (parseInv_spec p done h x)
    simpa [List.append_assoc] using this

theorem getD_dropTrailingNone {α : Type} (l : List (Option α)) (k : Nat) :
    (dropTrailingNone l).getD k none = l.getD k none := by
  induction l generalizing k with
  | nil => rfl
  | cons x xs ih =>
    unfold dropTrailingNone
    split
    · rename_i heq
      have := ih
      rw [heq] at this
      cases k with
      | zero => simp
      | succ k => simpa using (this k)
    · cases k with
      | zero => simp
      | succ k => simpa using ih k

end RegressHtml
end Robsd
