import Robsd.Lemmas.Arena
/-
  The arena invariant and its preservation by every operation (helper lemmas
  for C19; the property theorems are in Props/C19.lean).
-/
namespace Robsd
namespace Arena

def Block.fin (b : Block) : Nat := b.off + b.size

/-- a newer block `c` against an older block `b` of the same frame: `c` starts
    at or after the bump pointer `b` left behind; the only exception is an empty
    `c` (no poison) that `b` has since grown over in place -/
def After (P : Nat) (c b : Block) : Prop :=
  c.h = b.h → b.off ≤ c.off ∧ (clampA P b.cap b.fin ≤ c.off ∨ (c.size = 0 ∧ P = 0))

/-- an outer scope was entered at or before the position of an inner one -/
def ScBefore (outer inner : Scope) : Prop :=
  outer.depth < inner.depth ∧ (outer.h < inner.h ∨ (outer.h = inner.h ∧ outer.len ≤ inner.len))

structure Core (p : Params) (s : St) : Prop where
  fr_ne : s.frames ≠ []
  fr_ok : ∀ f ∈ s.frames, 8 ∣ f.size ∧ 8 ∣ f.len ∧ p.hdr ≤ f.len ∧ f.len ≤ f.size
  fr_sorted : s.frames.Pairwise (fun a b => b.h < a.h)
  bl_fr : ∀ b ∈ s.blocks, ∃ f ∈ s.frames, f.h = b.h ∧ f.size = b.cap ∧ clampA p.P b.cap b.fin ≤ f.len
  bl_ok : ∀ b ∈ s.blocks, 8 ∣ b.off ∧ p.hdr ≤ b.off ∧ b.fin ≤ b.cap
  bl_ord : s.blocks.Pairwise (fun c b => After p.P c b ∧ c.id ≠ b.id)
  sc_ok : ∀ sc ∈ s.scopes, 8 ∣ sc.len ∧ p.hdr ≤ sc.len ∧ ∃ f ∈ s.frames, f.h = sc.h ∧ sc.len ≤ f.len
  sc_sorted : s.scopes.Pairwise (fun inner outer => ScBefore outer inner)
  bl_sc : ∀ b ∈ s.blocks, ∃ sc ∈ s.scopes, sc.depth = b.depth
  bl_before : ∀ b ∈ s.blocks, ∀ sc ∈ s.scopes, b.depth < sc.depth →
    b.h < sc.h ∨ (b.h = sc.h ∧ clampA p.P b.cap b.fin ≤ sc.len)

theorem frame_unique {l : List Frame} (hs : l.Pairwise (fun a b => b.h < a.h)) {f g : Frame}
    (hf : f ∈ l) (hg : g ∈ l) (h : f.h = g.h) : f = g := by
  induction l with
  | nil => cases hf
  | cons x xs ih =>
    rw [List.pairwise_cons] at hs
    rcases List.mem_cons.mp hf with rfl | hf' <;> rcases List.mem_cons.mp hg with rfl | hg'
    · rfl
    · have := hs.1 g hg'; omega
    · have := hs.1 f hf'; omega
    · exact ih hs.2 hf' hg'

theorem block_unique {R : Block → Block → Prop} {l : List Block} (hs : l.Pairwise (fun c b => R c b ∧ c.id ≠ b.id))
    {c b : Block} (hc : c ∈ l) (hb : b ∈ l) (h : c.id = b.id) : c = b := by
  induction l with
  | nil => cases hc
  | cons x xs ih =>
    rw [List.pairwise_cons] at hs
    rcases List.mem_cons.mp hc with rfl | hc' <;> rcases List.mem_cons.mp hb with rfl | hb'
    · rfl
    · exact absurd h (hs.1 b hb').2
    · exact absurd h.symm (hs.1 c hc').2
    · exact ih hs.2 hc' hb'

theorem pairwise_rel_or {α : Type} {R : α → α → Prop} {l : List α} (hs : l.Pairwise R) {c b : α}
    (hc : c ∈ l) (hb : b ∈ l) (hne : c ≠ b) : R c b ∨ R b c := by
  induction l with
  | nil => cases hc
  | cons x xs ih =>
    rw [List.pairwise_cons] at hs
    rcases List.mem_cons.mp hc with rfl | hc' <;> rcases List.mem_cons.mp hb with rfl | hb'
    · exact absurd rfl hne
    · exact Or.inl (hs.1 b hb')
    · exact Or.inr (hs.1 c hc')
    · exact ih hs.2 hc' hb'

theorem core_congr {p : Params} {s s' : St} (h : Core p s) (hf : s'.frames = s.frames) (hb : s'.blocks = s.blocks)
    (hs : s'.scopes = s.scopes) : Core p s' := by
  obtain ⟨a1, a2, a3, a4, a5, a6, a7, a8, a9, a10⟩ := h
  exact ⟨hf ▸ a1, hf ▸ a2, hf ▸ a3, by rw [hf, hb]; exact a4, hb ▸ a5, hb ▸ a6, by rw [hf, hs]; exact a7, hs ▸ a8,
    by rw [hb, hs]; exact a9, by rw [hb, hs]; exact a10⟩

/-- the innermost scope is the deepest -/
theorem curDepth_max {p : Params} {s : St} (h : Core p s) : ∀ sc ∈ s.scopes, sc.depth ≤ curDepth s := by
  intro sc hsc
  unfold curDepth
  have hs := h.sc_sorted
  match hsq : s.scopes, hsc, hs with
  | x :: xs, hsc, hs =>
    rw [List.pairwise_cons] at hs
    rcases List.mem_cons.mp hsc with rfl | hm
    · exact Nat.le_refl _
    · exact Nat.le_of_lt (hs.1 sc hm).1

theorem curDepth_mem {s : St} (h : s.scopes ≠ []) : ∃ sc ∈ s.scopes, sc.depth = curDepth s := by
  unfold curDepth
  match hsq : s.scopes, h with
  | x :: xs, _ => exact ⟨x, List.mem_cons_self, rfl⟩

/-- frames only grow: what `arena_malloc` and the in-place realloc do to them -/
def FramesGrow (old new : List Frame) : Prop :=
  ∀ g ∈ old, ∃ g' ∈ new, g'.h = g.h ∧ g'.size = g.size ∧ g.len ≤ g'.len

/-- adding a block on top -/
theorem core_push_block {p : Params} {s : St} (h : Core p s) (fr' : List Frame) (b : Block)
    (hne : fr' ≠ [])
    (hok : ∀ f ∈ fr', 8 ∣ f.size ∧ 8 ∣ f.len ∧ p.hdr ≤ f.len ∧ f.len ≤ f.size)
    (hsorted : fr'.Pairwise (fun a b => b.h < a.h))
    (hgrow : FramesGrow s.frames fr')
    (hbf : ∃ f ∈ fr', f.h = b.h ∧ f.size = b.cap ∧ clampA p.P b.cap b.fin ≤ f.len)
    (hbok : 8 ∣ b.off ∧ p.hdr ≤ b.off ∧ b.fin ≤ b.cap)
    (hafter : ∀ c ∈ s.blocks, After p.P b c ∧ b.id ≠ c.id)
    (hdepth : b.depth = curDepth s) (hsc : s.scopes ≠ []) :
    Core p { s with frames := fr', blocks := b :: s.blocks } := by
  refine ⟨hne, hok, hsorted, ?_, ?_, ?_, ?_, h.sc_sorted, ?_, ?_⟩
  · intro c hc
    rcases List.mem_cons.mp hc with rfl | hc
    · exact hbf
    · obtain ⟨g, hg, h1, h2, h3⟩ := h.bl_fr c hc
      obtain ⟨g', hg', e1, e2, e3⟩ := hgrow g hg
      exact ⟨g', hg', by omega, by omega, by omega⟩
  · intro c hc
    rcases List.mem_cons.mp hc with rfl | hc
    · exact hbok
    · exact h.bl_ok c hc
  · exact List.pairwise_cons.mpr ⟨hafter, h.bl_ord⟩
  · intro sc hsc'
    obtain ⟨h1, h2, g, hg, h3, h4⟩ := h.sc_ok sc hsc'
    obtain ⟨g', hg', e1, e2, e3⟩ := hgrow g hg
    exact ⟨h1, h2, g', hg', by omega, by omega⟩
  · intro c hc
    rcases List.mem_cons.mp hc with rfl | hc
    · obtain ⟨sc, hm, he⟩ := curDepth_mem hsc
      exact ⟨sc, hm, by omega⟩
    · exact h.bl_sc c hc
  · intro c hc sc hsc' hlt
    rcases List.mem_cons.mp hc with rfl | hc
    · have := curDepth_max h sc hsc'; omega
    · exact h.bl_before c hc sc hsc' hlt

/-- `arena_malloc` from the innermost scope: never fails, keeps the invariant,
    and the new block lies beyond every live block of its frame -/
theorem core_alloc {p : Params} (hp : p.ok) {s : St} (h : Core p s) (hsc : s.scopes ≠ []) (n id : Nat)
    (hid : ∀ c ∈ s.blocks, c.id ≠ id) :
    ∃ fr b, alloc p s n id = some ({ s with frames := fr, blocks := b :: s.blocks }, b) ∧
      Core p { s with frames := fr, blocks := b :: s.blocks } ∧
      b.id = id ∧ b.size = n ∧ b.depth = curDepth s ∧ FramesGrow s.frames fr ∧
      (∀ c ∈ s.blocks, c.h = b.h → c.fin ≤ b.off) := by
  obtain ⟨hpos, h8, hfz, hP8, hle⟩ := hp
  have hp : p.ok := ⟨hpos, h8, hfz, hP8, hle⟩
  match hfr : s.frames, h.fr_ne with
  | f :: fs, _ =>
    have hfok := h.fr_ok f (by rw [hfr]; exact List.mem_cons_self)
    have hsorted := h.fr_sorted
    rw [hfr, List.pairwise_cons] at hsorted
    -- every live block of frame f ends at or before the bump pointer
    have htop : ∀ c ∈ s.blocks, c.h = f.h → c.cap = f.size ∧ clampA p.P c.cap c.fin ≤ f.len ∧ c.fin ≤ f.len := by
      intro c hc hh
      obtain ⟨g, hg, h1, h2, h3⟩ := h.bl_fr c hc
      have : g = f := frame_unique h.fr_sorted hg (by rw [hfr]; exact List.mem_cons_self) (by omega)
      subst this
      have := clampA_ge (P := p.P) (h.bl_ok c hc).2.2
      exact ⟨by omega, h3, by omega⟩
    rcases mallocCore_spec hp (fs := fs) n ⟨hfok.2.2.1, hfok.2.2.2⟩ with ⟨hfit, hm⟩ | ⟨hnofit, sz, hsz8, hszge, hm⟩
    · -- the block fits into the current frame
      let f' : Frame := { f with len := clampA p.P f.size (f.len + n) }
      let b : Block := { id := id, h := f.h, off := f.len, size := n, depth := curDepth s, cap := f.size }
      have hge := clampA_ge (P := p.P) hfit
      have hgrow : FramesGrow s.frames (f' :: fs) := by
        intro g hg
        rw [hfr] at hg
        rcases List.mem_cons.mp hg with rfl | hg
        · exact ⟨f', List.mem_cons_self, rfl, rfl, by show g.len ≤ clampA p.P g.size (g.len + n); omega⟩
        · exact ⟨g, List.mem_cons_of_mem _ hg, rfl, rfl, Nat.le_refl _⟩
      refine ⟨f' :: fs, b, ?_, ?_, rfl, rfl, rfl, hfr ▸ hgrow, ?_⟩
      · simp only [alloc, hfr, hm]; rfl
      · refine core_push_block h (f' :: fs) b (List.cons_ne_nil _ _) ?_ ?_ hgrow ?_ ?_ ?_ rfl hsc
        · intro g hg
          rcases List.mem_cons.mp hg with rfl | hg
          · refine ⟨hfok.1, clampA_dvd hP8 hfok.1, ?_, Nat.min_le_right _ _⟩
            show p.hdr ≤ clampA p.P f.size (f.len + n); omega
          · exact h.fr_ok g (by rw [hfr]; exact List.mem_cons_of_mem _ hg)
        · exact List.pairwise_cons.mpr ⟨hsorted.1, hsorted.2⟩
        · exact ⟨f', List.mem_cons_self, rfl, rfl, Nat.le_refl _⟩
        · exact ⟨hfok.2.1, hfok.2.2.1, hfit⟩
        · intro c hc
          refine ⟨?_, fun e => hid c hc e.symm⟩
          intro hh
          have := htop c hc hh.symm
          have := (h.bl_ok c hc)
          simp only [Block.fin] at *
          exact ⟨by show c.off ≤ f.len; omega, Or.inl (by show clampA p.P c.cap (c.off + c.size) ≤ f.len; omega)⟩
      · intro c hc hh
        exact (htop c hc hh).2.2
    · -- a new frame
      let f2 : Frame := { h := f.h + 1, size := sz, len := clampA p.P sz (p.hdr + p.P + n) }
      let b : Block := { id := id, h := f.h + 1, off := p.hdr + p.P, size := n, depth := curDepth s, cap := sz }
      have hge := clampA_ge (P := p.P) hszge
      have hgrow : FramesGrow s.frames (f2 :: f :: fs) := by
        intro g hg
        rw [hfr] at hg
        exact ⟨g, List.mem_cons_of_mem _ hg, rfl, rfl, Nat.le_refl _⟩
      have hnone : ∀ c ∈ s.blocks, c.h ≠ f.h + 1 := by
        intro c hc hh
        obtain ⟨g, hg, h1, _, _⟩ := h.bl_fr c hc
        rw [hfr] at hg
        rcases List.mem_cons.mp hg with rfl | hg
        · omega
        · have := hsorted.1 g hg; omega
      refine ⟨f2 :: f :: fs, b, ?_, ?_, rfl, rfl, rfl, hfr ▸ hgrow, ?_⟩
      · simp only [alloc, hfr, hm]; rfl
      · refine core_push_block h (f2 :: f :: fs) b (List.cons_ne_nil _ _) ?_ ?_ hgrow ?_ ?_ ?_ rfl hsc
        · intro g hg
          rcases List.mem_cons.mp hg with rfl | hg
          · refine ⟨hsz8, clampA_dvd hP8 hsz8, ?_, Nat.min_le_right _ _⟩
            show p.hdr ≤ clampA p.P sz (p.hdr + p.P + n); omega
          · exact h.fr_ok g (by rw [hfr]; exact hg)
        · refine List.pairwise_cons.mpr ⟨?_, List.pairwise_cons.mpr ⟨hsorted.1, hsorted.2⟩⟩
          intro g hg
          rcases List.mem_cons.mp hg with rfl | hg
          · show g.h < g.h + 1; omega
          · have := hsorted.1 g hg; show g.h < f.h + 1; omega
        · exact ⟨f2, List.mem_cons_self, rfl, rfl, by show clampA p.P sz (p.hdr + p.P + n) ≤ clampA p.P sz (p.hdr + p.P + n); omega⟩
        · refine ⟨?_, ?_, ?_⟩
          · show 8 ∣ p.hdr + p.P; omega
          · show p.hdr ≤ p.hdr + p.P; omega
          · show p.hdr + p.P + n ≤ sz; omega
        · intro c hc
          refine ⟨fun hh => absurd hh.symm (hnone c hc), fun e => hid c hc e.symm⟩
      · intro c hc hh
        exact absurd hh (hnone c hc)

/-- forgetting blocks (the old copy after a spilling realloc) -/
theorem core_filter {p : Params} {s : St} (h : Core p s) (q : Block → Bool) :
    Core p { s with blocks := s.blocks.filter q } := by
  refine ⟨h.fr_ne, h.fr_ok, h.fr_sorted, ?_, ?_, ?_, h.sc_ok, h.sc_sorted, ?_, ?_⟩
  · intro b hb; exact h.bl_fr b (List.mem_filter.mp hb).1
  · intro b hb; exact h.bl_ok b (List.mem_filter.mp hb).1
  · exact h.bl_ord.filter q
  · intro b hb; exact h.bl_sc b (List.mem_filter.mp hb).1
  · intro b hb; exact h.bl_before b (List.mem_filter.mp hb).1

/-- replacing one block in place (shrink, or growth of the most recent block) -/
theorem core_replace {p : Params} {s : St} (h : Core p s) (fr' : List Frame) (b same : Block)
    (hb : b ∈ s.blocks)
    (hne : fr' ≠ [])
    (hok : ∀ f ∈ fr', 8 ∣ f.size ∧ 8 ∣ f.len ∧ p.hdr ≤ f.len ∧ f.len ≤ f.size)
    (hsorted : fr'.Pairwise (fun a b => b.h < a.h))
    (hgrow : FramesGrow s.frames fr')
    (hid : same.id = b.id) (hh : same.h = b.h) (hoff : same.off = b.off) (hcap : same.cap = b.cap)
    (hdepth : same.depth = curDepth s) (hsc : s.scopes ≠ [])
    (hfin : same.fin ≤ same.cap)
    (hsf : ∃ f ∈ fr', f.h = same.h ∧ f.size = same.cap ∧ clampA p.P same.cap same.fin ≤ f.len)
    (hnewer : ∀ c ∈ s.blocks, c.id ≠ b.id → After p.P c b → After p.P c same)
    (holder : ∀ c ∈ s.blocks, c.id ≠ b.id → After p.P b c → After p.P same c) :
    Core p { s with frames := fr', blocks := s.blocks.map (fun c => if c.id == b.id then same else c) } := by
  have hmem : ∀ c ∈ s.blocks.map (fun c => if c.id == b.id then same else c), c = same ∨ (c ∈ s.blocks ∧ c.id ≠ b.id) := by
    intro c hc
    obtain ⟨c0, hc0, rfl⟩ := List.mem_map.mp hc
    by_cases e : c0.id = b.id
    · left; simp [e]
    · right; simp [e, hc0]
  refine ⟨hne, hok, hsorted, ?_, ?_, ?_, ?_, h.sc_sorted, ?_, ?_⟩
  · intro c hc
    rcases hmem c hc with rfl | ⟨hc, _⟩
    · exact hsf
    · obtain ⟨g, hg, h1, h2, h3⟩ := h.bl_fr c hc
      obtain ⟨g', hg', e1, e2, e3⟩ := hgrow g hg
      exact ⟨g', hg', by omega, by omega, by omega⟩
  · intro c hc
    rcases hmem c hc with rfl | ⟨hc, _⟩
    · have := h.bl_ok b hb
      exact ⟨by omega, by omega, hfin⟩
    · exact h.bl_ok c hc
  · rw [List.pairwise_map]
    refine h.bl_ord.imp_of_mem ?_
    intro c d hc hd hcd
    obtain ⟨haf, hne'⟩ := hcd
    by_cases ec : c.id = b.id <;> by_cases ed : d.id = b.id
    · exact absurd (ec.trans ed.symm) hne'
    · have hcb : c = b := block_unique h.bl_ord hc hb ec
      subst hcb
      simp only [beq_self_eq_true, if_true, beq_iff_eq, ed, if_false]
      exact ⟨holder d hd ed haf, by omega⟩
    · have hdb : d = b := block_unique h.bl_ord hd hb ed
      subst hdb
      simp only [beq_self_eq_true, if_true, beq_iff_eq, ec, if_false]
      exact ⟨hnewer c hc ec haf, by omega⟩
    · simp only [beq_iff_eq, ec, ed, if_false]
      exact ⟨haf, hne'⟩
  · intro sc hsc'
    obtain ⟨h1, h2, g, hg, h3, h4⟩ := h.sc_ok sc hsc'
    obtain ⟨g', hg', e1, e2, e3⟩ := hgrow g hg
    exact ⟨h1, h2, g', hg', by omega, by omega⟩
  · intro c hc
    rcases hmem c hc with rfl | ⟨hc, _⟩
    · obtain ⟨sc, hm, he⟩ := curDepth_mem hsc
      exact ⟨sc, hm, by omega⟩
    · exact h.bl_sc c hc
  · intro c hc sc hsc' hlt
    rcases hmem c hc with rfl | ⟨hc, _⟩
    · have := curDepth_max h sc hsc'; omega
    · exact h.bl_before c hc sc hsc' hlt

theorem framesGrow_refl (l : List Frame) : FramesGrow l l :=
  fun g hg => ⟨g, hg, rfl, rfl, Nat.le_refl _⟩

/-- `arena_realloc` to a size not above the old one: the block stays where it is -/
theorem core_keep {p : Params} {s : St} (h : Core p s) (b : Block) (hb : b ∈ s.blocks) (n : Nat) (hn : n ≤ b.size)
    (hsc : s.scopes ≠ []) :
    Core p { s with blocks := s.blocks.map (fun c => if c.id == b.id then { b with size := n, depth := curDepth s } else c) } := by
  have hbok := h.bl_ok b hb
  have hmono : clampA p.P b.cap (b.off + n) ≤ clampA p.P b.cap b.fin := clampA_mono (by simp only [Block.fin]; omega)
  refine core_replace h s.frames b { b with size := n, depth := curDepth s } hb h.fr_ne h.fr_ok h.fr_sorted
    (framesGrow_refl _) rfl rfl rfl rfl rfl hsc ?_ ?_ ?_ ?_
  · simp only [Block.fin] at *; omega
  · obtain ⟨g, hg, h1, h2, h3⟩ := h.bl_fr b hb
    exact ⟨g, hg, h1, h2, by simp only [Block.fin] at *; omega⟩
  · intro c _ _ haf hh
    have := haf hh
    simp only [Block.fin] at *
    exact ⟨this.1, by rcases this.2 with h1 | h1; exact Or.inl (by omega); exact Or.inr h1⟩
  · intro c _ _ haf hh
    have := haf hh
    simp only [Block.fin] at *
    exact ⟨this.1, by rcases this.2 with h1 | h1; exact Or.inl h1; exact Or.inr ⟨by omega, h1.2⟩⟩

/-- the fast path of `arena_realloc`: the block is the most recent one of the
    current frame and grows in place -/
theorem core_grow {p : Params} (hp : p.ok) {s : St} (h : Core p s) (b : Block) (hb : b ∈ s.blocks)
    (f : Frame) (fs : List Frame) (hfr : s.frames = f :: fs) (old n : Nat) (hold : old ≤ b.size) (hn : old < n)
    (hh : b.h = f.h) (hlast : align8 (b.off + old) + p.P = f.len) (hfit : b.off + n ≤ f.size)
    (hsc : s.scopes ≠ []) :
    Core p { s with frames := { f with len := clampA p.P f.size (b.off + n) } :: fs,
                    blocks := s.blocks.map (fun c => if c.id == b.id then { b with size := n, depth := curDepth s } else c) } ∧
    (∀ c ∈ s.blocks, c.id ≠ b.id → c.h = b.h → c.size = 0 ∨ c.fin ≤ b.off) := by
  obtain ⟨hpos, h8, hfz, hP8, hle⟩ := hp
  have hfm : f ∈ s.frames := by rw [hfr]; exact List.mem_cons_self
  have hfok := h.fr_ok f hfm
  have hbok := h.bl_ok b hb
  have hsorted := h.fr_sorted
  rw [hfr, List.pairwise_cons] at hsorted
  -- facts about any block of the current frame
  have htop : ∀ c ∈ s.blocks, c.h = f.h → c.cap = f.size ∧ clampA p.P f.size c.fin ≤ f.len ∧ c.fin ≤ f.len ∧ c.fin ≤ f.size := by
    intro c hc hch
    obtain ⟨g, hg, h1, h2, h3⟩ := h.bl_fr c hc
    have : g = f := frame_unique h.fr_sorted hg hfm (by omega)
    subst this
    have := clampA_ge (P := p.P) (h.bl_ok c hc).2.2
    have := (h.bl_ok c hc).2.2
    exact ⟨by omega, by rw [← h2] at h3; exact h3, by omega, by omega⟩
  have hbtop := htop b hb hh
  -- the bump pointer is exactly what the block left behind
  have hlen_le : f.len ≤ clampA p.P f.size (b.off + n) := by
    have := align8_mono (show b.off + old ≤ b.off + n by omega)
    simp only [clampA]; omega
  have hge := clampA_ge (P := p.P) hfit
  let f' : Frame := { f with len := clampA p.P f.size (b.off + n) }
  have hgrow : FramesGrow s.frames (f' :: fs) := by
    intro g hg
    rw [hfr] at hg
    rcases List.mem_cons.mp hg with rfl | hg
    · exact ⟨f', List.mem_cons_self, rfl, rfl, hlen_le⟩
    · exact ⟨g, List.mem_cons_of_mem _ hg, rfl, rfl, Nat.le_refl _⟩
  -- every other non-empty block of the frame ends before this one starts
  have hothers : ∀ c ∈ s.blocks, c.id ≠ b.id → c.h = b.h → c.size = 0 ∨ c.fin ≤ b.off := by
    intro c hc hcid hch
    have hctop := htop c hc (by omega)
    have hcok := h.bl_ok c hc
    have ha8 : align8 b.off = b.off := align8_of_dvd hbok.1
    have hm := align8_mono (show b.off + old ≤ b.fin by simp only [Block.fin]; omega)
    rcases pairwise_rel_or h.bl_ord hc hb (fun e => hcid (by rw [e])) with ⟨haf, _⟩ | ⟨haf, _⟩
    · -- c is newer than b
      have := haf hch
      rcases this.2 with h1 | h1
      · left
        simp only [clampA, Block.fin] at *
        omega
      · exact Or.inl h1.1
    · -- c is older than b
      have := haf hch.symm
      have hcg := clampA_ge (P := p.P) hcok.2.2
      rcases this.2 with h1 | h1
      · right; omega
      · right
        have : old = 0 := by omega
        subst this
        simp only [Nat.add_zero, Block.fin] at *
        omega
  refine ⟨?_, hothers⟩
  have ha8 : align8 b.off = b.off := align8_of_dvd hbok.1
  have hfl8 : align8 f.len = f.len := align8_of_dvd hfok.2.1
  have hm := align8_mono (show b.off + old ≤ b.fin by simp only [Block.fin]; omega)
  refine core_replace h (f' :: fs) b { b with size := n, depth := curDepth s } hb (List.cons_ne_nil _ _) ?_ ?_ hgrow
    rfl rfl rfl rfl rfl hsc ?_ ?_ ?_ ?_
  · intro g hg
    rcases List.mem_cons.mp hg with rfl | hg
    · exact ⟨hfok.1, clampA_dvd hP8 hfok.1, by show p.hdr ≤ clampA p.P f.size (b.off + n); omega, Nat.min_le_right _ _⟩
    · exact h.fr_ok g (by rw [hfr]; exact List.mem_cons_of_mem _ hg)
  · exact List.pairwise_cons.mpr ⟨hsorted.1, hsorted.2⟩
  · show b.off + n ≤ b.cap; omega
  · refine ⟨f', List.mem_cons_self, hh.symm, hbtop.1.symm, ?_⟩
    show clampA p.P b.cap (b.off + n) ≤ clampA p.P f.size (b.off + n)
    rw [hbtop.1]; exact Nat.le_refl _
  · -- blocks newer than b: they are empty and sit at the old bump pointer
    intro c hc hcid haf hch
    have hctop := htop c hc (by show c.h = f.h; have : c.h = b.h := hch; omega)
    have hcok := h.bl_ok c hc
    have := haf hch
    refine ⟨this.1, ?_⟩
    rcases this.2 with h1 | h1
    · show clampA p.P b.cap (b.off + n) ≤ c.off ∨ (c.size = 0 ∧ p.P = 0)
      have hcoff : c.off = f.len ∧ c.size = 0 := by
        simp only [clampA, Block.fin] at *
        omega
      have hcl := hctop.2.1
      simp only [clampA, Block.fin, hcoff.1, hcoff.2, Nat.add_zero, hfl8] at hcl
      by_cases hP0 : p.P = 0
      · exact Or.inr ⟨hcoff.2, hP0⟩
      · left
        have : clampA p.P b.cap (b.off + n) ≤ b.cap := Nat.min_le_right _ _
        omega
    · exact Or.inr h1
  · -- blocks older than b
    intro c hc hcid haf hch
    have hch' : b.h = c.h := hch
    have hctop := htop c hc (by omega)
    have := haf hch'
    refine ⟨this.1, ?_⟩
    rcases this.2 with h1 | h1
    · exact Or.inl h1
    · left
      have : old = 0 := by omega
      subst this
      show clampA p.P c.cap c.fin ≤ b.off
      rw [hctop.1]
      simp only [Nat.add_zero] at hlast
      omega

theorem core_init {p : Params} (hp : p.ok) : Core p (init p) := by
  obtain ⟨hpos, h8, hfz, hP8, hle⟩ := hp
  have hfit : (0 : Nat) + p.hdr ≤ p.fsz := by omega
  have hpush := push_fits (P := p.P) (f := { h := 0, size := p.fsz, len := 0 }) (n := p.hdr) hfit
  have ha : align8 p.hdr = p.hdr := align8_of_dvd h8
  simp only [init, hpush]
  refine ⟨List.cons_ne_nil _ _, ?_, List.pairwise_singleton _ _, ?_, ?_, List.Pairwise.nil, ?_, List.Pairwise.nil, ?_, ?_⟩
  · intro f hf
    rw [List.mem_singleton] at hf
    subst hf
    simp only [alignP_eq hP8, Nat.zero_add, ha]
    refine ⟨hfz, ?_, ?_, Nat.min_le_right _ _⟩
    · have := clampA_dvd (P := p.P) (cap := p.fsz) (e := p.hdr) hP8 hfz
      simpa only [clampA, ha] using this
    · omega
  all_goals intro b hb; cases hb

theorem core_enter {p : Params} {s : St} (h : Core p s) (f : Frame) (fs : List Frame) (hfr : s.frames = f :: fs) :
    Core p { s with scopes := { depth := curDepth s + 1, h := f.h, len := f.len, cleanups := [] } :: s.scopes } := by
  have hfm : f ∈ s.frames := by rw [hfr]; exact List.mem_cons_self
  have hfok := h.fr_ok f hfm
  have hsorted := h.fr_sorted
  rw [hfr, List.pairwise_cons] at hsorted
  refine ⟨h.fr_ne, h.fr_ok, h.fr_sorted, h.bl_fr, h.bl_ok, h.bl_ord, ?_, ?_, ?_, ?_⟩
  · intro sc hsc
    rcases List.mem_cons.mp hsc with rfl | hsc
    · exact ⟨hfok.2.1, hfok.2.2.1, f, hfm, rfl, Nat.le_refl _⟩
    · exact h.sc_ok sc hsc
  · refine List.pairwise_cons.mpr ⟨?_, h.sc_sorted⟩
    intro outer ho
    have := curDepth_max h outer ho
    obtain ⟨_, _, g, hg, h1, h2⟩ := h.sc_ok outer ho
    rw [hfr] at hg
    refine ⟨by show outer.depth < curDepth s + 1; omega, ?_⟩
    rcases List.mem_cons.mp hg with rfl | hg
    · exact Or.inr ⟨h1.symm, h2⟩
    · have := hsorted.1 g hg; exact Or.inl (by show outer.h < f.h; omega)
  · intro b hb
    obtain ⟨sc, hm, he⟩ := h.bl_sc b hb
    exact ⟨sc, List.mem_cons_of_mem _ hm, he⟩
  · intro b hb sc hsc hlt
    rcases List.mem_cons.mp hsc with rfl | hsc
    · obtain ⟨g, hg, h1, h2, h3⟩ := h.bl_fr b hb
      rw [hfr] at hg
      rcases List.mem_cons.mp hg with rfl | hg
      · exact Or.inr ⟨h1.symm, h3⟩
      · have := hsorted.1 g hg; exact Or.inl (by show b.h < f.h; omega)
    · exact h.bl_before b hb sc hsc hlt

/-- in a list sorted by decreasing height, dropping the frames newer than `f` leaves `f` and the older ones -/
theorem dropWhile_sorted : ∀ {l : List Frame}, l.Pairwise (fun a b => b.h < a.h) → ∀ {f : Frame}, f ∈ l →
    ∃ post, l.dropWhile (fun g => g.h != f.h) = f :: post ∧ (∀ g ∈ post, g ∈ l ∧ g.h < f.h) ∧
      (∀ g ∈ l, g.h < f.h → g ∈ post) := by
  intro l
  induction l with
  | nil => intro _ f hf; cases hf
  | cons x xs ih =>
    intro hs f hf
    have hs' := List.pairwise_cons.mp hs
    by_cases hx : x.h = f.h
    · have : x = f := frame_unique hs List.mem_cons_self hf hx
      subst this
      refine ⟨xs, by simp [List.dropWhile], ?_, ?_⟩
      · intro g hg; exact ⟨List.mem_cons_of_mem _ hg, hs'.1 g hg⟩
      · intro g hg hlt
        rcases List.mem_cons.mp hg with rfl | hg
        · omega
        · exact hg
    · have hfx : f ∈ xs := by
        rcases List.mem_cons.mp hf with rfl | hf
        · exact absurd rfl hx
        · exact hf
      obtain ⟨post, h1, h2, h3⟩ := ih hs'.2 hfx
      refine ⟨post, ?_, ?_, ?_⟩
      · have hb : (x.h != f.h) = true := by simp [hx]
        rw [List.dropWhile_cons_of_pos (p := fun g => g.h != f.h) (a := x) hb]
        exact h1
      · intro g hg; exact ⟨List.mem_cons_of_mem _ (h2 g hg).1, (h2 g hg).2⟩
      · intro g hg hlt
        rcases List.mem_cons.mp hg with rfl | hg
        · have := hs'.1 f hfx; omega
        · exact h3 g hg hlt

/-- the frame list after `arena_scope_leave` -/
def leaveFrames (frames : List Frame) (sc : Scope) : List Frame :=
  match frames.dropWhile (fun f => f.h != sc.h) with
  | [] => []
  | f :: fs => { f with len := if sc.len ≤ f.len then sc.len else 0 } :: fs

/-- `arena_scope_leave` of the innermost scope: the bump pointer goes back to where
    the scope was entered (the `: 0` arm is never taken), the scope's blocks are
    forgotten, every other block and scope stays valid -/
theorem core_leave {p : Params} {s : St} (h : Core p s) (sc : Scope) (rest : List Scope) (hsc : s.scopes = sc :: rest) :
    (∃ f post, s.frames.dropWhile (fun g => g.h != sc.h) = f :: post ∧ sc.len ≤ f.len) ∧
    Core p { s with frames := leaveFrames s.frames sc, scopes := rest,
                    blocks := s.blocks.filter (fun b => b.depth != sc.depth) } := by
  have hscm : sc ∈ s.scopes := by rw [hsc]; exact List.mem_cons_self
  obtain ⟨hsc8, hschdr, f, hfm, hfh, hflen⟩ := h.sc_ok sc hscm
  obtain ⟨post, hdrop, hpost, hpost'⟩ := dropWhile_sorted h.fr_sorted hfm
  rw [hfh] at hdrop
  have hfok := h.fr_ok f hfm
  have hsorted := h.sc_sorted
  rw [hsc, List.pairwise_cons] at hsorted
  have hsub : (f :: post).Pairwise (fun a b => b.h < a.h) := by
    rw [← hdrop]; exact h.fr_sorted.sublist (List.dropWhile_sublist _)
  have hlf : leaveFrames s.frames sc = { f with len := sc.len } :: post := by
    simp only [leaveFrames, hdrop, if_pos hflen]
  refine ⟨⟨f, post, hdrop, hflen⟩, ?_⟩
  rw [hlf]
  -- a frame older than the scope's frame is untouched
  have holdfr : ∀ g ∈ s.frames, g.h < sc.h → g ∈ ({ f with len := sc.len } :: post : List Frame) := by
    intro g hg hlt
    exact List.mem_cons_of_mem _ (hpost' g hg (by omega))
  -- surviving blocks belong to outer scopes
  have hsurv : ∀ b ∈ s.blocks.filter (fun b => b.depth != sc.depth), b ∈ s.blocks ∧ b.depth < sc.depth ∧ ∃ sc' ∈ rest, sc'.depth = b.depth := by
    intro b hb
    obtain ⟨hb, hne⟩ := List.mem_filter.mp hb
    obtain ⟨sc', hm, he⟩ := h.bl_sc b hb
    rw [hsc] at hm
    rcases List.mem_cons.mp hm with rfl | hm
    · simp [he] at hne
    · exact ⟨hb, by have := (hsorted.1 sc' hm).1; omega, sc', hm, he⟩
  refine ⟨List.cons_ne_nil _ _, ?_, ?_, ?_, ?_, h.bl_ord.filter _, ?_, hsorted.2, ?_, ?_⟩
  · intro g hg
    rcases List.mem_cons.mp hg with rfl | hg
    · exact ⟨hfok.1, hsc8, hschdr, by show sc.len ≤ f.size; omega⟩
    · exact h.fr_ok g (hpost g hg).1
  · exact List.pairwise_cons.mpr ⟨(List.pairwise_cons.mp hsub).1, (List.pairwise_cons.mp hsub).2⟩
  · intro b hb
    obtain ⟨hb, hlt, _⟩ := hsurv b hb
    obtain ⟨g, hg, h1, h2, h3⟩ := h.bl_fr b hb
    rcases h.bl_before b hb sc hscm hlt with hlt' | ⟨heq, hle⟩
    · exact ⟨g, holdfr g hg (by omega), h1, h2, h3⟩
    · have : g = f := frame_unique h.fr_sorted hg hfm (by omega)
      subst this
      exact ⟨{ g with len := sc.len }, List.mem_cons_self, h1, h2, hle⟩
  · intro b hb; exact h.bl_ok b (hsurv b hb).1
  · intro sc' hm
    obtain ⟨h8, hh, g, hg, h1, h2⟩ := h.sc_ok sc' (by rw [hsc]; exact List.mem_cons_of_mem _ hm)
    refine ⟨h8, hh, ?_⟩
    rcases (hsorted.1 sc' hm).2 with hlt | ⟨heq, hle⟩
    · exact ⟨g, holdfr g hg (by omega), h1, h2⟩
    · have : g = f := frame_unique h.fr_sorted hg hfm (by omega)
      subst this
      exact ⟨{ g with len := sc.len }, List.mem_cons_self, h1, hle⟩
  · intro b hb; exact (hsurv b hb).2.2
  · intro b hb sc' hm hlt
    exact h.bl_before b (hsurv b hb).1 sc' (by rw [hsc]; exact List.mem_cons_of_mem _ hm) hlt

/-- registering a cleanup changes nothing the invariant looks at -/
theorem core_cleanup {p : Params} {s : St} (h : Core p s) (sc : Scope) (rest : List Scope) (hsc : s.scopes = sc :: rest)
    (t : Nat) : Core p { s with scopes := { sc with cleanups := t :: sc.cleanups } :: rest } := by
  have hsorted := h.sc_sorted
  rw [hsc, List.pairwise_cons] at hsorted
  have hmem : ∀ x ∈ ({ sc with cleanups := t :: sc.cleanups } :: rest : List Scope),
      ∃ y ∈ s.scopes, y.depth = x.depth ∧ y.h = x.h ∧ y.len = x.len := by
    intro x hx
    rcases List.mem_cons.mp hx with rfl | hx
    · exact ⟨sc, by rw [hsc]; exact List.mem_cons_self, rfl, rfl, rfl⟩
    · exact ⟨x, by rw [hsc]; exact List.mem_cons_of_mem _ hx, rfl, rfl, rfl⟩
  refine ⟨h.fr_ne, h.fr_ok, h.fr_sorted, h.bl_fr, h.bl_ok, h.bl_ord, ?_, ?_, ?_, ?_⟩
  · intro x hx
    obtain ⟨y, hy, e1, e2, e3⟩ := hmem x hx
    have := h.sc_ok y hy
    rw [e2, e3] at this
    exact this
  · exact List.pairwise_cons.mpr ⟨hsorted.1, hsorted.2⟩
  · intro b hb
    obtain ⟨y, hy, he⟩ := h.bl_sc b hb
    rw [hsc] at hy
    rcases List.mem_cons.mp hy with rfl | hy
    · exact ⟨_, List.mem_cons_self, he⟩
    · exact ⟨y, List.mem_cons_of_mem _ hy, he⟩
  · intro b hb x hx hlt
    obtain ⟨y, hy, e1, e2, e3⟩ := hmem x hx
    have := h.bl_before b hb y hy (by omega)
    rw [e2, e3] at this
    exact this

/-- two live blocks share no byte -/
theorem core_disjoint {p : Params} {s : St} (h : Core p s) {b c : Block} (hb : b ∈ s.blocks) (hc : c ∈ s.blocks)
    (hne : b.id ≠ c.id) (hh : b.h = c.h) : b.size = 0 ∨ c.size = 0 ∨ b.fin ≤ c.off ∨ c.fin ≤ b.off := by
  have hbg := clampA_ge (P := p.P) (h.bl_ok b hb).2.2
  have hcg := clampA_ge (P := p.P) (h.bl_ok c hc).2.2
  rcases pairwise_rel_or h.bl_ord hb hc (fun e => hne (by rw [e])) with ⟨haf, _⟩ | ⟨haf, _⟩
  · have := haf hh
    rcases this.2 with h1 | h1
    · right; right; right; omega
    · left; exact h1.1
  · have := haf hh.symm
    rcases this.2 with h1 | h1
    · right; right; left; omega
    · right; left; exact h1.1

/-- the pending cleanups of all open scopes -/
def pending (s : St) : List Nat := s.scopes.flatMap (·.cleanups)

structure Inv (p : Params) (s : St) : Prop where
  core : Core p s
  bl_lt : ∀ b ∈ s.blocks, b.id < s.next
  cl_lt : ∀ t ∈ s.ran ++ pending s, t < s.next
  cl_nodup : (s.ran ++ pending s).Nodup

/-- the block an operation is aimed at -/
def targets (op : Op) (id : Nat) : Prop :=
  match op with
  | .realloc _ i _ _ => i = id
  | .write i _ _ => i = id
  | _ => False

/-- what every operation guarantees to the blocks it is not aimed at -/
def Frame' (s s' : St) (op : Op) : Prop :=
  ∀ b ∈ s.blocks, ¬ targets op b.id →
    (∀ i, i < b.size → s'.mem b.h (b.off + i) = s.mem b.h (b.off + i)) ∧
    (b ∈ s'.blocks ∨ (op = .leave ∧ b.depth = curDepth s))

theorem scopeCheck_none {s : St} {k : Nat} (h : scopeCheck s k = none) : s.scopes ≠ [] ∧ k = 0 := by
  unfold scopeCheck at h
  split at h
  · cases h
  · split at h
    · cases h
    · rename_i h1 _
      refine ⟨?_, by omega⟩
      intro e; rw [e] at h1; simp at h1

theorem scopeCheck_some {s : St} {k : Nat} {o : Out} (h : scopeCheck s k = some o) : o = .bad ∨ o = .trap := by
  unfold scopeCheck at h
  split at h
  · left; cases h; rfl
  · split at h
    · right; cases h; rfl
    · cases h

/-- malloc / calloc / strdup share this shape; `M` is what they write -/
def allocStep (p : Params) (s : St) (k n : Nat) (M : (Nat → Nat → UInt8) → Block → Nat → Nat → UInt8) : St × Out :=
  match scopeCheck s k with
  | some o => (s, o)
  | none =>
    match alloc p s n s.next with
    | none => (s, .fail)
    | some (s', b) => ({ s' with next := s.next + 1, mem := M s'.mem b }, .ptr b.id b.h b.off)

theorem allocStep_spec {p : Params} (hp : p.ok) {s : St} (h : Inv p s) (k n : Nat)
    (M : (Nat → Nat → UInt8) → Block → Nat → Nat → UInt8)
    (hM : ∀ m (b : Block) h' o, b.size = n → (h' ≠ b.h ∨ o < b.off ∨ b.off + n ≤ o) → M m b h' o = m h' o)
    (op : Op) :
    Inv p (allocStep p s k n M).1 ∧ (allocStep p s k n M).2 ≠ .fail ∧ Frame' s (allocStep p s k n M).1 op := by
  unfold allocStep
  match hck : scopeCheck s k with
  | some o =>
    refine ⟨h, ?_, ?_⟩
    · rcases scopeCheck_some hck with rfl | rfl <;> simp
    · intro b hb _; exact ⟨fun _ _ => rfl, Or.inl hb⟩
  | none =>
    obtain ⟨hsc, _⟩ := scopeCheck_none hck
    obtain ⟨fr, b, halloc, hcore, hbid, hbsz, hbd, hgrow, hbeyond⟩ :=
      core_alloc hp h.core hsc n s.next (fun c hc => Nat.ne_of_lt (h.bl_lt c hc))
    simp only [halloc]
    refine ⟨⟨core_congr hcore rfl rfl rfl, ?_, ?_, ?_⟩, by simp, ?_⟩
    · intro c hc
      rcases List.mem_cons.mp hc with rfl | hc
      · show c.id < s.next + 1; omega
      · have := h.bl_lt c hc; show c.id < s.next + 1; omega
    · intro t ht; have := h.cl_lt t ht; show t < s.next + 1; omega
    · exact h.cl_nodup
    · intro c hc _
      refine ⟨?_, Or.inl (List.mem_cons_of_mem _ hc)⟩
      intro i hi
      show M s.mem b c.h (c.off + i) = s.mem c.h (c.off + i)
      apply hM _ _ _ _ hbsz
      by_cases e : c.h = b.h
      · have := hbeyond c hc e
        simp only [Block.fin] at this
        right; left; omega
      · left; exact e

theorem findBlock_some {bs : List Block} {id : Nat} {b : Block} (h : findBlock bs id = some b) : b ∈ bs ∧ b.id = id := by
  unfold findBlock at h
  exact ⟨List.mem_of_find?_eq_some h, by have := List.find?_some h; simpa using this⟩

theorem pending_cons (s : St) (sc : Scope) (rest : List Scope) (h : s.scopes = sc :: rest) :
    pending s = sc.cleanups ++ rest.flatMap (·.cleanups) := by
  simp only [pending, h, List.flatMap_cons]

theorem spec_enter {p : Params} {s : St} (h : Inv p s) :
    Inv p (step p s .enter).1 ∧ (step p s .enter).2 ≠ .fail ∧ Frame' s (step p s .enter).1 .enter := by
  obtain ⟨f, fs, hfr⟩ := List.exists_cons_of_ne_nil h.core.fr_ne
  have hhead : s.frames.head? = some f := by rw [hfr]; rfl
  simp only [step, hhead]
  refine ⟨⟨core_enter h.core f fs hfr, h.bl_lt, ?_, ?_⟩, by simp, ?_⟩
  · intro t ht
    apply h.cl_lt t
    simpa only [pending, List.flatMap_cons, List.nil_append] using ht
  · have := h.cl_nodup
    simpa only [pending, List.flatMap_cons, List.nil_append] using this
  · intro b hb _; exact ⟨fun _ _ => rfl, Or.inl hb⟩

theorem spec_leave {p : Params} {s : St} (h : Inv p s) :
    Inv p (step p s .leave).1 ∧ (step p s .leave).2 ≠ .fail ∧ Frame' s (step p s .leave).1 .leave := by
  simp only [step]
  match hsc : s.scopes with
  | [] =>
    refine ⟨h, by simp, ?_⟩
    intro b hb _; exact ⟨fun _ _ => rfl, Or.inl hb⟩
  | sc :: rest =>
    have hc := (core_leave h.core sc rest hsc).2
    have hpend := pending_cons s sc rest hsc
    refine ⟨⟨core_congr hc rfl rfl rfl, ?_, ?_, ?_⟩, by simp, ?_⟩
    · intro b hb; exact h.bl_lt b (List.mem_filter.mp hb).1
    · intro t ht
      apply h.cl_lt t
      rw [hpend]
      simpa only [pending, List.append_assoc] using ht
    · have := h.cl_nodup
      rw [hpend] at this
      simpa only [pending, List.append_assoc] using this
    · intro b hb _
      refine ⟨fun _ _ => rfl, ?_⟩
      by_cases e : b.depth = sc.depth
      · right; exact ⟨rfl, by simp only [curDepth, hsc]; exact e⟩
      · left; exact List.mem_filter.mpr ⟨hb, by simp [e]⟩

theorem fill_outside (m : Nat → Nat → UInt8) (h off : Nat) (bs : List UInt8) (h' o : Nat)
    (hout : h' ≠ h ∨ o < off ∨ off + bs.length ≤ o) : fill m h off bs h' o = m h' o := by
  unfold fill
  rw [if_neg]
  omega

theorem copy_outside (m : Nat → Nat → UInt8) (h off h0 off0 n : Nat) (h' o : Nat)
    (hout : h' ≠ h ∨ o < off ∨ off + n ≤ o) : copy m h off h0 off0 n h' o = m h' o := by
  unfold copy
  rw [if_neg]
  omega

theorem spec_cleanup {p : Params} (hp : p.ok) {s : St} (h : Inv p s) (k : Nat) :
    Inv p (step p s (.cleanup k)).1 ∧ (step p s (.cleanup k)).2 ≠ .fail ∧ Frame' s (step p s (.cleanup k)).1 (.cleanup k) := by
  simp only [step]
  match hck : scopeCheck s k with
  | some o =>
    refine ⟨h, ?_, ?_⟩
    · rcases scopeCheck_some hck with rfl | rfl <;> simp
    · intro b hb _; exact ⟨fun _ _ => rfl, Or.inl hb⟩
  | none =>
    obtain ⟨hsc, _⟩ := scopeCheck_none hck
    obtain ⟨fr, b, halloc, hcore, hbid, hbsz, hbd, hgrow, hbeyond⟩ :=
      core_alloc hp h.core hsc p.csz s.next (fun c hc => Nat.ne_of_lt (h.bl_lt c hc))
    match hsq : s.scopes, hsc with
    | sc :: rest, _ =>
      simp only [halloc]
      have hpend := pending_cons s sc rest hsq
      have hfresh : s.next ∉ s.ran ++ pending s := fun hm => Nat.lt_irrefl _ (h.cl_lt _ hm)
      have hperm : (s.ran ++ (s.next :: sc.cleanups ++ rest.flatMap (·.cleanups))).Perm (s.next :: (s.ran ++ pending s)) := by
        rw [hpend]; exact List.perm_middle
      refine ⟨⟨core_congr (core_cleanup hcore sc rest hsq s.next) rfl rfl rfl, ?_, ?_, ?_⟩, by simp, ?_⟩
      · intro c hc
        rcases List.mem_cons.mp hc with rfl | hc
        · show c.id < s.next + 1; omega
        · have := h.bl_lt c hc; show c.id < s.next + 1; omega
      · intro t ht
        have ht' : t ∈ s.next :: (s.ran ++ pending s) := by
          apply hperm.mem_iff.mp
          simpa only [pending, List.flatMap_cons] using ht
        rcases List.mem_cons.mp ht' with rfl | ht'
        · exact Nat.lt_succ_self _
        · have := h.cl_lt t ht'; show t < s.next + 1; omega
      · have : (s.next :: (s.ran ++ pending s)).Nodup := List.nodup_cons.mpr ⟨hfresh, h.cl_nodup⟩
        have := hperm.nodup_iff.mpr this
        simpa only [pending, List.flatMap_cons] using this
      · intro c hc _
        exact ⟨fun _ _ => rfl, Or.inl (List.mem_cons_of_mem _ hc)⟩

theorem spec_write {p : Params} {s : St} (h : Inv p s) (id i : Nat) (v : UInt8) :
    Inv p (step p s (.write id i v)).1 ∧ (step p s (.write id i v)).2 ≠ .fail ∧
      Frame' s (step p s (.write id i v)).1 (.write id i v) := by
  simp only [step]
  match hfb : findBlock s.blocks id with
  | none =>
    refine ⟨h, by simp, ?_⟩
    intro b hb _; exact ⟨fun _ _ => rfl, Or.inl hb⟩
  | some b =>
    obtain ⟨hb, hbid⟩ := findBlock_some hfb
    by_cases hi : i < b.size
    · simp only [if_pos hi]
      refine ⟨⟨core_congr h.core rfl rfl rfl, h.bl_lt, h.cl_lt, h.cl_nodup⟩, by simp, ?_⟩
      intro c hc hnt
      refine ⟨?_, Or.inl hc⟩
      intro j hj
      show fill s.mem b.h (b.off + i) [v] c.h (c.off + j) = s.mem c.h (c.off + j)
      apply fill_outside
      by_cases e : c.h = b.h
      · have hne : c.id ≠ b.id := by
          intro e2; apply hnt; show id = c.id; omega
        have := core_disjoint h.core hc hb hne e
        simp only [Block.fin, List.length_singleton] at *
        omega
      · left; exact e
    · simp only [if_neg hi]
      refine ⟨h, by simp, ?_⟩
      intro c hc _; exact ⟨fun _ _ => rfl, Or.inl hc⟩

theorem keepBlocks_mem {s : St} {b : Block} {n : Nat} {c : Block} (hc : c ∈ s.blocks) (hne : c.id ≠ b.id) :
    c ∈ keepBlocks s b n := by
  unfold keepBlocks
  exact List.mem_map.mpr ⟨c, hc, by simp [hne]⟩

theorem keepBlocks_lt {s : St} {b : Block} {n N : Nat} (hb : b.id < N) (h : ∀ c ∈ s.blocks, c.id < N) :
    ∀ c ∈ keepBlocks s b n, c.id < N := by
  intro c hc
  unfold keepBlocks at hc
  obtain ⟨c0, hc0, rfl⟩ := List.mem_map.mp hc
  by_cases e : c0.id = b.id
  · simp only [e, beq_self_eq_true, if_true]; exact hb
  · simp only [beq_iff_eq, e, if_false]; exact h c0 hc0

/-- the slow path: a fresh block holding the first `old` bytes; nothing else is written -/
theorem spill_spec {p : Params} (hp : p.ok) {s : St} (h : Inv p s) (b : Block) (hb : b ∈ s.blocks) (old n : Nat)
    (hsc : s.scopes ≠ []) (op : Op) (hop : targets op b.id) :
    Inv p (spill p s b old n).1 ∧ (spill p s b old n).2 ≠ .fail ∧ Frame' s (spill p s b old n).1 op ∧
    ∃ nb ∈ (spill p s b old n).1.blocks, nb.id = b.id ∧ nb.size = n ∧ nb.depth = curDepth s ∧
      (spill p s b old n).2 = .ptr b.id nb.h nb.off ∧
      ∀ i, i < old → (spill p s b old n).1.mem nb.h (nb.off + i) = s.mem b.h (b.off + i) := by
  have hcf := core_filter h.core (fun c => c.id != b.id)
  obtain ⟨fr, nb, halloc, hcore, hbid, hbsz, hbd, hgrow, hbeyond⟩ :=
    core_alloc hp hcf hsc n b.id (fun c hc => by have := (List.mem_filter.mp hc).2; simpa using this)
  unfold spill
  simp only [halloc]
  refine ⟨⟨core_congr hcore rfl rfl rfl, ?_, h.cl_lt, h.cl_nodup⟩, by simp, ?_, ?_⟩
  · intro c hc
    rcases List.mem_cons.mp hc with rfl | hc
    · show c.id < s.next; rw [hbid]; exact h.bl_lt b hb
    · exact h.bl_lt c (List.mem_filter.mp hc).1
  · intro c hc hnt
    have hne : c.id ≠ b.id := by
      intro e; apply hnt; rw [e]; exact hop
    have hcm : c ∈ s.blocks.filter (fun c => c.id != b.id) := List.mem_filter.mpr ⟨hc, by simp [hne]⟩
    refine ⟨?_, Or.inl (List.mem_cons_of_mem _ hcm)⟩
    intro i hi
    show copy s.mem nb.h nb.off b.h b.off old c.h (c.off + i) = s.mem c.h (c.off + i)
    apply copy_outside
    by_cases e : c.h = nb.h
    · have := hbeyond c hcm e
      simp only [Block.fin] at this
      right; left; omega
    · left; exact e
  · refine ⟨nb, List.mem_cons_self, hbid, hbsz, hbd, rfl, ?_⟩
    intro i hi
    show copy s.mem nb.h nb.off b.h b.off old nb.h (nb.off + i) = s.mem b.h (b.off + i)
    unfold copy
    rw [if_pos ⟨rfl, by omega, by omega⟩]
    congr 1; omega

theorem spec_realloc {p : Params} (hp : p.ok) {s : St} (h : Inv p s) (k id old n : Nat) :
    ∀ r, r = step p s (.realloc k id old n) →
    Inv p r.1 ∧ r.2 ≠ .fail ∧ Frame' s r.1 (.realloc k id old n) ∧
    (∀ b, findBlock s.blocks id = some b → old ≤ b.size → scopeCheck s k = none →
      ∃ nb ∈ r.1.blocks, nb.id = id ∧ nb.size = n ∧ nb.depth = curDepth s ∧ r.2 = .ptr id nb.h nb.off ∧
        ∀ i, i < min old n → r.1.mem nb.h (nb.off + i) = s.mem b.h (b.off + i)) := by
  intro r hr
  have hsame : Frame' s s (.realloc k id old n) := fun b hb _ => ⟨fun _ _ => rfl, Or.inl hb⟩
  simp only [step] at hr
  rcases Option.eq_none_or_eq_some (findBlock s.blocks id) with hfb | ⟨b, hfb⟩
  · simp only [hfb] at hr
    subst hr
    exact ⟨h, by simp, hsame, fun b hb => by rw [hfb] at hb; cases hb⟩
  · obtain ⟨hb, hbid⟩ := findBlock_some hfb
    simp only [hfb] at hr
    by_cases hold : b.size < old
    · simp only [if_pos hold] at hr
      subst hr
      exact ⟨h, by simp, hsame, fun b' hb' hle => by rw [hfb] at hb'; cases hb'; omega⟩
    · simp only [if_neg hold] at hr
      rcases Option.eq_none_or_eq_some (scopeCheck s k) with hck | ⟨o, hck⟩
      · obtain ⟨hsc, _⟩ := scopeCheck_none hck
        simp only [hck] at hr
        have hblt := h.bl_lt b hb
        -- the block stays in place (shrink, or growth of the most recent block)
        have hkeep : ∀ fr', Core p { s with frames := fr', blocks := keepBlocks s b n } →
            Inv p { s with frames := fr', blocks := keepBlocks s b n } ∧
            Frame' s { s with frames := fr', blocks := keepBlocks s b n } (.realloc k id old n) ∧
            ∃ nb ∈ keepBlocks s b n, nb.id = id ∧ nb.size = n ∧ nb.depth = curDepth s ∧ nb.h = b.h ∧ nb.off = b.off := by
          intro fr' hc
          refine ⟨⟨hc, keepBlocks_lt hblt h.bl_lt, h.cl_lt, h.cl_nodup⟩, ?_, ?_⟩
          · intro c hc' hnt
            refine ⟨fun _ _ => rfl, Or.inl (keepBlocks_mem hc' ?_)⟩
            intro e; apply hnt; show id = c.id; omega
          · refine ⟨{ b with size := n, depth := curDepth s }, ?_, hbid, rfl, rfl, rfl, rfl⟩
            unfold keepBlocks
            exact List.mem_map.mpr ⟨b, hb, by simp⟩
        by_cases hshrink : n ≤ old
        · simp only [if_pos hshrink] at hr
          have hc := core_keep h.core b hb n (by omega) hsc
          obtain ⟨hinv, hfr, nb, hnb, e1, e2, e3, e4, e5⟩ := hkeep s.frames hc
          subst hr
          refine ⟨hinv, by simp, hfr, ?_⟩
          intro b' hb' _ _
          rw [hfb] at hb'; cases hb'
          exact ⟨nb, hnb, e1, e2, e3, by simp [hbid, e4, e5], fun i _ => by rw [e4, e5]⟩
        · simp only [if_neg hshrink] at hr
          obtain ⟨f, fs, hfrm⟩ := List.exists_cons_of_ne_nil h.core.fr_ne
          have hhead : s.frames.head? = some f := by rw [hfrm]; rfl
          have htail : s.frames.tail = fs := by rw [hfrm]; rfl
          simp only [hhead, htail] at hr
          have hspill := spill_spec hp h b hb old n hsc (.realloc k id old n) (by show id = b.id; omega)
          have hspill' : Inv p (spill p s b old n).1 ∧ (spill p s b old n).2 ≠ .fail ∧
              Frame' s (spill p s b old n).1 (.realloc k id old n) ∧
              (∀ b', findBlock s.blocks id = some b' → old ≤ b'.size → scopeCheck s k = none →
                ∃ nb ∈ (spill p s b old n).1.blocks, nb.id = id ∧ nb.size = n ∧ nb.depth = curDepth s ∧
                  (spill p s b old n).2 = .ptr id nb.h nb.off ∧
                  ∀ i, i < min old n → (spill p s b old n).1.mem nb.h (nb.off + i) = s.mem b'.h (b'.off + i)) := by
            obtain ⟨h1, h2, h3, nb, hnb, e1, e2, e3, e4, e5⟩ := hspill
            refine ⟨h1, h2, h3, ?_⟩
            intro b' hb' _ _
            rw [hfb] at hb'; cases hb'
            exact ⟨nb, hnb, by omega, e2, e3, by rw [e4, hbid], fun i hi => e5 i (by omega)⟩
          by_cases hcond : b.h = f.h ∧ alignP p.P (b.off + old) = f.len
          · simp only [if_pos hcond] at hr
            by_cases hfit : b.off + n ≤ f.size
            · simp only [if_pos hfit] at hr
              have hP8 := hp.2.2.2.1
              rw [alignP_eq hP8] at hcond
              have hg := (core_grow hp h.core b hb f fs hfrm old n (by omega) (by omega) hcond.1 hcond.2 hfit hsc).1
              have hfeq : ({ f with len := min (alignP p.P (b.off + n)) f.size } : Frame) = { f with len := clampA p.P f.size (b.off + n) } := by
                simp only [alignP_eq hP8, clampA]
              rw [hfeq] at hr
              obtain ⟨hinv, hfr, nb, hnb, e1, e2, e3, e4, e5⟩ := hkeep _ hg
              subst hr
              refine ⟨hinv, by simp, hfr, ?_⟩
              intro b' hb' _ _
              rw [hfb] at hb'; cases hb'
              exact ⟨nb, hnb, e1, e2, e3, by simp [hbid, e4, e5], fun i _ => by rw [e4, e5]⟩
            · simp only [if_neg hfit] at hr
              subst hr
              exact hspill'
          · simp only [if_neg hcond] at hr
            subst hr
            exact hspill'
      · simp only [hck] at hr
        subst hr
        refine ⟨h, ?_, hsame, fun b' _ _ hn => by rw [hck] at hn; cases hn⟩
        rcases scopeCheck_some hck with rfl | rfl <;> simp

end Arena
end Robsd
