import Robsd.Model.Interp
/- Unfolding lemmas for `Interp.inner` (helpers; property statements are in Props/C09). -/
namespace Robsd
namespace Interp
open Bytes

theorem inner_lit (lookup : Lookup) (ign : Bool) (rec : Bytes → Except Err Bytes) (s p : Bytes)
    (h : scan s = .lit p) : inner lookup ign rec s = .ok p := by
  rw [inner]
  split
  · rename_i p' h'; rw [h] at h'; cases h'; rfl
  · rename_i e h'; rw [h] at h'; cases h'
  · rename_i a b c h'; rw [h] at h'; cases h'

theorem inner_bad (lookup : Lookup) (ign : Bool) (rec : Bytes → Except Err Bytes) (s : Bytes) (e : Err)
    (h : scan s = .bad e) : inner lookup ign rec s = .error e := by
  rw [inner]
  split
  · rename_i p' h'; rw [h] at h'; cases h'
  · rename_i e h'; rw [h] at h'; cases h'; rfl
  · rename_i a b c h'; rw [h] at h'; cases h'

theorem inner_ref (lookup : Lookup) (ign : Bool) (rec : Bytes → Except Err Bytes) (s pre name tail : Bytes)
    (h : scan s = .ref pre name tail) : inner lookup ign rec s =
    match lookup name with
    | none =>
      if ign then
        match inner lookup ign rec tail with
        | .ok b => .ok (pre ++ DOLLAR :: LBRACE :: name ++ RBRACE :: b)
        | .error e => .error e
      else .error (.unknown name)
    | some v =>
      match rec v with
      | .error e => .error e
      | .ok a =>
        match inner lookup ign rec tail with
        | .ok b => .ok (pre ++ a ++ b)
        | .error e => .error e := by
  rw [inner]
  split
  · rename_i p' h'; rw [h] at h'; cases h'
  · rename_i e h'; rw [h] at h'; cases h'
  · rename_i a b c h'; rw [h] at h'; cases h'; rfl

end Interp
end Robsd
