import Robsd.Lemmas.Split
import Robsd.Lemmas.Decimal
/- Row-level round trip of the step file (helpers for Props/C01). -/
namespace Robsd
namespace StepFile
open Bytes Interp


def renderVal : FVal → Bytes
  | .unknown => []
  | .str s => s
  | .int i => renderInt i

def lineOf (r : Row) : Bytes := intercalateB COMMA (r.map renderVal)

def Clean (s : Bytes) : Prop := COMMA ∉ s ∧ NL ∉ s ∧ DOLLAR ∉ s ∧ (0 : UInt8) ∉ s
def InI64 (i : Int) : Prop := i64Min ≤ i ∧ i ≤ i64Max
instance (s : Bytes) : Decidable (Clean s) := by unfold Clean; exact inferInstance
instance (i : Int) : Decidable (InI64 i) := by unfold InI64; exact inferInstance

def itemsFrom : Bool → List Gen.FieldDef → List (Bytes × Bytes)
  | _, [] => []
  | first, f :: fs => ((if first then [] else [COMMA]), f.name) :: itemsFrom false fs
def items : List (Bytes × Bytes) := itemsFrom true Gen.stepFields

theorem template_eq : template = tmplOf items [NL] := by decide
theorem items_ok : ∀ it ∈ items, DOLLAR ∉ it.1 ∧ RBRACE ∉ it.2 ∧ it.2 ≠ [] := by decide

/-- a row as the orchestrator writes it: every field set, typed as the table
    says, integers in range, strings representable -/
structure RowOk (r : Row) : Prop where
  shape : ∃ s n e d dl lg u t sk, r = [.int s, .str n, .int e, .int d, .int dl, .str lg, .str u, .int t, .int sk] ∧
    InI64 s ∧ InI64 e ∧ InI64 d ∧ InI64 dl ∧ InI64 t ∧ InI64 sk ∧ Clean n ∧ Clean lg ∧ Clean u ∧ n ≠ [] ∧ u ≠ []

theorem serializeRow_ok (r : Row) (h : RowOk r) : serializeRow r = some (lineOf r ++ [NL]) := by
  obtain ⟨s, n, e', d, dl, lg, u, t, sk, rfl, hs, he, hd, hdl, ht, hsk, hn, hlg, hu, hnn, hun⟩ := h.shape
  unfold serializeRow interpStr
  have hd4 : Gen.interpolateDepthLimit - 1 = 2 + 1 + 1 := by decide
  rw [hd4, template_eq]
  have e : ∀ lk : Lookup, interp lk false (2 + 1 + 1) (tmplOf items [NL]) =
      inner lk false (interp lk false (2 + 1)) (tmplOf items [NL]) := fun _ => rfl
  rw [e, inner_tmpl_ok _ 2 items [NL] (by decide) items_ok]
  · have l0 : ∀ r : Row, ∀ nm : Bytes, rowLookup r nm = rowLookup r nm := fun _ _ => rfl
    simp only [outOf, items, itemsFrom, Gen.stepFields]
    have k1 : rowLookup [FVal.int s, .str n, .int e', .int d, .int dl, .str lg, .str u, .int t, .int sk] [115, 116, 101, 112] = some (renderInt s) := rfl
    have k2 : rowLookup [FVal.int s, .str n, .int e', .int d, .int dl, .str lg, .str u, .int t, .int sk] [110, 97, 109, 101] = some n := rfl
    have k3 : rowLookup [FVal.int s, .str n, .int e', .int d, .int dl, .str lg, .str u, .int t, .int sk] [101, 120, 105, 116] = some (renderInt e') := rfl
    have k4 : rowLookup [FVal.int s, .str n, .int e', .int d, .int dl, .str lg, .str u, .int t, .int sk] [100, 117, 114, 97, 116, 105, 111, 110] = some (renderInt d) := rfl
    have k5 : rowLookup [FVal.int s, .str n, .int e', .int d, .int dl, .str lg, .str u, .int t, .int sk] [100, 101, 108, 116, 97] = some (renderInt dl) := rfl
    have k6 : rowLookup [FVal.int s, .str n, .int e', .int d, .int dl, .str lg, .str u, .int t, .int sk] [108, 111, 103] = some lg := rfl
    have k7 : rowLookup [FVal.int s, .str n, .int e', .int d, .int dl, .str lg, .str u, .int t, .int sk] [117, 115, 101, 114] = some u := rfl
    have k8 : rowLookup [FVal.int s, .str n, .int e', .int d, .int dl, .str lg, .str u, .int t, .int sk] [116, 105, 109, 101] = some (renderInt t) := rfl
    have k9 : rowLookup [FVal.int s, .str n, .int e', .int d, .int dl, .str lg, .str u, .int t, .int sk] [115, 107, 105, 112] = some (renderInt sk) := rfl
    simp [k1, k2, k3, k4, k5, k6, k7, k8, k9, lineOf, intercalateB, renderVal]
  · intro it hit
    simp only [items, itemsFrom, Gen.stepFields, List.mem_cons, List.not_mem_nil, or_false] at hit
    rcases hit with rfl | rfl | rfl | rfl | rfl | rfl | rfl | rfl | rfl
    · exact ⟨_, rfl, (renderInt_clean s).2.2.2.1⟩
    · exact ⟨_, rfl, hn.2.2.1⟩
    · exact ⟨_, rfl, (renderInt_clean e').2.2.2.1⟩
    · exact ⟨_, rfl, (renderInt_clean d).2.2.2.1⟩
    · exact ⟨_, rfl, (renderInt_clean dl).2.2.2.1⟩
    · exact ⟨_, rfl, hlg.2.2.1⟩
    · exact ⟨_, rfl, hu.2.2.1⟩
    · exact ⟨_, rfl, (renderInt_clean t).2.2.2.1⟩
    · exact ⟨_, rfl, (renderInt_clean sk).2.2.2.1⟩

def fieldTI (name : Bytes) : Option (Gen.FieldType × Nat) :=
  (fieldDef name).map (fun fd => (fd.type, fd.index))

theorem setField_int (row : Row) (name : Bytes) (idx : Nat) (v : Int)
    (hfd : fieldTI name = some (.integer, idx)) (hv : InI64 v) :
    setField row name (renderInt v) = some (row.set idx (.int v)) := by
  unfold setField
  unfold fieldTI at hfd
  cases h : fieldDef name with
  | none => simp [h] at hfd
  | some fd =>
    simp only [h, Option.map_some, Option.some.injEq, Prod.mk.injEq] at hfd
    simp only [hfd.1, hfd.2, strtonum_renderInt v hv]

theorem setField_str (row : Row) (name : Bytes) (idx : Nat) (s : Bytes)
    (hfd : fieldTI name = some (.string, idx)) :
    setField row name s = some (row.set idx (.str s)) := by
  unfold setField
  unfold fieldTI at hfd
  cases h : fieldDef name with
  | none => simp [h] at hfd
  | some fd =>
    simp only [h, Option.map_some, Option.some.injEq, Prod.mk.injEq] at hfd
    simp only [hfd.1, hfd.2]

def names : List Bytes := Gen.stepFields.map (·.name)

theorem initRow_eq : initRow = some [.unknown, .unknown, .unknown, .unknown, .int 0, .str [], .unknown, .unknown, .int 0] := by
  decide

theorem isEmpty_false_of_ne {b : Bytes} (h : b ≠ []) : b.isEmpty = false := by
  cases b with
  | nil => exact absurd rfl h
  | cons _ _ => rfl

theorem parseRow_ok (r : Row) (h : RowOk r) : parseRow names (lineOf r) = some r := by
  obtain ⟨s, n, e', d, dl, lg, u, t, sk, rfl, hs, he, hd, hdl, ht, hsk, hn, hlg, hu, hnn, hun⟩ := h.shape
  unfold parseRow lineOf
  have hsplit : splitOn COMMA (intercalateB COMMA (List.map renderVal
      [FVal.int s, .str n, .int e', .int d, .int dl, .str lg, .str u, .int t, .int sk])) =
      [renderInt s, n, renderInt e', renderInt d, renderInt dl, lg, u, renderInt t, renderInt sk] := by
    rw [splitOn_intercalate COMMA _ (by simp)]
    · rfl
    · intro x hx
      simp only [List.map_cons, List.map_nil, renderVal, List.mem_cons, List.not_mem_nil, or_false] at hx
      rcases hx with rfl | rfl | rfl | rfl | rfl | rfl | rfl | rfl | rfl
      · exact (renderInt_clean s).2.1
      · exact hn.1
      · exact (renderInt_clean e').2.1
      · exact (renderInt_clean d).2.1
      · exact (renderInt_clean dl).2.1
      · exact hlg.1
      · exact hu.1
      · exact (renderInt_clean t).2.1
      · exact (renderInt_clean sk).2.1
  rw [hsplit]
  have e1 := isEmpty_false_of_ne (renderInt_clean s).1
  have e3 := isEmpty_false_of_ne (renderInt_clean e').1
  have e4 := isEmpty_false_of_ne (renderInt_clean d).1
  have e5 := isEmpty_false_of_ne (renderInt_clean dl).1
  have e8 := isEmpty_false_of_ne (renderInt_clean t).1
  have e9 := isEmpty_false_of_ne (renderInt_clean sk).1
  have e2 := isEmpty_false_of_ne hnn
  have e7 := isEmpty_false_of_ne hun
  simp only [List.getLast?_cons_cons, List.getLast?_singleton, e9, Bool.false_eq_true, if_false, initRow_eq]
  have f1 := fun row => setField_int row [115, 116, 101, 112] 0 s (by decide) hs
  have f2 := fun row => setField_str row [110, 97, 109, 101] 1 n (by decide)
  have f3 := fun row => setField_int row [101, 120, 105, 116] 2 e' (by decide) he
  have f4 := fun row => setField_int row [100, 117, 114, 97, 116, 105, 111, 110] 3 d (by decide) hd
  have f5 := fun row => setField_int row [100, 101, 108, 116, 97] 4 dl (by decide) hdl
  have f6 := fun row => setField_str row [108, 111, 103] 5 lg (by decide)
  have f7 := fun row => setField_str row [117, 115, 101, 114] 6 u (by decide)
  have f8 := fun row => setField_int row [116, 105, 109, 101] 7 t (by decide) ht
  have f9 := fun row => setField_int row [115, 107, 105, 112] 8 sk (by decide) hsk
  by_cases hl : lg = []
  · subst hl
    simp [assignFields, names, Gen.stepFields, e1, e2, e3, e4, e5, e7, e8, e9, f1, f2, f3, f4, f5, f7, f8, f9, validRow]
  · have e6 := isEmpty_false_of_ne hl
    simp [assignFields, names, Gen.stepFields, e1, e2, e3, e4, e5, e6, e7, e8, e9, f1, f2, f3, f4, f5, f6, f7, f8, f9, validRow]

end StepFile
end Robsd
