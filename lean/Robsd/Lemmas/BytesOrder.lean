import Robsd.Model.Bytes
/- `bytesLt` (strcmp order) is a strict total order; insertion sort sorts (helpers). -/
namespace Robsd
namespace Bytes

theorem bytesLt_irrefl (a : Bytes) : bytesLt a a = false := by
  induction a with
  | nil => rfl
  | cons x xs ih =>
    have : ¬ x < x := by simp [UInt8.lt_iff_toNat_lt]
    simp [bytesLt, this, ih]

theorem bytesLt_trans (a b c : Bytes) (h1 : bytesLt a b = true) (h2 : bytesLt b c = true) : bytesLt a c = true := by
  induction a generalizing b c with
  | nil =>
    cases b with
    | nil => simp [bytesLt] at h1
    | cons y ys =>
      cases c with
      | nil => simp [bytesLt] at h2
      | cons z zs => rfl
  | cons x xs ih =>
    cases b with
    | nil => simp [bytesLt] at h1
    | cons y ys =>
      cases c with
      | nil => simp [bytesLt] at h2
      | cons z zs =>
        simp only [bytesLt] at h1 h2 ⊢
        simp only [UInt8.lt_iff_toNat_lt] at h1 h2 ⊢
        by_cases hxy : x.toNat < y.toNat
        · by_cases hyz : y.toNat < z.toNat
          · have : x.toNat < z.toNat := by omega
            simp [this]
          · simp only [hyz, if_false] at h2
            by_cases hzy : z.toNat < y.toNat
            · simp [hzy] at h2
            · have : x.toNat < z.toNat := by omega
              simp [this]
        · simp only [hxy, if_false] at h1
          by_cases hyx : y.toNat < x.toNat
          · simp [hyx] at h1
          · simp only [hyx, if_false] at h1
            have exy : x.toNat = y.toNat := by omega
            by_cases hyz : y.toNat < z.toNat
            · have : x.toNat < z.toNat := by omega
              simp [this]
            · simp only [hyz, if_false] at h2
              by_cases hzy : z.toNat < y.toNat
              · simp [hzy] at h2
              · simp only [hzy, if_false] at h2
                have h3 : ¬ x.toNat < z.toNat := by omega
                have h4 : ¬ z.toNat < x.toNat := by omega
                simp only [h3, h4, if_false]
                exact ih ys zs h1 h2

theorem bytesLt_total (a b : Bytes) (h : a ≠ b) : bytesLt a b = true ∨ bytesLt b a = true := by
  induction a generalizing b with
  | nil =>
    cases b with
    | nil => exact absurd rfl h
    | cons y ys => left; rfl
  | cons x xs ih =>
    cases b with
    | nil => right; rfl
    | cons y ys =>
      simp only [bytesLt, UInt8.lt_iff_toNat_lt]
      by_cases hxy : x.toNat < y.toNat
      · left; simp [hxy]
      · by_cases hyx : y.toNat < x.toNat
        · right; simp [hyx]
        · have exy : x = y := UInt8.toNat_inj.mp (by omega)
          subst exy
          have hne : xs ≠ ys := fun e => h (by rw [e])
          simp only [hxy, if_false]
          exact ih ys hne

theorem bytesLt_asymm (a b : Bytes) (h : bytesLt a b = true) : bytesLt b a = false := by
  cases hb : bytesLt b a with
  | false => rfl
  | true =>
    have := bytesLt_trans a b a h hb
    rw [bytesLt_irrefl] at this
    cases this

/-- non-strict order -/
def bytesLe (a b : Bytes) : Prop := bytesLt b a = false

theorem mem_insertSorted (x y : Bytes) (l : List Bytes) : y ∈ insertSorted x l ↔ y = x ∨ y ∈ l := by
  induction l with
  | nil => simp [insertSorted]
  | cons z zs ih =>
    simp only [insertSorted]
    split
    · simp only [List.mem_cons, ih]
      constructor
      · rintro (h | h | h)
        · exact Or.inr (Or.inl h)
        · exact Or.inl h
        · exact Or.inr (Or.inr h)
      · rintro (h | h | h)
        · exact Or.inr (Or.inl h)
        · exact Or.inl h
        · exact Or.inr (Or.inr h)
    · simp

theorem insertSorted_perm (x : Bytes) (l : List Bytes) : (insertSorted x l).Perm (x :: l) := by
  induction l with
  | nil => exact List.Perm.refl _
  | cons z zs ih =>
    simp only [insertSorted]
    split
    · exact (List.Perm.cons z ih).trans (List.Perm.swap x z zs)
    · exact List.Perm.refl _

theorem sortBytes_perm (l : List Bytes) : (sortBytes l).Perm l := by
  induction l with
  | nil => exact List.Perm.refl _
  | cons x xs ih =>
    simp only [sortBytes, List.foldr_cons]
    exact (insertSorted_perm x _).trans (List.Perm.cons x ih)

theorem insertSorted_sorted (x : Bytes) (l : List Bytes) (h : l.Pairwise bytesLe) :
    (insertSorted x l).Pairwise bytesLe := by
  induction l with
  | nil => simp [insertSorted]
  | cons z zs ih =>
    rw [List.pairwise_cons] at h
    simp only [insertSorted]
    split
    · rename_i hzx
      rw [List.pairwise_cons]
      refine ⟨?_, ih h.2⟩
      intro y hy
      rcases (mem_insertSorted x y zs).mp hy with rfl | hy
      · exact bytesLt_asymm _ _ hzx
      · exact h.1 y hy
    · rename_i hzx
      have hzx' : bytesLt z x = false := by simpa using hzx
      rw [List.pairwise_cons]
      refine ⟨?_, List.pairwise_cons.mpr h⟩
      intro y hy
      simp only [List.mem_cons] at hy
      rcases hy with rfl | hy
      · exact hzx'
      · -- x ≤ z ≤ y
        have hzy : bytesLt y z = false := h.1 y hy
        unfold bytesLe
        cases hyx : bytesLt y x with
        | false => rfl
        | true =>
          -- y < x and ¬ z < x: then z ≠ ... derive z < x or contradiction via totality
          by_cases hzy' : z = y
          · subst hzy'; rw [hyx] at hzx'; cases hzx'
          · rcases bytesLt_total z y hzy' with h1 | h1
            · have := bytesLt_trans z y x h1 hyx
              rw [this] at hzx'; cases hzx'
            · rw [h1] at hzy; cases hzy

theorem sortBytes_sorted (l : List Bytes) : (sortBytes l).Pairwise bytesLe := by
  induction l with
  | nil => simp [sortBytes]
  | cons x xs ih => exact insertSorted_sorted x _ ih

end Bytes
end Robsd
