import Robsd.Lemmas.StepRow
/- `robsd-step -W` keeps rows well formed (helpers for Props/C01). -/
namespace Robsd
namespace StepFile
open Bytes Interp


def IntOk (v : FVal) : Prop := v = .unknown ∨ ∃ i, v = .int i ∧ InI64 i
def StrOk (opt : Bool) (v : FVal) : Prop := v = .unknown ∨ ∃ s, v = .str s ∧ Clean s ∧ (opt = true ∨ s ≠ [])

structure RowPre (r : Row) : Prop where
  shape : ∃ a0 a1 a2 a3 a4 a5 a6 a7 a8, r = [a0, a1, a2, a3, a4, a5, a6, a7, a8] ∧
    IntOk a0 ∧ StrOk false a1 ∧ IntOk a2 ∧ IntOk a3 ∧ IntOk a4 ∧ StrOk true a5 ∧ StrOk false a6 ∧ IntOk a7 ∧ IntOk a8

theorem representable_clean (fd : Gen.FieldDef) (val : Bytes) (h : representable fd val = true) (hn : (0 : UInt8) ∉ val) :
    Clean val ∧ (fd.optional = true ∨ val ≠ []) := by
  simp only [representable, Bool.and_eq_true, Bool.not_eq_true', Bool.or_eq_false_iff, Bool.or_eq_true] at h
  obtain ⟨⟨⟨h1, h2⟩, h3⟩, h4⟩ := h
  refine ⟨⟨?_, ?_, ?_, hn⟩, ?_⟩
  · intro hm; simp [hm] at h1
  · intro hm; simp [hm] at h2
  · intro hm; simp [hm] at h3
  · rcases h4 with h4 | h4
    · exact Or.inl h4
    · right; intro e; subst e; simp at h4

theorem strtonum_inrange (s : Bytes) (v : Int) (h : strtonum s i64Min i64Max = some v) : InI64 v := by
  unfold strtonum at h
  split at h
  · simp at h
  · split at h
    · rename_i hr; simp only [Option.some.injEq] at h; subst h; exact hr
    · simp at h

def ValFor (fd : Gen.FieldDef) (v : FVal) : Prop :=
  match fd.type with
  | .integer => IntOk v
  | .string => StrOk fd.optional v

theorem set_pre (r : Row) (hr : RowPre r) (fd : Gen.FieldDef) (hm : fd ∈ Gen.stepFields) (v : FVal)
    (hv : ValFor fd v) : RowPre (r.set fd.index v) := by
  obtain ⟨a0, a1, a2, a3, a4, a5, a6, a7, a8, rfl, h0, h1, h2, h3, h4, h5, h6, h7, h8⟩ := hr.shape
  simp only [Gen.stepFields, List.mem_cons, List.not_mem_nil, or_false] at hm
  rcases hm with rfl | rfl | rfl | rfl | rfl | rfl | rfl | rfl | rfl <;> simp only [ValFor] at hv
  · exact ⟨⟨_, _, _, _, _, _, _, _, _, rfl, hv, h1, h2, h3, h4, h5, h6, h7, h8⟩⟩
  · exact ⟨⟨_, _, _, _, _, _, _, _, _, rfl, h0, hv, h2, h3, h4, h5, h6, h7, h8⟩⟩
  · exact ⟨⟨_, _, _, _, _, _, _, _, _, rfl, h0, h1, hv, h3, h4, h5, h6, h7, h8⟩⟩
  · exact ⟨⟨_, _, _, _, _, _, _, _, _, rfl, h0, h1, h2, hv, h4, h5, h6, h7, h8⟩⟩
  · exact ⟨⟨_, _, _, _, _, _, _, _, _, rfl, h0, h1, h2, h3, hv, h5, h6, h7, h8⟩⟩
  · exact ⟨⟨_, _, _, _, _, _, _, _, _, rfl, h0, h1, h2, h3, h4, hv, h6, h7, h8⟩⟩
  · exact ⟨⟨_, _, _, _, _, _, _, _, _, rfl, h0, h1, h2, h3, h4, h5, hv, h7, h8⟩⟩
  · exact ⟨⟨_, _, _, _, _, _, _, _, _, rfl, h0, h1, h2, h3, h4, h5, h6, hv, h8⟩⟩
  · exact ⟨⟨_, _, _, _, _, _, _, _, _, rfl, h0, h1, h2, h3, h4, h5, h6, h7, hv⟩⟩

theorem setKeyval_pre (r : Row) (hr : RowPre r) (kv : Bytes) (hn : (0 : UInt8) ∉ kv) (r' : Row)
    (h : setKeyval r kv = some r') : RowPre r' := by
  unfold setKeyval at h
  split at h
  · simp at h
  · rename_i key val hsplit
    have hkv := (splitAt1_some EQS kv key val hsplit).1
    have hnv : (0 : UInt8) ∉ val := by
      intro hm; apply hn; rw [hkv]; simp [hm]
    cases hfd : fieldDef key with
    | none => simp [hfd] at h
    | some fd =>
      simp only [hfd] at h
      have hmem : fd ∈ Gen.stepFields := List.mem_of_find?_eq_some hfd
      split at h
      · simp at h
      · rename_i hrep
        unfold setField at h
        simp only [hfd] at h
        cases ht : fd.type with
        | string =>
          simp only [ht] at h hrep
          simp only [Option.some.injEq] at h
          subst h
          apply set_pre r hr fd hmem
          simp only [ValFor, ht]
          have : representable fd val = true := by simpa using hrep
          obtain ⟨c, o⟩ := representable_clean fd val this hnv
          exact Or.inr ⟨val, rfl, c, o⟩
        | integer =>
          simp only [ht] at h
          cases hs : strtonum val i64Min i64Max with
          | none => simp [hs] at h
          | some v =>
            simp only [hs, Option.some.injEq] at h
            subst h
            apply set_pre r hr fd hmem
            simp only [ValFor, ht]
            exact Or.inr ⟨v, rfl, strtonum_inrange val v hs⟩

theorem setKeyvals_pre (r : Row) (hr : RowPre r) (kvs : List Bytes) (hn : ∀ kv ∈ kvs, (0 : UInt8) ∉ kv) (r' : Row)
    (h : setKeyvals r kvs = some r') : RowPre r' := by
  induction kvs generalizing r with
  | nil => simp only [setKeyvals, Option.some.injEq] at h; subst h; exact hr
  | cons kv kvs ih =>
    simp only [setKeyvals] at h
    cases h1 : setKeyval r kv with
    | none => simp [h1] at h
    | some r1 =>
      simp only [h1] at h
      exact ih r1 (setKeyval_pre r hr kv (hn kv (by simp)) r1 h1) (fun k hk => hn k (by simp [hk])) h

theorem rowOk_pre (r : Row) (h : RowOk r) : RowPre r := by
  obtain ⟨s, n, e', d, dl, lg, u, t, sk, rfl, hs, he, hd, hdl, ht, hsk, hn, hlg, hu, hnn, hun⟩ := h.shape
  exact ⟨⟨_, _, _, _, _, _, _, _, _, rfl, Or.inr ⟨s, rfl, hs⟩, Or.inr ⟨n, rfl, hn, Or.inr hnn⟩, Or.inr ⟨e', rfl, he⟩,
    Or.inr ⟨d, rfl, hd⟩, Or.inr ⟨dl, rfl, hdl⟩, Or.inr ⟨lg, rfl, hlg, Or.inl rfl⟩, Or.inr ⟨u, rfl, hu, Or.inr hun⟩,
    Or.inr ⟨t, rfl, ht⟩, Or.inr ⟨sk, rfl, hsk⟩⟩⟩

theorem serializeRow_lookups (r : Row) (o : Bytes) (h : serializeRow r = some o) :
    ∀ it ∈ items, rowLookup r it.2 ≠ none := by
  unfold serializeRow interpStr at h
  have hd4 : Gen.interpolateDepthLimit - 1 = 2 + 1 + 1 := by decide
  rw [hd4, template_eq] at h
  have e : ∀ lk : Lookup, interp lk false (2 + 1 + 1) (tmplOf items [NL]) =
      inner lk false (interp lk false (2 + 1)) (tmplOf items [NL]) := fun _ => rfl
  rw [e] at h
  cases hi : inner (rowLookup r) false (interp (rowLookup r) false (2 + 1)) (tmplOf items [NL]) with
  | error er => simp [hi] at h
  | ok b => exact inner_tmpl_ok_lookup _ _ items [NL] b items_ok hi

theorem pre_complete_ok (r : Row) (hp : RowPre r) (o : Bytes) (h : serializeRow r = some o) : RowOk r := by
  have hl := serializeRow_lookups r o h
  obtain ⟨a0, a1, a2, a3, a4, a5, a6, a7, a8, rfl, h0, h1, h2, h3, h4, h5, h6, h7, h8⟩ := hp.shape
  have k0 := hl ([], [115, 116, 101, 112]) (by decide)
  have k1 := hl ([COMMA], [110, 97, 109, 101]) (by decide)
  have k2 := hl ([COMMA], [101, 120, 105, 116]) (by decide)
  have k3 := hl ([COMMA], [100, 117, 114, 97, 116, 105, 111, 110]) (by decide)
  have k4 := hl ([COMMA], [100, 101, 108, 116, 97]) (by decide)
  have k5 := hl ([COMMA], [108, 111, 103]) (by decide)
  have k6 := hl ([COMMA], [117, 115, 101, 114]) (by decide)
  have k7 := hl ([COMMA], [116, 105, 109, 101]) (by decide)
  have k8 := hl ([COMMA], [115, 107, 105, 112]) (by decide)
  have u0 : a0 ≠ .unknown := by intro e; subst e; exact k0 rfl
  have u1 : a1 ≠ .unknown := by intro e; subst e; exact k1 rfl
  have u2 : a2 ≠ .unknown := by intro e; subst e; exact k2 rfl
  have u3 : a3 ≠ .unknown := by intro e; subst e; exact k3 rfl
  have u4 : a4 ≠ .unknown := by intro e; subst e; exact k4 rfl
  have u5 : a5 ≠ .unknown := by intro e; subst e; exact k5 rfl
  have u6 : a6 ≠ .unknown := by intro e; subst e; exact k6 rfl
  have u7 : a7 ≠ .unknown := by intro e; subst e; exact k7 rfl
  have u8 : a8 ≠ .unknown := by intro e; subst e; exact k8 rfl
  obtain ⟨s, rfl, hs⟩ := h0.resolve_left u0
  obtain ⟨n, rfl, hn, hnn⟩ := h1.resolve_left u1
  obtain ⟨e', rfl, he⟩ := h2.resolve_left u2
  obtain ⟨d, rfl, hd⟩ := h3.resolve_left u3
  obtain ⟨dl, rfl, hdl⟩ := h4.resolve_left u4
  obtain ⟨lg, rfl, hlg, _⟩ := h5.resolve_left u5
  obtain ⟨u, rfl, hu, hun⟩ := h6.resolve_left u6
  obtain ⟨t, rfl, ht⟩ := h7.resolve_left u7
  obtain ⟨sk, rfl, hsk⟩ := h8.resolve_left u8
  exact ⟨⟨s, n, e', d, dl, lg, u, t, sk, rfl, hs, he, hd, hdl, ht, hsk, hn, hlg, hu,
    hnn.resolve_left (by decide), hun.resolve_left (by decide)⟩⟩

theorem serializeRows_each (rs : List Row) (b : Bytes) (h : serializeRows rs = some b) :
    ∀ r ∈ rs, ∃ o, serializeRow r = some o := by
  induction rs generalizing b with
  | nil => simp
  | cons x xs ih =>
    simp only [serializeRows] at h
    cases hx : serializeRow x with
    | none => simp [hx] at h
    | some a =>
      simp only [hx] at h
      cases hxs : serializeRows xs with
      | none => simp [hxs] at h
      | some c =>
        intro r hr
        simp only [List.mem_cons] at hr
        rcases hr with rfl | hr
        · exact ⟨a, hx⟩
        · exact ih c hxs r hr

theorem init_pre (id : Int) (hid : InI64 id) (r0 : Row) (h : initRow = some r0) :
    RowPre (r0.set stepIdx (.int id)) := by
  rw [initRow_eq] at h
  simp only [Option.some.injEq] at h
  subst h
  exact ⟨⟨_, _, _, _, _, _, _, _, _, rfl, Or.inr ⟨id, rfl, hid⟩, Or.inl rfl, Or.inl rfl, Or.inl rfl,
    Or.inr ⟨0, rfl, by decide⟩, Or.inr ⟨[], rfl, by decide, Or.inl rfl⟩, Or.inl rfl, Or.inl rfl, Or.inr ⟨0, rfl, by decide⟩⟩⟩


end StepFile
end Robsd
