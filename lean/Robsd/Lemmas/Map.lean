import Robsd.Model.Map
/-
  Helper lemmas for the hash map: the table invariant and its preservation by
  insertion, bucket expansion and deletion, for every hash function.
-/
namespace Robsd
namespace Map

/-! ### Nodup helpers (core has them for `Pairwise` only) -/

theorem nodup_of_map {α β} (f : α → β) {l : List α} (h : (l.map f).Nodup) : l.Nodup :=
  List.Pairwise.of_map f (fun _ _ hab e => hab (congrArg f e)) h

theorem nodup_reverse_of {α} {l : List α} (h : l.Nodup) : l.reverse.Nodup := by
  unfold List.Nodup at *
  rw [List.pairwise_reverse]
  exact h.imp (fun hab => Ne.symm hab)

theorem nodup_filter_of {α} (p : α → Bool) {l : List α} (h : l.Nodup) : (l.filter p).Nodup :=
  List.Pairwise.filter p h

/-! ### updAt / bucketAt -/

@[simp] theorem length_updAt {α} (l : List α) (i : Nat) (f : α → α) : (updAt l i f).length = l.length := by
  induction l generalizing i with
  | nil => simp [updAt]
  | cons x xs ih => cases i <;> simp [updAt, ih]

theorem getD_updAt_same {α} (l : List α) (i : Nat) (f : α → α) (d : α) (h : i < l.length) :
    (updAt l i f).getD i d = f (l.getD i d) := by
  induction l generalizing i with
  | nil => simp at h
  | cons x xs ih =>
    cases i with
    | zero => simp [updAt]
    | succ i =>
      simp only [List.length_cons] at h
      simp [updAt]
      have := ih i (by omega)
      simpa [List.getD] using this

theorem getD_updAt_ne {α} (l : List α) (i j : Nat) (f : α → α) (d : α) (h : j ≠ i) :
    (updAt l i f).getD j d = l.getD j d := by
  induction l generalizing i j with
  | nil => simp [updAt]
  | cons x xs ih =>
    cases i with
    | zero =>
      cases j with
      | zero => exact absurd rfl h
      | succ j => simp [updAt]
    | succ i =>
      cases j with
      | zero => simp [updAt]
      | succ j =>
        simp [updAt]
        have := ih i j (by omega)
        simpa [List.getD] using this

theorem bucketAt_updAt_same (bs : List Bucket) (i : Nat) (f : Bucket → Bucket) (h : i < bs.length) :
    bucketAt (updAt bs i f) i = f (bucketAt bs i) := getD_updAt_same bs i f {} h

theorem bucketAt_updAt_ne (bs : List Bucket) (i j : Nat) (f : Bucket → Bucket) (h : j ≠ i) :
    bucketAt (updAt bs i f) j = bucketAt bs j := getD_updAt_ne bs i j f {} h

theorem bucketAt_replicate (n j : Nat) : bucketAt (List.replicate n ({} : Bucket)) j = {} := by
  unfold bucketAt
  rw [List.getD_eq_getElem?_getD, List.getElem?_replicate]
  split <;> rfl

theorem bucketAt_of_ge (bs : List Bucket) (j : Nat) (h : bs.length ≤ j) : bucketAt bs j = {} := by
  unfold bucketAt
  rw [List.getD_eq_getElem?_getD, List.getElem?_eq_none h]
  rfl

theorem mem_flatMap_chain (bs : List Bucket) (e : Elem) :
    e ∈ bs.flatMap (·.chain) ↔ ∃ i, i < bs.length ∧ e ∈ (bucketAt bs i).chain := by
  constructor
  · intro h
    rcases List.mem_flatMap.mp h with ⟨b, hb, he⟩
    rcases List.mem_iff_getElem.mp hb with ⟨i, hi, rfl⟩
    refine ⟨i, hi, ?_⟩
    unfold bucketAt
    rw [List.getD_eq_getElem?_getD, List.getElem?_eq_getElem hi]
    exact he
  · rintro ⟨i, hi, he⟩
    refine List.mem_flatMap.mpr ⟨bs[i], List.getElem_mem hi, ?_⟩
    unfold bucketAt at he
    rw [List.getD_eq_getElem?_getD, List.getElem?_eq_getElem hi] at he
    exact he

/-- chains whose members all carry their own bucket index are pairwise disjoint -/
theorem nodup_flatMap_chain (g : Elem → Nat) (bs : List Bucket) (off : Nat)
    (hn : ∀ i, (bucketAt bs i).chain.Nodup)
    (hg : ∀ i, i < bs.length → ∀ e ∈ (bucketAt bs i).chain, g e = off + i) :
    (bs.flatMap (·.chain)).Nodup := by
  induction bs generalizing off with
  | nil => simp
  | cons b rest ih =>
    rw [List.flatMap_cons, List.nodup_append]
    refine ⟨?_, ?_, ?_⟩
    · have := hn 0
      simpa [bucketAt] using this
    · apply ih (off + 1)
      · intro i
        have := hn (i + 1)
        simpa [bucketAt] using this
      · intro i hi e he
        have := hg (i + 1) (by simp; omega) e (by simpa [bucketAt] using he)
        omega
    · intro a ha b' hb' hab
      subst hab
      have h0 := hg 0 (by simp) a (by simpa [bucketAt] using ha)
      rcases (mem_flatMap_chain rest a).mp hb' with ⟨i, hi, he⟩
      have h1 := hg (i + 1) (by simp; omega) a (by simpa [bucketAt] using he)
      omega

/-! ### the table invariant -/

structure TInv (order : List Elem) (t : Table) : Prop where
  pos : 0 < t.buckets.length
  nodup : ∀ j, (bucketAt t.buckets j).chain.Nodup
  mem : ∀ j, j < t.buckets.length → ∀ e, e ∈ (bucketAt t.buckets j).chain ↔
          (e ∈ order ∧ bidx e.hashv t.buckets.length = j)
  count : ∀ j, (bucketAt t.buckets j).count = (bucketAt t.buckets j).chain.length
  items : t.numItems = order.length

theorem tinv_mkTable : TInv [] mkTable := by
  refine ⟨by simp [mkTable, Gen.mapInitialBuckets], ?_, ?_, ?_, rfl⟩
  · intro j; simp [mkTable, bucketAt_replicate]
  · intro j _ e; simp [mkTable, bucketAt_replicate]
  · intro j; simp [mkTable, bucketAt_replicate]

/-- linking an element that is not yet in the map at the head of its bucket -/
theorem tinv_push (order : List Elem) (t : Table) (e : Elem) (hi : TInv order t) (he : e ∉ order) :
    TInv (order ++ [e])
      { t with numItems := t.numItems + 1,
               buckets := updAt t.buckets (bidx e.hashv t.buckets.length)
                 (fun b => { b with chain := e :: b.chain, count := b.count + 1 }) } := by
  have hj := bidx_lt e.hashv _ hi.pos
  have hnot : ∀ j, j < t.buckets.length → e ∉ (bucketAt t.buckets j).chain :=
    fun j hjl hm => he ((hi.mem j hjl e).mp hm).1
  refine ⟨by simpa using hi.pos, ?_, ?_, ?_, ?_⟩
  · intro j
    by_cases hjj : j = bidx e.hashv t.buckets.length
    · subst hjj
      simp only [bucketAt_updAt_same _ _ _ hj, List.nodup_cons]
      exact ⟨hnot _ hj, hi.nodup _⟩
    · simp only [bucketAt_updAt_ne _ _ _ _ hjj]; exact hi.nodup j
  · intro j hjl x
    simp only [length_updAt] at hjl ⊢
    by_cases hjj : j = bidx e.hashv t.buckets.length
    · subst hjj
      simp only [bucketAt_updAt_same _ _ _ hj, List.mem_cons, List.mem_append, List.not_mem_nil, or_false]
      rw [hi.mem _ hj x]
      constructor
      · rintro (rfl | ⟨h1, h2⟩)
        · exact ⟨Or.inr rfl, rfl⟩
        · exact ⟨Or.inl h1, h2⟩
      · rintro ⟨h1 | rfl, h2⟩
        · exact Or.inr ⟨h1, h2⟩
        · exact Or.inl rfl
    · simp only [bucketAt_updAt_ne _ _ _ _ hjj, List.mem_append, List.mem_cons, List.not_mem_nil, or_false]
      rw [hi.mem _ hjl x]
      constructor
      · rintro ⟨h1, h2⟩; exact ⟨Or.inl h1, h2⟩
      · rintro ⟨h1 | rfl, h2⟩
        · exact ⟨h1, h2⟩
        · exact absurd h2.symm hjj
  · intro j
    by_cases hjj : j = bidx e.hashv t.buckets.length
    · subst hjj
      simp only [bucketAt_updAt_same _ _ _ hj, List.length_cons, hi.count]
    · simp only [bucketAt_updAt_ne _ _ _ _ hjj]; exact hi.count j
  · simp [hi.items]

/-! ### bucket expansion -/

theorem expandStep_length (ideal : Nat) (acc : List Bucket × Nat) (e : Elem) :
    (expandStep ideal acc e).1.length = acc.1.length := by
  simp [expandStep]

theorem foldl_expandStep_length (ideal : Nat) (L : List Elem) (acc : List Bucket × Nat) :
    (L.foldl (expandStep ideal) acc).1.length = acc.1.length := by
  induction L generalizing acc with
  | nil => rfl
  | cons e L ih => rw [List.foldl_cons, ih, expandStep_length]

/-- what the redistribution loop builds: every element ends up at the head of
    the bucket its hash selects, in front of those linked before it -/
theorem foldl_expandStep_chain (ideal : Nat) (L : List Elem) (acc : List Bucket × Nat)
    (hpos : 0 < acc.1.length) (j : Nat) (hj : j < acc.1.length) :
    let r := L.foldl (expandStep ideal) acc
    (bucketAt r.1 j).chain = (L.filter (fun e => bidx e.hashv acc.1.length = j)).reverse ++ (bucketAt acc.1 j).chain ∧
    (bucketAt r.1 j).count = (L.filter (fun e => bidx e.hashv acc.1.length = j)).length + (bucketAt acc.1 j).count := by
  induction L generalizing acc with
  | nil => simp
  | cons e L ih =>
    have hl := expandStep_length ideal acc e
    have := ih (expandStep ideal acc e) (by rw [hl]; exact hpos) (by rw [hl]; exact hj)
    simp only [List.foldl_cons]
    rw [hl] at this
    have hb := bidx_lt e.hashv _ hpos
    by_cases hjj : bidx e.hashv acc.1.length = j
    · subst hjj
      have e1 : bucketAt (expandStep ideal acc e).1 (bidx e.hashv acc.1.length) =
          { chain := e :: (bucketAt acc.1 (bidx e.hashv acc.1.length)).chain,
            count := (bucketAt acc.1 (bidx e.hashv acc.1.length)).count + 1,
            mult := if (bucketAt acc.1 (bidx e.hashv acc.1.length)).count + 1 > ideal ∧
                       (bucketAt acc.1 (bidx e.hashv acc.1.length)).count + 1 >
                         (bucketAt acc.1 (bidx e.hashv acc.1.length)).mult * ideal
                    then (bucketAt acc.1 (bidx e.hashv acc.1.length)).mult + 1
                    else (bucketAt acc.1 (bidx e.hashv acc.1.length)).mult } := by
        simp only [expandStep]
        rw [bucketAt_updAt_same _ _ _ hb]
      rw [e1] at this
      refine ⟨?_, ?_⟩
      · rw [this.1]; simp
      · rw [this.2]; simp; omega
    · have e1 : bucketAt (expandStep ideal acc e).1 j = bucketAt acc.1 j := by
        simp only [expandStep]
        rw [bucketAt_updAt_ne _ _ _ _ (Ne.symm hjj)]
      rw [e1] at this
      refine ⟨?_, ?_⟩
      · rw [this.1]; simp [hjj]
      · rw [this.2]; simp [hjj]

theorem tinv_expand (order : List Elem) (t : Table) (hi : TInv order t) : TInv order (expand t) := by
  have hall : ∀ e, e ∈ t.buckets.flatMap (·.chain) ↔ e ∈ order := by
    intro e
    rw [mem_flatMap_chain]
    constructor
    · rintro ⟨i, hil, he⟩; exact ((hi.mem i hil e).mp he).1
    · intro he
      exact ⟨_, bidx_lt e.hashv _ hi.pos, (hi.mem _ (bidx_lt e.hashv _ hi.pos) e).mpr ⟨he, rfl⟩⟩
  have hnd : (t.buckets.flatMap (·.chain)).Nodup := by
    apply nodup_flatMap_chain (fun e => bidx e.hashv t.buckets.length) t.buckets 0 hi.nodup
    intro i hil e he
    simpa using ((hi.mem i hil e).mp he).2
  have hlen0 : (List.replicate (t.buckets.length * 2) ({} : Bucket)).length = t.buckets.length * 2 := by simp
  have hpos2 : 0 < t.buckets.length * 2 := by have := hi.pos; omega
  have hlen : (expand t).buckets.length = t.buckets.length * 2 := by
    simp only [expand]
    rw [foldl_expandStep_length]; simp
  have hch : ∀ j, j < t.buckets.length * 2 →
      (bucketAt (expand t).buckets j).chain =
        ((t.buckets.flatMap (·.chain)).filter (fun e => bidx e.hashv (t.buckets.length * 2) = j)).reverse ∧
      (bucketAt (expand t).buckets j).count =
        ((t.buckets.flatMap (·.chain)).filter (fun e => bidx e.hashv (t.buckets.length * 2) = j)).length := by
    intro j hj
    have := foldl_expandStep_chain
      ((t.numItems >>> (t.log2 + 1)) + (if t.numItems &&& (t.buckets.length * 2 - 1) ≠ 0 then 1 else 0))
      (t.buckets.flatMap (·.chain)) (List.replicate (t.buckets.length * 2) {}, 0)
      (by simpa using hpos2) j (by simpa using hj)
    simp only [hlen0, bucketAt_replicate, List.append_nil, Nat.add_zero] at this
    simpa [expand] using this
  refine ⟨by rw [hlen]; exact hpos2, ?_, ?_, ?_, ?_⟩
  · intro j
    by_cases hj : j < t.buckets.length * 2
    · rw [(hch j hj).1]
      exact nodup_reverse_of (nodup_filter_of _ hnd)
    · rw [bucketAt_of_ge _ _ (by rw [hlen]; omega)]; simp
  · intro j hj e
    rw [hlen] at hj ⊢
    rw [(hch j hj).1]
    simp [List.mem_reverse, List.mem_filter, hall]
  · intro j
    by_cases hj : j < t.buckets.length * 2
    · rw [(hch j hj).1, (hch j hj).2]; simp
    · rw [bucketAt_of_ge _ _ (by rw [hlen]; omega)]; simp
  · simpa [expand] using hi.items

theorem tinv_addToTable (order : List Elem) (t : Table) (e : Elem) (hi : TInv order t) (he : e ∉ order) :
    TInv (order ++ [e]) (addToTable t e) := by
  unfold addToTable
  simp only
  split
  · exact tinv_expand _ _ (tinv_push order t e hi he)
  · exact tinv_push order t e hi he

/-! ### deletion -/

theorem sole_iff (order : List Elem) (e : Elem) (hn : order.Nodup) :
    (order.head? = some e ∧ order.getLast? = some e) ↔ order = [e] := by
  constructor
  · rintro ⟨h1, h2⟩
    cases order with
    | nil => simp at h1
    | cons x xs =>
      simp only [List.head?_cons, Option.some.injEq] at h1
      subst h1
      cases xs with
      | nil => rfl
      | cons y ys =>
        exfalso
        rw [List.getLast?_cons_cons] at h2
        have : x ∈ y :: ys := List.mem_of_getLast? h2
        exact (List.nodup_cons.mp hn).1 this
  · rintro rfl; simp

theorem tinv_delete (order : List Elem) (t : Table) (e : Elem) (hi : TInv order t) (hn : order.Nodup)
    (he : e ∈ order) : TInv (order.erase e) (delInBkt t e) := by
  have hj := bidx_lt e.hashv _ hi.pos
  have hin : e ∈ (bucketAt t.buckets (bidx e.hashv t.buckets.length)).chain := (hi.mem _ hj e).mpr ⟨he, rfl⟩
  refine ⟨by simpa [delInBkt] using hi.pos, ?_, ?_, ?_, ?_⟩
  · intro j
    simp only [delInBkt]
    by_cases hjj : j = bidx e.hashv t.buckets.length
    · subst hjj
      rw [bucketAt_updAt_same _ _ _ hj]
      exact (hi.nodup _).erase e
    · rw [bucketAt_updAt_ne _ _ _ _ hjj]; exact hi.nodup j
  · intro j hjl x
    simp only [delInBkt, length_updAt] at hjl ⊢
    rw [hn.mem_erase_iff]
    by_cases hjj : j = bidx e.hashv t.buckets.length
    · subst hjj
      rw [bucketAt_updAt_same _ _ _ hj]
      simp only
      rw [(hi.nodup _).mem_erase_iff, hi.mem _ hj x]
      constructor
      · rintro ⟨h1, h2, h3⟩; exact ⟨⟨h1, h2⟩, h3⟩
      · rintro ⟨⟨h1, h2⟩, h3⟩; exact ⟨h1, h2, h3⟩
    · rw [bucketAt_updAt_ne _ _ _ _ hjj, hi.mem _ hjl x]
      constructor
      · rintro ⟨h1, h2⟩
        refine ⟨⟨?_, h1⟩, h2⟩
        rintro rfl; exact hjj h2.symm
      · rintro ⟨⟨_, h1⟩, h2⟩; exact ⟨h1, h2⟩
  · intro j
    simp only [delInBkt]
    by_cases hjj : j = bidx e.hashv t.buckets.length
    · subst hjj
      rw [bucketAt_updAt_same _ _ _ hj]
      simp only
      rw [List.length_erase_of_mem hin, hi.count]
    · rw [bucketAt_updAt_ne _ _ _ _ hjj]; exact hi.count j
  · simp only [delInBkt]
    rw [List.length_erase_of_mem he, hi.items]

/-! ### the whole-map invariant -/

structure Inv (h : Bytes → Nat) (s : St) : Prop where
  ids : (s.order.map (·.id)).Nodup
  fresh : ∀ e ∈ s.order, e.id < s.next
  hash : ∀ e ∈ s.order, e.hashv = h e.key
  tbl : s.order ≠ [] → TInv s.order s.table

def KeysNodup (order : List Elem) : Prop := (order.map (·.key)).Nodup

theorem Inv.nodup {h s} (hi : Inv h s) : s.order.Nodup := nodup_of_map _ hi.ids

theorem inv_init (h : Bytes → Nat) : Inv h {} :=
  ⟨by simp, by simp, by simp, by simp⟩

theorem eq_of_key_eq {order : List Elem} (hk : KeysNodup order) {a b : Elem}
    (ha : a ∈ order) (hb : b ∈ order) (hab : a.key = b.key) : a = b := by
  unfold KeysNodup at hk
  induction order with
  | nil => simp at ha
  | cons x xs ih =>
    simp only [List.map_cons, List.nodup_cons, List.mem_map, not_exists, not_and] at hk
    rcases List.mem_cons.mp ha with rfl | ha' <;> rcases List.mem_cons.mp hb with rfl | hb'
    · rfl
    · exact absurd hab.symm (hk.1 b hb')
    · exact absurd hab (hk.1 a ha')
    · exact ih hk.2 ha' hb'

theorem inv_insert (h : Bytes → Nat) (s : St) (k : Bytes) (hi : Inv h s) : Inv h (insert h s k).1 := by
  have hnew : (⟨s.next, k, h k⟩ : Elem) ∉ s.order := fun hm => Nat.lt_irrefl _ (hi.fresh _ hm)
  refine ⟨?_, ?_, ?_, ?_⟩
  · simp only [insert, List.map_append, List.map_cons, List.map_nil]
    rw [List.nodup_append]
    refine ⟨hi.ids, by simp, ?_⟩
    intro a ha b hb hab
    simp only [List.mem_singleton] at hb
    subst hb; subst hab
    rcases List.mem_map.mp ha with ⟨e, he, hid⟩
    have := hi.fresh e he
    omega
  · intro e he
    simp only [insert, List.mem_append, List.mem_singleton] at he ⊢
    rcases he with he | rfl
    · have := hi.fresh e he; omega
    · simp
  · intro e he
    simp only [insert, List.mem_append, List.mem_singleton] at he
    rcases he with he | rfl
    · exact hi.hash e he
    · rfl
  · intro _
    simp only [insert]
    by_cases ho : s.order = []
    · simp only [ho, if_true]
      have := tinv_addToTable [] mkTable ⟨s.next, k, h k⟩ tinv_mkTable (by simp)
      simpa using this
    · simp only [ho, if_false]
      exact tinv_addToTable s.order s.table _ (hi.tbl ho) hnew

theorem keys_insert (h : Bytes → Nat) (s : St) (k : Bytes) (hk : KeysNodup s.order)
    (hab : ∀ e ∈ s.order, e.key ≠ k) : KeysNodup (insert h s k).1.order := by
  unfold KeysNodup at *
  simp only [insert, List.map_append, List.map_cons, List.map_nil]
  rw [List.nodup_append]
  refine ⟨hk, by simp, ?_⟩
  intro a ha b hb habk
  simp only [List.mem_singleton] at hb
  subst hb; subst habk
  rcases List.mem_map.mp ha with ⟨e, he, hke⟩
  exact hab e he hke

/-- HASH_FIND returns an entry with the key iff there is one, whatever the hash -/
theorem find_eq (h : Bytes → Nat) (s : St) (k : Bytes) (hi : Inv h s) (hk : KeysNodup s.order) :
    find h s k = s.order.find? (fun e => e.key == k) := by
  unfold find
  by_cases ho : s.order = []
  · simp [ho]
  · simp only [ho, if_false]
    have ht := hi.tbl ho
    have hj := bidx_lt (h k) _ ht.pos
    cases hf : s.order.find? (fun e => e.key == k) with
    | none =>
      rw [List.find?_eq_none] at hf ⊢
      intro e he
      have := (ht.mem _ hj e).mp he
      have := hf e this.1
      simp_all
    | some e =>
      have hek : e.key = k := by simpa using List.find?_some hf
      have heo : e ∈ s.order := List.mem_of_find?_eq_some hf
      have hin : e ∈ (bucketAt s.table.buckets (bidx (h k) s.table.buckets.length)).chain := by
        apply (ht.mem _ hj e).mpr
        rw [hi.hash e heo, hek]; exact ⟨heo, rfl⟩
      cases hc : (bucketAt s.table.buckets (bidx (h k) s.table.buckets.length)).chain.find?
          (fun e => e.hashv == h k && e.key == k) with
      | none =>
        rw [List.find?_eq_none] at hc
        have := hc e hin
        rw [hi.hash e heo, hek] at this
        simp at this
      | some e' =>
        have h1 : e'.key = k := by
          have := List.find?_some hc
          simp only [Bool.and_eq_true, beq_iff_eq] at this
          exact this.2
        have h2 : e' ∈ s.order := ((ht.mem _ hj e').mp (List.mem_of_find?_eq_some hc)).1
        rw [eq_of_key_eq hk h2 heo (h1.trans hek.symm)]

theorem keys_cons {x : Elem} {xs : List Elem} (hk : KeysNodup (x :: xs)) :
    (∀ y ∈ xs, y.key ≠ x.key) ∧ KeysNodup xs := by
  unfold KeysNodup at *
  simp only [List.map_cons, List.nodup_cons, List.mem_map, not_exists, not_and] at hk
  exact ⟨hk.1, hk.2⟩

theorem erase_eq_filter_key (order : List Elem) (e : Elem) (hk : KeysNodup order) (he : e ∈ order) :
    order.erase e = order.filter (fun x => x.key != e.key) := by
  induction order with
  | nil => simp at he
  | cons x xs ih =>
    have hc := keys_cons hk
    by_cases hx : x = e
    · subst hx
      rw [List.erase_cons_head, List.filter_cons]
      simp only [bne_self_eq_false, Bool.false_eq_true, if_false]
      symm
      rw [List.filter_eq_self]
      intro y hy
      simpa using hc.1 y hy
    · have he' : e ∈ xs := by
        rcases List.mem_cons.mp he with rfl | h
        · exact absurd rfl hx
        · exact h
      have hxk : x.key ≠ e.key := fun hxk => hc.1 e he' hxk.symm
      rw [List.erase_cons_tail (by simpa using hx), List.filter_cons]
      simp only [bne_iff_ne, ne_eq, hxk, not_false_eq_true, if_true]
      rw [ih hc.2 he']

theorem inv_delete (h : Bytes → Nat) (s : St) (e : Elem) (hi : Inv h s) (he : e ∈ s.order) :
    Inv h (delete s e) ∧ (delete s e).order = s.order.erase e ∧ (delete s e).next = s.next := by
  unfold delete
  by_cases hs : s.order.head? = some e ∧ s.order.getLast? = some e
  · have := (sole_iff _ _ hi.nodup).mp hs
    rw [if_pos hs]
    refine ⟨⟨by simp, by simp, by simp, by simp⟩, ?_, rfl⟩
    simp [this]
  · rw [if_neg hs]
    have ho : s.order ≠ [] := List.ne_nil_of_mem he
    refine ⟨⟨?_, ?_, ?_, ?_⟩, rfl, rfl⟩
    · exact (hi.ids.sublist ((List.erase_sublist).map _))
    · intro x hx; exact hi.fresh x (List.mem_of_mem_erase hx)
    · intro x hx; exact hi.hash x (List.mem_of_mem_erase hx)
    · intro _; exact tinv_delete _ _ _ (hi.tbl ho) hi.nodup he

theorem keys_erase (order : List Elem) (e : Elem) (hk : KeysNodup order) : KeysNodup (order.erase e) := by
  unfold KeysNodup at *
  exact hk.sublist ((List.erase_sublist).map _)

/-- map_remove at the level of the application-order list -/
theorem inv_remove (h : Bytes → Nat) (s : St) (k : Bytes) (hi : Inv h s) (hk : KeysNodup s.order) :
    Inv h (remove h s k) ∧ (remove h s k).order = s.order.filter (fun x => x.key != k) ∧
    (remove h s k).next = s.next := by
  unfold remove
  rw [find_eq h s k hi hk]
  cases hf : s.order.find? (fun e => e.key == k) with
  | none =>
    refine ⟨hi, ?_, rfl⟩
    simp only
    symm
    rw [List.filter_eq_self]
    intro x hx
    rw [List.find?_eq_none] at hf
    have := hf x hx
    simpa using this
  | some e =>
    have hek : e.key = k := by simpa using List.find?_some hf
    have heo : e ∈ s.order := List.mem_of_find?_eq_some hf
    have := inv_delete h s e hi heo
    refine ⟨this.1, ?_, this.2.2⟩
    simp only
    rw [this.2.1, erase_eq_filter_key _ _ hk heo, hek]

end Map
end Robsd
