import Robsd.Model.StepFile
/- Helper lemmas: `%d` followed by `strtonum` is the identity (helpers; property statements are in Props/). -/
namespace Robsd
namespace StepFile
open Bytes

theorem digitByte (k : Nat) (h : k < 10) :
    (UInt8.ofNat (48 + k)).toNat = 48 + k ∧ isDigitB (UInt8.ofNat (48 + k)) = true := by
  have e : (UInt8.ofNat (48 + k)).toNat = 48 + k := by
    rw [UInt8.toNat_ofNat']; omega
  refine ⟨e, ?_⟩
  simp only [isDigitB, Bool.and_eq_true, decide_eq_true_eq, UInt8.le_iff_toNat_le, e]
  constructor
  · show (48 : UInt8).toNat ≤ 48 + k; simp
  · show 48 + k ≤ (57 : UInt8).toNat; simp; omega

theorem digitsVal_snoc (xs : Bytes) (d : UInt8) :
    digitsVal (xs ++ [d]) = 10 * digitsVal xs + (d.toNat - 48) := by
  simp [digitsVal, List.foldl_append]

theorem natDigits_spec (f n : Nat) (h : n < f) :
    digitsVal (natDigits f n) = n ∧ (natDigits f n).all isDigitB = true ∧ natDigits f n ≠ [] := by
  induction f generalizing n with
  | zero => omega
  | succ f ih =>
    unfold natDigits
    by_cases h10 : n < 10
    · simp only [h10, if_true]
      obtain ⟨e, d⟩ := digitByte n h10
      refine ⟨?_, ?_, by simp⟩
      · show 10 * 0 + ((UInt8.ofNat (48 + n)).toNat - 48) = n
        rw [e]; omega
      · simp only [List.all_cons, List.all_nil, d, Bool.and_true]
    · simp only [h10, if_false]
      obtain ⟨a, b, c⟩ := ih (n / 10) (by omega)
      obtain ⟨e, d⟩ := digitByte (n % 10) (by omega)
      refine ⟨?_, ?_, by simp⟩
      · rw [digitsVal_snoc, a, e]; omega
      · simp only [List.all_append, b, List.all_cons, List.all_nil, d, Bool.and_true]

theorem renderNat_spec (n : Nat) :
    parseDigits (renderNat n) = some n ∧ (renderNat n).all isDigitB = true ∧ renderNat n ≠ [] := by
  obtain ⟨a, b, c⟩ := natDigits_spec (n + 1) n (by omega)
  refine ⟨?_, b, c⟩
  unfold parseDigits renderNat
  have : (natDigits (n + 1) n).isEmpty = false := by
    cases h : natDigits (n + 1) n with
    | nil => exact absurd h c
    | cons _ _ => rfl
  simp [this, b, a]

/-- facts about a digit byte used to see through `strtoll`'s prefix handling -/
theorem digit_facts (d : UInt8) (h : isDigitB d = true) :
    isSpaceB d = false ∧ d ≠ 45 ∧ d ≠ 43 ∧ d ≠ 44 ∧ d ≠ 10 ∧ d ≠ 36 ∧ d ≠ 0 := by
  simp only [isDigitB, Bool.and_eq_true, decide_eq_true_eq, UInt8.le_iff_toNat_le] at h
  have h1 : 48 ≤ d.toNat := by simpa using h.1
  have h2 : d.toNat ≤ 57 := by simpa using h.2
  refine ⟨?_, ?_, ?_, ?_, ?_, ?_, ?_⟩
  · simp only [isSpaceB, Bool.or_eq_false_iff, beq_eq_false_iff_ne, ne_eq, Bool.and_eq_false_iff,
      decide_eq_false_iff_not, UInt8.le_iff_toNat_le]
    refine ⟨?_, Or.inr ?_⟩
    · intro e; rw [e] at h1; simp at h1
    · show ¬ d.toNat ≤ (13 : UInt8).toNat; simp; omega
  all_goals (intro e; rw [e] at h1 h2; simp at h1 h2)

theorem parseDecimal_digits (ds : Bytes) (hall : ds.all isDigitB = true) (hne : ds ≠ []) :
    parseDecimal ds = (parseDigits ds).map (fun v => (v : Int)) := by
  cases ds with
  | nil => exact absurd rfl hne
  | cons d rest =>
    simp only [List.all_cons, Bool.and_eq_true] at hall
    obtain ⟨hs, h45, h43, _⟩ := digit_facts d hall.1
    unfold parseDecimal
    simp only [List.dropWhile_cons, hs, Bool.false_eq_true, if_false]
    split
    · rename_i r heq; simp only [List.cons.injEq] at heq; exact absurd heq.1 h45
    · rename_i r heq; simp only [List.cons.injEq] at heq; exact absurd heq.1 h43
    · rfl

theorem parseDecimal_renderInt (i : Int) : parseDecimal (renderInt i) = some i := by
  unfold renderInt
  obtain ⟨a, b, c⟩ := renderNat_spec i.natAbs
  obtain ⟨a', b', c'⟩ := renderNat_spec i.toNat
  split
  · rename_i hneg
    unfold parseDecimal
    have hs : isSpaceB 45 = false := by decide
    simp only [List.dropWhile_cons, hs, Bool.false_eq_true, if_false, a]
    simp
    omega
  · rename_i hpos
    rw [parseDecimal_digits _ b' c', a']
    simp
    omega

theorem strtonum_renderInt (i : Int) (h : i64Min ≤ i ∧ i ≤ i64Max) :
    strtonum (renderInt i) i64Min i64Max = some i := by
  unfold strtonum
  rw [parseDecimal_renderInt]
  simp [h]

/-- a rendered integer contains none of the bytes that structure the file,
    and is never empty -/
theorem renderInt_clean (i : Int) :
    renderInt i ≠ [] ∧ (44 : UInt8) ∉ renderInt i ∧ (10 : UInt8) ∉ renderInt i ∧
    (36 : UInt8) ∉ renderInt i ∧ (0 : UInt8) ∉ renderInt i := by
  have key : ∀ ds : Bytes, ds.all isDigitB = true →
      (44 : UInt8) ∉ ds ∧ (10 : UInt8) ∉ ds ∧ (36 : UInt8) ∉ ds ∧ (0 : UInt8) ∉ ds := by
    intro ds hall
    rw [List.all_eq_true] at hall
    refine ⟨?_, ?_, ?_, ?_⟩ <;> intro hm
    · exact (digit_facts _ (hall _ hm)).2.2.2.1 rfl
    · exact (digit_facts _ (hall _ hm)).2.2.2.2.1 rfl
    · exact (digit_facts _ (hall _ hm)).2.2.2.2.2.1 rfl
    · exact (digit_facts _ (hall _ hm)).2.2.2.2.2.2 rfl
  unfold renderInt
  split
  · obtain ⟨_, b, _⟩ := renderNat_spec i.natAbs
    obtain ⟨k1, k2, k3, k4⟩ := key _ b
    refine ⟨by simp, ?_, ?_, ?_, ?_⟩ <;> simp only [List.mem_cons, not_or] <;> refine ⟨by decide, ?_⟩ <;> assumption
  · obtain ⟨_, b, c⟩ := renderNat_spec i.toNat
    exact ⟨c, key _ b⟩

end StepFile
end Robsd
