import Robsd.Model.Arena
/-
  Helper lemmas for C19: alignment arithmetic, `push`, `grow`, `mallocCore`.
-/
namespace Robsd
namespace Arena

theorem align8_ge (x : Nat) : x ≤ align8 x := by unfold align8; omega
theorem align8_lt (x : Nat) : align8 x < x + 8 := by unfold align8; omega
theorem align8_dvd (x : Nat) : 8 ∣ align8 x := by unfold align8; omega
theorem align8_of_dvd {x : Nat} (h : 8 ∣ x) : align8 x = x := by unfold align8; omega
theorem align8_mono {x y : Nat} (h : x ≤ y) : align8 x ≤ align8 y := by unfold align8; omega

/-- with a poison size that is a multiple of the alignment the gap is always too small -/
theorem alignP_eq {P : Nat} (h : 8 ∣ P) (x : Nat) : alignP P x = align8 x + P := by
  unfold alignP
  have := align8_lt x
  have := align8_ge x
  split <;> omega

/-- the bump pointer after a block ending at `e` in a frame of size `cap` -/
def clampA (P cap e : Nat) : Nat := min (align8 e + P) cap

theorem clampA_mono {P cap x y : Nat} (h : x ≤ y) : clampA P cap x ≤ clampA P cap y := by
  unfold clampA; have := align8_mono h; omega

theorem clampA_ge {P cap e : Nat} (h : e ≤ cap) : e ≤ clampA P cap e := by
  unfold clampA; have := align8_ge e; omega

theorem clampA_dvd {P cap e : Nat} (hP : 8 ∣ P) (hc : 8 ∣ cap) : 8 ∣ clampA P cap e := by
  unfold clampA; have := align8_dvd e
  rcases Nat.le_total (align8 e + P) cap with h | h
  · rw [Nat.min_eq_left h]; omega
  · rw [Nat.min_eq_right h]; exact hc

theorem push_some {P : Nat} (hP : 8 ∣ P) {f f' : Frame} {n o : Nat} (h : push P f n = some (o, f')) :
    o = f.len ∧ f.len + n ≤ f.size ∧ f'.h = f.h ∧ f'.size = f.size ∧ f'.len = clampA P f.size (f.len + n) := by
  unfold push at h
  split at h
  · cases h
  · simp only [Option.some.injEq, Prod.mk.injEq] at h
    obtain ⟨rfl, rfl⟩ := h
    refine ⟨rfl, by omega, rfl, rfl, ?_⟩
    simp only [alignP_eq hP, clampA]

theorem push_none {P : Nat} {f : Frame} {n : Nat} (h : push P f n = none) : f.size < f.len + n := by
  unfold push at h
  split at h
  · omega
  · cases h

theorem push_fits {P : Nat} {f : Frame} {n : Nat} (h : f.len + n ≤ f.size) :
    push P f n = some (f.len, { f with len := min (alignP P (f.len + n)) f.size }) := by
  unfold push; rw [if_neg (by omega)]

theorem grow_ge (total : Nat) : ∀ (fuel fs : Nat), 0 < fs → total ≤ fs + fuel → total ≤ grow fs total fuel := by
  intro fuel
  induction fuel with
  | zero => intro fs _ h; simpa [grow] using h
  | succ k ih =>
    intro fs hpos h
    unfold grow
    split
    · exact ih (2 * fs) (by omega) (by omega)
    · omega

theorem grow_dvd (total : Nat) : ∀ (fuel fs : Nat), 8 ∣ fs → 8 ∣ grow fs total fuel := by
  intro fuel
  induction fuel with
  | zero => intro fs h; simpa [grow] using h
  | succ k ih =>
    intro fs h
    unfold grow
    split
    · exact ih (2 * fs) (by omega)
    · exact h

/-- what `arena_malloc` does to the frame list; it never fails -/
theorem mallocCore_spec {p : Params} (hp : p.ok) {f : Frame} {fs : List Frame} (n : Nat)
    (hf : p.hdr ≤ f.len ∧ f.len ≤ f.size) :
    (f.len + n ≤ f.size ∧
      mallocCore p (f :: fs) n = some ({ f with len := clampA p.P f.size (f.len + n) } :: fs, f.h, f.len, f.size)) ∨
    (f.size < f.len + n ∧ ∃ sz, 8 ∣ sz ∧ p.hdr + p.P + n ≤ sz ∧
      mallocCore p (f :: fs) n =
        some ({ h := f.h + 1, size := sz, len := clampA p.P sz (p.hdr + p.P + n) } :: f :: fs, f.h + 1, p.hdr + p.P, sz)) := by
  obtain ⟨hpos, h8, hfz, hP8, hle⟩ := hp
  by_cases hfit : f.len + n ≤ f.size
  · left
    refine ⟨hfit, ?_⟩
    simp only [mallocCore, push_fits hfit, alignP_eq hP8, clampA]
  · right
    refine ⟨by omega, grow p.fsz (n + p.hdr + p.P) (n + p.hdr + p.P), grow_dvd _ _ _ hfz, ?_, ?_⟩
    · have := grow_ge (n + p.hdr + p.P) (n + p.hdr + p.P) p.fsz (by omega) (by omega); omega
    · have hg := grow_ge (n + p.hdr + p.P) (n + p.hdr + p.P) p.fsz (by omega) (by omega)
      have hnone : push p.P f n = none := by unfold push; rw [if_pos (by omega)]
      have h1 : (0 : Nat) + p.hdr ≤ grow p.fsz (n + p.hdr + p.P) (n + p.hdr + p.P) := by omega
      have ha : align8 p.hdr = p.hdr := align8_of_dvd h8
      have hlen1 : min (alignP p.P (0 + p.hdr)) (grow p.fsz (n + p.hdr + p.P) (n + p.hdr + p.P)) = p.hdr + p.P := by
        rw [alignP_eq hP8, Nat.zero_add, ha]; omega
      simp only [mallocCore, hnone]
      rw [push_fits (f := { h := f.h + 1, size := _, len := 0 }) h1]
      simp only [hlen1]
      rw [push_fits (by simp only; omega)]
      simp only [alignP_eq hP8, clampA]

end Arena
end Robsd
