import Robsd.Model.StepFile
import Robsd.Lemmas.Interp
/- Helper lemmas: splitting inverts joining; the interpolation engine on a
   template of the shape step.c builds.  (Property statements are in Props/.) -/
namespace Robsd
namespace StepFile
open Bytes

theorem splitAux_append_not_mem (c : UInt8) (f rest cur : Bytes) (h : c ∉ f) :
    splitAux c (f ++ rest) cur = splitAux c rest (cur ++ f) := by
  induction f generalizing cur with
  | nil => simp
  | cons x xs ih =>
    simp only [List.mem_cons, not_or] at h
    have hx : ¬ x = c := fun e => h.1 e.symm
    simp only [List.cons_append, splitAux, hx, if_false]
    rw [ih _ h.2]
    simp

theorem splitOn_not_mem (c : UInt8) (f : Bytes) (h : c ∉ f) : splitOn c f = [f] := by
  have := splitAux_append_not_mem c f [] [] h
  simp only [List.append_nil, List.nil_append] at this
  unfold splitOn
  rw [this]; rfl

theorem splitOn_intercalate (c : UInt8) (xs : List Bytes) (hne : xs ≠ [])
    (h : ∀ x ∈ xs, c ∉ x) : splitOn c (intercalateB c xs) = xs := by
  induction xs with
  | nil => exact absurd rfl hne
  | cons x rest ih =>
    cases rest with
    | nil =>
      simp only [intercalateB]
      exact splitOn_not_mem c x (h x (by simp))
    | cons y rest' =>
      simp only [intercalateB]
      unfold splitOn
      rw [splitAux_append_not_mem c x _ [] (h x (by simp))]
      simp only [List.nil_append, splitAux, if_true]
      have := ih (by simp) (fun z hz => h z (by simp [hz]))
      unfold splitOn at this
      rw [this]

theorem intercalateB_not_mem (c sep : UInt8) (xs : List Bytes) (hsep : c ≠ sep)
    (h : ∀ x ∈ xs, c ∉ x) : c ∉ intercalateB sep xs := by
  induction xs with
  | nil => simp [intercalateB]
  | cons x rest ih =>
    cases rest with
    | nil => simpa [intercalateB] using h x (by simp)
    | cons y rest' =>
      simp only [intercalateB, List.mem_append, List.mem_cons, not_or]
      exact ⟨h x (by simp), hsep, ih (fun z hz => h z (by simp [hz]))⟩

/-- the lines of a text made of '\n'-terminated lines -/
theorem splitOn_lines (ls : List Bytes) (h : ∀ l ∈ ls, NL ∉ l) :
    splitOn NL (ls.flatMap (fun l => l ++ [NL])) = ls ++ [[]] := by
  induction ls with
  | nil => rfl
  | cons l rest ih =>
    simp only [List.flatMap_cons, List.append_assoc, List.cons_append, List.nil_append]
    unfold splitOn
    rw [splitAux_append_not_mem NL l _ [] (h l (by simp))]
    simp only [List.nil_append, splitAux, if_true, List.cons.injEq, true_and]
    have := ih (fun z hz => h z (by simp [hz]))
    unfold splitOn at this
    exact this

/-! ### interpolation of a `pre₀${n₀}pre₁${n₁}…tail` template -/

open Interp in
def tmplOf : List (Bytes × Bytes) → Bytes → Bytes
  | [], tail => tail
  | (pre, n) :: items, tail => pre ++ DOLLAR :: LBRACE :: n ++ RBRACE :: tmplOf items tail

def outOf (lookup : Interp.Lookup) : List (Bytes × Bytes) → Bytes → Bytes
  | [], tail => tail
  | (pre, n) :: items, tail => pre ++ (lookup n).getD [] ++ outOf lookup items tail

open Interp in
theorem inner_tmpl_ok (lookup : Lookup) (d : Nat) (items : List (Bytes × Bytes)) (tail : Bytes)
    (ht : DOLLAR ∉ tail)
    (hi : ∀ it ∈ items, DOLLAR ∉ it.1 ∧ RBRACE ∉ it.2 ∧ it.2 ≠ [])
    (hv : ∀ it ∈ items, ∃ v, lookup it.2 = some v ∧ DOLLAR ∉ v) :
    inner lookup false (interp lookup false (d + 1)) (tmplOf items tail) = .ok (outOf lookup items tail) := by
  induction items with
  | nil =>
    simp only [tmplOf, outOf]
    exact inner_lit _ _ _ _ _ (scan_of_lit tail ht)
  | cons it rest ih =>
    obtain ⟨pre, n⟩ := it
    obtain ⟨h1, h2, h3⟩ := hi (pre, n) (by simp)
    obtain ⟨v, hl, hvd⟩ := hv (pre, n) (by simp)
    simp only [tmplOf, outOf]
    rw [inner_ref _ _ _ _ _ _ _ (scan_of_ref pre n (tmplOf rest tail) h1 h2 h3)]
    have ih' := ih (fun it hit => hi it (by simp [hit])) (fun it hit => hv it (by simp [hit]))
    have hrec : interp lookup false (d + 1) v = .ok v := by
      simp only [interp]
      exact inner_lit _ _ _ _ _ (scan_of_lit v hvd)
    simp [hl, hrec, ih']

open Interp in
theorem inner_tmpl_ok_lookup (lookup : Lookup) (rec : Bytes → Except Err Bytes)
    (items : List (Bytes × Bytes)) (tail out : Bytes)
    (hi : ∀ it ∈ items, DOLLAR ∉ it.1 ∧ RBRACE ∉ it.2 ∧ it.2 ≠ [])
    (h : inner lookup false rec (tmplOf items tail) = .ok out) :
    ∀ it ∈ items, lookup it.2 ≠ none := by
  induction items generalizing out with
  | nil => simp
  | cons it rest ih =>
    obtain ⟨pre, n⟩ := it
    obtain ⟨h1, h2, h3⟩ := hi (pre, n) (by simp)
    simp only [tmplOf] at h
    rw [inner_ref _ _ _ _ _ _ _ (scan_of_ref pre n (tmplOf rest tail) h1 h2 h3)] at h
    intro it' hit'
    cases hl : lookup n with
    | none => simp [hl] at h
    | some v =>
      simp only [hl] at h
      cases hr : rec v with
      | error e => simp [hr] at h
      | ok a =>
        simp only [hr] at h
        cases hrest : inner lookup false rec (tmplOf rest tail) with
        | error e => simp [hrest] at h
        | ok b =>
          simp only [List.mem_cons] at hit'
          rcases hit' with rfl | hit'
          · simp [hl]
          · exact ih b (fun it hit => hi it (by simp [hit])) hrest it' hit'

end StepFile
end Robsd
