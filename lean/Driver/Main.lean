import Robsd.Model.Bytes
import Robsd.Model.Interp
import Robsd.Gen.Arith
/-
  robsd_model: the executable models behind a line protocol.
  One request per line: `<component> <op> <args…>`; byte strings are hex
  (`-` = empty).  One answer line per request.
-/
open Robsd Robsd.Bytes

def hexArg (s : String) : Bytes := (ofHex s).getD []

def showErr : Interp.Err → String
  | .expectedLBrace => "err expected-lbrace"
  | .expectedRBrace => "err expected-rbrace"
  | .emptyName => "err empty-name"
  | .unknown n => s!"err unknown {toHex n}"
  | .tooDeep => "err too-deep"

def showRes : Except Interp.Err Bytes → String
  | .ok b => s!"ok {toHex b}"
  | .error e => showErr e

/-- env given as `name=value` pairs in hex, first match wins -/
def envLookup (env : List (Bytes × Bytes)) : Interp.Lookup := fun n =>
  (env.find? (fun p => p.1 == n)).map (·.2)

def parseEnv : List String → List (Bytes × Bytes)
  | k :: v :: rest => (hexArg k, hexArg v) :: parseEnv rest
  | _ => []

def handle (ws : List String) : String :=
  match ws with
  | "arith" :: f :: a :: b :: [] =>
    match Gen.arithTable.find? (fun e => e.1 == f), a.toInt?, b.toInt? with
    | some e, some x, some y =>
      let T := e.2.1
      let fb := CArith.showOut (e.2.2.2 x y)
      let exact : Int :=
        if (f.splitOn "_add_").length > 1 then x + y
        else if (f.splitOn "_sub_").length > 1 then x - y
        else x * y
      s!"{fb} | {CArith.showOut (CArith.spec T exact)}"
    | _, _, _ => "bad-op"
  | "interp" :: "str" :: ign :: tmpl :: env =>
    showRes (Interp.interpStr (envLookup (parseEnv env)) (ign == "1") (hexArg tmpl))
  | "interp" :: "file" :: ign :: tmpl :: env =>
    showRes (Interp.interpFile (envLookup (parseEnv env)) (ign == "1") (hexArg tmpl))
  | _ => "bad-op"

partial def loop (h : IO.FS.Stream) (out : IO.FS.Stream) : IO Unit := do
  let line ← h.getLine
  if line.isEmpty then return ()
  let ws := (line.trimAscii.toString.splitOn " ").filter (· ≠ "")
  out.putStrLn (handle ws)
  loop h out

def main : IO Unit := do
  let i ← IO.getStdin
  let o ← IO.getStdout
  loop i o
