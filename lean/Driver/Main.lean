import Robsd.Model.Bytes
import Robsd.Model.Interp
import Robsd.Gen.Arith
import Robsd.Model.RegressLog
import Robsd.Model.StepFile
import Robsd.Model.StepNext
import Robsd.Model.Report
import Robsd.Model.Ls
import Robsd.Model.Schedule
import Robsd.Model.Exec
import Robsd.Model.Clean
import Robsd.Model.Orch
import Robsd.Model.Flock
import Robsd.Model.Arena
import Robsd.Model.RegressHtml
import Robsd.Model.Runner
import Robsd.Model.Conf
import Robsd.Model.Map
import Robsd.Model.Vector
import Robsd.Model.Wait
import Robsd.Model.Lock
/-
  robsd_model: the executable models behind a line protocol.
  One request per line: `<component> <op> <args…>`; byte strings are hex
  (`-` = empty).  One answer line per request.
-/
open Robsd Robsd.Bytes

def hexArg (s : String) : Bytes := (ofHex s).getD []

def showErr : Interp.Err → String
  | .expectedLBrace => "err expected-lbrace"
  | .expectedRBrace => "err expected-rbrace"
  | .emptyName => "err empty-name"
  | .unknown n => s!"err unknown {toHex n}"
  | .tooDeep => "err too-deep"

def showRes : Except Interp.Err Bytes → String
  | .ok b => s!"ok {toHex b}"
  | .error e => showErr e

/-- env given as `name=value` pairs in hex, first match wins -/
def envLookup (env : List (Bytes × Bytes)) : Interp.Lookup := fun n =>
  (env.find? (fun p => p.1 == n)).map (·.2)

def parseEnv : List String → List (Bytes × Bytes)
  | k :: v :: rest => (hexArg k, hexArg v) :: parseEnv rest
  | _ => []

def selOf (s : String) : RegressLog.Sel :=
  let n := s.toNat?.getD 0
  ⟨n % 2 == 1, (n / 2) % 2 == 1, (n / 4) % 2 == 1, (n / 8) % 2 == 1⟩

def selArg (s : String) : StepFile.Sel :=
  if s.startsWith "n:" then .name (hexArg (s.drop 2).toString) else .idx ((s.drop 2).toString.toInt?.getD 0)

def slotOf (s : String) : OrchSeq.Slot :=
  if s == "e" then .empty else if s == "s" then .skipped else .rcd ((s.drop 1).toString.toInt?.getD 0)

def fileOfSlots (ss : List String) : OrchSeq.File := fun j => (ss[j]?.map slotOf).getD .empty

def showW : OrchSeq.Wr → String
  | .skipRec i => s!"skip:{i}"
  | .inflight i => s!"inflight:{i}"
  | .done i e => s!"done:{i}:{e}"
  | .endRec i => s!"end:{i}"

def natList (s : String) : List Nat := if s == "-" then [] else (s.splitOn ",").filterMap (·.toNat?)
def intFun (s : String) : Nat → Int :=
  let l := if s == "-" then [] else (s.splitOn ",").filterMap (·.toInt?)
  fun j => l.getD j 0

def kvOf (ws : List String) : List (String × String) :=
  ws.filterMap fun w => match w.splitOn "=" with
    | k :: v :: [] => some (k, v)
    | _ => none

def kvGet (kv : List (String × String)) (k : String) : String := ((kv.find? (·.1 == k)).map (·.2)).getD ""
def optHex (s : String) : Option Bytes := if s == "!" || s == "" then none else some (hexArg s)
def listOf (s : String) : List String := if s == "" || s == "-" then [] else if s == "." then [] else s.splitOn ","

def reportOf (ws : List String) : String :=
  let kv := kvOf ws
  let g := kvGet kv
  let mode : Report.Mode := match g "mode" with
    | "robsd" => .robsd | "robsd-cross" => .cross | "robsd-ports" => .ports | "robsd-regress" => .regress | _ => .canvas
  let logs : List (Bytes × Option Bytes) := (listOf (g "logs")).filterMap fun e => match e.splitOn ":" with
    | n :: c :: [] => some (hexArg n, optHex c)
    | _ => none
  let e : Report.Env := {
    mode := mode, hostname := hexArg (g "host"), canvasName := hexArg (g "canvas"), machine := hexArg (g "machine"),
    target := optHex (g "target"), builddir := hexArg (g "builddir"),
    logs := fun n => ((logs.find? (·.1 == n)).map (·.2)).getD none,
    comment := optHex (g "comment"), tags := optHex (g "tags"),
    cvsLogs := (listOf (g "cvs")).map optHex, packagesDiff := optHex (g "pkgdiff"),
    suites := (listOf (g "suites")).map hexArg, quiet := (listOf (g "quiet")).map hexArg,
    sizes := (listOf (g "sizes")).filterMap (fun e => match e.splitOn ":" with
      | n :: a :: b :: [] => some (hexArg n, a.toNat?.getD 0, b.toNat?.getD 0)
      | _ => none),
    hasPrev := g "hasprev" == "1" }
  match StepFile.parseFile (hexArg (g "steps")) with
  | none => "1 -"
  | some rows =>
    match Report.generate e rows with
    | none => "1 -"
    | some out => s!"0 {toHex (cstr out)}"

def entOf (s : String) : Option Ls.Ent :=
  match s.splitOn ":" with
  | n :: k :: [] => some ⟨hexArg n, match k with | "d" => .dir | "f" => .file | "l" => .symlink | _ => .other⟩
  | _ => none

def showLines (o : Option (List Schedule.Line)) : String :=
  match o with
  | none => "fail"
  | some ls => "ok " ++ ",".intercalate (ls.map fun l => s!"{l.1}:{toHex l.2.1}:{if l.2.2 then 1 else 0}")

def schedOf (mode : String) (par : String) (items : String) : Schedule.Cfg :=
  let its := (listOf items).filterMap fun e => match e.splitOn ":" with
    | n :: f :: [] => some (hexArg n, f == "1")
    | _ => none
  match mode with
  | "robsd" => .robsd
  | "robsd-cross" => .cross
  | "robsd-ports" => .ports
  | "robsd-regress" => .regress (par == "1") (its.map fun p => ⟨p.1, p.2⟩)
  | _ => .canvas (its.map fun p => ⟨p.1, p.2⟩)

def pairsOf (s : String) : List (Bytes × Bytes) :=
  (listOf s).filterMap fun e => match e.splitOn ":" with
    | k :: v :: [] => some (hexArg k, hexArg v)
    | _ => none

def schedArgs (s : String) : List (Bytes × List Bytes) :=
  (listOf s).filterMap fun e => match e.splitOn ":" with
    | n :: a :: [] => some (hexArg n, (if a == "." then [] else a.splitOn ";").map hexArg)
    | _ => none

def showArgv (a : List Bytes) : String := ";".intercalate (a.map toHex)

def evOf (s : String) : Option Orch.Ev :=
  match s.splitOn ":" with
  | "S" :: i :: sync :: [] => some (.start (i.toNat?.getD 0) (sync == "1"))
  | "F" :: i :: e :: [] => some (.finish (i.toNat?.getD 0) (e.toInt?.getD 0))
  | "E" :: i :: [] => some (.endRec (i.toNat?.getD 0))
  | _ => none

/-- proc spec: `W:<id>:<kv;kv>` or `R:<sel>:<tmpl>` -/
inductive PSpec where
  | w (id : Int) (kvs : List Bytes)
  | r (sel : StepFile.Sel) (tmpl : Bytes)

def pspecOf (s : String) : Option PSpec :=
  match s.splitOn ":" with
  | "W" :: id :: kvs :: [] => some (.w (id.toInt?.getD 0) ((if kvs == "." then [] else kvs.splitOn ";").map hexArg))
  | "R" :: k :: v :: t :: [] => some (.r (if k == "n" then .name (hexArg v) else .idx (v.toInt?.getD 0)) (hexArg t))
  | _ => none

def flockRun (c0 : Bytes) (sched : List Nat) (specs : List PSpec) : String :=
  let sys : Flock.Sys := ⟨fun p => match specs[p]? with
    | some (.w id kvs) => some (fun c => (StepFile.writeCmd c id kvs .ok).2)
    | _ => none⟩
  let s := Flock.runSched sys (Flock.init c0) sched
  let outs := (List.range specs.length).map fun p =>
    match specs[p]? with
    | some (.r sel t) =>
      if (s.procs p).pc == .done then
        let r := StepFile.readCmd (s.procs p).snapshot sel t
        s!"{r.1}:{toHex r.2}"
      else "-"
    | some (.w id kvs) =>
      if (s.procs p).pc == .done then s!"{(StepFile.writeCmd (s.procs p).snapshot id kvs .ok).1}:-" else "-"
    | none => "-"
  s!"{toHex s.content} " ++ ",".intercalate (s.order.map toString) ++ " " ++ " ".intercalate outs


def arenaOp (t : String) : Option Arena.Op :=
  let n := fun (x : String) => x.toNat?.getD 0
  match t.splitOn ":" with
  | "E" :: [] => some .enter
  | "L" :: [] => some .leave
  | "M" :: k :: sz :: [] => some (.malloc (n k) (n sz))
  | "C" :: k :: sz :: [] => some (.calloc (n k) (n sz))
  | "S" :: k :: h :: [] => some (.str (n k) (hexArg h))
  | "U" :: k :: [] => some (.cleanup (n k))
  | "R" :: k :: id :: old :: sz :: [] => some (.realloc (n k) (n id) (n old) (n sz))
  | "W" :: id :: i :: v :: [] => some (.write (n id) (n i) (UInt8.ofNat (n v)))
  | _ => none

def arenaRun (p : Arena.Params) (ops : List Arena.Op) : String :=
  let rec go (s : Arena.St) (ops : List Arena.Op) (acc : List String) : List String × Arena.St :=
    match ops with
    | [] => (acc.reverse, s)
    | op :: rest =>
      let (s', o) := Arena.step p s op
      let st := match s'.frames with
        | f :: _ => s!"{s'.frames.length}:{f.len}:{f.size}:{s'.blocks.length}"
        | [] => s!"0:0:0:{s'.blocks.length}"
      let os := match o with
        | .unit => "u" | .ptr id h off => s!"p:{id}:{h}:{off}" | .trap => "trap" | .bad => "bad" | .fail => "fail"
      if o == .trap then ((os :: acc).reverse, s)
      else go s' rest (s!"{os}/{st}" :: acc)
  let (outs, s) := go (Arena.init p) ops []
  ";".intercalate outs ++ " ran=" ++ ",".intercalate (s.ran.map toString)

def rhtmlInv (t : String) : Option RegressHtml.Invocation :=
  match t.splitOn ":" with
  | arch :: date :: time :: dur :: recs :: [] =>
    let rs := (if recs == "-" then [] else recs.splitOn ";").filterMap fun r =>
      match r.splitOn "," with
      | su :: ex :: ln :: lg :: [] => some ⟨hexArg su, ex.toInt?.getD 0, hexArg ln, hexArg lg⟩
      | _ => none
    some ⟨hexArg arch, hexArg date, time.toInt?.getD 0, dur.toInt?.getD 0, rs⟩
  | _ => none

def rhtmlRun (order : List Nat) (invs : List RegressHtml.Invocation) : String :=
  let p := RegressHtml.parseAll invs
  let valid := RegressHtml.validOrder p.cols order
  let cols := ";".intercalate (p.cols.map fun c => s!"{c.id},{c.total},{c.fail}")
  let rows := ";".intercalate ((RegressHtml.sortSuites p.suites).map fun su =>
    toHex su.name ++ ":" ++ "|".intercalate ((RegressHtml.row su order).map fun c =>
      match c with
      | none => "-"
      | some (st, link) => (String.fromUTF8! (ByteArray.mk st.name.toArray)) ++ "," ++ toHex link))
  s!"valid={if valid then 1 else 0} cols={cols} rows={rows}"

def wstatusOf (t : String) : Runner.WStatus :=
  if t.startsWith "e" then .exited ((t.drop 1).toString.toNat?.getD 0)
  else if t.startsWith "s" then .signaled ((t.drop 1).toString.toNat?.getD 0)
  else .other

/-- "k:status" = reapable from poll/iteration k on; "-" = never -/
def fromOn (t : String) : Nat → Option Runner.WStatus :=
  match t.splitOn ":" with
  | k :: st :: [] => fun i => if k.toNat?.getD 0 ≤ i then some (wstatusOf st) else none
  | _ => fun _ => none

def runnerRun (fuel : Nat) (sig nat aterm akill late : String) (hs : String := "-") : String :=
  let at1 : String → Nat → Option Runner.Sig := fun t => match t.splitOn ":" with
    | k :: s :: [] => fun i => if i = k.toNat?.getD 0 then some (if s == "alrm" then .alrm else .term) else none
    | _ => fun _ => none
  let e : Runner.Env := { sig := at1 sig, natural := fromOn nat, afterTerm := fromOn aterm, afterKill := fromOn akill, late := at1 late }
  -- hs: "-" = quiet handshake, "term"/"alrm" = signal caught during it, "fail:<status>" = no process group in time
  let f : Runner.Fork := match hs.splitOn ":" with
    | "term" :: [] => ⟨some .term, true, .other⟩
    | "alrm" :: [] => ⟨some .alrm, true, .other⟩
    | "fail" :: st :: [] => ⟨none, false, wstatusOf st⟩
    | _ => ⟨none, true, .other⟩
  let r := Runner.stepExec e f fuel
  let acts := r.1.map fun a => match a with
    | .killTerm => "term" | .killTermLate => "termlate" | .killKill => "kill" | .reap _ => "reap" | .giveUp => "giveup" | .running => "running"
  s!"{r.2} " ++ ",".intercalate acts

def confRun (ws : List String) : String :=
  let kv := kvOf ws
  let g := kvGet kv
  let mode : Conf.Mode := match g "mode" with
    | "robsd" => .robsd | "robsd-cross" => .cross | "robsd-ports" => .ports | "robsd-regress" => .regress | _ => .canvas
  let dirs := (listOf (g "dirs")).map hexArg
  let users := (listOf (g "users")).map hexArg
  -- glob=pattern:!          error
  -- glob=pattern:.          no match
  -- glob=pattern:a;b        matches
  let globs : List (Bytes × Option (Option (List Bytes))) := (listOf (g "glob")).filterMap fun e => match e.splitOn ":" with
    | p :: r :: [] => some (hexArg p, if r == "!" then none else if r == "." then some none else some (some ((r.splitOn ";").map hexArg)))
    | _ => none
  let env : Conf.Env := {
    isDir := fun p => dirs.contains p, userExists := fun u => users.contains u,
    glob := fun p => match globs.find? (·.1 == p) with | some e => e.2 | none => some none,
    arch := hexArg (g "arch"), machine := hexArg (g "machine"), lock := optHex (g "lock"), execDir := hexArg (g "exec"),
    ncpu := (g "ncpu").toNat?.getD 1, inet := hexArg (g "inet"), inet6 := hexArg (g "inet6") }
  let r := Conf.configCmd mode env (hexArg (g "file")) (hexArg (g "tmpl"))
  s!"{r.1} {toHex r.2}"

/-! ### libks containers (C20) -/

def mapHdr (s : Map.St) : String :=
  if s.order.isEmpty then " #0:0:0:0"
  else s!" #{s.table.buckets.length}:{s.table.numItems}:{if s.table.noexpand then 1 else 0}:{s.table.ineff}"

def idList (l : List Map.Elem) : String := ",".intercalate (l.map fun e => toString e.id)

def mapDump (s : Map.St) : String :=
  if s.order.isEmpty then "d empty"
  else
    let t := s.table
    let bs := (List.range t.buckets.length).filterMap fun i =>
      let b := Map.bucketAt t.buckets i
      if b.chain.isEmpty && b.count == 0 && b.mult == 0 then none
      else some s!"{i}:{b.count}:{b.mult}:{idList b.chain}"
    s!"d nb={t.buckets.length} log2={t.log2} items={t.numItems} ideal={t.ideal} nonideal={t.nonideal} ineff={t.ineff} noexpand={if t.noexpand then 1 else 0} order={idList s.order} buckets=" ++ ";".intercalate bs

def mapRun (ops : List String) : String :=
  let rec go (s : Map.St) (ops : List String) (acc : List String) : List String :=
    match ops with
    | [] => acc.reverse
    | t :: rest =>
      match t.splitOn ":" with
      | "I" :: k :: [] =>
        let r := Map.insert Map.jen s (hexArg k)
        go r.1 rest (s!"i {r.2.id} {r.2.hashv}{mapHdr r.1}" :: acc)
      | "F" :: k :: [] =>
        let o := match Map.find Map.jen s (hexArg k) with
          | some e => toString e.id
          | none => "-"
        go s rest (s!"f {o}{mapHdr s}" :: acc)
      | "R" :: k :: [] =>
        let s' := Map.remove Map.jen s (hexArg k)
        go s' rest (s!"r{mapHdr s'}" :: acc)
      | "T" :: ids :: [] =>
        let idl := if ids == "-" then [] else (ids.splitOn ";").filterMap (·.toNat?)
        let r := Map.drain Map.jen (fun e => idl.contains e.id) (s.order.length + 1) s {} []
        let out := if r.1.isEmpty then "-" else idList r.1
        go r.2.1 rest (s!"t {out} {if r.2.2 then 1 else 0}{mapHdr r.2.1}" :: acc)
      | "D" :: [] => go s rest (mapDump s :: acc)
      | _ => go s rest ("bad-op" :: acc)
  "|".intercalate (go {} ops [])

def vecRun (p : Vec.Params) (init : Nat) (ops : List String) : String :=
  let hdr := fun (s : Vec.St) => s!" #{s.items.length}:{s.siz}"
  let showOut : Vec.Out → String
    | .status f => s!"status {if f then 1 else 0}"
    | .slot none => "slot -"
    | .slot (some (i, v)) => s!"slot {i} {v}"
    | .len n => s!"len {n}"
    | .unit => "unit"
  let rec go (s : Vec.St) (ops : List String) (acc : List String) : List String :=
    match ops with
    | [] => acc.reverse
    | t :: rest =>
      let n := fun (x : String) => x.toNat?.getD 0
      let op : Option Vec.Op := match t.splitOn ":" with
        | "R" :: k :: [] => some (.reserve (n k))
        | "A" :: v :: [] => some (.alloc (n v))
        | "C" :: [] => some .calloc
        | "P" :: [] => some .pop
        | "X" :: [] => some .clear
        | "S" :: [] => some .sort
        | "F" :: [] => some .first
        | "L" :: [] => some .last
        | "N" :: [] => some .length
        | _ => none
      match op with
      | some o =>
        let r := Vec.step p s o
        go r.1 rest ((showOut r.2 ++ hdr r.1) :: acc)
      | none =>
        if t == "D" then
          go s rest ((s!"items {if s.items.isEmpty then "-" else ",".intercalate (s.items.map toString)}" ++ hdr s) :: acc)
        else go s rest ("bad-op" :: acc)
  let s0 : Vec.St := if init > 0 then (Vec.reserve1 p {} init).1 else {}
  "|".intercalate (go s0 ops [])

def bufRun (init : Nat) (ops : List String) : String :=
  let hdr := fun (s : Buf.St) => s!" #{s.bytes.length}:{s.siz}"
  let st := fun (b : Bool) => s!"status {if b then 1 else 0}"
  let rec go (s : Buf.St) (ops : List String) (acc : List String) : List String :=
    match ops with
    | [] => acc.reverse
    | t :: rest =>
      let n := fun (x : String) => x.toNat?.getD 0
      match t.splitOn ":" with
      | "A" :: k :: [] =>
        match Buf.alloc (n k) with
        | some s' => go s' rest ((st false ++ hdr s') :: acc)
        | none => go s rest ((st true ++ hdr s) :: acc)
      | "P" :: h :: [] => let r := Buf.puts s (hexArg h); go r.1 rest ((st r.2 ++ hdr r.1) :: acc)
      | "C" :: c :: [] => let r := Buf.putc s (UInt8.ofNat (n c)); go r.1 rest ((st r.2 ++ hdr r.1) :: acc)
      | "F" :: h :: [] => let r := Buf.printf s (hexArg h); go r.1 rest ((st r.2 ++ hdr r.1) :: acc)
      | "R" :: [] => let s' := Buf.reset s; go s' rest (("unit" ++ hdr s') :: acc)
      | "O" :: k :: [] => let r := Buf.pop s (n k); go r.1 rest ((s!"n {r.2}" ++ hdr r.1) :: acc)
      | "S" :: [] =>
        let r := Buf.str s
        let o := match r.1 with
          | some b => toHex b
          | none => "!"
        go r.2 rest ((s!"bytes {o}" ++ hdr r.2) :: acc)
      | "D" :: f :: cs :: [] =>
        let file := hexArg f
        let chunks := if cs == "-" then [] else (cs.splitOn ";").filterMap (·.toNat?)
        match Buf.alloc 8192 with
        | none => go s rest ("status 1 #0:0" :: acc)
        | some s0 =>
          match Buf.readFd (file.length + 1) s0 file chunks with
          | some s' => go s' rest ((st false ++ hdr s') :: acc)
          | none => go s rest ("status 1 #0:0" :: acc)
      | "L" :: [] =>
        let ls := Buf.getlineAll (s.bytes.length + 1) s {}
        let o := if ls.isEmpty then "." else ",".intercalate (ls.map fun l => toHex (Bytes.cstr l))
        go s rest ((s!"lines {o}" ++ hdr s) :: acc)
      | "N" :: [] => go s rest ((s!"n {s.bytes.length}" ++ hdr s) :: acc)
      | "G" :: [] => go s rest ((s!"bytes {toHex s.bytes}" ++ hdr s) :: acc)
      | "M" :: h :: [] =>
        go s rest ((s!"cmp {if Buf.cmpNe s ⟨hexArg h, 0⟩ then 1 else 0}" ++ hdr s) :: acc)
      | _ => go s rest ("bad-op" :: acc)
  match Buf.alloc init with
  | some s0 => "|".intercalate (go s0 ops [])
  | none => "alloc-failed"

def handle (ws : List String) : String :=
  match ws with
  | "lock" :: "invoke" :: lk :: dir :: hs :: err :: en :: dt :: [] =>
    let w : Lock.World := { lock := optHex lk }
    let r := Lock.invoke w (hexArg dir) (hs == "1") (err.toInt?.getD 0) (en == "1") (dt == "1")
    let lockS := match r.1.lock with
      | some b => toHex b
      | none => "!"
    s!"{r.2} lock={lockS} reports={r.1.reports.length} mails={r.1.mails.length} own={if r.1.reports.all (fun x => x.1 == x.2) then 1 else 0}"
  | "lock" :: "killed" :: lk :: dir :: err :: dt :: [] =>
    let w : Lock.World := { lock := optHex lk }
    let r := Lock.killed w (hexArg dir) (err.toInt?.getD 0) (dt == "1")
    let lockS := match r.lock with
      | some b => toHex b
      | none => "!"
    s!"lock={lockS} immutable={if r.immutable then 1 else 0} reports={r.reports.length} mails={r.mails.length} alive={if Lock.alive (Lock.kill w) (hexArg dir) then 1 else 0} next={if (Lock.acquire r (hexArg dir ++ [46, 50])).2 then 1 else 0}"
  | "wait" :: all :: args :: batches :: [] =>
    let bs : List (List Nat) := if batches == "-" then [] else (batches.splitOn "|").map fun b => (b.splitOn ";").filterMap (·.toNat?)
    match Wait.run (all == "1") ((listOf args).map hexArg) bs with
    | none => "blocked"
    | some (rc, rest) => s!"{rc} " ++ (if rest.isEmpty then "-" else ",".intercalate (rest.map toString))
  | "map" :: ops :: [] => mapRun (listOf ops)
  | "vec" :: hdr :: stride :: init :: ops :: [] =>
    vecRun ⟨stride.toNat?.getD 8, hdr.toNat?.getD 56⟩ (init.toNat?.getD 0) (listOf ops)
  | "buf" :: init :: ops :: [] => bufRun (init.toNat?.getD 0) (listOf ops)
  | "conf" :: rest => confRun rest
  | "runner" :: fuel :: sig :: nat :: aterm :: akill :: [] => runnerRun (fuel.toNat?.getD 0) sig nat aterm akill "-"
  | "runner" :: fuel :: sig :: nat :: aterm :: akill :: late :: [] => runnerRun (fuel.toNat?.getD 0) sig nat aterm akill late
  | "runner" :: fuel :: sig :: nat :: aterm :: akill :: late :: hs :: [] => runnerRun (fuel.toNat?.getD 0) sig nat aterm akill late hs
  | "rhtml" :: order :: invs => rhtmlRun (natList order) (invs.filterMap rhtmlInv)
  | "arena" :: hdr :: fsz :: pz :: csz :: ops :: [] =>
    let n := fun (x : String) => x.toNat?.getD 0
    let p : Arena.Params := ⟨n hdr, n fsz, n pz, n csz⟩
    let os := (listOf ops).filterMap arenaOp
    arenaRun p os
  | "flock" :: c0 :: sched :: specs => flockRun (hexArg c0) (natList sched) (specs.filterMap pspecOf)
  | "orchp" :: "accepts" :: ncpu :: skip :: evs :: [] =>
    let c : Orch.Cfg := ⟨ncpu.toNat?.getD 1, fun j => (natList skip).contains j⟩
    if Orch.accepts c ((listOf evs).filterMap evOf) then "accept" else "reject"
  | "orchp" :: "result" :: ncpu :: skip :: exits :: steps :: [] =>
    -- steps: id:par:end,...   result: ok/fail + whether end is recorded
    let c : Orch.Cfg := ⟨ncpu.toNat?.getD 1, fun j => (natList skip).contains j⟩
    let ex := intFun exits
    let o : Orch.Oracle := ⟨fun i => ex i, fun _ _ => false⟩
    let ss : List Orch.Step := (listOf steps).filterMap fun e => match e.splitOn ":" with
      | i :: p :: en :: [] => some ⟨i.toNat?.getD 0, p == "1", en == "1"⟩
      | _ => none
    let r := Orch.run c o ss [] 0
    s!"{if r.2 then "ok" else "fail"} {if Orch.hasEnd r.1 then "end" else "noend"} " ++
      ",".intercalate ((Orch.started r.1).map toString)
  | "orchp" :: "resultk" :: ncpu :: skip :: exits :: steps :: kills :: [] =>
    -- as "result", with the ids after whose loop body the lock is found dead (robsd-kill)
    let c : Orch.Cfg := ⟨ncpu.toNat?.getD 1, fun j => (natList skip).contains j⟩
    let ex := intFun exits
    let o : Orch.Oracle := ⟨fun i => ex i, fun _ _ => false⟩
    let ss : List Orch.Step := (listOf steps).filterMap fun e => match e.splitOn ":" with
      | i :: p :: en :: [] => some ⟨i.toNat?.getD 0, p == "1", en == "1"⟩
      | _ => none
    let r := Orch.runK c o (fun i => (natList kills).contains i) ss [] 0
    s!"{if r.2 then "ok" else "fail"} {if Orch.hasEnd r.1 then "end" else "noend"} " ++
      ",".intercalate ((Orch.started r.1).map toString)
  | "clean" :: n :: lock :: listing :: [] =>
    ",".intercalate ((Clean.cleaned ((listOf listing).map hexArg) (optHex lock) (n.toNat?.getD 0)).map toHex)
  | "buildid" :: date :: dirs :: [] => toHex (Clean.buildId (hexArg date) ((listOf dirs).map hexArg))
  | "logid" :: step :: name :: files :: [] => toHex (Clean.logId (step.toNat?.getD 0) (hexArg name) ((listOf files).map hexArg))
  | "exec" :: "step" :: name :: st :: rest =>
    let kv := kvOf rest
    let lookup := envLookup (pairsOf (kvGet kv "env"))
    let w : Option Exec.WaitStatus :=
      if st == "x" then none
      else if st.startsWith "s" then some (.signaled ((st.drop 1).toString.toNat?.getD 0))
      else some (.exited ((st.drop 1).toString.toNat?.getD 0))
    match Exec.stepExec lookup (schedArgs (kvGet kv "sched")) (hexArg name) w with
    | .ran argv e => s!"ran {e} {showArgv argv}"
    | .notRun e => s!"notrun {e}"
  | "exec" :: "hook" :: has :: rest =>
    let kv := kvOf rest
    let lookup := envLookup (pairsOf (kvGet kv "env"))
    let hook : Option (List Bytes) := if has == "0" then none else some ((listOf (kvGet kv "hook")).map hexArg)
    match Exec.hookAction lookup hook with
    | .nothing => "nothing"
    | .error => "error"
    | .exec argv => s!"exec {showArgv argv}"
  | "sched" :: mode :: par :: offset :: items :: [] =>
    showLines (Schedule.listFrom (Schedule.steps (schedOf mode par items)) (offset.toNat?.getD 0))
  | "ls" :: root :: keep :: b :: lock :: ents :: [] =>
    let r := Ls.lsCmd (hexArg root) (hexArg keep) (b == "1") (optHex lock) (some ((listOf ents).filterMap entOf))
    s!"{r.1} " ++ ",".intercalate (r.2.map toHex)
  | "report" :: rest => reportOf rest
  | "fmt" :: "duration" :: d :: delta :: thr :: [] =>
    toHex (Report.formatDurationDelta (d.toInt?.getD 0) (delta.toInt?.getD 0) (thr.toInt?.getD 0))
  | "fmt" :: "size" :: n :: [] => toHex (Report.formatSize (n.toNat?.getD 0))
  | "total" :: mode :: file :: [] =>
    let m : Report.Mode := if mode == "robsd-regress" then .regress else .robsd
    match StepFile.parseFile (hexArg file) with
    | none => "fail"
    | some rows => s!"{Report.totalDuration m rows}"
  | "stepnext" :: file :: [] =>
    match StepFile.stepNextCmd (hexArg file) with
    | (rc, some p) => s!"{rc} {p}"
    | (rc, none) => s!"{rc} -"
  | "hassteps" :: file :: [] => s!"{StepFile.hasStepsCmd (hexArg file)}"
  | "trapdecision" :: file :: own :: err :: [] =>
    match StepFile.parseFile (hexArg file) with
    | none => "fail"
    | some rows =>
      let d := StepFile.trapExitDecision rows (own == "1") (err.toInt?.getD 0)
      s!"{if d.1 then 1 else 0} {if d.2 then 1 else 0}"
  | "orch" :: "resume" :: n :: skip :: slots =>
    let c : OrchSeq.Cfg := ⟨n.toNat?.getD 0, fun j => (natList skip).contains j⟩
    match OrchSeq.resumeAt c (fileOfSlots slots) with
    | none => "none"
    | some p => s!"{p}"
  | "orch" :: "fresh" :: n :: skip :: exits :: [] =>
    let c : OrchSeq.Cfg := ⟨n.toNat?.getD 0, fun j => (natList skip).contains j⟩
    " ".intercalate ((OrchSeq.freshWrites c (intFun exits) (natList skip)).map showW)
  | "orch" :: "resumew" :: n :: skip :: exits :: slots =>
    let c : OrchSeq.Cfg := ⟨n.toNat?.getD 0, fun j => (natList skip).contains j⟩
    match OrchSeq.resumeWrites c (intFun exits) (fileOfSlots slots) with
    | none => "none"
    | some w => " ".intercalate (w.map showW)
  | "step" :: "write" :: file :: id :: flush :: kvs =>
    let fl := if flush == "ok" then StepFile.Flush.ok else .failed (hexArg ((flush.drop 5).toString))
    let r := StepFile.writeCmd (hexArg file) (id.toInt?.getD 0) (kvs.map hexArg) fl
    s!"{r.1} {toHex r.2}"
  | "step" :: "read" :: file :: sel :: tmpl :: [] =>
    let r := StepFile.readCmd (hexArg file) (selArg sel) (hexArg tmpl)
    s!"{r.1} {toHex r.2}"
  | "step" :: "parse" :: file :: [] =>
    match StepFile.parseFile (hexArg file) with
    | none => "fail"
    | some rows => s!"ok {rows.length}"
  | "rlog" :: "parse" :: sel :: nl :: c :: [] =>
    let r := RegressLog.parseOut (selOf sel) (nl == "1") (hexArg c)
    s!"{r.1} {toHex r.2}"
  | "rlog" :: "peek" :: sel :: c :: [] =>
    s!"{RegressLog.peek (selOf sel) (lines (hexArg c))}"
  | "rlog" :: "trim" :: c :: [] => toHex (RegressLog.trim (hexArg c))
  | "rlog" :: "main" :: sel :: dp :: files =>
    let r := RegressLog.main (selOf sel) (dp == "1") (files.map fun f => if f == "!" then none else some (hexArg f))
    s!"{r.1} {toHex r.2}"
  | "arith" :: f :: a :: b :: [] =>
    match Gen.arithTable.find? (fun e => e.1 == f), a.toInt?, b.toInt? with
    | some e, some x, some y =>
      let T := e.2.1
      let fb := CArith.showOut (e.2.2.2 x y)
      let exact : Int :=
        if (f.splitOn "_add_").length > 1 then x + y
        else if (f.splitOn "_sub_").length > 1 then x - y
        else x * y
      s!"{fb} | {CArith.showOut (CArith.spec T exact)}"
    | _, _, _ => "bad-op"
  | "interp" :: "str" :: ign :: tmpl :: env =>
    showRes (Interp.interpStr (envLookup (parseEnv env)) (ign == "1") (hexArg tmpl))
  | "interp" :: "file" :: ign :: tmpl :: env =>
    showRes (Interp.interpFile (envLookup (parseEnv env)) (ign == "1") (hexArg tmpl))
  | _ => "bad-op"

partial def loop (h : IO.FS.Stream) (out : IO.FS.Stream) : IO Unit := do
  let line ← h.getLine
  if line.isEmpty then return ()
  let ws := (line.trimAscii.toString.splitOn " ").filter (· ≠ "")
  out.putStrLn (handle ws)
  loop h out

def main : IO Unit := do
  let i ← IO.getStdin
  let o ← IO.getStdout
  loop i o
