/*
 * C20 harness: drives the real libks map, vector and buffer from a list of
 * operations on stdin and prints, per operation, the result in the syntax of
 * the Lean models (Robsd.Map / Robsd.Vec / Robsd.Buf) followed by the
 * internal bookkeeping (`#...`).  map.c and vector.c are included so that the
 * table, the bucket chains and the capacity can be inspected; buffer.c is
 * linked.  read(2) is wrapped (-Wl,--wrap=read) so that a descriptor can
 * deliver a byte string in chunks of a prescribed size.
 *
 * Independently of the model the harness checks on the real memory, after
 * every map operation: prev/next and hh_prev/hh_next mirror each other, head
 * and tail are the ends of the list, every element hangs in the bucket its
 * hash selects, bucket counts and num_items agree; on every find: the value
 * address is the one insert returned and the value and key stored there are
 * intact.  Failures are printed as `ORACLE ...`.
 */
#include "libks/map.c"
#include "libks/vector.c"

#include "libks/arena.h"
#include "libks/arena-buffer.h"
#include "libks/arena-vector.h"
#include "libks/buffer.h"

#include <stdarg.h>
#include <stdio.h>
#include <unistd.h>

#include "hexio.h"

#define MAXEL (1 << 20)

static void
oracle(const char *fmt, ...)
{
	va_list ap;

	va_start(ap, fmt);
	printf("ORACLE ");
	vprintf(fmt, ap);
	printf("\n");
	va_end(ap);
}

/* ---------------------------------------------------------------- map */

static MAP(const char, *, int) smap;
static MAP(int,, int) imap;
static int map_kind;			/* 0 string keys, 1 int keys */
static struct {
	int *val;
	char *key;
	size_t keylen;
	int live;
} els[MAXEL];
static int nels;

static struct map *
themap(void)
{
	return map_kind == 0 ? (struct map *)smap : (struct map *)imap;
}

static int
id_of_el(const struct map_element *el)
{
	const int *v = (const int *)&el[1];

	return *v;
}

static void
map_check(void)
{
	struct map *m = themap();
	struct map_element *el, *prev = NULL;
	unsigned int n = 0, i, insum = 0;

	if (m->head == NULL)
		return;
	for (el = m->head; el != NULL; prev = el, el = el->next) {
		unsigned int b;
		struct map_element *c;
		int found = 0;

		if (el->prev != prev)
			oracle("element %d: prev does not point to its predecessor", id_of_el(el));
		b = HASH_TO_BKT(el->hashv, m->table->num_buckets);
		for (c = m->table->buckets[b].hh_head; c != NULL; c = c->hh_next)
			if (c == el)
				found++;
		if (found != 1)
			oracle("element %d occurs %d times in the chain of its bucket %u", id_of_el(el), found, b);
		if (el->hashv != HASH_JEN(el->key, el->keylen))
			oracle("element %d: stored hash is not the hash of its key", id_of_el(el));
		if (++n > MAXEL) {
			oracle("application-order list does not end");
			return;
		}
	}
	if (m->table->tail != prev)
		oracle("tail is not the last element of the list");
	if (m->table->num_items != n)
		oracle("num_items %u, list has %u elements", m->table->num_items, n);
	for (i = 0; i < m->table->num_buckets; i++) {
		struct map_element *c, *p = NULL;
		unsigned int k = 0;

		for (c = m->table->buckets[i].hh_head; c != NULL; p = c, c = c->hh_next) {
			if (c->hh_prev != p)
				oracle("bucket %u: hh_prev of element %d does not point to its predecessor", i, id_of_el(c));
			if (HASH_TO_BKT(c->hashv, m->table->num_buckets) != i)
				oracle("bucket %u holds element %d whose hash selects another bucket", i, id_of_el(c));
			if (++k > MAXEL) {
				oracle("bucket %u: chain does not end", i);
				return;
			}
		}
		if (k != m->table->buckets[i].count)
			oracle("bucket %u: count %u, chain has %u", i, m->table->buckets[i].count, k);
		insum += k;
	}
	if (insum != n)
		oracle("buckets hold %u elements, list has %u", insum, n);
}

static void
map_hdr(void)
{
	struct map *m = themap();

	if (m->head == NULL)
		printf(" #0:0:0:0");
	else
		printf(" #%u:%u:%u:%u", m->table->num_buckets, m->table->num_items,
		    m->table->noexpand, m->table->ineff_expands);
}

static void
map_dump(void)
{
	struct map *m = themap();
	struct map_element *el;
	unsigned int i;
	int first = 1;

	printf("d ");
	if (m->head == NULL) {
		printf("empty\n");
		return;
	}
	printf("nb=%u log2=%u items=%u ideal=%u nonideal=%u ineff=%u noexpand=%u order=",
	    m->table->num_buckets, m->table->log2_num_buckets, m->table->num_items,
	    m->table->ideal_chain_maxlen, m->table->nonideal_items,
	    m->table->ineff_expands, m->table->noexpand);
	for (el = m->head; el != NULL; el = el->next)
		printf("%s%d", el == m->head ? "" : ",", id_of_el(el));
	printf(" buckets=");
	for (i = 0; i < m->table->num_buckets; i++) {
		struct UT_hash_bucket *b = &m->table->buckets[i];
		struct map_element *c;

		if (b->hh_head == NULL && b->count == 0 && b->expand_mult == 0)
			continue;
		printf("%s%u:%u:%u:", first ? "" : ";", i, b->count, b->expand_mult);
		first = 0;
		for (c = b->hh_head; c != NULL; c = c->hh_next)
			printf("%s%d", c == b->hh_head ? "" : ",", id_of_el(c));
	}
	printf("\n");
}

/* a copy of the key at `align` bytes past a word boundary */
static char keybuf[1 << 16];
static const char *
keyat(const char *key, size_t len, int align)
{
	char *p = keybuf + 8 + (align & 7);

	if (len + 32 > sizeof(keybuf))
		abort();
	memcpy(p, key, len);
	p[len] = '\0';
	return p;
}

static int *
do_find(const char *key, size_t len, int align, int use_n)
{
	if (map_kind == 0) {
		const char *k = keyat(key, len, align);

		return use_n ? MAP_FIND_N(smap, k, len) : MAP_FIND(smap, k);
	} else {
		int k;

		memcpy(&k, key, sizeof(k));
		return MAP_FIND(imap, k);
	}
}

static void
check_val(int *v, const char *key, size_t len)
{
	int id = *v;

	if (id < 0 || id >= nels || !els[id].live) {
		oracle("find returned a value holding %d, which is no live element", id);
		return;
	}
	if (els[id].val != v)
		oracle("value of element %d moved from %p to %p", id, (void *)els[id].val, (void *)v);
	if (els[id].keylen != len || memcmp(els[id].key, key, len) != 0)
		oracle("find returned element %d, which was inserted under another key", id);
	if (map_kind == 0) {
		const char *kp = (const char *)MAP_KEY(smap, v);

		if (strlen(kp) != len || memcmp(kp, key, len) != 0)
			oracle("MAP_KEY of element %d is not the inserted key", id);
	} else {
		const int *kp = MAP_KEY(imap, v);

		if (memcmp(kp, key, sizeof(int)) != 0)
			oracle("MAP_KEY of element %d is not the inserted key", id);
	}
}

static void
map_op(int argc, char **w)
{
	size_t len = 0;
	char *key = NULL;
	int *v;

	if (argc >= 2 && strcmp(w[0], "D") != 0 && strcmp(w[0], "T") != 0)
		key = unhex(w[1], &len);
	if (strcmp(w[0], "I") == 0) {
		int use_n = argc > 2 && atoi(w[2]);

		if (map_kind == 0) {
			const char *k = keyat(key, len, argc > 3 ? atoi(w[3]) : 0);

			v = use_n ? MAP_INSERT_N(smap, k, len) : MAP_INSERT(smap, k);
		} else {
			int k;

			memcpy(&k, key, sizeof(k));
			v = MAP_INSERT(imap, k);
		}
		if (v == NULL) {
			printf("i fail");
		} else {
			struct map_element *el = &((struct map_element *)v)[-1];

			*v = nels;
			els[nels].val = v;
			els[nels].key = key;
			els[nels].keylen = len;
			els[nels].live = 1;
			key = NULL;
			printf("i %d %u", nels, el->hashv);
			nels++;
		}
	} else if (strcmp(w[0], "F") == 0) {
		v = do_find(key, len, argc > 2 ? atoi(w[2]) : 0, argc > 3 && atoi(w[3]));
		if (v == NULL) {
			printf("f -");
		} else {
			check_val(v, key, len);
			printf("f %d", *v);
		}
	} else if (strcmp(w[0], "R") == 0) {
		int align = argc > 2 ? atoi(w[2]) : 0;

		v = do_find(key, len, 0, 0);
		if (v != NULL && *v >= 0 && *v < nels)
			els[*v].live = 0;
		if (map_kind == 0) {
			const char *k = keyat(key, len, align);

			MAP_REMOVE(smap, k);
		} else {
			int k;

			memcpy(&k, key, sizeof(k));
			MAP_REMOVE(imap, k);
		}
		printf("r");
	} else if (strcmp(w[0], "T") == 0) {
		/* iterate to the end; remove the current entry when its id is listed */
		char *list = argc > 1 ? w[1] : (char *)"-";
		int complete = 1, n = 0;

		printf("t ");
		if (map_kind == 0) {
			MAP_ITERATOR(smap) it = {0};

			while (MAP_ITERATE(smap, &it)) {
				char pat[32];
				int id = *it.val;

				printf("%s%d", n++ ? "," : "", id);
				if (id < 0 || id >= nels || !els[id].live) {
					oracle("iteration returned %d, which is no live element", id);
					complete = 0;
					break;
				}
				if (strlen(it.key) != els[id].keylen || memcmp(it.key, els[id].key, els[id].keylen) != 0)
					oracle("iteration returned element %d with another key", id);
				snprintf(pat, sizeof(pat), ",%d,", id);
				if (strstr(list, pat) != NULL) {
					els[id].live = 0;
					MAP_REMOVE(smap, it.key);
				}
			}
		} else {
			MAP_ITERATOR(imap) it = {0};

			while (MAP_ITERATE(imap, &it)) {
				char pat[32];
				int id = *it.val;

				printf("%s%d", n++ ? "," : "", id);
				if (id < 0 || id >= nels || !els[id].live) {
					oracle("iteration returned %d, which is no live element", id);
					complete = 0;
					break;
				}
				if (memcmp(&it.key, els[id].key, sizeof(int)) != 0)
					oracle("iteration returned element %d with another key", id);
				snprintf(pat, sizeof(pat), ",%d,", id);
				if (strstr(list, pat) != NULL) {
					els[id].live = 0;
					MAP_REMOVE(imap, it.key);
				}
			}
		}
		if (n == 0)
			printf("-");
		printf(" %d", complete);
	} else if (strcmp(w[0], "D") == 0) {
		map_check();
		map_dump();
		free(key);
		return;
	}
	free(key);
	map_hdr();
	printf("\n");
	map_check();
}

/* colliding keys: print `count` keys of `len` bytes whose hash has the low
 * `bits` bits equal to `value` */
static void
collide(int bits, unsigned value, int count, int len, unsigned seed, int binary)
{
	unsigned long long ctr = seed * 1000003ULL;
	char key[64];
	int n = 0, i;

	if (len > 32)
		len = 32;
	printf("k ");
	while (n < count) {
		unsigned long long c = ctr++;

		for (i = 0; i < len; i++) {
			key[i] = binary ? (char)(c & 0xff) : (char)('a' + (c % 26));
			c = binary ? c >> 8 : c / 26;
		}
		if ((HASH_JEN(key, (size_t)len) & ((1u << bits) - 1)) == value) {
			printf("%s", n++ ? "," : "");
			puthex(key, (size_t)len);
		}
	}
	printf("\n");
}

/* ------------------------------------------------------------- vector */

/* two element types: a machine word, and a 24-byte record whose tail is a
 * pattern derived from the value (checked whenever an element is read) */
struct rec {
	unsigned long	v;
	unsigned char	tail[16];
};

static VECTOR(unsigned long) vec;
static VECTOR(struct rec) vec2;
static struct arena *arena;
static struct arena_scope scope;
static int use_arena;

static int
cmp_ul(const unsigned long *a, const unsigned long *b)
{
	return *a < *b ? -1 : *a > *b;
}

static int
cmp_rec(const struct rec *a, const struct rec *b)
{
	return a->v < b->v ? -1 : a->v > b->v;
}

static void
rec_set(struct rec *r, unsigned long v)
{
	int i;

	r->v = v;
	for (i = 0; i < 16; i++)
		r->tail[i] = (unsigned char)((v >> (i % 8 * 8)) ^ (0x5a + i));
}

static unsigned long
rec_get(const struct rec *r, int zeroed)
{
	struct rec want;
	static const unsigned char zero[16];

	rec_set(&want, r->v);
	if (zeroed ? (r->v != 0 || memcmp(r->tail, zero, 16) != 0) : memcmp(r->tail, want.tail, 16) != 0)
		oracle("a 24-byte vector element holding %lu lost the bytes behind its first word", r->v);
	return r->v;
}

/* zeroed[i]: element i came from VECTOR_CALLOC and was never stored to */
static unsigned char zeroed[1 << 20];

#define VEC_OPS(NAME, VC, ELEM, SET, GET, CMP, WIDE)						\
static void											\
NAME(int argc, char **w)									\
{												\
	ELEM *p;										\
	const char *op = w[0] + 1;								\
												\
	if (strcmp(op, "R") == 0) {								\
		size_t n = strtoul(w[1], NULL, 10), len = VECTOR_LENGTH(VC);			\
		int error = VECTOR_RESERVE(VC, n);						\
												\
		printf("status %d", error);							\
		if (!error && n < (1u << 22))							\
			memset(VC + len, 0xa5, n * sizeof(*VC));				\
	} else if (strcmp(op, "A") == 0) {							\
		unsigned long v = strtoul(w[1], NULL, 10);					\
												\
		p = VECTOR_ALLOC(VC);								\
		if (p == NULL)									\
			printf("slot -");							\
		else {										\
			SET(p, v);								\
			if (WIDE) zeroed[p - VC] = 0;						\
			printf("slot %zu %lu", (size_t)(p - VC), GET(p, 0));			\
		}										\
	} else if (strcmp(op, "C") == 0) {							\
		p = VECTOR_CALLOC(VC);								\
		if (p == NULL)									\
			printf("slot -");							\
		else {										\
			if (WIDE) zeroed[p - VC] = 1;						\
			printf("slot %zu %lu", (size_t)(p - VC), GET(p, 1));			\
		}										\
	} else if (strcmp(op, "P") == 0) {							\
		p = VECTOR_POP(VC);								\
		if (p == NULL)									\
			printf("slot -");							\
		else										\
			printf("slot %zu %lu", (size_t)(p - VC), GET(p, WIDE && zeroed[p - VC]));\
	} else if (strcmp(op, "X") == 0) {							\
		VECTOR_CLEAR(VC);								\
		printf("unit");									\
	} else if (strcmp(op, "S") == 0) {							\
		if (WIDE) {									\
			/* calloc'ed records get their pattern before they are moved around */	\
			size_t i;								\
			for (i = 0; i < VECTOR_LENGTH(VC); i++)					\
				if (zeroed[i]) { GET(VC + i, 1); SET(VC + i, 0); zeroed[i] = 0; }	\
		}										\
		VECTOR_SORT(VC, CMP);								\
		printf("unit");									\
	} else if (strcmp(op, "F") == 0) {							\
		p = VECTOR_FIRST(VC);								\
		if (p == NULL)									\
			printf("slot -");							\
		else										\
			printf("slot %zu %lu", (size_t)(p - VC), GET(p, WIDE && zeroed[p - VC]));\
	} else if (strcmp(op, "L") == 0) {							\
		p = VECTOR_LAST(VC);								\
		if (p == NULL)									\
			printf("slot -");							\
		else										\
			printf("slot %zu %lu", (size_t)(p - VC), GET(p, WIDE && zeroed[p - VC]));\
	} else if (strcmp(op, "N") == 0) {							\
		printf("len %zu", VECTOR_LENGTH(VC));						\
	} else if (strcmp(op, "D") == 0) {							\
		size_t i;									\
												\
		printf("items ");								\
		if (VECTOR_EMPTY(VC))								\
			printf("-");								\
		for (i = 0; i < VECTOR_LENGTH(VC); i++)						\
			printf("%s%lu", i ? "," : "", GET(VC + i, WIDE && zeroed[i]));		\
	} else {										\
		printf("bad-op");								\
	}											\
	(void)argc;										\
	printf(" #%zu:%zu\n", VECTOR_LENGTH(VC), ptov(VC)->vc_siz);				\
}

#define UL_SET(p, v) (*(p) = (v))
#define UL_GET(p, z) (*(p))
VEC_OPS(vec_op, vec, unsigned long, UL_SET, UL_GET, cmp_ul, 0)
VEC_OPS(vec2_op, vec2, struct rec, rec_set, rec_get, cmp_rec, 1)

/* ------------------------------------------------------------- buffer */

static struct buffer *bf;

#define MAGIC_FD 987
static const char *rd_data;
static size_t rd_len, rd_off;
static size_t rd_chunks[4096];
static int rd_nchunks, rd_next, rd_calls;

ssize_t __real_read(int, void *, size_t);
ssize_t
__wrap_read(int fd, void *buf, size_t n)
{
	size_t want, left;

	if (fd != MAGIC_FD)
		return __real_read(fd, buf, n);
	rd_calls++;
	left = rd_len - rd_off;
	want = rd_next < rd_nchunks ? rd_chunks[rd_next++] : n;
	if (want < 1)
		want = 1;
	if (want > n)
		want = n;
	if (want > left)
		want = left;
	memcpy(buf, rd_data + rd_off, want);
	rd_off += want;
	return (ssize_t)want;
}

static void
buf_hdr(void)
{
	printf(" #%zu:%zu\n", buffer_get_len(bf), buffer_get_size(bf));
}

static struct buffer *
new_buffer(size_t init)
{
	return use_arena ? arena_buffer_alloc(&scope, init) : buffer_alloc(init);
}

static void
buf_op(int argc, char **w)
{
	size_t len = 0;
	char *arg = NULL;
	int error;

	if (strcmp(w[0], "BA") == 0) {
		if (bf != NULL)
			buffer_free(bf);
		bf = new_buffer(strtoul(w[1], NULL, 10));
		printf("status %d", bf == NULL);
	} else if (strcmp(w[0], "BP") == 0) {
		arg = unhex(w[1], &len);
		error = buffer_puts(bf, arg, len);
		printf("status %d", error);
	} else if (strcmp(w[0], "BC") == 0) {
		error = buffer_putc(bf, (char)atoi(w[1]));
		printf("status %d", error);
	} else if (strcmp(w[0], "BF") == 0) {
		/* BF s <hex> | BF d <int> | BF x <hex> <int> | BF z <size> <hex> <prec> */
		if (w[1][0] == 's') {
			arg = unhex(w[2], &len);
			error = buffer_printf(bf, "%s", arg);
		} else if (w[1][0] == 'd') {
			error = buffer_printf(bf, "%d", atoi(w[2]));
		} else if (w[1][0] == 'x') {
			arg = unhex(w[2], &len);
			error = buffer_printf(bf, "[%s|%5d]", arg, atoi(w[3]));
		} else {
			arg = unhex(w[3], &len);
			error = buffer_printf(bf, "%zu:%.*s;", (size_t)strtoul(w[2], NULL, 10), atoi(w[4]), arg);
		}
		printf("status %d", error);
	} else if (strcmp(w[0], "BR") == 0) {
		buffer_reset(bf);
		printf("unit");
	} else if (strcmp(w[0], "BO") == 0) {
		printf("n %zu", buffer_pop(bf, strtoul(w[1], NULL, 10)));
	} else if (strcmp(w[0], "BS") == 0) {
		size_t l = buffer_get_len(bf);
		const char *p = buffer_get_ptr(bf);
		size_t want = (l == 0 || p[l - 1] != '\0') ? l + 1 : l;
		char *s = buffer_str(bf);

		printf("bytes ");
		if (s == NULL)
			printf("!");
		else {
			puthex(s, want);
			if (!use_arena)
				free(s);
		}
	} else if (strcmp(w[0], "BD") == 0) {
		/* BD <hexfile> <c1,c2,...|-> : buffer_read_fd on a descriptor that
		 * delivers the file in the given chunk sizes */
		char *tok, *cs = w[2];

		arg = unhex(w[1], &len);
		rd_data = arg;
		rd_len = len;
		rd_off = 0;
		rd_nchunks = rd_next = rd_calls = 0;
		if (strcmp(cs, "-") != 0)
			for (tok = strtok(cs, ","); tok != NULL && rd_nchunks < 4096; tok = strtok(NULL, ","))
				rd_chunks[rd_nchunks++] = strtoul(tok, NULL, 10);
		if (bf != NULL)
			buffer_free(bf);
		bf = use_arena ? arena_buffer_read_fd(&scope, MAGIC_FD) : buffer_read_fd(MAGIC_FD);
		if (bf == NULL) {
			printf("status 1 #0:0\n");
			bf = new_buffer(0);
			free(arg);
			return;
		}
		printf("status 0");
	} else if (strcmp(w[0], "BL") == 0) {
		struct buffer_getline it = {0};
		const char *line;
		int n = 0;

		printf("lines ");
		while ((line = use_arena ? arena_buffer_getline(&scope, bf, &it) : buffer_getline(bf, &it)) != NULL) {
			printf("%s", n++ ? "," : "");
			puthex(line, strlen(line));
		}
		if (n == 0)
			printf(".");
		if (it.bf != NULL || it.off != 0)
			oracle("getline iterator not reset at the end");
	} else if (strcmp(w[0], "BN") == 0) {
		printf("n %zu", buffer_get_len(bf));
	} else if (strcmp(w[0], "BM") == 0) {
		struct buffer *o = buffer_alloc(0);

		arg = unhex(w[1], &len);
		buffer_puts(o, arg, len);
		printf("cmp %d", buffer_cmp(bf, o) != 0);
		buffer_free(o);
	} else if (strcmp(w[0], "BG") == 0) {
		printf("bytes ");
		puthex(buffer_get_ptr(bf), buffer_get_len(bf));
	} else {
		printf("bad-op");
	}
	(void)argc;
	free(arg);
	buf_hdr();
}

int
main(void)
{
	char *line = NULL, *w[16];
	size_t cap = 0;
	int argc;

	setvbuf(stdout, NULL, _IOFBF, 1 << 16);
	printf("PARAMS %zu %zu %zu\n", sizeof(struct vector), sizeof(unsigned long), sizeof(struct rec));
	while (getline(&line, &cap, stdin) > 0) {
		argc = splitwords(line, w, 16);
		if (argc == 0)
			continue;
		if (strcmp(w[0], "MAP") == 0) {
			map_kind = atoi(w[1]);
			if (map_kind == 0) {
				if (MAP_INIT(smap))
					return 3;
			} else if (MAP_INIT(imap))
				return 3;
		} else if (strcmp(w[0], "CONT") == 0) {
			use_arena = atoi(w[1]);
			if (use_arena) {
				arena = arena_alloc();
				scope = arena_scope_enter(arena);
				ARENA_VECTOR_INIT(&scope, vec, strtoul(w[2], NULL, 10));
				ARENA_VECTOR_INIT(&scope, vec2, strtoul(w[2], NULL, 10));
			} else {
				if (VECTOR_INIT(vec) || VECTOR_INIT(vec2))
					return 3;
			}
			bf = new_buffer(strtoul(w[3], NULL, 10));
		} else if (strcmp(w[0], "K") == 0) {
			collide(atoi(w[1]), (unsigned)strtoul(w[2], NULL, 10), atoi(w[3]), atoi(w[4]),
			    (unsigned)strtoul(w[5], NULL, 10), atoi(w[6]));
		} else if (w[0][0] == 'V') {
			vec_op(argc, w);
		} else if (w[0][0] == 'W') {
			vec2_op(argc, w);
		} else if (w[0][0] == 'B') {
			buf_op(argc, w);
		} else {
			map_op(argc, w);
		}
		fflush(stdout);
	}
	if (smap != NULL) {
		map_check();
		MAP_FREE(smap);
	}
	if (imap != NULL) {
		map_check();
		MAP_FREE(imap);
	}
	if (use_arena) {
		arena_scope_leave(&scope);
		arena_free(arena);
	} else {
		if (vec != NULL)
			VECTOR_FREE(vec);
		if (vec2 != NULL)
			VECTOR_FREE(vec2);
		if (bf != NULL)
			buffer_free(bf);
	}
	free(line);
	for (argc = 0; argc < nels; argc++)
		free(els[argc].key);
	printf("DONE\n");
	return 0;
}
