#!/bin/sh
# Run the repository's own test suite with the ROBSD_VERIF guard OFF, in a
# scratch copy of /repo's working tree (removed afterwards), and compare the
# passing test names with the pinned baseline (/root/.vp/BASELINE.json).
set -u
REPO=${VERIF_REPO:-/repo}
D=$(mktemp -d /var/tmp/robsd-baseline.XXXXXX) || exit 2
trap 'rm -rf "$D"' EXIT
rsync -a --exclude=.git --exclude='*.o' --exclude='*.d' "$REPO"/ "$D"/ || exit 2
cd "$D" || exit 2
[ -f config.h ] && [ -f config.mk ] || sh ./configure >/dev/null 2>&1 || exit 2
make clean >/dev/null 2>&1
make -j8 all >build.log 2>&1 || { tail -30 build.log; echo "baseline: build failed"; exit 1; }
make -k -j8 test >test.log 2>&1
python3 - "$D/test.log" <<'PY'
import json, re, sys
log = open(sys.argv[1], errors="replace").read().split("\n")
passed = set(); failed = set()
for l in log:
    m = re.match(r"^(PASS|FAIL):\s+(.*)$", l)
    if m:
        (passed if m.group(1) == "PASS" else failed).add(m.group(2).strip())
passed -= failed
try:
    base = set(json.load(open("/root/.vp/BASELINE.json"))["stable_pass"])
except Exception:
    base = None
print("baseline: %d tests passed, %d failed in this sandbox" % (len(passed), len(failed)))
if base is None:
    sys.exit(0)
# a baseline name may be a prefix artefact of the parser ("Subject: ..."); ignore names that are not test ids
missing = [b for b in base if b not in passed and re.match(r"^[\w.-]+\.sh: ", b)]
print("baseline: %d of %d pinned stable-pass tests pass; missing: %s" % (
    len([b for b in base if b in passed]), len(base), missing))
sys.exit(1 if missing else 0)
PY
