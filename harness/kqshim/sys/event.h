/*
 * kqueue/kevent(EVFILT_PROC, NOTE_EXIT) on Linux with pidfd_open(2) + poll(2),
 * just enough for the real robsd-wait.c (built with -D__OpenBSD__) to run.
 * Part of the trusted base (DESIGN 3.4).
 */
#ifndef VERIF_KQSHIM_EVENT_H
#define VERIF_KQSHIM_EVENT_H

#include <sys/syscall.h>
#include <errno.h>
#include <poll.h>
#include <stdint.h>
#include <string.h>
#include <time.h>
#include <unistd.h>
#include <err.h>

#define EVFILT_PROC	(-5)
#define EV_ADD		0x0001
#define EV_ERROR	0x4000
#define NOTE_EXIT	0x80000000u

struct kevent {
	uintptr_t	ident;
	short		filter;
	unsigned short	flags;
	unsigned int	fflags;
	int64_t		data;
	void		*udata;
};

#define EV_SET(kevp, a, b, c, d, e, f) do {	\
	struct kevent *_k = (kevp);		\
	_k->ident = (uintptr_t)(a);		\
	_k->filter = (b);			\
	_k->flags = (c);			\
	_k->fflags = (d);			\
	_k->data = (e);				\
	_k->udata = (f);			\
} while (0)

#define warnc(code, ...) do { errno = (int)(code); warn(__VA_ARGS__); } while (0)

#define KQ_MAX 4096
static struct { int pid; int fd; } kq_reg[KQ_MAX];
static int kq_n;

static inline int
kqueue(void)
{
	kq_n = 0;
	return dup(0) ;
}

static inline int
kevent(int kq, const struct kevent *changes, int nchanges,
    struct kevent *events, int nevents, const struct timespec *timeout)
{
	struct pollfd pfd[KQ_MAX];
	int i, n = 0;

	(void)kq; (void)timeout;
	for (i = 0; i < nchanges; i++) {
		int pid = (int)changes[i].ident;
		int fd = (int)syscall(SYS_pidfd_open, pid, 0);

		if (fd == -1) {
			/*
			 * kevent(2): an error while processing a change is
			 * reported in the eventlist if there is room for it,
			 * otherwise the call fails with that error.
			 */
			if (n >= nevents)
				return -1;
			if (n < nevents) {
				memset(&events[n], 0, sizeof(events[n]));
				events[n].ident = (uintptr_t)pid;
				events[n].filter = EVFILT_PROC;
				events[n].flags = EV_ERROR;
				events[n].data = errno;
				n++;
			}
			continue;
		}
		if (kq_n < KQ_MAX) {
			kq_reg[kq_n].pid = pid;
			kq_reg[kq_n].fd = fd;
			kq_n++;
		}
	}
	if (n > 0 || nevents == 0)
		return n;
	if (kq_n == 0)
		return 0;
	for (;;) {
		int r;

		for (i = 0; i < kq_n; i++) {
			pfd[i].fd = kq_reg[i].fd;
			pfd[i].events = POLLIN;
			pfd[i].revents = 0;
		}
		r = poll(pfd, (nfds_t)kq_n, -1);
		if (r == -1) {
			if (errno == EINTR)
				continue;
			return -1;
		}
		for (i = 0; i < kq_n && n < nevents; ) {
			if (pfd[i].revents & (POLLIN | POLLHUP | POLLERR)) {
				memset(&events[n], 0, sizeof(events[n]));
				events[n].ident = (uintptr_t)kq_reg[i].pid;
				events[n].filter = EVFILT_PROC;
				events[n].fflags = NOTE_EXIT;
				n++;
				close(kq_reg[i].fd);
				kq_reg[i] = kq_reg[kq_n - 1];
				pfd[i] = pfd[kq_n - 1];
				kq_n--;
			} else {
				i++;
			}
		}
		if (n > 0)
			return n;
	}
}

#endif
