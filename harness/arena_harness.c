/*
 * C19 harness: drives the real libks arena (arena.c is included so that frames
 * and scopes can be inspected), arena backed buffers and vectors, from a list
 * of operations on stdin.  For every primitive arena call (explicit, or made
 * by buffer.c / vector.c through the arena callbacks, caught with --wrap) it
 * prints the call in the model's syntax and where the block was placed.
 * Independently of the model it keeps a shadow copy of every live block and
 * checks after every operation: alignment, pairwise disjointness, unchanged
 * contents, realloc prefix, cleanups run exactly once (newest first).
 */
#include "libks/arena.c"

#include "libks/arena-buffer.h"
#include "libks/arena-vector.h"
#include "libks/buffer.h"
#include "libks/vector.h"

#include <signal.h>

#define MAXBLK 8192
#define MAXSC 64
#define MAXCONT 256

struct blk {
	int live, arena, id, depth, owner, handle;
	char *ptr;
	size_t size;
	unsigned char *shadow;
};

static struct blk blks[MAXBLK];
static int nblks;
static struct arena *ar[2];
static struct arena_scope sc[2][MAXSC];
static int depth[2];
static int nextid[2];
static int sctags[2][MAXSC][256], nsctags[2][MAXSC];
static int ran[65536], nran;
static int oracle_failed;
static int cur_owner = -1;
static int nexthandle;

struct cont {
	int kind, arena;	/* 1 buffer, 2 vector */
	struct buffer *bf;
	unsigned long *vec;
	unsigned char *want;
	size_t nwant;
};
static struct cont conts[MAXCONT];
static int nconts;

static void
oracle(const char *fmt, ...)
{
	va_list ap;

	va_start(ap, fmt);
	printf("ORACLE ");
	vprintf(fmt, ap);
	printf("\n");
	va_end(ap);
	fflush(stdout);
	oracle_failed = 1;
}

static int
nframes(const struct arena *a)
{
	const struct arena_frame *f;
	int n = 0;

	for (f = a->frame; f != NULL; f = f->next)
		n++;
	return n;
}

static int
locate(const struct arena *a, const char *ptr, int *h, size_t *off)
{
	const struct arena_frame *f;
	int n = nframes(a), i = 0;

	for (f = a->frame; f != NULL; f = f->next, i++) {
		if (ptr >= f->ptr && ptr <= f->ptr + f->size) {
			*h = n - 1 - i;
			*off = (size_t)(ptr - f->ptr);
			return 1;
		}
	}
	*h = -1;
	*off = 0;
	return 0;
}

static int
nlive(int a)
{
	int i, n = 0;

	for (i = 0; i < nblks; i++)
		if (blks[i].live && blks[i].arena == a)
			n++;
	return n;
}

static void
res_ptr(int a, int id, const char *ptr)
{
	int h;
	size_t off;

	if (!locate(ar[a], ptr, &h, &off))
		oracle("arena %d: block %d at %p is in no frame", a, id, (void *)ptr);
	printf("RES p:%d:%d:%zu/%d:%zu:%zu:%d\n", id, h, off, nframes(ar[a]),
	    ar[a]->frame->len, ar[a]->frame->size, nlive(a));
	fflush(stdout);
}

static void
res_unit(int a)
{
	printf("RES u/%d:%zu:%zu:%d\n", nframes(ar[a]), ar[a]->frame->len,
	    ar[a]->frame->size, nlive(a));
	fflush(stdout);
}

static unsigned char
pat(int id, size_t i)
{
	return (unsigned char)(id * 31 + i * 7 + 1);
}

static struct blk *
find(int a, int id)
{
	int i;

	for (i = 0; i < nblks; i++)
		if (blks[i].live && blks[i].arena == a && blks[i].id == id)
			return &blks[i];
	return NULL;
}

static struct blk *
find_handle(int a, int handle)
{
	int i;

	for (i = 0; i < nblks; i++)
		if (blks[i].live && blks[i].arena == a && blks[i].handle == handle)
			return &blks[i];
	return NULL;
}

static struct blk *
find_ptr(int a, const char *ptr)
{
	int i;

	for (i = nblks - 1; i >= 0; i--)
		if (blks[i].live && blks[i].arena == a && blks[i].ptr == ptr &&
		    blks[i].owner != -1)
			return &blks[i];
	return NULL;
}

static void
snapshot(struct blk *b)
{
	free(b->shadow);
	b->shadow = malloc(b->size ? b->size : 1);
	memcpy(b->shadow, b->ptr, b->size);
}

static struct blk *
reg(int a, int id, int d, char *ptr, size_t size, int fill)
{
	struct blk *b;
	size_t i;

	if (nblks == MAXBLK)
		errx(3, "too many blocks");
	b = &blks[nblks++];
	memset(b, 0, sizeof(*b));
	b->live = 1;
	b->arena = a;
	b->id = id;
	b->depth = d;
	b->owner = cur_owner;
	b->handle = -1;
	b->ptr = ptr;
	b->size = size;
	if (fill)
		for (i = 0; i < size; i++)
			ptr[i] = (char)pat(id, i);
	snapshot(b);
	return b;
}

static int
cmp_blk(const void *x, const void *y)
{
	const struct blk *a = *(struct blk *const *)x, *b = *(struct blk *const *)y;

	if (a->ptr != b->ptr)
		return a->ptr < b->ptr ? -1 : 1;
	return 0;
}

static void
check_all(void)
{
	static struct blk *v[MAXBLK];
	int i, n = 0;

	for (i = 0; i < nblks; i++) {
		struct blk *b = &blks[i];

		if (!b->live)
			continue;
		if (((uintptr_t)b->ptr & (sizeof(void *) - 1)) != 0)
			oracle("arena %d: block %d at %p is not pointer aligned",
			    b->arena, b->id, (void *)b->ptr);
		if (b->owner != cur_owner || cur_owner == -1) {
			if (memcmp(b->ptr, b->shadow, b->size) != 0) {
				size_t j;

				for (j = 0; j < b->size; j++)
					if ((unsigned char)b->ptr[j] != b->shadow[j])
						break;
				oracle("arena %d: contents of live block %d (size %zu) changed at byte %zu",
				    b->arena, b->id, b->size, j);
				snapshot(b);
			}
		}
		if (b->size > 0)
			v[n++] = b;
	}
	qsort(v, (size_t)n, sizeof(v[0]), cmp_blk);
	for (i = 0; i + 1 < n; i++) {
		if (v[i]->ptr + v[i]->size > v[i + 1]->ptr)
			oracle("live blocks overlap: arena %d block %d [%p,+%zu) and arena %d block %d [%p,+%zu)",
			    v[i]->arena, v[i]->id, (void *)v[i]->ptr, v[i]->size,
			    v[i + 1]->arena, v[i + 1]->id, (void *)v[i + 1]->ptr, v[i + 1]->size);
	}
}

static void
cleanup_fun(void *arg)
{
	int v = (int)(uintptr_t)arg;

	ran[nran++] = v;
	printf("RAN %d %d\n", v >> 20, v & 0xfffff);
	fflush(stdout);
}

static int
scope_k(int a, const struct arena_scope *s)
{
	int i;

	for (i = 0; i < depth[a]; i++)
		if (s == &sc[a][i])
			return depth[a] - 1 - i;
	return -1;
}

static int
which_arena(const struct arena_scope *s)
{
	return s->arena == ar[0] ? 0 : 1;
}

/* ---- calls made by buffer.c / vector.c through the arena callbacks ---- */
void	*__real_arena_malloc(struct arena_scope *, size_t);
void	*__real_arena_calloc(struct arena_scope *, size_t, size_t);
void	*__real_arena_realloc(struct arena_scope *, void *, size_t, size_t);

void *
__wrap_arena_malloc(struct arena_scope *s, size_t size)
{
	int a = which_arena(s), k = scope_k(a, s), id = nextid[a];
	char *p;

	printf("OP %d M:%d:%zu\n", a, k, size);
	fflush(stdout);
	p = __real_arena_malloc(s, size);
	nextid[a]++;
	reg(a, id, depth[a] - 1 - k, p, size, 0);
	res_ptr(a, id, p);
	return p;
}

void *
__wrap_arena_calloc(struct arena_scope *s, size_t nmemb, size_t size)
{
	int a = which_arena(s), k = scope_k(a, s), id = nextid[a];
	size_t i;
	char *p;

	printf("OP %d C:%d:%zu\n", a, k, nmemb * size);
	fflush(stdout);
	p = __real_arena_calloc(s, nmemb, size);
	nextid[a]++;
	for (i = 0; i < nmemb * size; i++)
		if (p[i] != 0) {
			oracle("arena_calloc: byte %zu not zero", i);
			break;
		}
	reg(a, id, depth[a] - 1 - k, p, nmemb * size, 0);
	res_ptr(a, id, p);
	return p;
}

void *
__wrap_arena_realloc(struct arena_scope *s, void *ptr, size_t old_size,
    size_t new_size)
{
	int a = which_arena(s), k = scope_k(a, s);
	struct blk *b;
	unsigned char *before;
	char *p;

	if (ptr == NULL)
		return __wrap_arena_malloc(s, new_size);
	b = find_ptr(a, ptr);
	if (b == NULL)
		errx(3, "implicit realloc of an unknown block");
	printf("OP %d R:%d:%d:%zu:%zu\n", a, k, b->id, old_size, new_size);
	fflush(stdout);
	before = malloc(old_size ? old_size : 1);
	memcpy(before, ptr, old_size);
	p = __real_arena_realloc(s, ptr, old_size, new_size);
	if (memcmp(p, before, old_size < new_size ? old_size : new_size) != 0)
		oracle("arena_realloc (from buffer/vector): prefix of block %d not preserved", b->id);
	free(before);
	b->ptr = p;
	b->size = new_size;
	b->depth = depth[a] - 1 - k;
	snapshot(b);
	res_ptr(a, b->id, p);
	return p;
}

static size_t
unhex(const char *h, unsigned char *out)
{
	size_t n = 0;
	unsigned int v;

	if (strcmp(h, "-") == 0)
		return 0;
	while (h[0] != '\0' && h[1] != '\0' && sscanf(h, "%2x", &v) == 1) {
		out[n++] = (unsigned char)v;
		h += 2;
	}
	return n;
}

static void
resnap_owner(int cid)
{
	int i;

	for (i = 0; i < nblks; i++)
		if (blks[i].live && blks[i].owner == cid)
			snapshot(&blks[i]);
}

static void
check_cont(int cid)
{
	struct cont *c = &conts[cid];

	if (c->kind == 1) {
		if (buffer_get_len(c->bf) != c->nwant ||
		    memcmp(buffer_get_ptr(c->bf), c->want, c->nwant) != 0)
			oracle("arena buffer %d does not hold what was put into it", cid);
	} else {
		size_t i, n = VECTOR_LENGTH(c->vec);

		if (n * sizeof(unsigned long) != c->nwant)
			oracle("arena vector %d has %zu elements, expected %zu", cid, n,
			    c->nwant / sizeof(unsigned long));
		else
			for (i = 0; i < n; i++)
				if (c->vec[i] != ((unsigned long *)(void *)c->want)[i]) {
					oracle("arena vector %d element %zu changed", cid, i);
					break;
				}
	}
}

static void
cont_dead(int a, int d)
{
	int i;

	/* containers whose struct lives in a scope that is left are gone */
	for (i = 0; i < nconts; i++)
		if (conts[i].kind != 0 && conts[i].arena == a * 1000 + d)
			conts[i].kind = 0;
}

int
main(void)
{
	static char line[1 << 20], tok[1 << 20];
	static unsigned char bytes[1 << 19];
	int a;

	setvbuf(stdout, NULL, _IOLBF, 0);
	ar[0] = arena_alloc();
	ar[1] = arena_alloc();
	printf("PARAMS %zu %zu %zu %zu %zu\n", sizeof(struct arena_frame),
	    ar[0]->frame_size, ar[0]->poison_size, sizeof(struct arena_cleanup),
	    maxalign);

	while (fgets(line, sizeof(line), stdin) != NULL) {
		int k, id, variant, cid, cnt;
		size_t n, old, i;
		unsigned int v;
		struct blk *b;
		char *p;

		cur_owner = -1;
		if (sscanf(line, "E %d", &a) == 1) {
			printf("OP %d E\n", a);
			sc[a][depth[a]] = arena_scope_enter(ar[a]);
			nsctags[a][depth[a]] = 0;
			depth[a]++;
			res_unit(a);
		} else if (sscanf(line, "L %d", &a) == 1) {
			int d = depth[a] - 1, ran0 = nran, j;

			printf("OP %d L\n", a);
			fflush(stdout);
			arena_scope_leave(&sc[a][d]);
			depth[a]--;
			if (nran - ran0 != nsctags[a][d])
				oracle("arena %d: leaving a scope with %d cleanups ran %d",
				    a, nsctags[a][d], nran - ran0);
			else
				for (j = 0; j < nsctags[a][d]; j++)
					if (ran[ran0 + j] != sctags[a][d][nsctags[a][d] - 1 - j]) {
						oracle("arena %d: cleanups ran out of order or for another scope", a);
						break;
					}
			for (j = 0; j < nblks; j++)
				if (blks[j].live && blks[j].arena == a && blks[j].depth == d) {
					blks[j].live = 0;
					free(blks[j].shadow);
					blks[j].shadow = NULL;
				}
			cont_dead(a, d);
			res_unit(a);
		} else if (sscanf(line, "M %d %d %zu", &a, &k, &n) == 3) {
			id = nextid[a];
			printf("OP %d M:%d:%zu\n", a, k, n);
			fflush(stdout);
			p = arena_malloc(&sc[a][depth[a] - 1 - k], n);
			nextid[a]++;
			reg(a, id, depth[a] - 1 - k, p, n, 1)->handle = nexthandle++;
			res_ptr(a, id, p);
		} else if (sscanf(line, "C %d %d %zu", &a, &k, &n) == 3) {
			id = nextid[a];
			printf("OP %d C:%d:%zu\n", a, k, n);
			fflush(stdout);
			/* nmemb * size with both factors varying */
			if (n % 8 == 0 && n > 0)
				p = arena_calloc(&sc[a][depth[a] - 1 - k], n / 8, 8);
			else
				p = arena_calloc(&sc[a][depth[a] - 1 - k], 1, n);
			nextid[a]++;
			for (i = 0; i < n; i++)
				if (p[i] != 0) {
					oracle("arena_calloc: byte %zu not zero", i);
					break;
				}
			reg(a, id, depth[a] - 1 - k, p, n, 1)->handle = nexthandle++;
			res_ptr(a, id, p);
		} else if (sscanf(line, "S %d %d %d %s", &a, &k, &variant, tok) == 4) {
			n = unhex(tok, bytes);
			bytes[n] = '\0';
			id = nextid[a];
			printf("OP %d S:%d:%s\n", a, k, tok);
			fflush(stdout);
			if (variant == 0)
				p = arena_strdup(&sc[a][depth[a] - 1 - k], (char *)bytes);
			else if (variant == 1)
				p = arena_strndup(&sc[a][depth[a] - 1 - k], (char *)bytes, n);
			else
				p = arena_sprintf(&sc[a][depth[a] - 1 - k], "%s", (char *)bytes);
			nextid[a]++;
			if (memcmp(p, bytes, n + 1) != 0)
				oracle("arena string does not hold the source string");
			reg(a, id, depth[a] - 1 - k, p, n + 1, 0)->handle = nexthandle++;
			res_ptr(a, id, p);
		} else if (sscanf(line, "U %d %d", &a, &k) == 2) {
			int d = depth[a] - 1 - k;

			id = nextid[a];
			printf("OP %d U:%d\n", a, k);
			fflush(stdout);
			arena_cleanup(&sc[a][d], cleanup_fun,
			    (void *)(uintptr_t)((a << 20) | id));
			nextid[a]++;
			sctags[a][d][nsctags[a][d]++] = (a << 20) | id;
			p = (char *)sc[a][d].cleanup;
			reg(a, id, d, p, sizeof(struct arena_cleanup), 0);
			res_ptr(a, id, p);
		} else if (sscanf(line, "R %d %d %d %zu %zu", &a, &k, &id, &old, &n) == 5) {
			size_t keep;

			b = find_handle(a, id);
			if (b == NULL)
				errx(3, "R: unknown handle %d", id);
			id = b->id;
			printf("OP %d R:%d:%d:%zu:%zu\n", a, k, id, old, n);
			fflush(stdout);
			p = arena_realloc(&sc[a][depth[a] - 1 - k], b->ptr, old, n);
			keep = old < n ? old : n;
			if (memcmp(p, b->shadow, keep) != 0)
				oracle("arena_realloc: prefix of block %d (%zu bytes) not preserved", id, keep);
			b->ptr = p;
			b->size = n;
			b->depth = depth[a] - 1 - k;
			for (i = keep; i < n; i++)
				p[i] = (char)pat(id + 1000, i);
			snapshot(b);
			res_ptr(a, id, p);
		} else if (sscanf(line, "W %d %d %zu %u", &a, &id, &n, &v) == 4) {
			b = find_handle(a, id);
			if (b == NULL || n >= b->size)
				errx(3, "W: bad handle %d / index", id);
			id = b->id;
			printf("OP %d W:%d:%zu:%u\n", a, id, n, v);
			b->ptr[n] = (char)v;
			b->shadow[n] = (unsigned char)v;
			res_unit(a);
		} else if (sscanf(line, "B %d %d %zu", &a, &k, &n) == 3) {
			cid = nconts++;
			cur_owner = cid;
			conts[cid].kind = 1;
			conts[cid].arena = a * 1000 + (depth[a] - 1 - k);
			conts[cid].want = malloc(1 << 20);
			conts[cid].nwant = 0;
			conts[cid].bf = arena_buffer_alloc(&sc[a][depth[a] - 1 - k], n);
			resnap_owner(cid);
			check_cont(cid);
		} else if (sscanf(line, "BP %d %s", &cid, tok) == 2) {
			if (conts[cid].kind == 1) {
				n = unhex(tok, bytes);
				cur_owner = cid;
				buffer_puts(conts[cid].bf, (char *)bytes, n);
				memcpy(conts[cid].want + conts[cid].nwant, bytes, n);
				conts[cid].nwant += n;
				resnap_owner(cid);
				check_cont(cid);
			}
		} else if (sscanf(line, "V %d %d %zu", &a, &k, &n) == 3) {
			cid = nconts++;
			cur_owner = cid;
			conts[cid].kind = 2;
			conts[cid].arena = a * 1000 + (depth[a] - 1 - k);
			conts[cid].want = malloc(1 << 20);
			conts[cid].nwant = 0;
			arena_vector_init(&sc[a][depth[a] - 1 - k], (void **)&conts[cid].vec,
			    sizeof(unsigned long), n);
			resnap_owner(cid);
			check_cont(cid);
		} else if (sscanf(line, "VA %d %d", &cid, &cnt) == 2) {
			if (conts[cid].kind == 2) {
				int j;

				cur_owner = cid;
				for (j = 0; j < cnt; j++) {
					unsigned long *e = VECTOR_ALLOC(conts[cid].vec);
					unsigned long val = (unsigned long)cid * 1000003UL + conts[cid].nwant;

					*e = val;
					memcpy(conts[cid].want + conts[cid].nwant, &val, sizeof(val));
					conts[cid].nwant += sizeof(val);
				}
				resnap_owner(cid);
				check_cont(cid);
			}
		} else {
			errx(3, "bad line: %s", line);
		}
		cur_owner = -1;
		check_all();
		{
			int j;

			for (j = 0; j < nconts; j++)
				if (conts[j].kind != 0)
					check_cont(j);
		}
		printf("CHK\n");
	}
	printf("DONE %d\n", oracle_failed);
	return 0;
}
