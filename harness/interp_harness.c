/*
 * In-process harness for interpolate.c.
 *   str <ign> <tmpl> [<name> <value>]...    -> interpolate_str
 * Answers "ok <hex>" or "err <kind> [<name-hex>]".  log_warnx is provided
 * here (instead of log.c) so the diagnostic is captured rather than printed.
 */
#include <stdarg.h>
#include <stdio.h>
#include <stdlib.h>
#include <string.h>

#include "libks/arena.h"
#include "libks/buffer.h"

#include "interpolate.h"
#include "log.h"
#include "hexio.h"

static char lastmsg[1024];

void
log_warnx(const char *path, int lno, const char *fmt, ...)
{
	va_list ap;

	(void)path; (void)lno;
	va_start(ap, fmt);
	vsnprintf(lastmsg, sizeof(lastmsg), fmt, ap);
	va_end(ap);
}

void
logv(enum log_func f, const char *path, int lno, const char *fmt, va_list ap)
{
	(void)f; (void)path; (void)lno;
	vsnprintf(lastmsg, sizeof(lastmsg), fmt, ap);
}

struct env {
	int	 n;
	char	*k[64];
	char	*v[64];
};

static const char *
lookup(const char *name, struct arena_scope *s, void *arg)
{
	struct env *e = arg;
	int i;

	for (i = 0; i < e->n; i++)
		if (strcmp(e->k[i], name) == 0)
			return arena_strdup(s, e->v[i]);
	return NULL;
}

static void
print_err(void)
{
	const char *q;

	if (strstr(lastmsg, "recursion too deep")) printf("err too-deep\n");
	else if (strstr(lastmsg, "expected '{'")) printf("err expected-lbrace\n");
	else if (strstr(lastmsg, "expected '}'")) printf("err expected-rbrace\n");
	else if (strstr(lastmsg, "empty variable name")) printf("err empty-name\n");
	else if ((q = strstr(lastmsg, "unknown variable '")) != NULL) {
		const char *b = q + strlen("unknown variable '");
		size_t n = strlen(b);
		if (n > 0 && b[n - 1] == '\'') n--;
		printf("err unknown ");
		puthex(b, n);
		printf("\n");
	} else printf("err other %s\n", lastmsg);
}

int
main(void)
{
	static char line[1 << 20];
	char *w[200];

	while (fgets(line, sizeof(line), stdin) != NULL) {
		struct env e = {0};
		struct arena *eternal, *scratch;
		const char *res;
		char *tmpl;
		int n, i, ign;

		n = splitwords(line, w, 200);
		if (n < 3 || strcmp(w[0], "str") != 0) {
			printf("bad-op\n");
			continue;
		}
		ign = atoi(w[1]);
		tmpl = unhex(w[2], NULL);
		for (i = 3; i + 1 < n && e.n < 64; i += 2) {
			e.k[e.n] = unhex(w[i], NULL);
			e.v[e.n] = unhex(w[i + 1], NULL);
			e.n++;
		}
		eternal = arena_alloc();
		scratch = arena_alloc();
		{
			arena_scope(eternal, es);
			lastmsg[0] = '\0';
			res = interpolate_str(tmpl, &(struct interpolate_arg){
			    .lookup = lookup,
			    .arg = &e,
			    .eternal = &es,
			    .scratch = scratch,
			    .flags = ign ? INTERPOLATE_IGNORE_LOOKUP_ERRORS : 0,
			});
			if (res != NULL) {
				printf("ok ");
				puthex(res, strlen(res));
				printf("\n");
			} else {
				print_err();
			}
		}
		arena_free(scratch);
		arena_free(eternal);
		free(tmpl);
		for (i = 0; i < e.n; i++) {
			free(e.k[i]);
			free(e.v[i]);
		}
		fflush(stdout);
	}
	return 0;
}
