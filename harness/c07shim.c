/*
 * C07: LD_PRELOAD shim that delivers SIGTERM to the step runner at a chosen
 * point: C07_RAISE_AT=fork (right after fork() returned in the parent) or
 * C07_RAISE_AT=waitpid (right before its first waitpid() call).  Only acts in
 * a process whose name is robsd-exec, once.  C07_RAISE_AT=zombie: right before
 * the first waitpid(-pgid, WNOHANG) call that will find the step's main
 * process already exited (a zombie) - the request arrives after the runner's
 * last look at its signal flag and before it reaps the step.
 * C07_RAISE_AT=handshake: the forked child (still the runner's image) holds
 * back its setsid() for 300 ms and, 120 ms into that window, sends SIGTERM to
 * the runner, which is then waiting for the process group to appear.
 */
#define _GNU_SOURCE
#include <dlfcn.h>
#include <signal.h>
#include <stdio.h>
#include <stdlib.h>
#include <string.h>
#include <sys/types.h>
#include <sys/wait.h>
#include <unistd.h>

static int fired;

static int
is_runner(void)
{
	char buf[64] = {0};
	FILE *fh = fopen("/proc/self/comm", "r");

	if (fh == NULL)
		return 0;
	if (fgets(buf, sizeof(buf), fh) == NULL)
		buf[0] = '\0';
	fclose(fh);
	return strncmp(buf, "robsd-exec", 10) == 0;
}

static void
maybe_raise(const char *where)
{
	const char *at = getenv("C07_RAISE_AT");

	if (fired || at == NULL || strcmp(at, where) != 0 || !is_runner())
		return;
	fired = 1;
	raise(SIGTERM);
}

pid_t
fork(void)
{
	static pid_t (*real)(void);
	pid_t pid;

	if (real == NULL)
		real = (pid_t (*)(void))dlsym(RTLD_NEXT, "fork");
	pid = real();
	if (pid > 0)
		maybe_raise("fork");
	return pid;
}

pid_t
setsid(void)
{
	static pid_t (*real)(void);
	const char *at = getenv("C07_RAISE_AT");

	if (real == NULL)
		real = (pid_t (*)(void))dlsym(RTLD_NEXT, "setsid");
	if (!fired && at != NULL && strcmp(at, "handshake") == 0 && is_runner()) {
		fired = 1;
		usleep(120 * 1000);
		kill(getppid(), SIGTERM);
		usleep(180 * 1000);
	}
	return real();
}

pid_t
waitpid(pid_t pid, int *status, int options)
{
	static pid_t (*real)(pid_t, int *, int);

	if (real == NULL)
		real = (pid_t (*)(pid_t, int *, int))dlsym(RTLD_NEXT, "waitpid");
	maybe_raise("waitpid");
	if (pid < -1 && (options & WNOHANG)) {
		siginfo_t si;

		memset(&si, 0, sizeof(si));
		if (waitid(P_PGID, (id_t)-pid, &si, WEXITED | WNOHANG | WNOWAIT) == 0 && si.si_pid != 0)
			maybe_raise("zombie");
	}
	return real(pid, status, options);
}
