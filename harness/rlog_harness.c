/*
 * In-process harness for regress-log.c.  Requests (content in hex):
 *   parse <flags> <content>   -> "<n> <out-hex>"   (flags as in regress-log.h, may include NEWLINE 16)
 *   peek <flags> <content>    -> "<n>"
 *   trim <content>            -> "<out-hex>"
 */
#include <err.h>
#include <stdio.h>
#include <stdlib.h>
#include <string.h>
#include <unistd.h>

#include "libks/buffer.h"

#include "regress-log.h"
#include "hexio.h"

static char path[] = "/var/tmp/rlog-harness-XXXXXX";

static void
put_file(const char *hex)
{
	size_t len;
	char *b = unhex(hex, &len);
	FILE *f = fopen(path, "w");

	if (f == NULL)
		err(1, "%s", path);
	fwrite(b, 1, len, f);
	fclose(f);
	free(b);
}

int
main(void)
{
	static char line[1 << 22];
	char *w[8];
	int fd;

	fd = mkstemp(path);
	if (fd == -1)
		err(1, "mkstemp");
	close(fd);
	while (fgets(line, sizeof(line), stdin) != NULL) {
		int n = splitwords(line, w, 8);

		if (n == 3 && strcmp(w[0], "parse") == 0) {
			struct buffer *bf = buffer_alloc(64);
			int rv;

			put_file(w[2]);
			rv = regress_log_parse(path, bf, (unsigned int)atoi(w[1]));
			printf("%d ", rv);
			puthex(buffer_get_ptr(bf), buffer_get_len(bf));
			printf("\n");
			buffer_free(bf);
		} else if (n == 3 && strcmp(w[0], "peek") == 0) {
			put_file(w[2]);
			printf("%d\n", regress_log_peek(path, (unsigned int)atoi(w[1])));
		} else if (n == 2 && strcmp(w[0], "trim") == 0) {
			struct buffer *bf = buffer_alloc(64);

			put_file(w[1]);
			regress_log_trim(path, bf);
			puthex(buffer_get_ptr(bf), buffer_get_len(bf));
			printf("\n");
			buffer_free(bf);
		} else {
			printf("bad-op\n");
		}
		fflush(stdout);
	}
	unlink(path);
	return 0;
}
