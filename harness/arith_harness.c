/*
 * In-process harness for libks/arithmetic.[ch]: for each request line
 * "<KS_x_y_overflow0> <a> <b>" prints "<fallback> | <builtin>" where each side
 * is "overflow", "value <v>", "trap" (SIGFPE) or "ub" (signed overflow caught
 * by -fsanitize-trap=signed-integer-overflow => SIGILL).
 * Built at -O0 so that the abstract machine, not an optimiser's assumption
 * about undefined behaviour, is what runs.
 */
#include <inttypes.h>
#include <setjmp.h>
#include <signal.h>
#include <stdio.h>
#include <stdlib.h>
#include <string.h>

#include "libks/arithmetic.h"

static sigjmp_buf jb;
static void
onsig(int s)
{
	siglongjmp(jb, s);
}

#define SIGNED(T, name, fmt)						\
	if (strcmp(fn, "KS_" #name "_" OPS "_overflow0") == 0) {	\
		T a = (T)strtoll(as, NULL, 10), b = (T)strtoll(bs, NULL, 10), c = 0; \
		int s;							\
		if ((s = sigsetjmp(jb, 1)) == 0) {			\
			int r = F0(name)(a, b, &c);			\
			if (r) printf("overflow"); else printf("value %" fmt, c); \
		} else printf(s == SIGFPE ? "trap" : "ub");		\
		printf(" | ");						\
		c = 0;							\
		if ((s = sigsetjmp(jb, 1)) == 0) {			\
			int r = F1(name)(a, b, &c);			\
			if (r) printf("overflow"); else printf("value %" fmt, c); \
		} else printf(s == SIGFPE ? "trap" : "ub");		\
		printf("\n");						\
		return;							\
	}
#define UNSIGNED(T, name, fmt)						\
	if (strcmp(fn, "KS_" #name "_" OPS "_overflow0") == 0) {	\
		T a = (T)strtoull(as, NULL, 10), b = (T)strtoull(bs, NULL, 10), c = 0; \
		int s;							\
		if ((s = sigsetjmp(jb, 1)) == 0) {			\
			int r = F0(name)(a, b, &c);			\
			if (r) printf("overflow"); else printf("value %" fmt, c); \
		} else printf(s == SIGFPE ? "trap" : "ub");		\
		printf(" | ");						\
		c = 0;							\
		if ((s = sigsetjmp(jb, 1)) == 0) {			\
			int r = F1(name)(a, b, &c);			\
			if (r) printf("overflow"); else printf("value %" fmt, c); \
		} else printf(s == SIGFPE ? "trap" : "ub");		\
		printf("\n");						\
		return;							\
	}

#define ALL								\
	SIGNED(int32_t, i32, PRId32)					\
	SIGNED(int64_t, i64, PRId64)					\
	UNSIGNED(uint32_t, u32, PRIu32)					\
	UNSIGNED(uint64_t, u64, PRIu64)					\
	UNSIGNED(size_t, size, "zu")

static void
doit(const char *fn, const char *as, const char *bs)
{
#define OPS "add"
#define F0(n) KS_##n##_add_overflow0
#define F1(n) KS_##n##_add_overflow
	ALL
#undef OPS
#undef F0
#undef F1
#define OPS "sub"
#define F0(n) KS_##n##_sub_overflow0
#define F1(n) KS_##n##_sub_overflow
	ALL
#undef OPS
#undef F0
#undef F1
#define OPS "mul"
#define F0(n) KS_##n##_mul_overflow0
#define F1(n) KS_##n##_mul_overflow
	ALL
	printf("bad-op\n");
}

int
main(void)
{
	char line[512], fn[128], as[128], bs[128];

	signal(SIGFPE, onsig);
	signal(SIGILL, onsig);
	while (fgets(line, sizeof(line), stdin) != NULL) {
		if (sscanf(line, "%127s %127s %127s", fn, as, bs) != 3) {
			printf("bad-op\n");
			continue;
		}
		doit(fn, as, bs);
		fflush(stdout);
	}
	return 0;
}
