/* Step/hook command used by the C06/C07 harnesses: dumps its argv (hex, one
 * argument per line, after an "argc N" line) to $VERIF_ARGV_OUT, then exits
 * with $VERIF_EXIT or kills itself with signal $VERIF_SIG. */
#include <signal.h>
#include <stdio.h>
#include <stdlib.h>
#include <string.h>
#include <unistd.h>

int
main(int argc, char *argv[])
{
	const char *out = getenv("VERIF_ARGV_OUT");
	const char *ex = getenv("VERIF_EXIT");
	const char *sg = getenv("VERIF_SIG");
	int i;

	if (out != NULL) {
		FILE *f = fopen(out, "a");
		if (f != NULL) {
			fprintf(f, "argc %d\n", argc);
			for (i = 0; i < argc; i++) {
				const unsigned char *p = (const unsigned char *)argv[i];
				if (*p == '\0')
					fputc('-', f);
				for (; *p; p++)
					fprintf(f, "%02x", *p);
				fputc('\n', f);
			}
			fclose(f);
		}
	}
	if (sg != NULL && atoi(sg) > 0) {
		signal(atoi(sg), SIG_DFL);
		kill(getpid(), atoi(sg));
		pause();
	}
	return ex != NULL ? atoi(ex) : 0;
}
