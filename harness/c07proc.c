/*
 * C07: a member of a step's process tree.
 *   c07proc ROOT ID SPEC...      SPEC = id:parent:ignore:life_ms:exit:delay_ms
 * (delay: how long after its own start the parent forks this member)
 * Process ID records "<id> <pid>" in ROOT/pids, sets its SIGTERM disposition,
 * forks the members whose parent it is, lives for life_ms (in 10 ms naps) and
 * exits with its code; the main process (id 0) leaves ROOT/main.done first.
 */
#include <signal.h>
#include <stdio.h>
#include <stdlib.h>
#include <string.h>
#include <time.h>
#include <unistd.h>

struct spec {
	int id, parent, ignore, life, code, delay;
};

static void
nap(int ms)
{
	struct timespec ts = { ms / 1000, (ms % 1000) * 1000000L };

	while (nanosleep(&ts, &ts) == -1)
		continue;
}

static void
member(const char *root, const struct spec *sp, int n, int me)
{
	char path[4096];
	FILE *fh;
	int i, t;

	if (sp[me].ignore)
		signal(SIGTERM, SIG_IGN);
	else
		signal(SIGTERM, SIG_DFL);
	snprintf(path, sizeof(path), "%s/pids", root);
	fh = fopen(path, "a");
	if (fh != NULL) {
		fprintf(fh, "%d %d\n", sp[me].id, (int)getpid());
		fclose(fh);
	}
	for (t = 0; t < sp[me].life; t += 10) {
		for (i = 0; i < n; i++) {
			if (sp[i].parent == sp[me].id && i != me &&
			    sp[i].delay / 10 == t / 10) {
				pid_t pid = fork();

				if (pid == 0) {
					member(root, sp, n, i);
					_exit(0);
				}
			}
		}
		nap(10);
	}
	if (sp[me].id == 0) {
		snprintf(path, sizeof(path), "%s/main.done", root);
		fh = fopen(path, "w");
		if (fh != NULL)
			fclose(fh);
	}
	_exit(sp[me].code);
}

int
main(int argc, char *argv[])
{
	struct spec sp[64];
	int i, n = 0;

	if (argc < 3)
		return 2;
	for (i = 2; i < argc && n < 64; i++) {
		sp[n].delay = 0;
		if (sscanf(argv[i], "%d:%d:%d:%d:%d:%d", &sp[n].id, &sp[n].parent,
		    &sp[n].ignore, &sp[n].life, &sp[n].code, &sp[n].delay) >= 5)
			n++;
	}
	for (i = 0; i < n; i++)
		if (sp[i].id == 0)
			member(argv[1], sp, n, i);
	return 2;
}
