/* Shared helpers for the in-process harnesses: hex <-> bytes, word splitting. */
#ifndef HEXIO_H
#define HEXIO_H
#include <stdio.h>
#include <stdlib.h>
#include <string.h>

static int
hexval(int c)
{
	if (c >= '0' && c <= '9') return c - '0';
	if (c >= 'a' && c <= 'f') return c - 'a' + 10;
	return -1;
}

/* decode; returns malloc'ed NUL-terminated buffer, *len = byte count */
static char *
unhex(const char *s, size_t *len)
{
	size_t n = strlen(s), i;
	char *out;

	if (strcmp(s, "-") == 0) {
		out = calloc(1, 1);
		if (len) *len = 0;
		return out;
	}
	out = calloc(n / 2 + 1, 1);
	for (i = 0; i + 1 < n; i += 2)
		out[i / 2] = (char)(hexval(s[i]) * 16 + hexval(s[i + 1]));
	if (len) *len = n / 2;
	return out;
}

static void
puthex(const char *p, size_t n)
{
	size_t i;

	if (n == 0) {
		fputs("-", stdout);
		return;
	}
	for (i = 0; i < n; i++)
		printf("%02x", (unsigned char)p[i]);
}

/* split a line in place on single spaces; returns word count */
static int
splitwords(char *line, char **w, int max)
{
	int n = 0;
	char *p = line;

	while (*p && n < max) {
		while (*p == ' ' || *p == '\n') *p++ = '\0';
		if (!*p) break;
		w[n++] = p;
		while (*p && *p != ' ' && *p != '\n') p++;
	}
	return n;
}
#endif
