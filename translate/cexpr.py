"""Tiny recursive-descent parser for the C expression subset used by
libks/arithmetic.c's macros, and an emitter into the monadic Lean form defined
by Robsd/Model/CArith.lean."""
import re


class ParseError(Exception):
    pass


TOK = re.compile(r"\s*(?:(\d+)|([A-Za-z_][A-Za-z0-9_]*)|(&&|\|\||<=|>=|==|!=|[-+*/<>()!]))")


def tokenize(s):
    out = []
    pos = 0
    s = s.strip()
    while pos < len(s):
        m = TOK.match(s, pos)
        if not m:
            raise ParseError("cannot tokenize %r at %d" % (s, pos))
        if m.group(1) is not None:
            out.append(("num", m.group(1)))
        elif m.group(2) is not None:
            out.append(("id", m.group(2)))
        else:
            out.append(("op", m.group(3)))
        pos = m.end()
    return out


class P:
    def __init__(self, toks):
        self.t = toks
        self.i = 0

    def peek(self):
        return self.t[self.i] if self.i < len(self.t) else (None, None)

    def eat(self, kind=None, val=None):
        k, v = self.peek()
        if k is None or (kind and k != kind) or (val and v != val):
            raise ParseError("expected %s %s, got %s %s" % (kind, val, k, v))
        self.i += 1
        return v

    def expr(self):
        return self.lor()

    def lor(self):
        l = self.land()
        while self.peek() == ("op", "||"):
            self.eat()
            r = self.land()
            l = ("lor", l, r)
        return l

    def land(self):
        l = self.rel()
        while self.peek() == ("op", "&&"):
            self.eat()
            r = self.rel()
            l = ("land", l, r)
        return l

    def rel(self):
        l = self.addi()
        while self.peek()[0] == "op" and self.peek()[1] in ("<", ">", "<=", ">=", "==", "!="):
            op = self.eat()
            r = self.addi()
            l = ("rel", op, l, r)
        return l

    def addi(self):
        l = self.mult()
        while self.peek()[0] == "op" and self.peek()[1] in ("+", "-"):
            op = self.eat()
            r = self.mult()
            l = ("arith", op, l, r)
        return l

    def mult(self):
        l = self.unary()
        while self.peek()[0] == "op" and self.peek()[1] in ("*", "/"):
            op = self.eat()
            r = self.unary()
            l = ("arith", op, l, r)
        return l

    def unary(self):
        if self.peek() == ("op", "-"):
            self.eat()
            return ("arith", "-", ("num", "0"), self.unary())
        if self.peek() == ("op", "!"):
            self.eat()
            return ("not", self.unary())
        return self.primary()

    def primary(self):
        k, v = self.peek()
        if k == "num":
            self.eat()
            return ("num", v)
        if k == "id":
            self.eat()
            return ("var", v)
        if (k, v) == ("op", "("):
            self.eat()
            e = self.expr()
            self.eat("op", ")")
            return e
        raise ParseError("unexpected token %s %s" % (k, v))


def parse_expr(s):
    p = P(tokenize(s))
    e = p.expr()
    if p.i != len(p.t):
        raise ParseError("trailing tokens in %r" % s)
    return e


class Emitter:
    """Emit a Lean term of type `R Int` (arith) or `R Bool` (conditions)."""

    def __init__(self):
        self.n = 0

    def fresh(self):
        self.n += 1
        return "t%d" % self.n

    def is_bool(self, e):
        return e[0] in ("lor", "land", "rel", "not")

    def arith(self, e, k):
        """k: function from a pure Lean Int term (string) to a Lean R-term."""
        if e[0] == "num":
            return k("(%s : Int)" % e[1])
        if e[0] == "var":
            return k(e[1])
        if e[0] == "arith":
            op = {"+": "add", "-": "sub", "*": "mul", "/": "div"}[e[1]]

            def k1(x):
                def k2(y):
                    t = self.fresh()
                    return "(T.%s %s %s).bind fun %s =>\n  %s" % (op, x, y, t, k(t))
                return self.arith(e[3], k2)
            return self.arith(e[2], k1)
        raise ParseError("not an arithmetic expression: %r" % (e,))

    def cond(self, e):
        """Lean term of type R Bool."""
        if e[0] == "rel":
            op = {"<": "<", ">": ">", "<=": "≤", ">=": "≥", "==": "=", "!=": "≠"}[e[1]]

            def k1(x):
                def k2(y):
                    return "R.ok (decide (%s %s %s))" % (x, op, y)
                return self.arith(e[3], k2)
            return self.arith(e[2], k1)
        if e[0] == "land":
            return "(land (%s) (fun _ => %s))" % (self.cond(e[1]), self.cond(e[2]))
        if e[0] == "lor":
            return "(lor (%s) (fun _ => %s))" % (self.cond(e[1]), self.cond(e[2]))
        if e[0] == "not":
            return "((%s).bind fun b => R.ok (!b))" % self.cond(e[1])
        # integer used as truth value
        return self.arith(e, lambda x: "R.ok (decide (%s ≠ 0))" % x)
