#!/bin/sh
# tools/seedtest.sh <seed-dir> <PROP> [tier]
# Apply a seeded change to /repo (or to the copy named by VERIF_REPO, e.g. the snapshot of a `vp run
# --with-repo`), run the property's check from the tree this script sits in, undo the change.
# Prints DETECTED / MISSED.  The change is never committed.
set -u
SD=$1; P=$2; TIER=${3:-quick}
V=$(cd "$(dirname "$0")/.." && pwd)
REPO=${VERIF_REPO:-/repo}
cd "$REPO" || exit 2
if ! git diff --quiet; then echo "seedtest: $REPO has uncommitted changes"; exit 2; fi
git apply "$SD/patch.diff" || { echo "seedtest: patch does not apply"; exit 2; }
cd "$V"
cp -f evidence/$P.json /tmp/seedtest.$$.ev 2>/dev/null
VERIF_SEED=${VERIF_SEED:-1} ./check "$P" --tier "$TIER" > /tmp/seedtest.$$.out 2>/tmp/seedtest.$$.err
rc=$?
git -C "$REPO" checkout -- .
[ -f /tmp/seedtest.$$.ev ] && mv -f /tmp/seedtest.$$.ev evidence/$P.json
grep -h "VIOLATION\|KNOWN-FINDING\|^OK" /tmp/seedtest.$$.out
if [ $rc -ne 0 ] && grep -q "^VIOLATION" /tmp/seedtest.$$.out; then echo "DETECTED $SD by $P ($TIER)"; else echo "MISSED $SD by $P ($TIER)"; fi
rm -f /tmp/seedtest.$$.out /tmp/seedtest.$$.err
