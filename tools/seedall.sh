#!/bin/sh
# tools/seedall.sh [tier] [name-pattern] : every seeded change against the check of its property (meta.json
# "property", or "caught_by" when another property's check is the one documented to catch it); prints one
# line each and a summary.  Applies each patch to /repo, runs the check, restores /repo (see seedtest.sh).
# A change whose meta.json has "obsolete" (a later fix: commit made it harmless) is skipped.
TIER=${1:-quick}
PAT=${2:-*}
V=$(cd "$(dirname "$0")/.." && pwd)
cd "$V" || exit 2
tot=0; det=0; missed=""
for d in seeded/$PAT/; do
	n=$(basename "$d")
	p=$(python3 -c "
import json
m=json.load(open('$V/seeded/$n/meta.json'))
print('OBSOLETE' if m.get('obsolete') else m.get('caught_by') or m['property'])")
	if [ "$p" = OBSOLETE ]; then echo "$n: skipped (obsolete)"; continue; fi
	r=$(sh tools/seedtest.sh "$V/seeded/$n" "$p" "$TIER" 2>&1 | tail -1)
	tot=$((tot + 1))
	case "$r" in
	DETECTED*) det=$((det + 1));;
	*) missed="$missed $n";;
	esac
	echo "$n $p: $r"
done
echo "SUMMARY: $det of $tot seeded changes detected ($TIER tier); not detected:${missed:- none}"
