#!/bin/sh
# tools/seedall.sh [tier] : every seeded change against the check of its property; prints one line each
# and a summary.  Applies each patch to /repo, runs the check, restores /repo (see seedtest.sh).
TIER=${1:-quick}
cd /verif || exit 2
tot=0; det=0; missed=""
for d in seeded/*/; do
	n=$(basename "$d")
	p=$(python3 -c "import json;print(json.load(open('/verif/seeded/$n/meta.json'))['property'])")
	r=$(sh tools/seedtest.sh "/verif/seeded/$n" "$p" "$TIER" 2>&1 | tail -1)
	tot=$((tot + 1))
	case "$r" in
	DETECTED*) det=$((det + 1));;
	*) missed="$missed $n";;
	esac
	echo "$n $p: $r"
done
echo "SUMMARY: $det of $tot seeded changes detected by the check of their own property ($TIER tier); not detected:${missed:- none}"
