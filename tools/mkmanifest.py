#!/usr/bin/env python3
"""Regenerate /verif/MANIFEST.json from the table below (kept in one place so
the manifest stays valid while checks are being added)."""
import json
import os

HERE = os.path.dirname(os.path.dirname(os.path.abspath(__file__)))

# id -> (technique, level text, level note, design ref)
CHECKS = {}
NOT_YET = {}


def check(pid, technique, text, note, ref):
    CHECKS[pid] = dict(
        property_id=pid,
        quick_cmd="./check %s --tier quick" % pid,
        thorough_cmd="./check %s --tier thorough" % pid,
        evidence_file="/verif/evidence/%s.json" % pid,
        replay_cmd_template="./check %s --replay {path}" % pid,
        engine="lean4-proof+correspondence",
        level_claimed=dict(category="proof", text=text, design_ref=ref),
        level_note=note,
        technique=technique,
    )


exec(open(os.path.join(HERE, "tools", "manifest_table.py")).read())

ids = [json.loads(l)["id"] for l in open(os.path.join(HERE, "properties.jsonl"))]
m = dict(
    version=1,
    setup_cmd="cd /verif && python3 translate/gen.py /repo >/dev/null; cd lean && lake build",
    hooks=dict(
        guard="ROBSD_VERIF",
        enable="checks copy /repo's working tree to a scratch directory and build it with CFLAGS=-DROBSD_VERIF (make CC=.. CFLAGS=..); hooks are inert unless ROBSD_VERIF_* environment variables are set",
        baseline_off_cmd="/verif/harness/baseline_off.sh",
        source_commits=HOOK_COMMITS,
        add_only=True,
    ),
    engines=[dict(name="lean4-proof+correspondence", path="/verif/check",
                  serves_properties=sorted(CHECKS),
                  kind_free_text="Lean 4 theorems about executable models (lean/Robsd), models tied to /repo on every run by a translator (translate/) and a differential correspondence run against the real binaries (verif/, harness/)")],
    checks=[CHECKS[i] for i in ids if i in CHECKS],
    notes="See DESIGN.md. Known findings: known_findings.json.",
    not_applicable=[dict(property_id=i, reason=NOT_YET.get(i, "check not built yet")) for i in ids if i not in CHECKS],
)
with open(os.path.join(HERE, "MANIFEST.json"), "w") as f:
    json.dump(m, f, indent=1)
print("wrote MANIFEST.json: %d checks, %d not_applicable" % (len(m["checks"]), len(m["not_applicable"])))
