#!/usr/bin/env python3
"""Validate MANIFEST.json and evidence/*.json against the schemas (run with python3-vt)."""
import glob
import json
import sys

import jsonschema

ok = True
m = json.load(open("/verif/MANIFEST.json"))
try:
    jsonschema.validate(m, json.load(open("/root/.vp/MANIFEST.schema.json")))
    print("MANIFEST ok: %d checks, %d not_applicable" % (len(m["checks"]), len(m.get("not_applicable", []))))
except jsonschema.ValidationError as e:
    ok = False
    print("MANIFEST invalid:", e.message)
es = json.load(open("/root/.vp/EVIDENCE.schema.json"))
for p in sorted(glob.glob("/verif/evidence/*.json")):
    try:
        ev = json.load(open(p))
        jsonschema.validate(ev, es)
        c = ev["coverage"]
        print("%s ok: level=%s tier=%s obligations=%s discharged=%s evaluations=%s nontrivial=%s wall=%s" % (
            p, ev["level"], ev["tier"], c.get("obligations"), c.get("discharged"), c.get("evaluations"),
            c.get("distinct_nontrivial"), ev["wall_s"]))
    except Exception as e:  # noqa
        ok = False
        print(p, "invalid:", str(e)[:300])
ids = {json.loads(l)["id"] for l in open("/verif/properties.jsonl")}
claimed = {c["property_id"] for c in m["checks"]}
na = {c["property_id"] for c in m.get("not_applicable", [])}
if claimed & na or (claimed | na) != ids:
    ok = False
    print("coverage of property ids wrong: missing", ids - claimed - na, "both", claimed & na)
sys.exit(0 if ok else 1)
