# Table consumed by mkmanifest.py.  `check(id, technique, text, note, design_ref)`.
HOOK_COMMITS = ["a20fa5a", "60bb45d", "6e294da"]

NOT_YET.update({
})

check("C20",
      "Lean 4 proof: refinement of the hash map to an insertion-ordered association list for every hash function (invariant by induction over operations), "
      "of vector/buffer to list/byte string, width-generic theorems over translated overflow macros; differential run of the real libks in-process (ASan)",
      "Proof. Map: Robsd.Map transcribes libks/map.c (HASH_ADD, HASH_EXPAND_BUCKETS with its expand_mult/ideal/nonideal/ineff/noexpand bookkeeping, HASH_FIND, "
      "HASH_DELETE, map_iterate, HASH_JEN) parametric in the hash function; map_refines: every operation sequence that inserts a key only while absent yields the "
      "outputs of an insertion-ordered association list, so bucket placement, expansion and the noexpand state are unobservable; iterate_next/"
      "iterate_while_removing: a whole iteration returns every live entry once, in insertion order, never touching a freed entry, also when the loop body removes "
      "the current entry; value_address_stable; inv_reachable (each bucket chain holds exactly the live entries its index selects, once; counts agree). "
      "Vector/buffer: Robsd.Vec/Robsd.Buf transcribe vector_reserve1/buffer_reserve (doubling loop, all overflow exits) and the operations; vector_refines/"
      "buffer_refines (= plain list / byte string, capacity unobservable, len <= capacity in every reachable state), sort_any (any correct qsort), getline_all "
      "(getline loop = the newline-separated lines), readFd_complete (the whole stream is read for every way read(2) may split it), printf_room. "
      "Arithmetic: the six *_OVERFLOW macro bodies are translated on every run into Lean terms with explicit trap/UB outcomes; width-generic theorems show each "
      "equals the mathematical spec, instantiated for all 15 functions. Correspondence: the real map.c/vector.c/buffer.c run in-process (ASan+UBSan) on generated "
      "operation sequences (random and hash-colliding key families found with the real HASH_JEN, misaligned key pointers, _N variants, iteration with removal; "
      "reserve far beyond capacity, printf at capacity boundaries, chunked read_fd via --wrap=read; malloc- and arena-backed) and are compared after every operation "
      "with the model (results, table header, bucket chains with count/expand_mult, length and capacity) and with Python dict/list/bytes semantics; the real "
      "fallbacks and builtins run on the boundary cross-product and a seeded sample.",
      "Trusted: Lean kernel; the C-expression translator; __builtin_*_overflow semantics = CArith.spec (cross-checked); LP64, little endian. Pointers are modelled "
      "as identities and lists: back pointers (prev, hh_prev) are checked on the real memory by the harness, not in the model. vsnprintf output is an input of the "
      "buffer model. Allocation failure and the 2^31-bucket exit are not modelled. The map theorem assumes keys are inserted only while absent.",
      "DESIGN.md#c20")

check("C09",
      "Lean 4 proof: model of interpolate.c sound+complete for an inductive expansion spec; differential run in-process and via robsd-config",
      "Proof: Interp.interp transcribes interpolate/interpolate_inner with the C code's own depth counter (limit regenerated from the source); "
      "Lean accepting the definition is the termination argument. interp_ok_iff_expands proves it sound and complete for an independent "
      "inductive specification; malformed/unknown/self-referencing/too-deep inputs are proved to fail, files are all-or-nothing. The model is "
      "run against interpolate_str in-process (ASan/UBSan) and robsd-config -v ... - on generated templates and environments with chains and cycles.",
      "Trusted: Lean kernel; translator (depth limit); harness; C-string domain (no NUL inside one template).",
      "DESIGN.md#c09")

check("C13",
      "Lean 4 proof by induction over the log's lines (generic in marker/match predicates, hence all 15 selections); differential run in-process and via the CLI",
      "Proof: RegressLog.blocksFrom transcribes the parse loop; theorems for every list of lines and every selection: exit iff a selected line "
      "exists after the leading trace, output is a subsequence of the log, an exact declarative description of the blocks (Extracts) with "
      "completeness as corollary, peek agrees with parse, the command's exit status incl. -n and several/unreadable files, FAILED/UNEXPECTED_PASS "
      "classified as failed. Model compared with regress_log_parse/peek/trim in-process (ASan) and robsd-regress-log on generated logs.",
      "Trusted: Lean kernel; line splitting as buffer_getline does it (tied by correspondence); harness and oracle.",
      "DESIGN.md#c13")

check("C01",
      "Lean 4 proof: parse/serialise round trip, exit-status contract, invariant by induction over write histories; byte-exact differential run of robsd-step incl. fault injection",
      "Proof: StepFile models step.c/robsd-step.c (-W/-R) with serialisation through the proved interpolation model. Theorems: parse(serialise rows) = "
      "sort rows for well-formed rows (decimal %d/strtonum round trip proved), a rejected write leaves the file unchanged, exit 0 implies the file holds the "
      "serialised new state and never follows a failed flush, and for EVERY sequence of write commands with NUL-free arguments from the empty file the file "
      "parses and every row is well formed (history_readable); rows sorted; a write touches one row. The model is compared byte-for-byte (file content, exit "
      "status, read-back) with the real robsd-step on generated histories with hostile values, and under strace ENOSPC injection at the flush.",
      "Trusted: Lean kernel; translator (field table); char-level lexer tied to the line/field model by correspondence only; qsort stability for equal ids; strace fault model.",
      "DESIGN.md#c01")

check("C03",
      "Lean 4 proof: decision table of step_next over arbitrary rows; invariant over every kill point of the sequential orchestrator, closed under kill/resume cycles; differential run of util.sh under bash and real canvas kill/resume",
      "Proof: StepFile.stepNext transcribes util.sh step_next (decision table proved for every list of rows incl. id gaps and skipped tails). "
      "OrchSeq models the sequential orchestrator write by write; Good(file, frontier) is proved to hold after EVERY prefix of the writes of a fresh "
      "invocation (or nothing but skipped steps is recorded and resume fails) and of any resumed invocation, for any exit codes and any number of "
      "kill/resume cycles; resume_runs shows a resume starts exactly the non-skipped steps from the frontier, never an earlier one. has_steps (what trap_exit "
      "decides the invocation directory's fate from) is modelled too: the directory is kept iff step_next finds a resume point (dir_kept_iff_resumable), a terminated "
      "or in-flight step keeps it and is where the run resumes (terminated_step_resumed). The models are "
      "compared with the real step_next (bash, real robsd-step) on generated files and with real canvas runs SIGKILLed after a generated write and resumed.",
      "Trusted: Lean kernel; bash -O lastpipe for ksh plus the shims of DESIGN 3.4; the slot abstraction of the step file is tied to the CSV by correspondence; sequential modes only.",
      "DESIGN.md#c03")

check("C05",
      "Lean 4 proof over a model of report.c (decision logic, filter/sections lemmas, suffix lemmas); byte-exact differential run of robsd-report in all five modes",
      "Proof: Report.generate transcribes report_generate for the five modes. Theorems: status is ok iff no (non-skipped) failing step for sequential histories "
      "and for regress/canvas, else it names the failing step / the failure count; the sections are exactly the kept rows in step order, every non-skipped "
      "failing row is kept and no skipped row is; each section carries name, exit, duration and log name; the log tail is a suffix of the log starting at a "
      "line boundary; sanitising removes every NUL/CR and changes nothing else. The model is compared byte for byte with robsd-report (ASan) on generated "
      "build directories, and the property is evaluated directly on the real output.",
      "Trusted: Lean kernel; translator (thresholds, tail length); gethostname and config-derived names are parameters; glibc printf formats; the harness.",
      "DESIGN.md#c05")

check("C18",
      "Lean 4 proof: HH:MM:SS round trip, threshold iff, shell total = C total on every step file, nearest-tenth size rounding; differential run of robsd-report and bash duration_total",
      "Proof over the Report model: format_duration round trip for 0 <= d < 2^40 (HH:MM:SS, MM,SS < 60, recombines to d); the delta is appended exactly when "
      "its magnitude exceeds the threshold (60 s generated from the source for the total, 0 for a step) with the right sign; the shell duration_total / "
      "regress_duration_total equal steps_total_duration on every list of rows in every mode; a size line exists iff the change reaches 1 MiB (1 KiB for bsd.rd); "
      "the printed size is the exact quotient rounded to the nearest tenth. Model compared byte for byte with robsd-report and with bash duration_total; "
      "Duration:/Size: lines also compared with an independent Python rendition.",
      "Trusted: Lean kernel; translator (thresholds); glibc %.01f on exact binary quotients; bash arithmetic for ksh; harness.",
      "DESIGN.md#c18")

check("C15",
      "Lean 4 proof: filter + sorted-permutation uniqueness for ANY correct sort (strcmp order proved a strict total order); differential run of robsd-ls",
      "Proof: Ls.ls models invocation_read/match_directory/invocation_alloc/walk and robsd-ls main. For any sorting function returning a sorted permutation: "
      "a path is listed iff it is a non-hidden directory entry other than the keep directory (and, with -B, other than the lock file's first line); plain files, "
      "symlinks and hidden entries never are; the output is strictly descending with each path once; it does not depend on the sort used; -B removes exactly one "
      "path; absent/empty/newline-less lock omits nothing. The model and the property itself are compared with robsd-ls on generated roots in all five modes.",
      "Trusted: Lean kernel; d_type from readdir; qsort returns a sorted permutation; harness.",
      "DESIGN.md#c15")

check("C10",
      "Lean 4 proof: list identities over step tables regenerated from the source and the man pages (decide on generated tables); differential run of robsd-step -L and robsd-exec",
      "Proof: Schedule models config_get_steps (default, regress expansion, canvas) and robsd-step -L [-o k]. Theorems: consecutive numbering from 1; "
      "offset k yields exactly the suffix from step k and n+1 is rejected; per mode the code's fixed step names (first occurrences) equal the documented list of "
      "the man page and end with `end`, every script named is installed by the Makefile (decide on generated tables); the regress block is parallel tests in "
      "configuration order then the others, each as often as configured, none parallel when `parallel no` or flagged no-parallel; canvas = configured steps + end; "
      "every listed name resolves, to the first step carrying it and to itself when names are distinct (resolves_to_first, resolves_to_itself). Model compared with "
      "robsd-step -L on generated configurations (ASan); robsd-exec, invoked the way util.sh step_exec does (form read from util.sh), must run the listed step's own command.",
      "Trusted: Lean kernel; translator (step tables, man page lists, Makefile SCRIPTS); config parsing of the generated files is the real parser's; harness.",
      "DESIGN.md#c10")

check("C06",
      "Lean 4 proof: argv = map/filter over the configured list (per-argument interpolation), exit-status table; differential run with a probe that dumps the argv it really received",
      "Proof: Exec models config_get_steps' per-argument interpolation, find_step/resolve, exitstatus and hook_to_argv. Theorems: the step argv is exactly the "
      "interpolated arguments with empty ones dropped, the hook argv the interpolated arguments unfiltered, one value per configured argument (no splitting), "
      "arguments without '$' reach the command byte for byte; exit status passed through, 128+N for signal N, zero iff the command exited zero; unknown step or "
      "uninterpolatable schedule gives 1 and runs nothing; no hook configured does nothing. Compared with robsd-exec/robsd-hook (ASan) using a probe command.",
      "Trusted: Lean kernel; execve/wait semantics; the config values fed to the model are computed by the harness for the variables used; harness.",
      "DESIGN.md#c06")

check("C16",
      "Lean 4 proof: take/drop identities over the newest-first listing; differential run of robsd-clean under bash on generated trees (before/after diff)",
      "Proof: Clean.cleaned models robsd-clean/purge on the listing robsd-ls gives (C15). Theorems: retention 0 removes nothing; only listed invocations are removed "
      "and never the running one; not running: exactly listing.drop n goes; running: the running one plus the newest n-1 others stay; the number kept is min(n, total); "
      "the removed ones are a suffix (the oldest); attic names YYYY/MM/DD.X are distinct for distinct invocations; whitelist of preserved files. The real "
      "robsd-clean runs under bash on generated roots; the tree before/after is compared with the property (kept set, attic content, nothing else touched) and the model.",
      "Trusted: Lean kernel; bash/shims of DESIGN 3.4 (notably find -delete and stat -f); cp -p/rm; harness.",
      "DESIGN.md#c16")

check("C17",
      "Lean 4 proof: freshness of build_id for every directory set, freshness invariant of log_id over attempt histories; differential run of util.sh under bash",
      "Proof: Clean.buildId/logId model util.sh build_id/log_id. build_id_fresh: for EVERY set of existing directory names the new name is not among them "
      "(decimal render/parse round trip proved). log_id_fresh: when the earlier attempts of a step are base, base.1 .. base.(k-1), the next name is base.k (base for "
      "the first), is not an existing file and preserves the scheme, for names with '/' mapped to '-'. Compared with util.sh under bash on generated roots "
      "(gaps, more than nine per day, attic) and attempt sequences; freshness checked directly on the real output.",
      "Trusted: Lean kernel; bash/find/sed/sort for ksh and BSD userland; date(1); harness.",
      "DESIGN.md#c17")

check("C04",
      "Lean 4 proof: the property as an executable trace checker, proved to accept every trace of the orchestrator model for all schedules, skip sets, ncpu >= 1, exit codes and completion timings; real canvas runs validated by the same checker",
      "Proof: Orch.run models util.sh robsd() (ordered loop, job list, queue-full wait via robsd-wait, barrier, set -e, end) against an adversarial oracle (exit "
      "codes; which jobs each wait reaps). Orch.check states the property on a trace; run_accepted proves every model trace passes it (synchronous start and end only "
      "with nothing running, never more than ncpu running, skipped steps never start, nothing after a synchronous failure); run_result characterises failure exactly "
      "(first failing non-skipped synchronous step; a failing parallel step never stops the run). Orch.runK is the same loop including the lock_alive test at the end of "
      "the loop body (robsd-kill): without a kill it is run (runK_no_kill), with kills at arbitrary points every trace still passes the checker (runK_accepted), a "
      "successful run never saw the lock dead (success_is_undisturbed), end is recorded only on success, nothing stays in flight (Props/C04Kill). Wait.run models robsd-wait.c (pid parsing, the insertion-ordered "
      "pid map, event batches, the -a loop): without -a it returns after the first batch with exactly the unreported pids in argument order (any_returns_rest), "
      "with -a only when every pid was reported (all_never_early); dup_hangs shows the duplicate-pid hang. Real canvas runs, with -d and detached (real robsd-wait "
      "via a kqueue shim, ROBSD_VERIF_NCPU 1-3, adversarial sleeps, step names with '/'), are checked against the property directly and by Orch.accepts; the real "
      "robsd-wait is run on real child processes and compared with Wait.run.",
      "Partial in one respect: the quantifier over all completion timings is discharged on the model; the implementation is sampled. Trusted: Lean kernel; bash "
      "for ksh and the shims; kqueue shim; hook ROBSD_VERIF_NCPU; harness.",
      "DESIGN.md#c04")

check("C11",
      "Lean 4 proof over the orchestrator trace (no step left in flight, records carry the oracle's exit, report iff failed or end); real canvas runs foreground/background/resumed/concurrent checked against the property",
      "Proof (on Orch.run, for every schedule ending in a decisive step, every oracle): every started step has completed when the invocation ends "
      "(no_inflight_left), every completed record carries the step's real exit status, hook calls are the completed records plus end, a report is generated iff the "
      "invocation failed or reached end. The lock file (Lock model of lock_acquire/lock_alive/lock_release/trap_exit/robsd-kill, C11Lock): an invocation arriving while "
      ".running names another one exits non-zero and leaves lock, reports and mails exactly as they were (second_refused); an invocation holds the lock under its own "
      "name from lock_acquire to the exit trap and it is gone afterwards (lock_names_then_gone); for every sequence of invocations each report is written into the "
      "directory of the invocation it describes (report_own_directory); lock_alive fails once robsd-kill made the lock immutable (kill_seen), yet the exit path it causes releases the lock, writes the terminated step's report to "
      "the invocation's own directory and lets the next invocation in (killed_lock_released, after_kill_next_accepted; real robsd-kill runs with the immutable flag "
      "emulated by shims are compared with Lock.killed and Orch.runK); acquire_not_atomic records "
      "that lock_acquire is a read followed by a write (outside the property's 'started meanwhile'). The implementation side is sampled: real canvas runs in foreground and background, resumed after a failure, and with a "
      "second fresh/resumed invocation started while the first holds the lock; records, skip records, logs and their content, hook calls, lock content during and "
      "after the run, report and captured mail are checked against the property; the refused invocation (fresh, resumed, resumed with a name that is a prefix of "
      "the running one's) is also compared with Lock.invoke.",
      "Partial: completion timings are sampled on the implementation (as C04). Trusted: Lean kernel; bash and shims; kqueue shim; sendmail capture; harness.",
      "DESIGN.md#c11")

check("C02",
      "Lean 4 invariant proof over every schedule of the flock protocol model (serialisability, no torn read, mutual exclusion) + real robsd-step processes driven along interleavings through the ROBSD_VERIF_SYNC points, compared with the model and with every serial order",
      "Proof (Flock.step, any number of processes, any schedule, any per-process update function): the file content is always the effect of the completed writers in "
      "lock-acquisition order (serialisable), every reader's view is the effect of a prefix of that order (no_torn_read), at most one process is between lock and unlock "
      "(mutual_exclusion); lock_is_needed exhibits a lost update for the same steps without the lock. Correspondence: 2-3 real robsd-step -W/-R processes are stepped "
      "through open/lock/read/truncate/write/close/unlock along random and adversarial interleavings; final file and reader outputs are compared with the model on the same "
      "schedule and with all serial orders computed by the real binary; the system-call shape (open, LOCK_EX before read, O_TRUNC rewrite of the same path, LOCK_UN "
      "last) is read from strace; 12 writers + 6 readers run freely as a stress.",
      "Partial: the kernel's flock(2) semantics (one exclusive holder per inode; a waiter is granted the lock of the inode it opened) are assumed in the model, the real "
      "kernel is exercised only on the sampled schedules. Trusted: Lean kernel; sync hook; strace; harness.",
      "DESIGN.md#c02")

check("C19",
      "Lean 4 invariant proof over every operation sequence of the arena model (alignment, disjointness, stable contents, realloc prefix, scope leave, cleanups once, trap on outer-scope allocation) + in-process differential run of libks/arena.c (ASan and plain) with shadow copies",
      "Proof (Arena.step, any Params.ok, any op sequence, unbounded frames/scopes/blocks/sizes): Inv holds in every reachable state (inv_run); live blocks are pointer "
      "aligned, inside their frame, pairwise disjoint; an operation not aimed at a block leaves its bytes unchanged and the block live until its own scope is left "
      "(contents_stable, survives); realloc returns the common prefix (realloc_prefix); leave removes exactly the scope's blocks, runs its cleanups newest first, "
      "rewinds the bump pointer with the ': 0' arm dead (leave_exact); a cleanup never runs twice (cleanups_once); any allocating call through a non-innermost scope "
      "traps (outer_alloc_trapped); arena_malloc never reaches err(1) (never_fails). Correspondence: every primitive arena call of random programs (also those made by "
      "buffer.c/vector.c through the arena callbacks) is replayed on the model and placement (frame, offset), frame count, bump pointer, live-block count, traps and "
      "cleanup log are compared, for the ASan build (poison 8) and the plain build (poison 0); the harness oracle checks alignment, disjointness, shadow copies, "
      "realloc prefix and cleanups on the real memory after every operation.",
      "Trusted: malloc(3) returns disjoint 16-byte aligned chunks (the model addresses memory as (frame, offset)); ASan poisoning itself is not modelled; scopes are "
      "well nested (cleanup attribute); size_t overflow of a requested size is not modelled (errx in the code); two arenas are independent model instances.",
      "DESIGN.md#c19")

check("C14",
      "Lean 4 proof over the regress-html model (cell iff ran, own link, status table translated from the source, rows = suites failing first, column order) + real robsd-regress-html under ASan on generated invocation trees, index.html parsed back and compared",
      "Proof (RegressHtml.parseAll/sortSuites/row, any invocations incl. equal start times, several architectures, suites recorded twice): the cell of suite S under "
      "invocation j shows exactly the first record of S in invocation j with the status derived from exit code and log and the link arch/date/log of that invocation "
      "(cell_iff_ran, link_under_own_dir, status_*); one row per suite (rows_are_suites, rows_perm), failing suites first and each group in suite_cmp order "
      "(failing_first); an accepted column order is a permutation newest first (columns_desc); a row is never wider than the table (row_width). The status table is "
      "regenerated from regress-html.c (status_table_matches). Correspondence: the real binary (ASan+UBSan) renders generated robsd directories (1-3 arches, 1-40 "
      "invocations, equal start seconds, sparse runs, duplicates, 16/17/32 invocations); index.html is parsed into columns/rows/cells, checked against the property "
      "from the generated data alone and against the model on the same data; copied logs and dmesg are checked to exist below arch/date and to hold only lines of the "
      "source log.",
      "Partial: the pass-rate float expression is checked against its integer bounds only (fail/total counts are compared through them); html.c text layout and "
      "escaping are not modelled (the parser of index.html is trusted); regress-log extraction is C13's model. Trusted: Lean kernel; translator; harness; ASan.",
      "DESIGN.md#c14")

check("C07",
      "Lean 4 proof over the runner's wait/kill loop for every signal arrival time and every behaviour of the step's main process + real robsd-exec on generated process trees with SIGTERM at chosen points (timing and LD_PRELOAD shim), /proc scan of every member",
      "Proof (Runner.run, adversarial environment: any arrival iteration of SIGTERM/SIGALRM, any time the main process becomes reapable on its own / after TERM / "
      "after KILL): a request that arrives while the main process runs always leads to kill(-pgid, SIGTERM) first, SIGKILL only after 50 unsuccessful polls, the "
      "runner returns only after the main process is reaped or both bounded waits expired, with a non-zero status, 124 for the timeout (term_takes_effect, "
      "killwait_spec, kill_only_after_term, exit_nonzero_after_signal); without an event nothing is signalled and the exit status is the command's own "
      "(never_cut_short, exit_faithful); a request that arrives between the runner's look at its signal flag and the waitpid of the same iteration also takes "
      "effect, also when that waitpid reaps the main process (late_signal_takes_effect); step_fork's handshake is part of the model (stepExec): a request caught while "
      "the runner waits for the process group is acted on first thing, a process group that never appears yields a non-zero status (handshake_signal_takes_effect, "
      "handshake_failure_nonzero); the bounded waits use the constants regenerated from step-exec.c. Correspondence: real robsd-exec on process trees (members ignoring SIGTERM, exiting early, a lingering main process that "
      "starts a default-disposition member after the TERM wave, runner started with SIGTERM/SIGALRM ignored); SIGTERM while the step runs, right after fork() and "
      "right before the first waitpid(), and on entry to the waitpid that finds the main process already exited (shim), regress timeout; exit status, diagnostics, /proc state of every member and the completion marker are checked "
      "against the property and against the model.",
      "Partial: what kill(-pgid, sig) does to the members of the group (delivery to every member, default disposition dies, SIGKILL cannot be ignored) is the "
      "kernel's and only sampled; members that leave the process group are outside the property; arrival points are sampled (three offsets + three shim points), "
      "the model covers all of them. Trusted: Lean kernel; shim; harness.",
      "DESIGN.md#c07")

check("C12",
      "Lean 4 proof of totality, documented exit status and no-stdout-on-reject for the step-file, interpolation and regress-log models + ASan/UBSan runs of every CLI on mutated grammar-derived and raw inputs, compared with the models where one exists",
      "Proof: the model functions for robsd-step -R/-W, interpolation and robsd-regress-log are total and terminating on every byte string (accepted by Lean without "
      "`partial`), exit with a documented status (step_read_exit_documented, step_write_exit_documented, rlog_exit_documented) and print nothing when they reject "
      "(step_read_reject_no_stdout, rlog_reject_no_stdout, interp_reject_no_stdout); the same for the configuration reader (config_exit_documented, config_reject_no_stdout), "
      "whose lexer consumes at least one byte per step so that its fuel is never what ends the scan (lex_fuel_adequate, lex_fuel_any). Implementation side (sampled, sanitizer builds): robsd-config, robsd-ls, "
      "robsd-hook, robsd-step -L/-R/-W, robsd-regress-log, robsd-report, robsd-regress-html on grammar-derived configurations of the five modes (many regress entries "
      "with options, 16/17/33/64 canvas steps), step files, logs and templates, mutated (NUL, truncation, duplication, huge integers, 300..70000-byte tokens, nested "
      "and unterminated ${, unterminated strings/braces, keyword splices) and raw random bytes: no sanitizer report, no signal, no hang, documented exit, nothing "
      "on stdout and a diagnostic on rejection, rejected writes leave the file alone; -R and regress-log outputs equal the models on the same bytes.",
      "Partial by nature: absence of memory errors and undefined behaviour in the C text is not decided by the proof, only sampled; the configuration parser's "
      "model is compared byte for byte in C08, here its exit class, stdout, stderr and sanitizer behaviour are judged. Trusted: Lean kernel; ASan/UBSan; harness.",
      "DESIGN.md#c12")

check("C08",
      "Lean 4 proof of the rejection and value rules over a table-driven model of the configuration reader whose grammar, token and documentation tables are regenerated from the source on every run + real robsd-config (ASan) on grammar-derived configurations and single-edit corruptions, compared with the model byte for byte",
      "Proof (Conf.parseKeyword/parse/find over Gen/Grammar): an unknown keyword, a keyword of another mode, a computed variable, a second occurrence of a "
      "non-repeatable keyword, a missing required keyword, a value of the wrong type, a lexer diagnostic and an out-of-range timeout each reject the file "
      "(unknown_keyword_rejected, foreign_mode_keyword_rejected, computed_variables_not_settable, duplicate_rejected, missing_required_rejected, wrong_type_rejected, "
      "lexer_error_rejected, timeout_value); booleans are 1/0, lists join with single spaces, timeouts are seconds (boolean_keyword, list_value, timeout_value); the "
      "k-th ${rdomain} reference is 11 + k mod 245, successive ones differ (rdomain_cycle, rdomain_successive_distinct, find_rdomain); the accepted keywords differ "
      "from the documented ones exactly by skip (robsd-regress) and robsddir (canvas) (undocumented_keywords, documented_are_accepted). Completeness at the token "
      "level for the value keywords (C08Complete): every list of statements keyword+value whose shape is what the generated table gives the keyword (yes/no, number, "
      "string, { list }, existing user, existing directory), with distinct keywords in ANY order, is accepted and leaves exactly one variable per statement "
      "(complete_tokens); ${name} is the configured value (value_configured), the table's default when not given (value_default); the file validates iff all "
      "required keywords are among the statements (accepted_iff_required). From the text (C08Lex): the lexer reads the plain rendering `keyword value\\n` of such a "
      "list back as exactly its tokens with no diagnostic (lex_render), so config_parse accepts the text and holds the configured values (complete_text); blanks and "
      "comment lines in front of any token change nothing (lex_skips_space, lex_skips_comment). Canvas (C08Steps): step statements with options in either order become the "
      "configuration's step list in file order (steps_tokens); an empty or missing command is rejected. Regress (C08Regress): regress statements with any options except env "
      "are accepted and ${regress} is the list of paths in file order, duplicates kept (regress_tokens, regress_list) - the input of C10's schedule theorems. Correspondence: every "
      "generated configuration (five modes, every settable keyword, shuffled order, comments/whitespace, 1-17 regress entries with all options, 1-17 steps, lock "
      "file or not) and every single-edit corruption goes through the real robsd-config with a template asking for all variables; exit status and stdout are "
      "compared with Conf.configCmd on the same bytes and with the generator's own expectation.",
      "Partial: completeness is proved for the value keywords (yes/no, number, string, list, user, directory) from tokens and from the plain text layout; for "
      "regress/step statements with option words, glob keywords, regress-timeout and arbitrary layouts of a whole file, acceptance of every grammar-derived text is "
      "what the generator + correspondence sample. glob(3), getpwnam(3), stat(2), MACHINE/MACHINE_ARCH and the egress addresses are parameters of the model; "
      "-v var=val is not modelled. Known findings: skip / robsddir accepted but undocumented. Trusted: Lean kernel; translator; harness; ASan.",
      "DESIGN.md#c08")
