# Table consumed by mkmanifest.py.  `check(id, technique, text, note, design_ref)`.
HOOK_COMMITS = []

NOT_YET.update({
})

check("C20",
      "Lean 4 proof over translated macro bodies (generic in width) + differential run against libks",
      "Proof: the six *_OVERFLOW macro bodies of libks/arithmetic.c are translated on every run into Lean terms over Int with explicit "
      "trap/UB outcomes; theorems generic in the bit width show each equals the mathematical spec (overflow iff unrepresentable, exact value "
      "otherwise, never trap/UB) and are instantiated for all 15 functions. The generated model, the real fallbacks and the real builtins are "
      "run on the boundary cross-product and a seeded sample and compared case by case.",
      "Trusted: Lean kernel; the C-expression translator; __builtin_*_overflow semantics = CArith.spec (cross-checked); LP64. "
      "Map/vector/buffer refinement: see DESIGN 6 C20 for current coverage.",
      "DESIGN.md#c20")

check("C09",
      "Lean 4 proof: model of interpolate.c sound+complete for an inductive expansion spec; differential run in-process and via robsd-config",
      "Proof: Interp.interp transcribes interpolate/interpolate_inner with the C code's own depth counter (limit regenerated from the source); "
      "Lean accepting the definition is the termination argument. interp_ok_iff_expands proves it sound and complete for an independent "
      "inductive specification; malformed/unknown/self-referencing/too-deep inputs are proved to fail, files are all-or-nothing. The model is "
      "run against interpolate_str in-process (ASan/UBSan) and robsd-config -v ... - on generated templates and environments with chains and cycles.",
      "Trusted: Lean kernel; translator (depth limit); harness; C-string domain (no NUL inside one template).",
      "DESIGN.md#c09")
