# Table consumed by mkmanifest.py.  `check(id, technique, text, note, design_ref)`.
HOOK_COMMITS = []

NOT_YET.update({
})

check("C20",
      "Lean 4 proof over translated macro bodies (generic in width) + differential run against libks",
      "Proof: the six *_OVERFLOW macro bodies of libks/arithmetic.c are translated on every run into Lean terms over Int with explicit "
      "trap/UB outcomes; theorems generic in the bit width show each equals the mathematical spec (overflow iff unrepresentable, exact value "
      "otherwise, never trap/UB) and are instantiated for all 15 functions. The generated model, the real fallbacks and the real builtins are "
      "run on the boundary cross-product and a seeded sample and compared case by case.",
      "Trusted: Lean kernel; the C-expression translator; __builtin_*_overflow semantics = CArith.spec (cross-checked); LP64. "
      "Map/vector/buffer refinement: see DESIGN 6 C20 for current coverage.",
      "DESIGN.md#c20")
