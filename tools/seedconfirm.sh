#!/bin/sh
# tools/seedconfirm.sh <seed-dir> : confirm a seeded change in a scratch worktree of /repo
# (builds, same PASS set as the unmodified tree, demo passes without / fails with the patch).
# On success copies it to /verif/seeded/<name>/ and records what was run.
set -u
SD=$1; NAME=$(basename "$SD")
WT=/var/tmp/seedconfirm-$NAME
rm -rf "$WT"; git -C /repo worktree prune
git -C /repo worktree add -q --detach "$WT" HEAD || exit 2
cp /repo/config.h /repo/config.mk "$WT"/
cd "$WT" || exit 2
fail() { echo "NOT-CONFIRMED $NAME: $1"; cd /; git -C /repo worktree remove --force "$WT"; exit 1; }
make -j8 all >/dev/null 2>&1 || fail "clean tree does not build"
make -k test 2>&1 | grep '^PASS' | sort > /var/tmp/$NAME.pass0
bash "$SD/demo.sh" "$WT" >/var/tmp/$NAME.demo0 2>&1; d0=$?
git apply "$SD/patch.diff" || fail "patch does not apply to HEAD"
make -j8 all >/var/tmp/$NAME.build1 2>&1 || fail "patched tree does not build"
make -k test 2>&1 | grep '^PASS' | sort > /var/tmp/$NAME.pass1
bash "$SD/demo.sh" "$WT" >/var/tmp/$NAME.demo1 2>&1; d1=$?
n0=$(wc -l < /var/tmp/$NAME.pass0); n1=$(wc -l < /var/tmp/$NAME.pass1)
cmp -s /var/tmp/$NAME.pass0 /var/tmp/$NAME.pass1 || fail "PASS sets differ ($n0 vs $n1): $(diff /var/tmp/$NAME.pass0 /var/tmp/$NAME.pass1 | head -3)"
[ "$d0" -eq 0 ] || fail "demo fails on the unmodified tree (rc=$d0)"
[ "$d1" -ne 0 ] || fail "demo passes on the patched tree"
cd /; git -C /repo worktree remove --force "$WT"
mkdir -p /verif/seeded/$NAME
cp "$SD"/patch.diff "$SD"/demo.* /verif/seeded/$NAME/ 2>/dev/null
python3 - "$SD" "$NAME" "$n0" "$d1" <<'PY'
import json, sys
sd, name, n0, d1 = sys.argv[1:]
m = json.load(open(sd + "/meta.json"))
m["confirmed"] = dict(head=open("/repo/.git/HEAD").read().strip(), pass_lines_unmodified=int(n0), pass_set_identical=True,
                      demo_rc_unmodified=0, demo_rc_patched=int(d1),
                      ran="tools/seedconfirm.sh: scratch worktree of /repo HEAD; make -j8 all; make -k test (serial) PASS lines compared; demo.sh on both trees; worktree removed")
json.dump(m, open("/verif/seeded/%s/meta.json" % name, "w"), indent=1)
PY
rm -f /var/tmp/$NAME.*
echo "CONFIRMED $NAME (PASS lines $n0, demo rc $d0 -> $d1)"
