"""Generated build directories for robsd-report (shared by C05 and C18)."""
import os
import shutil
import socket

from . import core
from .core import hexb

HEADER = b"step,name,exit,duration,delta,log,user,time,skip\n"
MODES = ["robsd", "robsd-cross", "robsd-ports", "robsd-regress", "canvas"]
SCHED = {
    "robsd": ["env", "cvs", "patch", "kernel", "reboot", "env", "base", "release", "checkflist", "xbase", "xrelease", "image", "hash", "revert", "distrib", "dmesg", "end"],
    "robsd-cross": ["env", "dirs", "tools", "distrib", "dmesg", "end"],
    "robsd-ports": ["env", "cvs", "clean", "proot", "patch", "dpb", "distrib", "revert", "dmesg", "end"],
}
SUITES = ["test/pass", "test/fail/one", "test/fail/two", "test/quiet", "test/skip", "../ext/suite"]
QUIET = ["test/quiet"]
CVS_FILES = {"robsd": ["cvs-src-up.log", "cvs-src-ci.log", "cvs-xenocara-up.log", "cvs-xenocara-ci.log"],
             "robsd-ports": ["cvs-ports-up.log", "cvs-ports-ci.log"]}
REL_FILES = ["bsd", "bsd.rd", "bsd.mp", "base75.tgz", "comp75.tgz", "CHANGELOG", "src.diff.1", "INSTALL.amd64", "SHA256"]


# the Lean model's line handling is quadratic in the line length: a bounded number of long-line logs per run
LONG_BUDGET = [60]


def gen_log(rng, regress=False):
    k = rng.random()
    if regress:
        from .props import c13
        return c13.gen_log(rng)
    if k < 0.08:
        return b""
    if k < 0.11 and LONG_BUDGET[0] > 0:
        LONG_BUDGET[0] -= 1
        # long lines (link commands, one huge trace line): the last ten lines are tens of KiB, or a single line is
        lines = [b"x" * rng.choice([10, 300]) + b" head %d" % i for i in range(rng.randint(0, 15))]
        if rng.random() < 0.5:
            lines += [b"abcdefgh /-." * (rng.choice([600, 700, 800])) + b" %d" % i for i in range(rng.choice([10, 11]))]
        else:
            lines += [b"abcdefgh /-." * 6000 + b" %d" % i for i in range(rng.choice([1, 2]))]
        out = b"\n".join(lines)
        return out + (b"\n" if rng.random() < 0.8 else b"")
    lines = []
    n = rng.choice([1, 2, 3, 9, 10, 11, 12, 25, 60])
    for i in range(n):
        r = rng.random()
        if r < 0.12:
            lines.append(b"")
        elif r < 0.2:
            lines.append(b"+ trace %d" % i)
        elif r < 0.24:
            lines.append(b"nul\0in line %d" % i)
        elif r < 0.28:
            lines.append(b"carriage\rreturn %d" % i)
        else:
            lines.append(b"line %d of output" % i)
    if rng.random() < 0.15:
        lines = [b"+ only trace %d" % i for i in range(rng.randint(1, 4))]
    if rng.random() < 0.2:
        lines += [b""] * rng.randint(1, 4)
    out = b"\n".join(lines)
    if rng.random() < 0.8:
        out += b"\n"
    return out


def gen_case(rng, mode=None):
    """A build directory description: dict with everything robsd-report reads."""
    mode = mode or rng.choice(MODES)
    c = dict(mode=mode, rows=[], logs={}, comment=None, tags=None, cvs=[], pkgdiff=None, target=None, sizes=[], hasprev=False)
    if mode == "canvas" and rng.random() < 0.3:
        # canvas names as canvas.conf allows them: also long ones with spaces (the subject line carries the name)
        c["cname"] = rng.choice([b"nightly lint of the knfmt pick robsd and yank trees on amd64 and arm64 boxes",
                                 b"x" * rng.choice([40, 60, 70, 78, 79, 120]), b"a b", b"name: with colon"])
    if mode in SCHED:
        names = SCHED[mode]
        seq = True
    elif mode == "robsd-regress":
        names = ["env", "pkg-add", "cvs", "patch", "obj", "mount"] + [s for s in SUITES if rng.random() < 0.8] + ["umount", "revert", "pkg-del", "dmesg", "end"]
        seq = False
    else:
        names = ["c%d" % i for i in range(1, rng.randint(2, 7))] + ["end"]
        seq = False
    skip = set(n for n in names[:-1] if rng.random() < 0.12)
    fail_at = rng.choice(range(len(names))) if rng.random() < 0.6 else None
    stop_at = rng.choice(range(1, len(names) + 1)) if rng.random() < 0.25 else len(names)
    t = 1700000000 + rng.randint(0, 1000)
    stopped = False
    for i, name in enumerate(names):
        if (i >= stop_at or stopped) and name not in skip:
            continue
        sid = i + 1
        if name in skip:
            c["rows"].append((sid, name, 0, 0, 0, "", "root", t, 1))
            continue
        ex = 0
        if seq:
            if fail_at is not None and i == fail_at and name != "end":
                ex = rng.choice([1, 2, 124, 255, -1])
        else:
            if name != "end" and rng.random() < 0.25:
                ex = rng.choice([1, 2, 124, 255, -1])
        dur = rng.choice([0, 1, 59, 60, 61, 3599, 3600, 86399, 360000, 2 ** 31, 2 ** 40, 7])
        if ex == -1:
            dur = -1
        delta = rng.choice([0, 0, 1, -1, 59, 60, 61, -60, -61, 3600, -7200, 2 ** 40, -(2 ** 40)])
        if name == "end" and seq and fail_at is not None and fail_at < i:
            continue
        log = "%03d-%s.log" % (sid, name.replace("/", "-"))
        if name == "end" or (mode == "canvas" and rng.random() < 0.05):
            log = ""
        c["rows"].append((sid, name, ex, dur, delta, log, "root", t, 0))
        t += max(0, min(dur, 100000)) + rng.randint(0, 3)
        if log and rng.random() < 0.97:
            c["logs"][log] = gen_log(rng, regress=(mode == "robsd-regress" and name in SUITES))
        if seq and ex != 0:
            stopped = True   # skip records were written up front: later skipped steps still have their row
    if rng.random() < 0.3:
        c["comment"] = rng.choice([b"a comment\n", b"two\nlines\n\n\n", b"", b"no newline"])
    if rng.random() < 0.3:
        c["tags"] = rng.choice([b"tag1 tag2\n", b"x\n"])
    if mode in CVS_FILES:
        for fn in CVS_FILES[mode]:
            r = rng.random()
            c["cvs"].append(None if r < 0.08 else (b"" if r < 0.4 else b"commit by %s\n\nlog message\n\n" % fn.encode()))
    if mode == "robsd-ports":
        c["pkgdiff"] = None if rng.random() < 0.15 else b"+new-1.0\n-old-0.9\n\n"
    if mode == "robsd-cross":
        c["target"] = None if rng.random() < 0.05 else rng.choice([b"arm64\n", b"riscv64", b"octeon\nextra\n",
                                                                    b"a-cross-target-with-a-name-that-goes-on-and-on-well-beyond-what-fits-a-mail-subject-line\n"])
    if mode == "robsd" and rng.random() < 0.7:
        c["hasprev"] = True
        for fn in REL_FILES:
            if rng.random() < 0.8:
                base = rng.choice([0, 1000, 1023, 1024, 1048575, 1048576, 1048577, 5 * 1048576, 52428800, 3 * 1024 ** 3 + 12345, 1536, 1587, 1638400])
                d = rng.choice([0, 1, 1023, 1024, 1025, 1048575, 1048576, 1048577, 2 * 1048576 + 51200, 10 * 1048576])
                prev = base + d if rng.random() < 0.5 else max(0, base - d)
                c["sizes"].append((fn, base, prev if rng.random() < 0.9 else None))
        c["older"] = rng.random() < 0.5
        c["prevnorel"] = rng.random() < 0.3
    return c


def render_csv(rows):
    out = HEADER
    for r in rows:
        out += b"%d,%s,%d,%d,%d,%s,%s,%d,%d\n" % (r[0], r[1].encode(), r[2], r[3], r[4], r[5].encode(), r[6].encode(), r[7], r[8])
    return out


def sparse(path, size):
    with open(path, "wb") as f:
        if size:
            f.truncate(size)


class ReportRunner:
    def __init__(self, ctx, build):
        self.ctx = ctx
        self.build = build
        self.root = os.path.join(ctx.scratch, "reportroot")
        self.host = socket.gethostname().split(".")[0].encode()
        self.n = 0

    def conf(self, mode, root, cname="cname"):
        d = root
        body = {
            "robsd": 'robsddir "%s"\ndestdir "%s"\nbsd-srcdir "%s"\ncvs-root "example.com:/cvs"\ncvs-user "nobody"\nx11-srcdir "%s"\n' % (d, d, d, d),
            "robsd-cross": 'robsddir "%s"\ncrossdir "%s"\nbsd-srcdir "%s"\n' % (d, d, d),
            "robsd-ports": 'robsddir "%s"\nchroot "%s"\ncvs-root "example.com:/cvs"\ncvs-user "nobody"\nports-dir "/ports"\nports-user "nobody"\nports { "devel/robsd" }\n' % (d, d),
            "robsd-regress": 'robsddir "%s"\nbsd-srcdir "%s"\ncvs-user "nobody"\n' % (d, d) +
                             "".join('regress "%s"%s\n' % (s, " quiet" if s in QUIET else "") for s in SUITES),
            "canvas": 'canvas-name "%s"\ncanvas-dir "%s"\nstep "first" command { "true" }\n' % (cname, d),
        }[mode]
        p = os.path.join(root, "%s.conf" % mode)
        with open(p, "w") as f:
            f.write(body)
        return p

    def run(self, c):
        """materialise, run the real robsd-report, return (rc, stdout, stderr, model request)"""
        shutil.rmtree(self.root, ignore_errors=True)
        os.makedirs(self.root)
        root = self.root
        b = os.path.join(root, "2024-01-02.1")
        os.makedirs(os.path.join(b, "rel"))
        os.makedirs(os.path.join(b, "tmp"))
        with open(os.path.join(root, ".running"), "w") as f:
            f.write(b + "\n")
        csv = render_csv(c["rows"])
        with open(os.path.join(b, "step.csv"), "wb") as f:
            f.write(csv)
        for name, content in c["logs"].items():
            with open(os.path.join(b, name), "wb") as f:
                f.write(content)
        if c["comment"] is not None:
            open(os.path.join(b, "comment"), "wb").write(c["comment"])
        if c["tags"] is not None:
            open(os.path.join(b, "tags"), "wb").write(c["tags"])
        for fn, content in zip(CVS_FILES.get(c["mode"], []), c["cvs"]):
            if content is not None:
                open(os.path.join(b, "tmp", fn), "wb").write(content)
        if c["pkgdiff"] is not None:
            open(os.path.join(b, "tmp", "packages.diff"), "wb").write(c["pkgdiff"])
        if c["target"] is not None:
            open(os.path.join(b, "target"), "wb").write(c["target"])
        sizes = []
        if c["hasprev"]:
            prev = os.path.join(root, "2024-01-01.1")
            norel = c.get("prevnorel", False)
            os.makedirs(os.path.join(prev, "tmp" if norel else "rel"))
            if c.get("older", False):
                # an older invocation with a full release: never what sizes are compared with
                old = os.path.join(root, "2023-12-31.1")
                os.makedirs(os.path.join(old, "rel"))
                for fn, size, psize in c["sizes"]:
                    sparse(os.path.join(old, "rel", fn), size + 7 * 1048576)
            for fn, size, psize in c["sizes"]:
                sparse(os.path.join(b, "rel", fn), size)
                if psize is not None and not norel:
                    sparse(os.path.join(prev, "rel", fn), psize)
                    if fn != "CHANGELOG" and ".diff." not in fn:
                        sizes.append("%s:%d:%d" % (hexb(fn.encode()), size, psize))
        conf = self.conf(c["mode"], root, c.get("cname", b"cname").decode())
        rc, out, err = core.run_cmd([os.path.join(self.build, "robsd-report"), "-m", c["mode"], "-C", conf, b],
                                    env=dict(os.environ, ASAN_OPTIONS="detect_leaks=0"))
        logs = ",".join("%s:%s" % (hexb(r[5].encode()), hexb(c["logs"][r[5]]) if r[5] in c["logs"] else "!") for r in c["rows"] if r[5])
        req = "report mode=%s host=%s canvas=%s machine=%s target=%s builddir=%s steps=%s comment=%s tags=%s pkgdiff=%s hasprev=%d cvs=%s suites=%s quiet=%s sizes=%s logs=%s" % (
            c["mode"], hexb(self.host), hexb(c.get("cname", b"cname")), hexb(b"x86_64"), "!" if c["target"] is None else hexb(c["target"]), hexb(b.encode()), hexb(csv),
            "!" if c["comment"] is None else hexb(c["comment"]), "!" if c["tags"] is None else hexb(c["tags"]),
            "!" if c["pkgdiff"] is None else hexb(c["pkgdiff"]), 1 if c["hasprev"] else 0,
            ",".join("!" if x is None else hexb(x) for x in c["cvs"]) or ".",
            ",".join(hexb(s.encode()) for s in SUITES) if c["mode"] == "robsd-regress" else ".",
            ",".join(hexb(s.encode()) for s in QUIET) if c["mode"] == "robsd-regress" else ".",
            ",".join(sizes) or ".", logs or ".")
        self.n += 1
        return rc, out, err, req, b
