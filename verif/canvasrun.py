"""Real `canvas` invocations with probe steps (shared by C04 and C11)."""
import os
import shutil

from .shellenv import ShellEnv


def gen_config(rng, adversarial=None):
    """a canvas configuration: list of (name, parallel, sleep_ms, exit) + skip set + ncpu"""
    n = rng.randint(2, 8)
    steps = []
    for i in range(n):
        par = rng.random() < 0.55
        if adversarial == "long-parallel" and i == 0:
            par = True
        sleep = rng.choice([0, 0, 30, 80, 150, 300]) if par else rng.choice([0, 0, 20, 60])
        if adversarial == "long-parallel" and i == 0:
            sleep = 600
        if adversarial == "all-at-once" and par:
            sleep = 120
        ex = 0 if rng.random() < 0.75 else rng.choice([1, 2, 7, 255])
        # step names as canvas.conf allows them: also paths (log names replace '/' by '-') and dots
        r = rng.random()
        name = "s%d" % (i + 1) if r < 0.6 else "dir%d/s%d" % (i + 1, i + 1) if r < 0.85 else "a.b/c%d.d" % (i + 1)
        steps.append([name, par, sleep, ex])
    if adversarial == "trailing-parallel":
        steps[-1][1] = True
        steps[-1][2] = 400
        if len(steps) > 2:
            steps[-2][1] = True
            steps[-2][2] = 250
    if adversarial == "trailing-parallel":
        for st in steps:
            if not st[1]:
                st[3] = 0      # the run must reach `end` while the trailing parallel steps are still running
    if adversarial == "queue-full":
        # more consecutive parallel steps than ncpu (3), one of them short: when the queue is full the wait
        # returns with two jobs still running, then a synchronous step behind the barrier
        k = rng.randint(4, 6)
        steps = [["q%d" % (i + 1), True, 60 if i == 0 else rng.choice([500, 700, 900]) if i < 3 else rng.choice([100, 250]), 0] for i in range(k)]
        steps.append(["after", False, 0, 0])
    skip = [s[0] for s in steps if rng.random() < 0.12 and not (adversarial in ("trailing-parallel", "queue-full") and (adversarial == "queue-full" or s in steps[-2:]))]
    cmdline_skip = [s for s in skip if rng.random() < 0.4]
    ncpu = rng.choice([1, 1, 2, 2, 3]) if adversarial != "queue-full" else 3
    return dict(steps=[tuple(s) for s in steps], skip=skip, cmdline_skip=cmdline_skip, ncpu=ncpu)


class CanvasRunner:
    def __init__(self, ctx, build):
        self.ctx = ctx
        self.sh = ShellEnv(ctx, build)
        self.wait = self.sh.build_wait()
        self.build = build
        self.n = 0

    def run(self, cfg, detach=False, resume_dir=None, root=None, keep_root=False, extra_env=None, hook=True, timeout=120, extra_conf=""):
        sh = self.sh
        self.n += 1
        root = root or os.path.join(self.ctx.scratch, "canvasroot%d" % self.n)
        if not keep_root:
            shutil.rmtree(root, ignore_errors=True)
        os.makedirs(root, exist_ok=True)
        conf = os.path.join(root, "canvas.conf")
        hooklog = os.path.join(root, "hook.log")
        maillog = os.path.join(root, "mail.log")
        probelog = os.path.join(root, "probe.log")
        plan = os.path.join(root, "plan")
        with open(conf, "w") as f:
            f.write('canvas-name "t"\ncanvas-dir "%s"\n' % root)
            f.write(extra_conf)
            cfg_skip = [s for s in cfg["skip"] if s not in cfg["cmdline_skip"]]
            if cfg_skip:
                f.write("skip { %s }\n" % " ".join('"%s"' % s for s in cfg_skip))
            if hook:
                f.write('hook { "%s" "${step-name}" "${step-exit}" "${builddir}" }\n' % os.path.join(sh.bin, "hooklog"))
            for name, par, sleep, ex in cfg["steps"]:
                f.write('step "%s" command { "%s" "%s" }%s\n' % (name, os.path.join(sh.bin, "probe"), name, " parallel" if par else ""))
        with open(plan, "w") as f:
            for name, par, sleep, ex in cfg["steps"]:
                f.write("%s %d %d %d\n" % (name, sleep, ex, cfg.get("linger", {}).get(name, 0)))
        env = dict(VERIF_ROOT=root, VERIF_PROBE_LOG=probelog, VERIF_PROBE_PLAN=plan, VERIF_HOOK_LOG=hooklog, VERIF_MAIL_LOG=maillog,
                   ROBSD_VERIF_NCPU=str(cfg["ncpu"]), ROBSDWAIT=self.wait, ROBSDCONF=conf)
        if extra_env:
            env.update(extra_env)
        args = ["-C", conf] + ([] if detach else ["-d"])
        for s in cfg["cmdline_skip"]:
            args += ["-s", s]
        if resume_dir:
            args += ["-r", resume_dir]
        before = set(x for x in os.listdir(root) if x[:2] == "20")
        rc, out, err = sh.run_script("canvas", args, extra=env, timeout=timeout)
        res = dict(rc=rc, stdout=out.decode(errors="replace"), stderr=err.decode(errors="replace"), root=root, conf=conf)
        if detach:
            # the orchestrator runs in the background: wait for the lock to go away
            import time
            t0 = time.time()
            while time.time() - t0 < timeout:
                if not os.path.exists(os.path.join(root, ".running")) and time.time() - t0 > 0.3:
                    break
                time.sleep(0.05)
            time.sleep(0.2)
        after = sorted(x for x in os.listdir(root) if x[:2] == "20")
        new = [x for x in after if x not in before]
        bdir = resume_dir or (os.path.join(root, new[0]) if new else None)
        res["builddir"] = bdir
        res["events"] = []
        if os.path.exists(probelog):
            for l in open(probelog).read().split("\n"):
                w = l.split()
                if len(w) >= 4 and w[0] in ("start", "end", "hook"):
                    res["events"].append((w[0], w[1], float(w[2]), w[3]))
        res["hooks"] = [l.split(" ") for l in open(hooklog).read().split("\n") if l] if os.path.exists(hooklog) else []
        res["mail"] = open(maillog).read() if os.path.exists(maillog) else ""
        res["lock_left"] = os.path.exists(os.path.join(root, ".running"))
        res["rows"] = []
        if bdir and os.path.exists(os.path.join(bdir, "step.csv")):
            for l in open(os.path.join(bdir, "step.csv")).read().split("\n")[1:]:
                if l:
                    f = l.split(",")
                    res["rows"].append(dict(step=int(f[0]), name=f[1], exit=int(f[2]), duration=int(f[3]), delta=int(f[4]), log=f[5], skip=int(f[8])))
        res["report"] = open(os.path.join(bdir, "report")).read() if bdir and os.path.exists(os.path.join(bdir, "report")) else None
        res["logs"] = {}
        if bdir and os.path.isdir(bdir):
            for fn in os.listdir(bdir):
                if fn.endswith(".log") or ".log." in fn:
                    res["logs"][fn] = open(os.path.join(bdir, fn), errors="replace").read()
        return res
