"""Shared machinery of every check (DESIGN 3.2, 3.3).

A check = translator (T) + lake build of the property's theorems + axiom audit
+ correspondence (X) of the executable model against the real code + the
model-free property oracle on the real code.  All of it is re-run from /repo's
current working tree on every invocation."""
import atexit
import fcntl
import json
import os
import random
import re
import shutil
import signal
import subprocess
import sys
import tempfile
import time

VERIF = os.path.dirname(os.path.dirname(os.path.abspath(__file__)))
REPO = os.environ.get("VERIF_REPO", "/repo")
LEAN = os.path.join(VERIF, "lean")
GEN = os.path.join(LEAN, "Robsd", "Gen")
EVID = os.path.join(VERIF, "evidence")
CORPUS = os.path.join(VERIF, "corpus")
REPLAYS = os.path.join(VERIF, "replays")
GUARD = "ROBSD_VERIF"
ALLOWED_AXIOMS = {"propext", "Classical.choice", "Quot.sound"}
FORBIDDEN = re.compile(r"\b(sorry|admit|native_decide|bv_decide|implemented_by)\b|^\s*axiom\s|\bunsafe\s|maxHeartbeats\s+0")

sys.path.insert(0, os.path.join(VERIF, "translate"))
import gen as translator  # noqa: E402

BASE_TRUSTED = [
    "Lean 4.33.0 kernel; axioms allowed: propext, Classical.choice, Quot.sound (audited per theorem with #print axioms)",
    "translator /verif/translate (regex extraction of tables, constants and macro bodies from /repo)",
    "correspondence harness, generators, canonicalisers and oracles under /verif/verif and /verif/harness (differential testing of the executable model against the real code)",
    "C compiler and libc semantics for the calls named in DESIGN.md section 4",
]


def log(*a):
    print(*a, file=sys.stderr, flush=True)


class Ctx:
    def __init__(self, prop, tier, seed):
        self.prop = prop
        self.tier = tier
        self.seed = seed
        self.rng = random.Random(seed * 1000003 + sum(ord(c) for c in prop))
        self.t0 = time.time()
        self.scratch = tempfile.mkdtemp(prefix="robsd-verif-%s-" % prop, dir=os.environ.get("VERIF_TMP", "/var/tmp"))
        atexit.register(self.cleanup)
        self.build_dirs = {}
        self.broken = []          # list of dict(kind, what, detail)
        self.violations = []      # list of dict(what, replay)
        self.known_hits = []      # known findings re-observed
        self.obligations = []     # theorem names
        self.discharged = []
        self.axioms = {}
        self.cov = {}
        self.trusted = list(BASE_TRUSTED)
        self.assumptions = []
        self.checker_cmd = ""

    def cleanup(self):
        shutil.rmtree(self.scratch, ignore_errors=True)

    # -- scale by tier -------------------------------------------------------
    def n(self, quick, thorough):
        return thorough if self.tier == "thorough" else quick

    # -- building the real code ----------------------------------------------
    def build_repo(self, flavour="plain"):
        """Copy /repo's working tree to scratch and build every helper with the
        hooks on.  flavour: plain | asan."""
        if flavour in self.build_dirs:
            return self.build_dirs[flavour]
        d = os.path.join(self.scratch, "repo-" + flavour)
        subprocess.run(["rsync", "-a", "--exclude=.git", "--exclude=*.o", "--exclude=*.d",
                        "--exclude=/robsd-config", "--exclude=/robsd-exec", "--exclude=/robsd-hook",
                        "--exclude=/robsd-ls", "--exclude=/robsd-regress-html", "--exclude=/robsd-regress-log",
                        "--exclude=/robsd-report", "--exclude=/robsd-stat", "--exclude=/robsd-step",
                        "--exclude=/robsd-wait", "--exclude=/fuzz-config", "--exclude=/fuzz-step",
                        REPO + "/", d + "/"], check=True)
        if not os.path.exists(os.path.join(d, "config.h")) or not os.path.exists(os.path.join(d, "config.mk")):
            r = subprocess.run(["sh", "./configure"], cwd=d, capture_output=True, text=True)
            if r.returncode != 0:
                raise BuildError("configure failed:\n" + r.stdout + r.stderr)
        if flavour == "asan":
            cc = "clang"
            cflags = "-O1 -g -fsanitize=address,undefined -fno-sanitize-recover=all -fno-omit-frame-pointer -D%s -Wno-error -MD -MP" % GUARD
            ldflags = "-fsanitize=address,undefined"
        else:
            cc = "cc"
            cflags = "-O1 -g -D%s -Wno-error -MD -MP" % GUARD
            ldflags = ""
        r = subprocess.run(["make", "-j16", "CC=" + cc, "CFLAGS=" + cflags, "LDFLAGS=" + ldflags, "all"],
                           cwd=d, capture_output=True, text=True)
        if r.returncode != 0:
            raise BuildError("build of /repo (%s) failed:\n%s" % (flavour, (r.stdout + r.stderr)[-3000:]))
        self.build_dirs[flavour] = d
        return d

    def cc_harness(self, name, sources, extra=(), flavour="asan", repo_objs=(), flags=None):
        """Build an in-process harness from /verif/harness/<sources> plus repo
        sources (paths relative to the scratch repo copy)."""
        d = self.build_repo("plain")
        out = os.path.join(self.scratch, name)
        if flags is not None:
            cmd = list(flags)
        elif flavour == "asan":
            cmd = ["clang", "-O1", "-g", "-fsanitize=address,undefined", "-fno-sanitize-recover=all"]
        else:
            cmd = ["cc", "-O1", "-g"]
        cmd += ["-D" + GUARD, "-I" + d, "-include", os.path.join(d, "config.h"), "-o", out]
        cmd += list(extra)
        cmd += [os.path.join(VERIF, "harness", s) for s in sources]
        cmd += [os.path.join(d, s) for s in repo_objs]
        r = subprocess.run(cmd, capture_output=True, text=True)
        if r.returncode != 0:
            raise BuildError("harness %s failed to build:\n%s" % (name, r.stderr[-3000:]))
        return out

    # -- translator ------------------------------------------------------------
    def translate(self, needed):
        with BuildLock():
            res = translator.run(REPO, GEN)
        for name in needed:
            if res.get(name):
                self.broken.append(dict(kind="translator", what="Gen/%s.lean" % name, detail=res[name]))
        return res

    # -- lean ----------------------------------------------------------------
    def lake_build(self, modules, driver=True):
        """Build the property modules (+ the model driver).  Records failing
        theorems as broken obligations."""
        targets = list(modules) + (["robsd_model"] if driver else [])
        with BuildLock():
            r = subprocess.run(["lake", "build"] + targets, cwd=LEAN, capture_output=True, text=True)
        self.lake_log = r.stdout + r.stderr
        if r.returncode != 0:
            log(self.lake_log[-4000:])
        return r.returncode == 0

    def collect_obligations(self, modules):
        """Theorem names in the property files; the audit decides which are
        discharged."""
        names = []
        for m in modules:
            p = os.path.join(LEAN, *m.split(".")) + ".lean"
            with open(p, encoding="utf-8") as f:
                txt = f.read()
            ns = re.findall(r"^namespace\s+(\S+)", txt, re.M)
            prefix = ".".join(ns)
            for t in re.findall(r"^theorem\s+(\S+)", txt, re.M):
                names.append((m, prefix + "." + t if prefix else t))
        return names

    def grep_forbidden(self):
        hits = []
        for root, _, files in os.walk(LEAN):
            if ".lake" in root:
                continue
            for fn in files:
                if not fn.endswith(".lean"):
                    continue
                p = os.path.join(root, fn)
                in_block = 0
                with open(p, encoding="utf-8") as f:
                    for i, line in enumerate(f, 1):
                        code = line
                        # strip block comments (non-nested is enough for our files)
                        if in_block:
                            if "-/" in code:
                                code = code.split("-/", 1)[1]
                                in_block = 0
                            else:
                                continue
                        while "/-" in code:
                            pre, rest = code.split("/-", 1)
                            if "-/" in rest:
                                code = pre + rest.split("-/", 1)[1]
                            else:
                                code = pre
                                in_block = 1
                                break
                        code = code.split("--", 1)[0]
                        if FORBIDDEN.search(code):
                            hits.append("%s:%d: %s" % (os.path.relpath(p, LEAN), i, line.strip()))
        return hits

    def audit(self, modules):
        """#print axioms for every property theorem; a theorem is discharged
        when it compiled and depends on allowed axioms only."""
        obl = self.collect_obligations(modules)
        self.obligations = [n for _, n in obl]
        hits = self.grep_forbidden()
        for h in hits:
            self.broken.append(dict(kind="audit", what="forbidden construct", detail=h))
        built = {}
        for m in modules:
            with BuildLock():
                r = subprocess.run(["lake", "build", m], cwd=LEAN, capture_output=True, text=True)
            built[m] = (r.returncode == 0, r.stdout + r.stderr)
        good_mods = [m for m in modules if built[m][0]]
        for m in modules:
            if not built[m][0]:
                failing = self.failing_theorems(m, built[m][1])
                self.broken.append(dict(kind="proof", what=m,
                                        detail="does not build; failing declarations: %s" % (", ".join(failing) or "unknown"),
                                        log=built[m][1][-2500:]))
        names = [n for m, n in obl if m in good_mods]
        if names:
            src = "".join("import %s\n" % m for m in good_mods)
            src += "".join("#print axioms %s\n" % n for n in names)
            p = os.path.join(self.scratch, "audit_%s.lean" % self.prop)
            with open(p, "w") as f:
                f.write(src)
            r = subprocess.run(["lake", "env", "lean", p], cwd=LEAN, capture_output=True, text=True)
            out = r.stdout + r.stderr
            for n in names:
                m1 = re.search(r"'%s' depends on axioms: \[([^\]]*)\]" % re.escape(n), out)
                m2 = re.search(r"'%s' does not depend on any axioms" % re.escape(n), out)
                if m2:
                    self.axioms[n] = []
                elif m1:
                    self.axioms[n] = [a.strip() for a in m1.group(1).replace("\n", " ").split(",") if a.strip()]
                else:
                    self.broken.append(dict(kind="audit", what=n, detail="no #print axioms output: " + out[-500:]))
                    continue
                bad = [a for a in self.axioms[n] if a not in ALLOWED_AXIOMS]
                if bad:
                    self.broken.append(dict(kind="audit", what=n, detail="depends on axioms %s" % bad))
                else:
                    self.discharged.append(n)
        self.checker_cmd = "cd /verif/lean && lake build %s && lake env lean <audit: #print axioms of each theorem>" % " ".join(modules)
        if self.tier == "thorough":
            for m in good_mods:
                r = subprocess.run(["lake", "env", "leanchecker", m], cwd=LEAN, capture_output=True, text=True)
                if r.returncode != 0:
                    self.broken.append(dict(kind="audit", what=m, detail="leanchecker failed: " + (r.stdout + r.stderr)[-800:]))
            self.checker_cmd += " && lake env leanchecker <module> (each)"

    def failing_theorems(self, module, logtxt):
        p = os.path.join(LEAN, *module.split(".")) + ".lean"
        try:
            with open(p, encoding="utf-8") as f:
                lines = f.read().split("\n")
        except OSError:
            return []
        decl_at = []
        for i, l in enumerate(lines, 1):
            m = re.match(r"^(?:theorem|def|example|lemma|instance)\s*(\S*)", l)
            if m:
                decl_at.append((i, m.group(1) or "example"))
        out = []
        rel = os.path.join(*module.split(".")) + ".lean"
        for m in re.finditer(r"error: %s:(\d+):" % re.escape(rel), logtxt):
            ln = int(m.group(1))
            name = None
            for i, n in decl_at:
                if i <= ln:
                    name = n
            if name and name not in out:
                out.append(name)
        return out

    def model(self, lines, timeout=600):
        """Feed protocol lines to the compiled Lean model driver."""
        exe = os.path.join(LEAN, ".lake", "build", "bin", "robsd_model")
        data = ("\n".join(lines) + "\n").encode()
        r = subprocess.run([exe], input=data, capture_output=True, timeout=timeout)
        if r.returncode != 0:
            raise BuildError("model driver failed: " + r.stderr.decode(errors="replace")[-500:])
        out = r.stdout.decode().split("\n")
        if out and out[-1] == "":
            out.pop()
        if len(out) != len(lines):
            raise BuildError("model driver answered %d lines for %d requests" % (len(out), len(lines)))
        return out

    # -- findings ----------------------------------------------------------------
    def load_known(self):
        p = os.path.join(VERIF, "known_findings.json")
        with open(p) as f:
            k = json.load(f)
        return [e for e in k.get("findings", []) if e.get("property") == self.prop and e.get("status") == "known"]

    def write_replay(self, name, obj):
        os.makedirs(REPLAYS, exist_ok=True)
        p = os.path.join(REPLAYS, "%s-%s.json" % (self.prop, name))
        obj = dict(obj, seed=self.seed, tier=self.tier,
                   rerun="VERIF_SEED=%d ./check %s --tier %s   (or: ./check %s --replay %s)" % (self.seed, self.prop, self.tier, self.prop, p))
        with open(p, "w") as f:
            json.dump(obj, f, indent=1, sort_keys=True, default=str)
        return p

    def violation(self, what, replay):
        """An oracle failure on the real code, with the concrete input."""
        self.violations.append(dict(what=what, replay=replay))

    def disagreement(self, what, detail):
        self.broken.append(dict(kind="correspondence", what=what, detail=detail))

    # -- finishing -----------------------------------------------------------------
    def finish(self, level="proof"):
        wall = time.time() - self.t0
        rc = 0
        lines = []
        for k in self.known_hits:
            lines.append("KNOWN-FINDING: property=%s %s" % (self.prop, k))
        nviol = 0
        if self.violations:
            v = self.violations[0]
            p = self.write_replay("violation", dict(property=self.prop, what=v["what"], replay=v["replay"],
                                                    all=[x["what"] for x in self.violations[:20]],
                                                    broken=self.broken[:10]))
            lines.append("VIOLATION property=%s replay=%s" % (self.prop, p))
            nviol = len(self.violations)
            rc = 1
        elif self.broken:
            p = self.write_replay("broken", dict(property=self.prop,
                                                 note="a proof obligation or the model/code correspondence no longer checks; no failing input was found on the real code",
                                                 broken=self.broken[:20]))
            lines.append("VIOLATION property=%s replay=%s no-failing-input-found" % (self.prop, p))
            nviol = 1
            rc = 1
        cov = dict(self.cov)
        cov.setdefault("obligations", len(self.obligations))
        cov.setdefault("discharged", len(self.discharged))
        cov.setdefault("checker_cmd", self.checker_cmd or "n/a")
        cov.setdefault("trusted_base", self.trusted)
        cov.setdefault("theorems", [dict(name=n, axioms=self.axioms.get(n)) for n in self.obligations])
        ev = dict(property_id=self.prop, tier=self.tier, seed=self.seed, level=level, coverage=cov,
                  assumptions=self.assumptions, wall_s=round(wall, 2), violations=nviol)
        os.makedirs(EVID, exist_ok=True)
        tmp = os.path.join(EVID, ".%s.json.tmp" % self.prop)
        with open(tmp, "w") as f:
            json.dump(ev, f, indent=1, default=str)
        os.replace(tmp, os.path.join(EVID, "%s.json" % self.prop))
        for l in lines:
            print(l, flush=True)
        if rc == 0:
            print("OK property=%s tier=%s obligations=%d discharged=%d evaluations=%s wall=%.1fs" % (
                self.prop, self.tier, len(self.obligations), len(self.discharged), cov.get("evaluations"), wall), flush=True)
        else:
            for b in self.broken[:10]:
                log("BROKEN %s: %s: %s" % (b["kind"], b["what"], str(b["detail"])[:400]))
        return rc


class BuildError(Exception):
    pass


class BuildLock:
    """Serialises translator output and `lake build` between concurrent checks."""

    def __enter__(self):
        self.f = open(os.path.join(VERIF, ".build-lock"), "w")
        fcntl.flock(self.f, fcntl.LOCK_EX)
        return self

    def __exit__(self, *a):
        fcntl.flock(self.f, fcntl.LOCK_UN)
        self.f.close()


def hexb(b):
    return b.hex() if b else "-"


def run_cmd(cmd, stdin=b"", timeout=60, env=None, cwd=None, preexec_fn=None):
    """Run a real helper; returns (exit class, stdout bytes, stderr bytes).
    Death by signal N is reported as -N."""
    try:
        r = subprocess.run(cmd, input=stdin, capture_output=True, timeout=timeout, env=env, cwd=cwd, preexec_fn=preexec_fn)
    except subprocess.TimeoutExpired:
        return ("timeout", b"", b"")
    return (r.returncode, r.stdout, r.stderr)


def sanitizer_report(stderr):
    s = stderr.decode(errors="replace")
    if "AddressSanitizer" in s or "runtime error:" in s or "LeakSanitizer" in s:
        return s[-1500:]
    return None
