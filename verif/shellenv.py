"""The emulation layer for the shell properties (DESIGN 3.4).

The entry scripts and util.sh are ksh; this sandbox has no ksh, so they run
under `bash -O lastpipe` (last element of a pipeline in the current shell, as
in ksh) with a private PATH holding shims for the BSD userland differences
util.sh depends on.  Every shim is listed in TRUSTED."""
import os
import signal
import stat
import subprocess
import time

from . import core

TRUSTED = [
    "bash -O lastpipe standing in for ksh",
    "shim stat: BSD `stat -f %Sm -t fmt file` emulated with date -r",
    "shim find: GNU find; a failing -delete on a non-empty directory is not an error (as with BSD find)",
    "shim chflags (no-op; with VERIF_UCHG the immutable flag is emulated by a side file honoured by touch and rm shims), logname (prints root), sysctl (fails), sendmail (captures recipient and body)",
    "wrappers for the ksh entry scripts (robsd-clean etc.) that re-run them under bash",
]

SHIMS = {
    "stat": r'''#!/bin/bash
if [ "$1" = "-f" ]; then
    # stat -f '%Sm' -t '%FT%T' file
    fmt='%FT%T'
    shift 2
    if [ "$1" = "-t" ]; then fmt="$2"; shift 2; fi
    exec date -r "$1" "+$fmt"
fi
exec /usr/bin/stat "$@"
''',
    "find": r'''#!/bin/bash
for a in "$@"; do
    if [ "$a" = "-delete" ]; then
        /usr/bin/find "$@" 2>/dev/null
        exit 0
    fi
done
exec /usr/bin/find "$@"
''',
    # chflags: a no-op, unless VERIF_UCHG is set: then the user-immutable flag is emulated with a hidden
    # side file FILE.verif-uchg which the touch and rm shims below honour (robsd-kill, lock_alive, lock_release)
    "chflags": r'''#!/bin/sh
[ -n "${VERIF_UCHG:-}" ] || exit 0
flag="$1"; shift
for f; do
    case "$flag" in
    uchg)   [ -e "$f" ] && : > "$f.verif-uchg";;
    nouchg) /bin/rm -f "$f.verif-uchg";;
    esac
done
exit 0
''',
    "touch": r'''#!/bin/sh
if [ -n "${VERIF_UCHG:-}" ]; then
    for f; do
        case "$f" in
        -*) ;;
        *)  if [ -e "$f.verif-uchg" ]; then echo "touch: $f: Operation not permitted" >&2; exit 1; fi;;
        esac
    done
fi
exec /usr/bin/touch "$@"
''',
    "rm": r'''#!/bin/sh
if [ -n "${VERIF_UCHG:-}" ]; then
    for f; do
        case "$f" in
        -*) ;;
        *)  if [ -e "$f.verif-uchg" ]; then echo "rm: $f: Operation not permitted" >&2; exit 1; fi;;
        esac
    done
fi
exec /bin/rm "$@"
''',
    "logname": "#!/bin/sh\necho root\n",
    # the clock as the scripts see it: with VERIF_DATE_SEQ (a file of dates, one per line) successive calls
    # for '+%Y-%m-%d' take one line each, the last line stays: midnight may pass between two calls
    "date": r'''#!/bin/sh
if [ -n "${VERIF_DATE_SEQ:-}" ] && [ "$*" = "+%Y-%m-%d" ] && [ -s "$VERIF_DATE_SEQ" ]; then
    head -1 "$VERIF_DATE_SEQ"
    if [ "$(wc -l < "$VERIF_DATE_SEQ")" -gt 1 ]; then sed -i 1d "$VERIF_DATE_SEQ"; fi
    exit 0
fi
exec /bin/date "$@"
''',
    "sysctl": "#!/bin/sh\nexit 1\n",
    "sendmail": r'''#!/bin/bash
{
    echo "=== sendmail $*"
    cat
    echo "=== end"
} >> "${VERIF_MAIL_LOG:-/dev/null}"
''',
    "hooklog": r'''#!/bin/bash
echo "$*" >> "${VERIF_HOOK_LOG:-/dev/null}"
if [ -n "${VERIF_PROBE_LOG:-}" ]; then
    read -r up _ < /proc/uptime
    lock="$(cat "${VERIF_ROOT}/.running" 2>/dev/null | tr -d '\n')"
    echo "hook $1 $up exit=$2 lock=$lock" >> "$VERIF_PROBE_LOG"
fi
# a hook that itself fails must have no effect on the run
exit "${VERIF_HOOK_EXIT:-0}"
''',
    # step command used by the orchestrator harnesses:
    #   probe NAME : logs start/end with a monotonic stamp and the content of .running,
    #   then sleeps / exits as the plan file says ("NAME SLEEP_MS EXIT [LINGER_MS]" per line)
    "probe": r'''#!/bin/bash
name="$1"
now() { read -r up _ < /proc/uptime; echo "$up"; }
lock="$(cat "${VERIF_ROOT}/.running" 2>/dev/null | tr -d '\n')"
echo "start $name $(now) lock=$lock" >> "$VERIF_PROBE_LOG"
echo "output of $name"
ms=0; ex=0; linger=0
while read -r n s e l; do
    if [ "$n" = "$name" ]; then ms="$s"; ex="$e"; linger="${l:-0}"; fi
done < "$VERIF_PROBE_PLAN"
if [ "$ms" != "0" ]; then sleep "$(printf '%d.%03d' $((ms / 1000)) $((ms % 1000)))"; fi
# a child that outlives the step's main process and keeps its standard output open (a daemon started by
# the step): the step's log pipeline sees end of file only when it is gone
if [ "$linger" != "0" ]; then sleep "$(printf '%d.%03d' $((linger / 1000)) $((linger % 1000)))" & fi
echo "end $name $(now) exit=$ex" >> "$VERIF_PROBE_LOG"
exit "$ex"
''',
    # robsd-step wrapper: counts -W calls and SIGKILLs the orchestrator's session
    # right after write number VERIF_KILL_AT completed
    "robsd-step-wrap": r'''#!/bin/bash
"$VERIF_REAL_STEP" "$@"
rc=$?
case " $* " in
*" -W "*)
    if [ -n "${VERIF_KILL_AT:-}" ]; then
        (
            flock 9
            n=$(( $(cat "$VERIF_KILL_CNT" 2>/dev/null || echo 0) + 1 ))
            echo "$n" > "$VERIF_KILL_CNT"
            if [ "$n" -eq "$VERIF_KILL_AT" ]; then
                echo "killed after write $n: $*" >> "$VERIF_PROBE_LOG"
                if [ "${VERIF_KILL_SIG:-KILL}" = "TERM" ]; then
                    # an orderly termination: the shell handles the signal once this child has returned,
                    # its exit handler runs; whatever is left is killed a moment later from outside the session
                    pg="$(cat "$VERIF_ORCH_PGID")"
                    setsid sh -c "sleep 0.8; kill -9 -- -$pg" >/dev/null 2>&1 </dev/null &
                    kill -TERM "$pg" 2>/dev/null
                else
                    kill -9 -- "-$(cat "$VERIF_ORCH_PGID")" 2>/dev/null
                fi
            fi
        ) 9>>"$VERIF_KILL_CNT.lock"
    fi
    ;;
esac
exit $rc
''',
}


class ShellEnv:
    def __init__(self, ctx, build):
        self.ctx = ctx
        self.build = build                      # scratch copy of /repo, built
        self.sb = os.path.join(ctx.scratch, "shell")
        self.bin = os.path.join(self.sb, "bin")
        os.makedirs(self.bin, exist_ok=True)
        for name, text in SHIMS.items():
            self._write(os.path.join(self.bin, name), text)
        for script in ("robsd-clean", "canvas", "robsd", "robsd-regress", "robsd-kill"):
            self._write(os.path.join(self.bin, script),
                        "#!/bin/sh\nexec bash -O lastpipe %s \"$@\"\n" % os.path.join(build, script))
        ctx.trusted += [t for t in TRUSTED if t not in ctx.trusted]
        self.wait = None

    def build_wait(self):
        """the real robsd-wait.c, built with -D__OpenBSD__ against the kqueue shim"""
        if self.wait:
            return self.wait
        out = os.path.join(self.bin, "robsd-wait")
        b = self.build
        cmd = ["cc", "-O1", "-g", "-D__OpenBSD__", "-D" + core.GUARD, "-I" + os.path.join(core.VERIF, "harness", "kqshim"), "-I" + b,
               "-o", out, os.path.join(b, "robsd-wait.c"), os.path.join(b, "libks", "map.c"), os.path.join(b, "libks", "vector.c"),
               os.path.join(b, "libks", "arithmetic.c"), os.path.join(b, "compat-strtonum.c"), os.path.join(b, "compat-pledge.c"),
               os.path.join(b, "compat-unveil.c")]
        r = subprocess.run(cmd, capture_output=True, text=True)
        if r.returncode != 0:
            raise core.BuildError("robsd-wait (kqueue shim) failed to build:\n" + r.stderr[-2000:])
        self.wait = out
        t = "robsd-wait.c built with -D__OpenBSD__ against harness/kqshim/sys/event.h (kqueue/kevent EVFILT_PROC via pidfd_open+poll)"
        if t not in self.ctx.trusted:
            self.ctx.trusted.append(t)
        return out

    @staticmethod
    def _write(path, text):
        with open(path, "w") as f:
            f.write(text)
        os.chmod(path, 0o755)

    def env(self, extra=None):
        e = dict(os.environ)
        e.update(
            PATH=self.bin + ":" + e.get("PATH", "/usr/bin:/bin"),
            EXECDIR=self.build,
            ROBSDCLEAN=os.path.join(self.bin, "robsd-clean"),
            ROBSDSTEP=os.path.join(self.build, "robsd-step"),
            TMPDIR=os.path.join(self.sb, "tmp"),
            ASAN_OPTIONS="detect_leaks=0",
            LC_ALL="C",
        )
        os.makedirs(e["TMPDIR"], exist_ok=True)
        if extra:
            e.update(extra)
        return e

    def call(self, snippet, mode="canvas", extra=None, timeout=60, cwd=None):
        """Source util.sh under bash and evaluate `snippet`."""
        script = ". %s/util.sh\n. %s/util-regress.sh\nsetmode %s\nsetprogname verif\n%s\n" % (self.build, self.build, mode, snippet)
        r = subprocess.run(["bash", "-O", "lastpipe", "-c", script], capture_output=True, env=self.env(extra), timeout=timeout, cwd=cwd)
        return r.returncode, r.stdout, r.stderr

    def run_script(self, name, args, extra=None, timeout=120, new_session=True, pgid_file=None):
        """Run an entry script under bash in its own session; returns (rc, stdout, stderr)."""
        cmd = ["bash", "-O", "lastpipe", os.path.join(self.build, name)] + list(args)
        p = subprocess.Popen(cmd, stdout=subprocess.PIPE, stderr=subprocess.PIPE, stdin=subprocess.DEVNULL,
                             env=self.env(extra), start_new_session=new_session)
        if pgid_file:
            with open(pgid_file, "w") as f:
                f.write(str(p.pid))
        try:
            out, err = p.communicate(timeout=timeout)
        except subprocess.TimeoutExpired:
            try:
                os.killpg(p.pid, signal.SIGKILL)
            except OSError:
                pass
            out, err = p.communicate()
            return "timeout", out, err
        return p.returncode, out, err
