"""C18: report durations, deltas and size changes are computed and formatted correctly."""
import os
import re
import shutil
from decimal import Decimal, ROUND_HALF_EVEN

from .. import core
from ..core import hexb
from .. import reportgen
from ..shellenv import ShellEnv
from ..canvasrun import CanvasRunner

MODULES = ["Robsd.Props.C18"]
GENS = ["StepFields", "Consts"]
DUR = [0, 1, 59, 60, 61, 3599, 3600, 3601, 86399, 86400, 359999, 360000, 2 ** 31 - 1, 2 ** 31, 2 ** 32, 2 ** 40 - 1, 12345678]
DELTA = [0, 1, -1, 59, -59, 60, -60, 61, -61, 62, -62, 3600, -3600, 86399, -86399, 2 ** 40, -(2 ** 40), 2 ** 31, -(2 ** 31)]


def hms(d):
    return "%02d:%02d:%02d" % (d // 3600, d % 3600 // 60, d % 60)


def dur_delta(d, delta, thr):
    if abs(delta) <= thr:
        return hms(d)
    return "%s (%s%s)" % (hms(d), "-" if delta < 0 else "+", hms(abs(delta)))


def fsize(n):
    if n >= 1048576:
        div, suf = 1048576, "M"
    elif n >= 1024:
        div, suf = 1024, "K"
    else:
        div, suf = 1, ""
    q = (Decimal(n) / Decimal(div)).quantize(Decimal("0.1"), rounding=ROUND_HALF_EVEN)
    return "%s%s" % (q, suf)


def run(ctx):
    ctx.translate(GENS)
    ctx.lake_build(MODULES)
    ctx.audit(MODULES)
    rng = ctx.rng
    d = ctx.build_repo("asan")
    rr = reportgen.ReportRunner(ctx, d)
    sh = ShellEnv(ctx, ctx.build_repo("plain"))
    reqs, obs = [], []
    kinds = {}
    distinct = set()
    n = ctx.n(200, 6000)
    for t in range(n):
        mode = reportgen.MODES[t % 5]
        c = reportgen.gen_case(rng, mode)
        # durations within the property's range (completed steps 0..2^40, deltas within +-2^40); in-flight rows keep -1
        rows = []
        for r in c["rows"]:
            r = list(r)
            if r[8] != 1 and r[2] != -1:
                r[3] = rng.choice(DUR)
                r[4] = rng.choice(DELTA)
            rows.append(tuple(r))
        c["rows"] = rows
        if mode == "robsd":
            c["hasprev"] = True
            c["sizes"] = []
            for fn in reportgen.REL_FILES + ["xbase75.tgz", "bsd.sp"]:
                if rng.random() < 0.85:
                    base = rng.choice([0, 1, 1000, 1023, 1024, 1025, 1048575, 1048576, 1048577, 5 * 1048576, 3 * 1024 ** 3 + 12345, 1536, 1587, 1588,
                                       1638400, 1100000, 1101005, 996148, 1043333, 52428800])
                    dd = rng.choice([0, 1, 1023, 1024, 1025, 1048575, 1048576, 1048577, 2 * 1048576 + 51200, 10 * 1048576, 1100000])
                    prev = base + dd if rng.random() < 0.5 else max(0, base - dd)
                    c["sizes"].append((fn, base, prev if rng.random() < 0.85 else None))
        rc, out, err, req, b = rr.run(c)
        rep = core.sanitizer_report(err)
        if rep or rc not in (0, 1):
            ctx.violation("robsd-report: abnormal termination", dict(rows=rows, rc=rc, report=rep))
            continue
        reqs.append(req)
        obs.append(("%d %s" % (rc, hexb(out) if rc == 0 else "-"), c))
        if rc != 0:
            continue
        kinds[mode] = kinds.get(mode, 0) + 1
        # ---- oracle: total duration line
        endrow = [r for r in rows if r[1] == "end"]
        inflight = any(r[2] == -1 for r in rows)
        if endrow:
            want = dur_delta(endrow[0][3], endrow[0][4], 60)
        elif mode == "robsd-regress":
            want = dur_delta(rows[-1][7] - rows[0][7], 0, 60) if rows else hms(0)
        else:
            want = dur_delta(sum(r[3] for r in rows if r[8] != 1 and r[1] != "end"), 0, 60)
        got = re.search(rb"\nDuration: ([^\n]*)\n", out).group(1).decode()
        if not inflight and got != want:
            ctx.violation("total duration line '%s', expected '%s'" % (got, want), dict(mode=mode, rows=rows))
        # per step sections: delta shown iff non-zero
        for m in re.finditer(rb"\n> ([^\n]*)\nExit: (-?\d+)\nDuration: ([^\n]*)\n", out):
            name = m.group(1).decode()
            cand = [r for r in rows if r[1] == name and r[8] != 1 and r[2] == int(m.group(2))]
            if len(cand) == 1 and cand[0][2] != -1:
                w = dur_delta(cand[0][3], cand[0][4], 0)
                if m.group(3).decode() != w:
                    ctx.violation("step '%s' duration line '%s', expected '%s'" % (name, m.group(3).decode(), w), dict(mode=mode, rows=rows))
                distinct.add((cand[0][3], cand[0][4]))
        # sizes
        if mode == "robsd":
            exp = []
            for fn, size, prev in c["sizes"]:
                # listed only for files present in this AND the previous invocation (the newest other
                # one, whether or not it got as far as a release; an older one is never used instead)
                if prev is None or c.get("prevnorel") or fn == "CHANGELOG" or ".diff." in fn:
                    continue
                da = abs(size - prev)
                if da < (1024 if fn == "bsd.rd" else 1048576):
                    continue
                exp.append("Size: %s %s (%s%s)" % (fn, fsize(size), "-" if size < prev else "+", fsize(da)))
                distinct.add((fn, size, prev))
            gots = [l.decode() for l in out.split(b"\n") if l.startswith(b"Size: ")]
            if gots != sorted(exp):
                ctx.violation("size lines %s, expected %s" % (gots, sorted(exp)), dict(sizes=c["sizes"], previous_has_release=not c.get("prevnorel"), older_invocation=c.get("older")))
        # ---- the shell twin of the total
        if t % 4 == 0:
            csv = os.path.join(b, "step.csv")
            rcs, outs, errs = sh.call('duration_total -s "%s"' % csv, mode=mode)
            reqs.append("total %s %s" % (mode, hexb(open(csv, "rb").read())))
            obs.append((outs.decode().strip(), c))
            if not endrow and not inflight and rcs == 0:
                tot = (rows[-1][7] - rows[0][7]) if mode == "robsd-regress" else sum(r[3] for r in rows if r[8] != 1 and r[1] != "end")
                if hms(int(outs.decode().strip())) != got.split(" ")[0] or int(outs.decode().strip()) != tot:
                    ctx.violation("shell duration_total prints %s, the report shows %s" % (outs.decode().strip(), got), dict(mode=mode, rows=rows))
            kinds["shell"] = kinds.get("shell", 0) + 1
    # ---- which invocation the recorded deltas are taken against: real canvas runs next to a crafted
    # previous invocation, fresh and then resumed after it had finished (only `end` is redone)
    cr = CanvasRunner(ctx, ctx.build_repo("plain"))
    for t in range(ctx.n(2, 12)):
        root = os.path.join(ctx.scratch, "c18prev%d" % t)
        shutil.rmtree(root, ignore_errors=True)
        prevd = os.path.join(root, "2001-01-0%d.1" % (1 + t % 9))
        os.makedirs(os.path.join(prevd, "tmp"))
        pd = dict(one=rng.choice([100, 200, 7]), two=rng.choice([50, 3]), end=rng.choice([300, 1000, 61]))
        pexit_two = rng.choice([0, 0, 1])       # a failed step of the previous invocation is not a reference
        # every other time the previous invocation ran another step list (a step in front that is gone now):
        # the steps are the same by name, their ids are not
        sh_ = 1 if t % 2 == 1 else 0
        open(os.path.join(prevd, "step.csv"), "w").write(
            "step,name,exit,duration,delta,log,user,time,skip\n" + ("1,prepare,0,4,0,001-prepare.log,root,1,0\n" if sh_ else "") +
            "%d,one,0,%d,0,001-one.log,root,1,0\n%d,two,%d,%d,0,002-two.log,root,2,0\n" % (1 + sh_, pd["one"], 2 + sh_, pexit_two, pd["two"]) +
            ("%d,end,0,%d,0,,root,5,0\n" % (3 + sh_, pd["end"]) if pexit_two == 0 else ""))
        cfg = dict(steps=[("one", False, 0, 0), ("two", False, 0, 0)], skip=[], cmdline_skip=[], ncpu=1)
        res = cr.run(cfg, root=root, keep_root=True, hook=False)
        rows = {r["name"]: r for r in res["rows"]}
        info = dict(previous=open(os.path.join(prevd, "step.csv")).read(), rows=res["rows"], rc=res["rc"], stderr=res["stderr"][-300:])
        kinds["delta-real-run"] = kinds.get("delta-real-run", 0) + 1

        def expect(nm, row):
            ref = pd[nm] if (nm != "two" or pexit_two == 0) and (nm != "end" or pexit_two == 0) else None
            return 0 if ref is None else row["duration"] - ref

        bad = [(nm, rows[nm]["delta"], expect(nm, rows[nm])) for nm in ("one", "two", "end") if nm in rows and rows[nm]["delta"] != expect(nm, rows[nm])]
        if res["rc"] != 0 or "end" not in rows or bad:
            ctx.violation("recorded delta of %s is not duration minus the previous invocation's duration (step, recorded, expected): %s" % ([b[0] for b in bad], bad), info)
            continue
        # resume the finished invocation: `end` is redone, its delta is still against the previous invocation
        res2 = cr.run(cfg, root=root, keep_root=True, hook=False, resume_dir=res["builddir"])
        rows2 = {r["name"]: r for r in res2["rows"]}
        if res2["rc"] != 0 or "end" not in rows2 or rows2["end"]["delta"] != expect("end", rows2["end"]):
            ctx.violation("after resuming a finished invocation the total's delta is %s, duration %s, previous invocation's total %s" % (
                rows2.get("end", {}).get("delta"), rows2.get("end", {}).get("duration"), pd["end"] if pexit_two == 0 else None),
                dict(info, rows_after_resume=res2["rows"], rc2=res2["rc"]))
        kinds["delta-resumed-run"] = kinds.get("delta-resumed-run", 0) + 1
    ans = ctx.model(reqs) if reqs else []
    for q, a, (want, c) in zip(reqs, ans, obs):
        if a != want:
            ctx.disagreement("Report model vs %s" % ("bash duration_total" if q.startswith("total") else "robsd-report"),
                             dict(rows=c["rows"], impl=want[:400], model=a[:400], request=q[:200]))
    ctx.cov.update(dict(
        evaluations=len(reqs), distinct_nontrivial=len(distinct),
        rule="the C05 build-directory generator with durations from {0,1,59,60,61,3599,3600,..,2^31,2^32,2^40-1} and deltas from {0,+-1,+-59,+-60,+-61,+-62,..,+-2^40}; "
             "release directories with sizes around 1023/1024/1025 B, 1 MiB +-1, rounding ties (1587/1588, 1101005), several GiB, files missing in the previous "
             "invocation; non-trivial = distinct (duration, delta) shown in a section or distinct size pair listed; report compared byte for byte with the model, "
             "Duration:/Size: lines compared with an independent Python rendition of the property, bash duration_total compared with the model and the report",
        samples=[dict(mode=c["mode"], rows=c["rows"][:4], impl=w[:120]) for (w, c) in obs[:: max(1, len(obs) // 4)][:4]],
        traces_validated_against_impl=len(reqs), outcome_kinds=kinds))
    ctx.trusted += ["glibc %.01f on exactly representable quotients (divisors are powers of two, sizes < 2^53)", "bash 64-bit $(( )) arithmetic standing in for ksh"]
