"""C16: cleaning keeps exactly the newest N invocations and removes nothing else."""
import os
import shutil

from .. import core
from ..core import hexb
from ..shellenv import ShellEnv

MODULES = ["Robsd.Props.C16"]
GENS = []
KEEP_FILES = ["report", "comment", "tags", "step.csv", "stat.csv", "src.diff.1", "rel/index.txt"]
DROP_FILES = ["001-env.log", "002-cvs.log.1", "robsd.log", "tmp/cvs.log", "rel/bsd", "dmesg", "snapshots/x",
              # scratch files below tmp/ named like the preserved ones: tmp/ goes as a whole (elsewhere the
              # filter is by file name, as for rel/index.txt)
              "tmp/index.txt", "tmp/report", "tmp/src.diff.1", "tmp/step-exec.abc/tags"]


def snapshot(root):
    out = {}
    for dp, dn, fn in os.walk(root):
        for x in list(dn):
            if os.path.islink(os.path.join(dp, x)):
                dn.remove(x)
                fn.append(x)
        for f in fn:
            p = os.path.join(dp, f)
            rel = os.path.relpath(p, root)
            try:
                out[rel] = open(p, "rb").read() if not os.path.islink(p) else b"->" + os.readlink(p).encode()
            except OSError:
                out[rel] = None
        for x in dn:
            out[os.path.relpath(os.path.join(dp, x), root) + "/"] = b""
    return out


def run(ctx):
    ctx.translate(GENS)
    ctx.lake_build(MODULES)
    ctx.audit(MODULES)
    rng = ctx.rng
    d = ctx.build_repo("plain")
    sh = ShellEnv(ctx, d)
    base = os.path.join(ctx.scratch, "c16")
    reqs, obs = [], []
    kinds = {}
    distinct = set()
    for t in range(ctx.n(40, 1200)):
        shutil.rmtree(base, ignore_errors=True)
        root = os.path.join(base, "root")
        os.makedirs(root)
        days = ["2024-01-0%d" % i for i in range(1, 6)]
        invs = []
        forced = t % 20 if t % 20 < 4 else None    # retention 0 in its four settings, every 20 runs
        for _ in range(rng.choice([0, 1, 2, 3, 4, 6, 9, 14]) if forced is None else rng.choice([1, 3, 6])):
            nm = "%s.%d" % (rng.choice(days), rng.randint(1, 4))
            if nm in invs:
                continue
            invs.append(nm)
            for f in KEEP_FILES + DROP_FILES:
                if rng.random() < 0.8:
                    p = os.path.join(root, nm, f)
                    os.makedirs(os.path.dirname(p), exist_ok=True)
                    with open(p, "w") as fh:
                        fh.write("%s of %s\n" % (f, nm))
            os.makedirs(os.path.join(root, nm, "tmp"), exist_ok=True)
            # what a release build leaves besides plain files: the snapshots link made by the hash step,
            # a dangling link, nested and empty directories
            if rng.random() < 0.5:
                os.makedirs(os.path.join(root, nm, "snapshots"), exist_ok=True)
                os.makedirs(os.path.join(root, nm, "rel"), exist_ok=True)
                os.symlink("../rel", os.path.join(root, nm, "snapshots", "amd64"))
            if rng.random() < 0.3:
                os.symlink("/nonexistent/target", os.path.join(root, nm, "tmp", "dangling"))
            if rng.random() < 0.3:
                os.makedirs(os.path.join(root, nm, "obj", "deep", "er"), exist_ok=True)
                open(os.path.join(root, nm, "obj", "deep", "er", "file.o"), "w").write("o\n")
            if rng.random() < 0.2:
                os.makedirs(os.path.join(root, nm, "emptydir"), exist_ok=True)
        prefix_pair = None
        if t % 20 == 5 or (forced is None and rng.random() < 0.1):
            day = rng.choice(days)
            short, long_ = "%s.1" % day, "%s.1%d" % (day, rng.randint(0, 9))
            for nm in (short, long_):
                if nm not in invs:
                    invs.append(nm)
                    os.makedirs(os.path.join(root, nm, "tmp"), exist_ok=True)
                    open(os.path.join(root, nm, "report"), "w").write("report of %s\n" % nm)
            prefix_pair = (short, long_)
        strays = []
        for s in rng.sample(["stray.txt", "notes", ".hidden/x", "2024-01-09.tar"], rng.randint(0, 3)):
            p = os.path.join(root, s)
            os.makedirs(os.path.dirname(p), exist_ok=True)
            open(p, "w").write("stray\n")
            strays.append(s)
        for s in rng.sample(["latest", "00-baseline", "zz-link"], rng.randint(0, 2)):
            if invs:
                os.symlink(rng.choice(invs), os.path.join(root, s))   # a symlink to an invocation is not an invocation
                strays.append(s)
        attic_on = rng.random() < 0.6
        if rng.random() < 0.4:
            os.makedirs(os.path.join(root, "attic", "2023", "12", "31.1"))
            open(os.path.join(root, "attic", "2023", "12", "31.1", "report"), "w").write("old\n")
        keep_conf = rng.choice([0, 0, 1, 2, 3, 5])
        count_arg = rng.choice([None, None, 0, 1, 2, 3, 4, 20])
        running = rng.choice(invs) if invs and rng.random() < 0.55 else None
        if prefix_pair and forced is None:
            # DATE.1x runs while DATE.1 is still there and due to go
            running = prefix_pair[1]
            keep_conf, count_arg = rng.choice([1, 2]), None
        if forced is not None:
            # retention 0 removes nothing: from the configuration / the command line, with nothing running,
            # something running, a stale lock
            keep_conf, count_arg = [(0, None), (0, 0), (0, None), (3, 0)][forced]
            running = rng.choice(invs) if invs and forced == 2 else None
        conf = os.path.join(root, "canvas.conf")
        # the root as the configuration spells it, also with trailing slashes; the lock file holds
        # ${ROBSDDIR}/<id> with ROBSDDIR exactly as configured
        spell = root + rng.choice(["", "", "", "/", "//"])
        with open(conf, "w") as f:
            f.write('canvas-name "c"\ncanvas-dir "%s"\nstep "a" command { "true" }\nkeep %d\n%s' % (spell, keep_conf, "" if attic_on else "keep-attic no\n"))
        lockkind = "none"
        if running:
            open(os.path.join(root, ".running"), "w").write(spell + "/" + running + "\n")
            lockkind = "running"
        elif rng.random() < 0.3 or forced == 1:
            # a lock file that names nothing: empty (a crash between truncate and write), or stale
            lockkind = rng.choice(["empty", "stale"])
            open(os.path.join(root, ".running"), "w").write("" if lockkind == "empty" else os.path.join(root, "2019-01-01.1") + "\n")
        before = snapshot(root)
        args = ["-m", "canvas", "-C", conf] + ([str(count_arg)] if count_arg is not None else [])
        rc, out, err = sh.run_script("robsd-clean", args, extra=dict(ROBSDCONF=conf))
        after = snapshot(root)
        n = count_arg if count_arg else keep_conf
        listing = sorted(invs, reverse=True)
        # ---- oracle: the property
        if n == 0:
            want_kept = list(listing)
        elif running:
            others = [x for x in listing if x != running]
            want_kept = [running] + others[:n - 1]
        else:
            want_kept = listing[:n]
        want_removed = [x for x in listing if x not in want_kept]
        now = [x for x in invs if os.path.isdir(os.path.join(root, x))]
        if rc != 0 or sorted(now) != sorted(want_kept):
            ctx.violation("after robsd-clean (retention %d, running %s) the root holds %s, expected %s" % (n, running, sorted(now, reverse=True), sorted(want_kept, reverse=True)),
                          dict(invocations=listing, keep_conf=keep_conf, count_arg=count_arg, attic=attic_on, rc=rc, strays=strays, lock_file=lockkind, root_spelled=spell[len(root):] or "(plain)",
                               links={s0: os.readlink(os.path.join(root, s0)) for s0 in strays if os.path.islink(os.path.join(root, s0))},
                               stdout=out.decode(errors="replace")[-400:], stderr=err.decode(errors="replace")[-400:]))
        for x in want_removed:
            an = os.path.join(root, "attic", x.replace("-", "/"))
            if attic_on:
                # every entry of the attic copy, of whatever type (directories with a trailing slash)
                files = None
                if os.path.isdir(an):
                    files = []
                    for dp, dn, fn in os.walk(an):
                        for e in dn + fn:
                            pe = os.path.join(dp, e)
                            files.append(os.path.relpath(pe, an) + ("/" if os.path.isdir(pe) and not os.path.islink(pe) else ""))
                    files.sort()
                keepf = [f for f in KEEP_FILES if (x + "/" + f) in before]
                wantf = sorted(set(keepf) | {"/".join(f.split("/")[:i]) + "/" for f in keepf for i in range(1, len(f.split("/")))})
                if files != wantf:
                    ctx.violation("attic copy of %s holds %s, expected exactly %s" % (x, files, wantf), dict(invocations=listing, n=n))
            elif os.path.exists(an):
                ctx.violation("keep-attic no, but %s reappeared in the attic" % x, dict(invocations=listing))
        # nothing else removed or modified
        for rel, content in before.items():
            top = rel.split("/")[0]
            if top in want_removed or top in ("attic", ".running"):
                continue
            if after.get(rel) != content:
                ctx.violation("'%s' was removed or modified by cleaning" % rel, dict(invocations=listing, n=n, removed=want_removed))
                break
        reqs.append("clean %d %s %s" % (n, hexb((os.path.join(root, running)).encode()) if running else "!",
                                        ",".join(hexb(os.path.join(root, x).encode()) for x in listing) or "."))
        obs.append(",".join(hexb(os.path.join(root, x).encode()) for x in listing if x not in now))
        kinds["%s-%s" % ("attic" if attic_on else "rm", "running" if running else "idle")] = kinds.get("%s-%s" % ("attic" if attic_on else "rm", "running" if running else "idle"), 0) + 1
        if want_removed:
            distinct.add((tuple(listing), running, n, attic_on))
    ans = ctx.model(reqs) if reqs else []
    for q, a, want in zip(reqs, ans, obs):
        if a != want:
            ctx.disagreement("Clean.cleaned vs robsd-clean under bash", dict(request=q[:300], impl=want, model=a))
    ctx.cov.update(dict(
        evaluations=len(reqs), distinct_nontrivial=len(distinct),
        rule="roots with 0-14 invocations (several per day), preserved and non-preserved files, stray files and hidden directories, existing attic content, "
             "running or not (lock names an existing invocation), retention from the configuration (0-5) and/or the command line (0-20), attic on/off; "
             "non-trivial = distinct case where something is removed; the tree before/after robsd-clean (bash, shims) is compared with the property and the set "
             "of removed invocations with the model",
        samples=[dict(request=q[:200], removed=w[:200]) for q, w in list(zip(reqs, obs))[:: max(1, len(reqs) // 4)][:4]],
        traces_validated_against_impl=len(reqs), outcome_kinds=kinds))
