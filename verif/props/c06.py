"""C06: step and hook commands get their exact arguments; exit status is faithful."""
import os
import signal
import shutil
import subprocess

from .. import core
from ..core import hexb

MODULES = ["Robsd.Props.C06"]
GENS = ["Consts"]
LITS = ["a", "a b", "  two  spaces ", "'q'", '"dq"', "*", "?", "[x]", "~", "a;b", "$(id)", "`id`", "-x", "--", "x=y", "\\n", "tab\there", "é", "{", "}"]
VARS = ["canvas-name", "robsddir", "canvas-dir", "keep-dir", "tmp-dir", "trace", "exec-dir", "skip", "arch", "report-path"]
SIGS = [1, 2, 3, 6, 9, 10, 11, 12, 13, 14, 15]


def read_argv(path):
    """list of argv lists recorded by the probe"""
    if not os.path.exists(path):
        return []
    out, cur, want = [], None, 0
    for l in open(path).read().split("\n"):
        if l.startswith("argc "):
            cur = []
            want = int(l.split()[1])
            out.append(cur)
        elif l and cur is not None and len(cur) < want:
            cur.append("" if l == "-" else l)
    return out


def gen_arg(rng):
    parts = []
    if rng.random() < 0.07:
        # long arguments: around and beyond 1 KiB after interpolation
        n = rng.choice([900, 1000, 1023, 1024, 1025, 1100, 2048, 5000])
        body = "".join(rng.choice("abcxyz /-_.") for _ in range(n))
        return body if rng.random() < 0.5 else body[: n // 2] + "${%s}" % rng.choice(VARS) + body[n // 2:]
    for _ in range(rng.randint(1, 3)):
        k = rng.random()
        if k < 0.55:
            parts.append(rng.choice(LITS))
        elif k < 0.93:
            parts.append("${%s}" % rng.choice(VARS))
        elif k < 0.97:
            parts.append("${nope}")
        else:
            parts.append(rng.choice(["$", "${", "${}"]))
    return "".join(parts)


def conf_quote(s):
    return '"' + s + '"'


def run(ctx):
    ctx.translate(GENS)
    ctx.lake_build(MODULES)
    ctx.audit(MODULES)
    rng = ctx.rng
    d = ctx.build_repo("asan")
    probe = ctx.cc_harness("argvprobe", ["argvprobe.c"], flavour="plain")
    # the invocation root has a space and a tab-free odd name: ${builddir} and what derives from it must reach
    # the commands whole
    root = os.path.join(ctx.scratch, "c06 root")
    shutil.rmtree(root, ignore_errors=True)
    os.makedirs(root)
    bdir = os.path.join(root, "2024-01-01.1")
    os.makedirs(bdir)
    open(os.path.join(root, ".running"), "w").write(bdir + "\n")
    stubs = os.path.join(root, "exec")
    os.makedirs(stubs)
    fakebin = os.path.join(root, "fakebin")
    os.makedirs(fakebin)
    shutil.copy(probe, os.path.join(fakebin, "sh"))
    arch = subprocess.run(["grep", "MACHINE_ARCH", os.path.join(d, "config.h")], capture_output=True, text=True).stdout.split('"')[1]
    machine = subprocess.run(["grep", "-w", "MACHINE", os.path.join(d, "config.h")], capture_output=True, text=True).stdout.split('"')[1]
    argv_out = os.path.join(root, "argv.out")
    reqs, obs = [], []
    kinds = {}
    distinct = set()
    n = ctx.n(160, 4000)
    for t in range(n):
        mode = "canvas" if t % 4 != 3 else rng.choice(["robsd", "robsd-cross", "robsd-ports", "robsd-regress", "robsd-regress", "robsd-regress"])
        forced = {3: "end", 7: "last-test", 11: "umount", 15: "last-test"}.get(t)     # always: a mostly serial regress schedule, asked for its tail
        if forced:
            mode = "robsd-regress"
        trace = rng.random() < 0.4
        skip = rng.sample(["s0", "zz", "x y"], rng.randint(0, 2))
        env = {"canvas-name": "the name", "robsddir": root, "canvas-dir": root, "keep-dir": "${robsddir}/attic", "tmp-dir": "${builddir}/tmp",
               "builddir": bdir, "trace": "-x" if trace else "", "exec-dir": stubs, "skip": " ".join(skip), "arch": arch, "report-path": "${builddir}/report"}
        if os.path.exists(argv_out):
            os.unlink(argv_out)
        st = rng.random()
        penv = dict(os.environ, EXECDIR=stubs, VERIF_ARGV_OUT=argv_out, ASAN_OPTIONS="detect_leaks=0")
        if st < 0.45:
            code = rng.choice([0, 0, 1, 2, 7, 124, 126, 127, 128, 129, 255, rng.randint(0, 255)])
            penv["VERIF_EXIT"] = str(code)
            stw = "e%d" % code
        elif st < 0.7:
            sig = rng.choice(SIGS)
            penv["VERIF_SIG"] = str(sig)
            stw = "s%d" % sig
        else:
            stw = "e0"
        if mode == "canvas":
            steps = []
            for i in range(rng.randint(1, 5)):
                args = [probe] + [gen_arg(rng) for _ in range(rng.randint(0, 11))]
                if rng.random() < 0.06:
                    args = ["/nonexistent/cmd"] + args[1:]
                steps.append(("s%d" % i if rng.random() < 0.9 else "s0", args))
            body = 'canvas-name "the name"\ncanvas-dir "%s"\n' % root
            if skip:
                body += "skip { %s }\n" % " ".join(conf_quote(x) for x in skip)
            for nm, args in steps:
                body += 'step "%s" command { %s }\n' % (nm, " ".join(conf_quote(a) for a in args))
            sched = steps + [("end", ["sh", "-eu", "${trace}", "/dev/null", "end"])]
            name = rng.choice([s[0] for s in steps] + ["end", "nosuch", "s"])
            if any('"' in a for _, args in steps for a in args):
                continue
        else:
            body = {"robsd": 'robsddir "%s"\ndestdir "%s"\nbsd-srcdir "%s"\ncvs-root "x:/cvs"\ncvs-user "nobody"\nx11-srcdir "%s"\n' % (root, root, root, root),
                    "robsd-cross": 'robsddir "%s"\ncrossdir "%s"\nbsd-srcdir "%s"\n' % (root, root, root),
                    "robsd-ports": 'robsddir "%s"\nchroot "%s"\ncvs-root "x:/cvs"\ncvs-user "nobody"\nports-dir "/ports"\nports-user "nobody"\nports { "devel/robsd" }\n' % (root, root),
                    "robsd-regress": 'robsddir "%s"\nbsd-srcdir "%s"\ncvs-user "nobody"\n' % (root, root)}[mode]
            rtests = []
            if mode == "robsd-regress":
                # 1-20 tests, some of them no-parallel: the schedule is the fixed steps around them
                rtests = ["bin/ksh", "lib/libc", "lib/libcrypto"][:rng.randint(1, 3)] + ["t/s%d" % i for i in range(rng.choice([0, 3, 9, 17, 25]))]
                q = rng.choice([0.1, 0.5, 0.9, 1.0])      # from nearly all parallel to all serial
                if forced:
                    q = 1.0 if t != 15 else 0.85
                    rtests = ["bin/ksh", "lib/libc"] + ["t/s%d" % i for i in range(9 if t != 15 else 25)]
                for tn in rtests:
                    body += 'regress "%s"%s\n' % (tn, " no-parallel" if rng.random() < q else "")
            r = subprocess.run([os.path.join(d, "robsd-step"), "-L", "-m", mode, "-C", "/dev/stdin"], input=body.encode(), capture_output=True,
                               env=dict(os.environ, ASAN_OPTIONS="detect_leaks=0"))
            names = [l.split(" ")[1] for l in r.stdout.decode().split("\n") if l]
            scripts = {"env": "robsd-env.sh", "end": None}
            sched = []
            for nm in names:
                if mode == "robsd-regress" and "/" in nm:
                    sched.append((nm, ["sh", "-eu", "${trace}", "${exec-dir}/robsd-regress-exec.sh", nm]))
                else:
                    sched.append((nm, None))
            # what must be a step whatever -L prints: every configured test, and the fixed steps around them
            must = rtests + (["env", "end", "umount", "dmesg"] if mode == "robsd-regress" else ["env", "end"])
            for nm in must:
                if nm not in [x[0] for x in sched]:
                    sched.append((nm, ["sh", "-eu", "${trace}", "${exec-dir}/robsd-regress-exec.sh", nm] if nm in rtests else None))
            name = rng.choice(names + ["nosuch", "lib/lib"]) if rng.random() < 0.4 else rng.choice(must[-6:] if rng.random() < 0.6 else must)
            if forced:
                name = rtests[-1] if forced == "last-test" else forced
        conf = os.path.join(root, "t.conf")
        with open(conf, "w") as f:
            f.write(body)
        argv = [os.path.join(d, "robsd-exec"), "-m", mode, "-C", conf] + (["-x"] if trace else []) + [name]
        penv["PATH"] = fakebin + ":" + os.environ.get("PATH", "")
        # the invoker's disposition of SIGCHLD is inherited: every seventh run starts the runner with it ignored
        chld_ign = (t % 7 == 3)
        rc, out, err = core.run_cmd(argv, env=penv, timeout=30,
                                    preexec_fn=(lambda: signal.signal(signal.SIGCHLD, signal.SIG_IGN)) if chld_ign else None)
        if chld_ign:
            kinds["runner-started-with-SIGCHLD-ignored"] = kinds.get("runner-started-with-SIGCHLD-ignored", 0) + 1
            body = "# robsd-exec started by a process that ignores SIGCHLD\n" + body
        rep = core.sanitizer_report(err)
        ran = read_argv(argv_out)
        if rep or not isinstance(rc, int) or rc < 0:
            ctx.violation("robsd-exec: abnormal termination (rc=%s) instead of a diagnostic and a non-zero exit status" % rc,
                          dict(cmd="robsd-exec -m %s -C CONF %s%s" % (mode, "-x " if trace else "", name), conf=body, rc=rc,
                               report=rep or err.decode(errors="replace")[-300:]))
            continue
        kinds["%s-%s" % (mode, "ran" if ran else "notrun")] = kinds.get("%s-%s" % (mode, "ran" if ran else "notrun"), 0) + 1
        if mode == "canvas":
            req = "exec step %s %s env=%s sched=%s" % (
                hexb(name.encode()), "x" if (name in [s[0] for s in steps] and dict((a, b) for a, b in reversed(steps))[name][0].startswith("/nonexistent")) else stw,
                ",".join("%s:%s" % (hexb(k.encode()), hexb(v.encode())) for k, v in env.items()),
                ",".join("%s:%s" % (hexb(nm.encode()), ";".join(hexb(a.encode()) for a in args) or ".") for nm, args in sched))
            got = ("ran %d %s" % (rc, ";".join(a or "-" for a in ran[0]))) if ran else "notrun %d" % rc
            if not ran and rc != 0 and name in [s[0] for s in steps] and req.split()[3] == "x":
                got = "ran %d %s" % (rc, "")  # exec failed in the child: nothing recorded; compare exit only
                req_model_only_exit = True
            else:
                req_model_only_exit = False
            reqs.append(req)
            obs.append((got, req_model_only_exit, body))
        # ---- oracle (model-free) ----
        first = None
        if mode == "canvas":
            for nm, args in steps:
                if nm == name:
                    first = args
                    break
            if name == "end":
                first = ["sh", "-eu", "${trace}", "/dev/null", "end"]
        else:
            for nm, args in sched:
                if nm == name:
                    first = args if args is not None else "script"
                    break
        simple = first is not None and first != "script" and all("$" not in a for a in first) and all("$" not in a for nm, args in (steps if mode == "canvas" else []) for a in args)
        if first is None:
            if rc == 0 or ran or not err:
                ctx.violation("unknown step '%s': expected non-zero exit, a diagnostic and nothing run (rc=%s)" % (name, rc), dict(conf=body, ran=ran))
        elif mode != "canvas" and (first == "script" or (isinstance(first, list) and first[-1] == name and first[-2].endswith("robsd-regress-exec.sh"))):
            # sh -eu [-x] <execdir>/<script> <name>
            if not ran:
                ctx.violation("configured step '%s' of %s was not launched: robsd-exec exited %s (%s)" % (name, mode, rc, err.decode(errors="replace").strip()[-120:]),
                              dict(conf=body, mode=mode, trace=trace))
            if ran:
                a = [bytes.fromhex(x).decode() for x in ran[0]]
                ok = a[0] == "sh" and a[1] == "-eu" and a[-1] == name and (a[-2].startswith(stubs + "/robsd-") or (name == "end" and a[-2] == "/dev/null")) and (a[2] == "-x") == trace and len(a) == (5 if trace else 4)
                if not ok:
                    ctx.violation("script step '%s' launched with %s" % (name, a), dict(mode=mode, trace=trace))
                distinct.add((mode, name, trace))
        elif simple and not first[0].startswith("/nonexistent"):
            want = [a for a in first if a != ""]
            got_args = [bytes.fromhex(x).decode() if x else "" for x in ran[0]] if ran else None
            if got_args != want:
                ctx.violation("command of step '%s' received %s, configured %s" % (name, got_args, want), dict(conf=body))
        if ran and "VERIF_SIG" in penv and rc != 128 + int(penv["VERIF_SIG"]):
            ctx.violation("command died by signal %s, runner exited %s (expected %d)" % (penv["VERIF_SIG"], rc, 128 + int(penv["VERIF_SIG"])), dict(conf=body, name=name))
        if ran and "VERIF_EXIT" in penv and rc != int(penv["VERIF_EXIT"]):
            ctx.violation("command exited %s, runner exited %s" % (penv["VERIF_EXIT"], rc), dict(conf=body, name=name))
        if ran:
            distinct.add((tuple(ran[0]), rc))
    # ---- hook
    nh = ctx.n(60, 1500)
    for t in range(nh):
        if os.path.exists(argv_out):
            os.unlink(argv_out)
        has = rng.random() < 0.85
        hook = [probe] + [gen_arg(rng) if rng.random() < 0.8 else rng.choice(["${step-name}", "${step-exit}", "${trace}", "${trace}"]) for _ in range(rng.randint(0, 8))]
        if rng.random() < 0.1:
            hook = []
        if any('"' in a for a in hook):
            continue
        body = 'canvas-name "the name"\ncanvas-dir "%s"\nstep "s0" command { "true" }\n' % root
        if has:
            body += "hook { %s }\n" % " ".join(conf_quote(a) for a in hook)
        conf = os.path.join(root, "h.conf")
        with open(conf, "w") as f:
            f.write(body)
        vs = {"step-name": rng.choice(["env", "a b", "lib/libc"]), "step-exit": str(rng.choice([0, 1, 124]))}
        # -v may also name a variable that only has a default (arch, machine, exec-dir, ...): the given value wins
        if t % 5 == 2:
            vs.update(rng.choice([{"arch": "m88k"}, {"machine": "vax", "arch": "vax"}, {"exec-dir": "/elsewhere"}]))
            hook = hook + ["${arch}/${machine}", "${exec-dir}"] if hook else hook
            if has and hook:
                body = 'canvas-name "the name"\ncanvas-dir "%s"\nstep "s0" command { "true" }\n' % root + "hook { %s }\n" % " ".join(conf_quote(a) for a in hook)
                with open(conf, "w") as f:
                    f.write(body)
        env = {"canvas-name": "the name", "robsddir": root, "canvas-dir": root, "keep-dir": "${robsddir}/attic", "tmp-dir": "${builddir}/tmp",
               "builddir": bdir, "trace": "", "exec-dir": stubs, "skip": "", "arch": arch, "machine": machine, "report-path": "${builddir}/report"}
        env.update(vs)
        code = rng.choice([0, 0, 3])
        argv = [os.path.join(d, "robsd-hook"), "-m", "canvas", "-C", conf] + sum([["-v", "%s=%s" % kv] for kv in vs.items()], [])
        rc, out, err = core.run_cmd(argv, env=dict(os.environ, EXECDIR=stubs, VERIF_ARGV_OUT=argv_out, VERIF_EXIT=str(code), ASAN_OPTIONS="detect_leaks=0"))
        rep = core.sanitizer_report(err)
        if rep or not isinstance(rc, int) or rc < 0:
            ctx.violation("robsd-hook: abnormal termination", dict(conf=body, rc=rc, report=rep))
            continue
        ran = read_argv(argv_out)
        got = ("exec %s" % ";".join(a or "-" for a in ran[0])) if ran else ("nothing" if rc == 0 else "error")
        reqs.append("exec hook %d env=%s hook=%s" % (1 if has else 0, ",".join("%s:%s" % (hexb(k.encode()), hexb(v.encode())) for k, v in env.items()),
                                                  ",".join(hexb(a.encode()) for a in hook) or "."))
        obs.append((got, False, body))
        kinds["hook-" + got.split()[0]] = kinds.get("hook-" + got.split()[0], 0) + 1
        if (not has or not hook) and (ran or rc != 0):
            ctx.violation("no hook configured, but robsd-hook ran something or failed (rc=%s)" % rc, dict(conf=body, ran=ran))
        if ran and rc != code:
            ctx.violation("hook exited %d, robsd-hook exited %s" % (code, rc), dict(conf=body))
    ans = ctx.model(reqs) if reqs else []
    for q, a, (want, exit_only, body) in zip(reqs, ans, obs):
        if exit_only:
            if a.split()[1] != want.split()[1]:
                ctx.disagreement("Exec.stepExec vs robsd-exec (exec failure)", dict(request=q[:300], impl=want, model=a, conf=body))
        elif a.strip() != want.strip():
            ctx.disagreement("Exec model vs robsd-exec/robsd-hook", dict(request=q[:300], impl=want[:500], model=a[:500], conf=body))
    ctx.cov.update(dict(
        evaluations=n + nh, distinct_nontrivial=len(distinct),
        rule="canvas steps with 1-12 arguments built from literals (spaces, quotes, glob characters, shell metacharacters) and ${variable} references "
             "(string, list-valued ${skip}, nested defaults, empty ${trace}, unknown, malformed), duplicate step names, unknown names, unresolvable commands; "
             "script steps of the four other modes run through a recording `sh`; exit codes 0..255 and 11 terminating signals; hook lists incl. empty and "
             "unset; non-trivial = distinct (argv received, exit status); the argv the command really received (hex dump by a probe) and the exit status are compared "
             "with the model and with the property directly",
        samples=[dict(request=q[:240], impl=w[:160]) for q, (w, _, _) in list(zip(reqs, obs))[:: max(1, len(reqs) // 4)][:4]],
        traces_validated_against_impl=len(reqs), outcome_kinds=kinds))
    ctx.trusted += ["kernel execve passes argv unchanged; wait status macros (WIFEXITED/WTERMSIG)"]
