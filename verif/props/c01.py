"""C01: step file writes round-trip: what was written is what is read back."""
import os
import shutil
import subprocess

from .. import core
from ..core import hexb

MODULES = ["Robsd.Props.C01"]
GENS = ["StepFields", "Consts"]

FIELDS = ["step", "name", "exit", "duration", "delta", "log", "user", "time", "skip"]
INTF = {"step", "exit", "duration", "delta", "time", "skip"}
STRF = {"name", "log", "user"}
DEFAULTS = {"delta": 0, "log": b"", "skip": 0}
I64 = (-(1 << 63), (1 << 63) - 1)

STR_VALUES = [b"env", b"cvs", b"kernel", b"end", b"a b", b"001-env.log", b"sub/dir-x.log", b"root", b"a=b", b"=", b"x\"y", b"'q'", b" lead", b"trail ",
              b"a,b", b",", b"a\nb", b"\n", b"$", b"${user}", b"${nope}", b"${name}", b"a$b", b"", b"", b"#c", b"\t", b"\xc3\xa5", b"1", b"-1", b"+7"]
INT_VALUES = [b"0", b"1", b"-1", b"124", b"255", b"+7", b" 7", b"\t-3", b"007", b"-0", b"9223372036854775807", b"-9223372036854775808",
              b"9223372036854775808", b"-9223372036854775809", b"", b"x", b"1x", b"1 ", b"--1", b"+", b"1e3", b"0x10", b"1700000000", b"3600", b"4294967296"]


def py_strtonum(v):
    s = v.lstrip(b" \t\n\v\f\r")
    neg = False
    if s[:1] in (b"-", b"+"):
        neg = s[:1] == b"-"
        s = s[1:]
    if not s or not s.isdigit() or not all(48 <= c <= 57 for c in s):
        return None
    x = int(s)
    x = -x if neg else x
    return x if I64[0] <= x <= I64[1] else None


def gen_kv(rng, hostile):
    f = rng.choice(FIELDS[1:] if rng.random() < 0.97 else FIELDS)
    if rng.random() < 0.03:
        return rng.choice([b"nokey", b"bogus=1", b"=x", b"name", b"Name=x"])
    if f in INTF:
        v = rng.choice(INT_VALUES) if rng.random() < hostile else str(rng.choice([0, 1, 2, 60, 3600, -1, 124, 1700000000 + rng.randint(0, 99999)])).encode()
    else:
        v = rng.choice(STR_VALUES) if rng.random() < hostile else rng.choice([b"env", b"cvs", b"patch", b"kernel", b"end", b"root", b"build", b"001-env.log", b"rel/003-kernel.log"])
    return f.encode() + b"=" + v


def gen_write(rng, ids, hostile):
    """one -W command: (id, [kv...])"""
    if ids and rng.random() < 0.45:
        i = rng.choice(sorted(ids))
    else:
        i = rng.choice([1, 2, 3, 4, 5, 7, 10, 11, 100, -1, 2147483647, -2147483647, 2000000000, -2000000000, 2147483648, 0])
    if i in ids or rng.random() < 0.15:
        kvs = [gen_kv(rng, hostile) for _ in range(rng.randint(1, 4))]
        if i in ids and rng.random() < 0.12:
            # re-key an existing row onto a fresh id: the first, a middle or the last row moves elsewhere
            fresh = [x for x in (6, 8, 9, 12, 50, 99, 101, 1000, -5) if x not in ids]
            if fresh:
                kvs.insert(rng.randint(0, len(kvs)), b"step=%d" % rng.choice(fresh))
    else:
        # a complete new row, as step_write produces it
        kvs = [b"name=" + rng.choice([b"env", b"cvs", b"patch", b"kernel", b"end"]), b"exit=" + str(rng.choice([0, 0, 1, -1, 124])).encode(),
               b"duration=" + str(rng.choice([0, 5, 3600, -1])).encode(), b"user=root", b"time=17000000%02d" % rng.randint(0, 99)]
        if rng.random() < 0.5:
            kvs.append(b"log=%03d-x.log" % rng.randint(0, 999))
        if rng.random() < 0.5:
            kvs.append(b"skip=" + rng.choice([b"0", b"1"]))
        if rng.random() < hostile:
            kvs.insert(rng.randint(0, len(kvs)), gen_kv(rng, 1.0))
        if rng.random() < 0.1:
            del kvs[rng.randint(0, len(kvs) - 1)]
    return i, kvs


class Spec:
    """model-free reference: id -> field dict, updated by accepted writes"""

    def __init__(self):
        self.rows = {}

    def apply(self, i, kvs):
        """returns (new rows dict) assuming the write was accepted, or None when the
        arguments are ones the property says must be rejected"""
        row = dict(self.rows.get(i, dict(DEFAULTS, step=i)))
        for kv in kvs:
            if b"=" not in kv:
                return None
            k, v = kv.split(b"=", 1)
            k = k.decode(errors="replace")
            if k not in FIELDS:
                return None
            if k in INTF:
                x = py_strtonum(v)
                if x is None:
                    return None
                row[k] = x
            else:
                row[k] = v
        new = dict(self.rows)
        new.pop(i, None)
        if row["step"] in new:
            return "clash"
        new[row["step"]] = row
        return new


TEMPLATE = b"".join(b"%s=<${%s}>\n" % (f.encode(), f.encode()) for f in FIELDS)


def expected_read(row):
    out = b""
    for f in FIELDS:
        v = row[f]
        out += b"%s=<%s>\n" % (f.encode(), str(v).encode() if f in INTF else v)
    return out


def run(ctx):
    ctx.translate(GENS)
    ctx.lake_build(MODULES)
    ctx.audit(MODULES)
    rng = ctx.rng
    d = ctx.build_repo("asan")
    step = os.path.join(d, "robsd-step")
    work = os.path.join(ctx.scratch, "c01")
    os.makedirs(work, exist_ok=True)
    path = os.path.join(work, "step.csv")
    nhist = ctx.n(120, 4000)
    evals = 0
    kinds = {"accepted": 0, "rejected": 0, "reads": 0, "fault": 0}
    distinct = set()
    samples = []
    mreq = []     # model requests, answered in one batch at the end
    mexp = []     # (impl answer, description)

    def rd():
        with open(path, "rb") as f:
            return f.read()

    for h in range(nhist):
        open(path, "wb").close()
        spec = Spec()
        hostile = rng.choice([0.0, 0.1, 0.3, 0.6])
        hist = []
        for w in range(rng.randint(1, 12)):
            i, kvs = gen_write(rng, set(spec.rows), hostile)
            before = rd()
            argv = [step, "-W", "-f", path, "-i", str(i), "--"] + [kv for kv in kvs]
            try:
                rc, out, err = core.run_cmd(argv)
            except ValueError:
                continue  # NUL in argument: not expressible
            evals += 1
            after = rd()
            hist.append(dict(id=i, kvs=[kv.hex() for kv in kvs], rc=rc))
            rep = core.sanitizer_report(err)
            if rep or rc not in (0, 1):
                ctx.violation("robsd-step -W: abnormal termination", dict(history=hist, rc=rc, report=rep))
                break
            mreq.append("step write %s %d ok %s" % (hexb(before), i, " ".join(hexb(kv) for kv in kvs)))
            mexp.append(("%d %s" % (rc, hexb(after)), dict(history=list(hist))))
            if rc != 0:
                kinds["rejected"] += 1
                if after != before:
                    ctx.violation("rejected write (exit %d) changed the file" % rc,
                                  dict(history=hist, before=before.hex(), after=after.hex(), cmd="robsd-step -W -f F -i %d -- %s" % (i, kvs)))
                continue
            kinds["accepted"] += 1
            new = spec.apply(i, kvs) if -2147483647 <= i <= 2147483647 and i != 0 else None
            if new is None:
                ctx.violation("write with invalid arguments was accepted (exit 0)", dict(history=hist))
                break
            if new == "clash":
                break  # duplicate ids: outside the property's terms (id is the key)
            spec.rows = new
            distinct.add((i, tuple(kvs)))
            # the oracle: the file is readable, rows ascending, every field reads back as last written
            ids = sorted(spec.rows)
            ok = True
            for pos, rid in enumerate(ids, 1):
                for sel in (["-i", str(pos)], ["-i", str(pos - len(ids) - 1)]):
                    rc2, out2, err2 = core.run_cmd([step, "-R", "-f", path] + sel, stdin=TEMPLATE)
                    evals += 1
                    kinds["reads"] += 1
                    mreq.append("step read %s i:%s %s" % (hexb(after), sel[1], hexb(TEMPLATE)))
                    mexp.append(("%d %s" % (rc2, hexb(out2)), dict(history=list(hist), read=sel)))
                    want = expected_read(spec.rows[rid])
                    if rc2 != 0 or out2 != want:
                        ctx.violation("after an accepted write, reading row %s does not return what was written" % sel[1],
                                      dict(history=hist, file=after.hex(), read=sel, rc=rc2, got=out2.hex(), want=want.hex(),
                                           stderr=err2.decode(errors="replace")[-300:]))
                        ok = False
                        break
                if not ok:
                    break
            if not ok:
                break
            if rng.random() < 0.3 and spec.rows:
                rid = rng.choice(ids)
                nm = spec.rows[rid]["name"]
                if nm and b"\0" not in nm:
                    rc2, out2, err2 = core.run_cmd([step, "-R", "-f", path, "-n", nm.decode(errors="surrogateescape")], stdin=b"${step}\n")
                    mreq.append("step read %s n:%s %s" % (hexb(after), hexb(nm), hexb(b"${step}\n")))
                    mexp.append(("%d %s" % (rc2, hexb(out2)), dict(history=list(hist), read=["-n", nm.hex()])))
                    first = min(r for r in ids if spec.rows[r]["name"] == nm)
                    if rc2 != 0 or out2 != b"%d\n" % first:
                        ctx.violation("reading by name does not find the row", dict(history=hist, name=nm.hex(), got=out2.hex()))
        if len(samples) < 4 and hist:
            samples.append(dict(history=hist, final_file=rd().decode(errors="replace")))

    # -- write failure injected at the final flush (strace fault injection on writes to the step file)
    nfault = ctx.n(12, 300)
    fired = 0
    for k in range(nfault):
        open(path, "wb").close()
        for i in range(1, rng.randint(2, 4)):
            core.run_cmd([step, "-W", "-f", path, "-i", str(i), "--", "name=s%d" % i, "exit=0", "duration=1", "user=root", "time=1"])
        before = rd()
        i = rng.randint(1, 5)
        argv = ["strace", "-f", "-o", "/dev/null", "-P", path, "-e", "trace=write", "-e", "inject=write:error=ENOSPC",
                step, "-W", "-f", path, "-i", str(i), "--", "name=new", "exit=1", "duration=2", "user=root", "time=2"]
        rc, out, err = core.run_cmd(argv, env=dict(os.environ, ASAN_OPTIONS="detect_leaks=0"))
        after = rd()
        evals += 1
        kinds["fault"] += 1
        if after != before and rc == 0:
            # did the file take the new state?
            rc2, out2, _ = core.run_cmd([step, "-R", "-f", path, "-n", "new"], stdin=b"${exit}\n")
            if rc2 != 0 or out2 != b"1\n":
                ctx.violation("write exited 0 although the file system refused the write; the file does not hold the new state",
                              dict(cmd=" ".join(argv[:11]) + " robsd-step -W -f F -i %d -- name=new exit=1 duration=2 user=root time=2" % i,
                                   before=before.hex(), after=after.hex(), rc=rc))
                break
        if rc != 0:
            fired += 1
            mreq.append("step write %s %d fail:%s %s" % (hexb(before), i, hexb(after),
                                                         " ".join(hexb(x) for x in [b"name=new", b"exit=1", b"duration=2", b"user=root", b"time=2"])))
            mexp.append(("%d %s" % (rc, hexb(after)), dict(fault="ENOSPC on write", id=i)))

    # -- a file larger than one stdio block, the fault hitting the second and later write(2) calls
    for k in range(ctx.n(4, 60)):
        nrows = rng.randint(150, 700)
        with open(path, "wb") as f:
            f.write(b"step,name,exit,duration,delta,log,user,time,skip\n")
            for i in range(1, nrows + 1):
                f.write(b"%d,step-number-%d,0,%d,0,%03d-step-number-%d.log,root,17000%05d,0\n" % (i, i, i % 97, i, i, i))
        before = rd()
        i = rng.randint(1, nrows + 1)
        argv = ["strace", "-f", "-o", "/dev/null", "-P", path, "-e", "trace=write", "-e", "inject=write:error=ENOSPC:when=%d+" % rng.choice([2, 2, 3]),
                step, "-W", "-f", path, "-i", str(i), "--", "name=new", "exit=1", "duration=2", "user=root", "time=2"]
        if k % 2 == 0:
            rc, out, err = core.run_cmd(argv, env=dict(os.environ, ASAN_OPTIONS="detect_leaks=0"))
        else:
            # a genuinely partial write: RLIMIT_FSIZE below the new size, SIGXFSZ ignored (write(2) returns short, then EFBIG)
            import resource
            import signal
            lim = rng.choice([4096, 8192, 12288, len(before) // 2])

            def pre():
                signal.signal(signal.SIGXFSZ, signal.SIG_IGN)
                resource.setrlimit(resource.RLIMIT_FSIZE, (lim, lim))
            r = subprocess.run(argv[10:], capture_output=True, preexec_fn=pre, env=dict(os.environ, ASAN_OPTIONS="detect_leaks=0"))
            rc, out, err = r.returncode, r.stdout, r.stderr
        after = rd()
        evals += 1
        kinds["fault"] += 1
        if rc == 0:
            rc2, out2, _ = core.run_cmd([step, "-R", "-f", path, "-n", "new"], stdin=b"${exit}\n")
            rc3, out3, _ = core.run_cmd([step, "-R", "-f", path, "-i", "-1"], stdin=b"${step}\n")
            if rc2 != 0 or out2 != b"1\n" or rc3 != 0:
                ctx.violation("write exited 0 although a later write(2) of the flush was refused; the file does not hold the new state",
                              dict(cmd="strace -P F -e trace=write -e inject=write:error=ENOSPC:when=2+ robsd-step -W -f F -i %d -- name=new exit=1 duration=2 user=root time=2" % i,
                                   rows=nrows, size_before=len(before), size_after=len(after), rc=rc))
                break
        else:
            fired += 1

    if mreq:
        ans = ctx.model(mreq)
        for q, a, (want, info) in zip(mreq, ans, mexp):
            if a != want:
                ctx.disagreement("StepFile model vs robsd-step (%s)" % q.split()[1], dict(request=q[:2000], impl=want[:2000], model=a[:2000], info=info))
    ctx.cov.update(dict(
        evaluations=evals, distinct_nontrivial=len(distinct),
        rule="histories of 1-12 robsd-step -W commands on one file (new ids, replaced ids, partial updates, repeated keys, unknown keys, "
             "missing '=', ids at the int limits, re-keying via step=) with values drawn from a hostile alphabet (',', newline, '$', '${field}', "
             "'=', empty, leading '+'/space, 64-bit extremes, out-of-range) at rates 0/10/30/60 percent; after every accepted write every row is read back "
             "by positive and negative index (and by name); non-trivial = distinct accepted (id, args) write; plus strace ENOSPC injection on the "
             "final flush (faults fired: %d)" % fired,
        samples=samples, traces_validated_against_impl=len(mreq), outcome_kinds=kinds, faults_fired=fired))
    ctx.trusted += ["strace fault injection (write(2) on the step file returns ENOSPC) as the model of 'the file system refuses the write'",
                    "kernel O_TRUNC/write semantics; qsort treated as a stable sort for equal ids (glibc merge sort)"]
    ctx.assumptions += ["re-keying a row onto an existing id (step=<other id>) leaves the property's terms; such histories end there"]
