"""C07: termination and timeout take down the whole step process group (partial: the kernel's part is sampled)."""
import os
import shutil
import signal
import subprocess
import time

from .. import core

MODULES = ["Robsd.Props.C07"]
GENS = ["Consts"]
LEVEL = "proof"


def alive(pid):
    try:
        st = open("/proc/%d/stat" % pid).read()
    except OSError:
        return False
    # a zombie no longer runs
    return st.rsplit(")", 1)[1].split()[0] != "Z"


def gen_tree(rng, main_ignore, main_life, main_code):
    """members: (id, parent, ignore, life_ms, exit, delay_ms)"""
    mem = [(0, -1, 1 if main_ignore else 0, main_life, main_code, 0)]
    n = rng.randint(0, 5)
    for i in range(1, n + 1):
        parent = rng.choice([m[0] for m in mem])
        life = rng.choice([50, 200, 4000, 9000, 9000])       # some exit early, most outlive the event
        mem.append((i, parent, 1 if rng.random() < 0.25 else 0, life, 0, 0))
    if main_ignore:
        # a member with the default disposition that the lingering main process starts after the SIGTERM wave
        mem.append((len(mem), 0, 0, 9000, 0, rng.choice([1500, 2500, 3500])))
    return mem


WHAT = {"term-at-zombie": "SIGTERM arrived after the step's main process had exited, before the runner reaped it (other members of the group still running)",
        "timeout": "the regress timeout expired", "term-at-fork": "SIGTERM arrived right after the step was forked",
        "term-at-handshake": "SIGTERM arrived while the runner waited for the step's process group to appear",
        "term-at-waitpid": "SIGTERM arrived just before the runner started waiting", "term-wait": "SIGTERM arrived while the step ran",
        "term-wait-ignore": "SIGTERM arrived while the step ran (main process ignores it)"}


def default_survivors_of(survivors, mem):
    return [i for i in survivors if not mem[i][2]]


def run_case(exe, proc, shim, root, case):
    ev, mem, inherit, offset = case["ev"], case["mem"], case["inherit"], case["offset"]
    shutil.rmtree(root, ignore_errors=True)
    os.makedirs(os.path.join(root, "exec"))
    spec = ["%d:%d:%d:%d:%d:%d" % m for m in mem]
    if ev == "timeout":
        ser = case.get("serial")
        conf = 'robsddir "%s"\nbsd-srcdir "%s"\ncvs-user "nobody"\nregress "bin/ksh"%s\nregress-timeout 1s\n%s' % (
            root, root, " no-parallel" if ser == "no-parallel" else "", "parallel no\n" if ser == "parallel no" else "")
        with open(os.path.join(root, "exec", "robsd-regress-exec.sh"), "w") as f:
            f.write("exec %s %s 0 %s\n" % (proc, root, " ".join(spec)))
        argv = [exe, "-m", "robsd-regress", "-C", os.path.join(root, "t.conf"), "bin/ksh"]
    else:
        conf = 'canvas-name "t"\ncanvas-dir "%s"\nstep "s" command { "%s" "%s" "0" %s }\n' % (root, proc, root, " ".join('"%s"' % x for x in spec))
        argv = [exe, "-m", "canvas", "-C", os.path.join(root, "t.conf"), "s"]
    open(os.path.join(root, "t.conf"), "w").write(conf)
    bdir = os.path.join(root, "2024-01-01.1")
    os.makedirs(bdir)
    open(os.path.join(root, ".running"), "w").write(bdir + "\n")
    env = dict(os.environ, EXECDIR=os.path.join(root, "exec"))
    if ev in ("term-at-waitpid", "term-at-fork", "term-at-zombie", "term-at-handshake"):
        env["LD_PRELOAD"] = shim
        env["C07_RAISE_AT"] = ev.split("-")[-1]

    def pre():
        # the invoker's dispositions are inherited: a supervisor that ignores SIGTERM / SIGALRM
        if inherit:
            signal.signal(signal.SIGTERM, signal.SIG_IGN)
            signal.signal(signal.SIGALRM, signal.SIG_IGN)

    t0 = time.time()
    errf = open(os.path.join(root, "stderr"), "wb")
    if case.get("nostderr"):
        # the runner's output goes to a pipe (as under `| tee log`) whose reader is gone by the time the
        # request arrives; SIGPIPE at its default
        rfd, wfd = os.pipe()

        def pre2():
            pre()
            signal.signal(signal.SIGPIPE, signal.SIG_DFL)
        p = subprocess.Popen(argv, env=env, stdout=wfd, stderr=wfd, preexec_fn=pre2)
        os.close(wfd)
        os.close(rfd)
    else:
        p = subprocess.Popen(argv, env=env, stdout=subprocess.DEVNULL, stderr=errf, preexec_fn=pre)
    sent_at = None
    if ev in ("term-wait", "term-wait-ignore", "term-wait-nostderr"):
        while not os.path.exists(os.path.join(root, "pids")) and time.time() - t0 < 5:
            time.sleep(0.01)
        time.sleep(offset)
        sent_at = time.time() - t0
        p.send_signal(signal.SIGTERM)
    try:
        p.wait(timeout=40)
    except subprocess.TimeoutExpired:
        p.kill()
        p.wait()
    wall = time.time() - t0
    rc = p.returncode
    errf.close()
    time.sleep(0.25)
    err = open(os.path.join(root, "stderr"), "rb").read().decode(errors="replace")
    pids = {}
    if os.path.exists(os.path.join(root, "pids")):
        for l in open(os.path.join(root, "pids")).read().split("\n"):
            w = l.split()
            if len(w) == 2:
                pids[int(w[0])] = int(w[1])
    survivors = sorted(i for i, pid in pids.items() if alive(pid))
    main_alive = 0 in pids and alive(pids[0])
    for pid in pids.values():
        try:
            os.kill(pid, signal.SIGKILL)
        except OSError:
            pass
    done = os.path.exists(os.path.join(root, "main.done"))
    acts = []
    if "sending term signal" in err:
        acts.append("term")
    if "sending kill signal" in err:
        acts.append("kill")
    return dict(rc=rc, wall=round(wall, 2), sent_at=sent_at, stderr=err[-400:], survivors=survivors, main_alive=main_alive, main_done=done, acts=acts,
                conf=conf, started=sorted(pids))


def run(ctx):
    ctx.translate(GENS)
    ctx.lake_build(MODULES)
    ctx.audit(MODULES)
    rng = ctx.rng
    d = ctx.build_repo("plain")
    proc = ctx.cc_harness("c07proc", ["c07proc.c"], flavour="plain")
    shim = os.path.join(ctx.scratch, "c07shim.so")
    r = subprocess.run(["cc", "-O1", "-shared", "-fPIC", "-o", shim, os.path.join(core.VERIF, "harness", "c07shim.c"), "-ldl"], capture_output=True, text=True)
    if r.returncode != 0:
        raise core.BuildError("c07shim: " + r.stderr[-500:])
    exe = os.path.join(d, "robsd-exec")
    kinds = {}
    distinct = set()
    reqs, wants, infos = [], [], []
    plan = [("none", 0), ("term-wait", 0), ("term-at-waitpid", 0), ("term-at-fork", 0), ("timeout", 0), ("term-wait-ignore", 0), ("term-wait", 1), ("timeout", 1),
            ("none", 1), ("term-wait", 0), ("term-at-waitpid", 1), ("term-wait-ignore", 1), ("term-at-zombie", 0), ("term-at-handshake", 0),
            ("term-wait-nostderr", 0), ("timeout-nostderr", 0)]
    n = ctx.n(16, 128)
    cases = []
    for t in range(n):
        ev, inherit = plan[t % len(plan)]
        nostderr = ev.endswith("-nostderr")
        ev = ev[:-len("-nostderr")] if nostderr else ev
        main_ignore = ev == "term-wait-ignore"
        main_life = 400 if ev == "none" else 300 if ev == "term-at-zombie" else (9000 if main_ignore else 3000)
        main_code = rng.choice([0, 0, 3, 7])
        mem_ = gen_tree(rng, main_ignore, main_life, main_code)
        if ev == "term-at-zombie":
            # the main process is gone when the request arrives; a member with the default disposition is not
            mem_.append((len(mem_), 0, 0, 9000, 0, 0))
        cases.append(dict(ev=ev, inherit=inherit, main_ignore=main_ignore, main_life=main_life, main_code=main_code, offset=rng.choice([0.05, 0.2, 0.45]),
                          mem=mem_, nostderr=nostderr, serial=[None, "no-parallel", "parallel no"][(t // len(plan) + (1 if inherit else 0) + (2 if nostderr else 0)) % 3] if ev == "timeout" else None))
    from concurrent.futures import ThreadPoolExecutor
    with ThreadPoolExecutor(max_workers=6) as ex:
        results = list(ex.map(lambda ic: run_case(exe, proc, shim, os.path.join(ctx.scratch, "c07-%d" % ic[0]), ic[1]), enumerate(cases)))
    for case, res in zip(cases, results):
        ev, mem, main_code, main_ignore = case["ev"], case["mem"], case["main_code"], case["main_ignore"]
        rc, acts, done, survivors = res["rc"], res["acts"], res["main_done"], res["survivors"]
        info = dict(event=ev, invoker_ignores_signals=bool(case["inherit"]), runner_output_to_a_pipe_nobody_reads=bool(case["nostderr"]), members=mem, **res)
        kl = ev + ("+inherited-ignore" if case["inherit"] else "") + ("+output-pipe-without-reader" if case["nostderr"] else "")
        kinds[kl] = kinds.get(kl, 0) + 1
        if case["nostderr"]:
            # the diagnostics are lost with the pipe: what was sent is not observable, the rest of the property is
            what = WHAT[ev] + " (the runner's output goes to a pipe whose reader is gone)"
            if rc is None or rc <= 0:
                ctx.violation("%s: the runner %s" % (what, "exited 0" if rc == 0 else "died of signal %s" % (-rc if rc else rc)), info)
            elif rc == 128 + 13:
                ctx.violation("%s: the runner exited 141 (SIGPIPE)" % what, info)
            elif ev == "timeout" and rc != 124:
                ctx.violation("%s: exit %d, expected 124" % (what, rc), info)
            if res["main_alive"]:
                ctx.violation("%s: the runner exited before the step's main process was gone" % what, info)
            if default_survivors_of(survivors, mem):
                ctx.violation("%s: members %s of the step (default SIGTERM disposition) outlived the runner" % (what, default_survivors_of(survivors, mem)), info)
            continue
        distinct.add((ev, case["inherit"], len(mem), tuple(m[2] for m in mem), main_code))
        default_survivors = [i for i in survivors if not mem[i][2]]
        # ---- the property on the real processes
        if ev == "none":
            if rc != main_code or acts or not done:
                ctx.violation("no termination request, yet the step was cut short or its status changed: exit %s (own %d), signals %s, finished=%s" % (rc, main_code, acts, done), info)
        else:
            what = WHAT[ev] + (" (runner started with SIGTERM/SIGALRM ignored)" if case["inherit"] else "")
            if rc == 0 or rc is None:
                ctx.violation("%s: the runner exited %s" % (what, rc), info)
            elif rc < 0:
                ctx.violation("%s: the runner itself died of signal %d%s" % (what, -rc, "; members of the step are still running: %s" % survivors if survivors else ""), info)
            elif ev == "timeout" and rc != 124:
                ctx.violation("%s: exit %d, expected 124" % (what, rc), info)
            if "term" not in acts and (rc is None or rc >= 0):
                ctx.violation("%s: the process group was not signalled%s" % (what, " and the step ran to completion" if done else ""), info)
            if done and ev not in ("term-wait-ignore", "term-at-zombie"):
                ctx.violation("%s: the step's main process ran to completion (%.1fs)" % (what, res["wall"]), info)
            if res["main_alive"]:
                ctx.violation("%s: the runner exited before the step's main process was gone" % what, info)
            if default_survivors:
                ctx.violation("%s: members %s of the step (default SIGTERM disposition) outlived the runner" % (what, default_survivors), info)
            if main_ignore and "kill" not in acts:
                ctx.violation("%s: no escalation to SIGKILL" % what, info)
        # ---- the model
        if ev == "term-at-zombie":
            # the request arrives in the iteration whose waitpid reaps the main process (Env.late)
            kz = case["main_life"] // 100 + 1
            reqs.append("runner 100000 - %d:e%d 0:s15 0:s9 %d:term" % (kz, main_code, kz))
            wants.append("%s reap%s" % (rc, ",termlate" if "term" in acts else ""))
            infos.append(info)
            continue
        k = {"term-wait": 3, "term-wait-ignore": 3, "term-at-fork": 0, "term-at-waitpid": 0, "timeout": 10}.get(ev)
        sig = "-" if k is None else "%d:%s" % (k, "alrm" if ev == "timeout" else "term")
        # a request caught while the runner waits for the process group: Runner.Fork.hsSig (step_fork's handshake)
        hs = " - term" if ev == "term-at-handshake" else ""
        reqs.append("runner 100000 %s %d:e%d %s 0:s9%s" % (sig, case["main_life"] // 100 + 1, main_code, "-" if main_ignore else "0:s15", hs))
        wants.append("%s %s" % (rc, ",".join(acts + ["reap"])))
        infos.append(info)
    ans = ctx.model(reqs) if reqs else []
    for q, a, w, info in zip(reqs, ans, wants, infos):
        if a.strip() != w.strip():
            ctx.disagreement("Runner.run vs robsd-exec", dict(request=q, model=a, impl=w, info=info))
    ctx.cov.update(dict(
        evaluations=n, distinct_nontrivial=len(distinct),
        rule="real robsd-exec on generated process trees (1-7 members, depth <= 3, members ignoring SIGTERM, members exiting early, a main process ignoring SIGTERM that starts a default-disposition member after the SIGTERM wave; runner started with SIGTERM/SIGALRM ignored by its invoker); "
             "events: none, SIGTERM while the step runs (three offsets), SIGTERM right after fork(), while the runner waits for the new process group (the child's setsid() held back), right before the first waitpid() and on entry to the waitpid() that finds the main process a zombie (LD_PRELOAD shim), regress "
             "timeout of 1s; observed: exit status, diagnostics, /proc state of every member after the runner returned, completion marker; compared with the "
             "property and with Runner.run on the corresponding environment",
        samples=[dict(request=q, impl=w) for q, w in list(zip(reqs, wants))[:3]],
        traces_validated_against_impl=len(reqs), outcome_kinds=kinds))
    ctx.trusted += ["kernel: kill(-pgid, sig) reaches every member of the group; SIGKILL cannot be ignored; a default-disposition process dies of SIGTERM",
                    "LD_PRELOAD shim harness/c07shim.c for the two arrival points that cannot be hit by timing"]
    ctx.assumptions += ["partial: the behaviour of the group's members under the signals is sampled on the real kernel, not modelled",
                        "members that leave the process group (setsid/setpgid of their own) are outside the property"]
