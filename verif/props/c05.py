"""C05: a failed step is never hidden in the report."""
import os
import re

from .. import core
from ..core import hexb
from .. import reportgen

MODULES = ["Robsd.Props.C05"]
GENS = ["StepFields", "Consts"]


def sections(out):
    """(name, exit, log, body) for every '> name' section after stats/comment"""
    parts = re.split(rb"\n> ([^\n]*)\n", b"\n" + out.split(b"\n\n", 1)[1] if b"\n\n" in out else b"")
    res = []
    for i in range(1, len(parts), 2):
        name, body = parts[i], parts[i + 1]
        if name in (b"stats", b"comment"):
            continue
        m = re.match(rb"Exit: (-?\d+)\nDuration: [^\n]*\nLog: ([^\n]*)\n(.*)$", body, re.S)
        if m:
            res.append((name, int(m.group(1)), m.group(2), m.group(3)))
        else:
            res.append((name, None, None, body))
    return res


def run(ctx):
    ctx.translate(GENS)
    ctx.lake_build(MODULES)
    ctx.audit(MODULES)
    rng = ctx.rng
    d = ctx.build_repo("asan")
    rr = reportgen.ReportRunner(ctx, d)
    reqs, obs = [], []
    kinds = {}
    distinct = set()
    n = ctx.n(250, 8000)
    for t in range(n):
        c = reportgen.gen_case(rng, reportgen.MODES[t % 5])
        rc, out, err, req, b = rr.run(c)
        rep = core.sanitizer_report(err)
        if rep or rc not in (0, 1):
            ctx.violation("robsd-report: abnormal termination", dict(case=repr(c)[:3000], rc=rc, report=rep))
            continue
        reqs.append(req)
        obs.append(("%d %s" % (rc, hexb(out) if rc == 0 else "-"), c))
        kinds["%s-rc%d" % (c["mode"], rc)] = kinds.get("%s-rc%d" % (c["mode"], rc), 0) + 1
        if rc != 0:
            continue
        # ---- model-free oracle: the property on the real output
        rows = [r for r in c["rows"]]
        failing = [r for r in rows if r[8] != 1 and r[2] != 0]
        subj = out.split(b"\n", 1)[0]
        status = re.search(rb"\nStatus: ([^\n]*)\n", out)
        status = status.group(1) if status else b"?"
        ok = (status == b"ok")
        if ok != (len(failing) == 0) or not subj.endswith(status):
            ctx.violation("report says '%s' (subject '%s') but %d non-skipped step(s) have a non-zero exit" % (status.decode(), subj.decode(errors='replace'), len(failing)),
                          dict(mode=c["mode"], rows=rows, status=status.decode(), subject=subj.decode(errors="replace")))
        if failing:
            if c["mode"] in ("robsd-regress", "canvas"):
                want = b"%d failure%s" % (len(failing), b"s" if len(failing) > 1 else b"")
            else:
                want = b"failed in " + failing[-1][1].encode()
            if status != want:
                ctx.violation("status line '%s', expected '%s'" % (status.decode(), want.decode()), dict(mode=c["mode"], rows=rows))
            distinct.add(req)
        secs = sections(out)
        names = [s[0] for s in secs]
        # every failing non-skipped step has its own section, in step order, with exit and log name
        it = iter(secs)
        for r in failing:
            found = None
            for s in it:
                if s[0] == r[1].encode() and s[1] is not None:
                    found = s
                    break
            if found is None:
                ctx.violation("failing step '%s' (exit %d) has no section of its own in step order" % (r[1], r[2]),
                              dict(mode=c["mode"], rows=rows, sections=[x.decode(errors="replace") for x in names]))
                break
            if found[1] != r[2] or found[2] != r[5].encode():
                ctx.violation("section of '%s' shows exit %s log %s, recorded exit %d log %s" % (r[1], found[1], found[2], r[2], r[5]),
                              dict(mode=c["mode"], rows=rows))
            # the final lines of the log follow (cvs: change logs; regress: extracted blocks may replace the tail)
            log = c["logs"].get(r[5])
            if log is not None and r[1] != "cvs" and c["mode"] != "robsd-regress" and log.strip(b"\n"):
                vis = log.replace(b"\0", b"\\x00").replace(b"\r", b"\\r")
                lines = [l for l in vis.split(b"\n") if l]
                tail = lines[-1]
                body = found[3].split(b"\n> ")[0]
                if tail not in body:
                    ctx.violation("section of failing step '%s' does not contain the last line of its log" % r[1],
                                  dict(mode=c["mode"], log=log.hex(), section=body.hex(), rows=rows))
        for r in rows:
            if r[8] == 1 and r[1].encode() in names and r[1] not in [x[1] for x in rows if x[8] != 1]:
                ctx.violation("skipped step '%s' has a section" % r[1], dict(mode=c["mode"], rows=rows))
        if b"\0" in out or b"\r" in out:
            ctx.violation("report contains a raw NUL or CR", dict(mode=c["mode"], rows=rows))
    ans = ctx.model(reqs) if reqs else []
    for q, a, (want, c) in zip(reqs, ans, obs):
        if a != want:
            ctx.disagreement("Report.generate vs robsd-report -m %s" % c["mode"],
                             dict(rows=c["rows"], impl=bytes.fromhex(want.split()[1]).decode(errors="replace")[-1500:] if want.split()[1] != "-" else want,
                                  model=bytes.fromhex(a.split()[1]).decode(errors="replace")[-1500:] if a.split()[1] != "-" else a, request=q[:300]))
    ctx.cov.update(dict(
        evaluations=len(reqs), distinct_nontrivial=len(distinct),
        rule="build directories for the five modes in rotation: schedules with a failure position (sequential modes) or several failures (regress, canvas), "
             "exit codes {1,2,124,255,-1}, skips, truncated histories with/without end, logs (empty, no trailing newline, 1-60 lines, blank runs, trace only, NUL, CR; "
             "regress logs from the C13 alphabet), comment/tags/cvs logs/packages.diff/target present or missing; non-trivial = distinct case with >=1 failing step; "
             "stdout and exit status compared byte for byte with Report.generate; oracle on the real output: ok iff no failing step, status text, one section per failing "
             "step in order with exit and log name and the log's last line, no section for skipped steps, no raw NUL/CR",
        samples=[dict(mode=c["mode"], rows=c["rows"][:6], impl_head=bytes.fromhex(w.split()[1]).decode(errors="replace")[:200] if w.split()[1] != "-" else w)
                 for (w, c) in obs[:: max(1, len(obs) // 4)][:4]],
        traces_validated_against_impl=len(reqs), outcome_kinds=kinds))
    ctx.trusted += ["gethostname (the host part of the subject is a parameter of the model)", "glibc vsnprintf for %d %02d %s %.01f"]
