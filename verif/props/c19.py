"""C19: arena allocations stay intact until their scope ends."""
import os
import signal
import subprocess

from .. import core

MODULES = ["Robsd.Props.C19"]
GENS = []


class Gen:
    """high-level programs over one or two arenas; tracks what a well-behaved
    caller knows (open scopes, its live blocks and their sizes)"""

    MISUSE_KINDS = ["malloc", "calloc", "strdup", "strndup", "sprintf-short", "sprintf-long", "cleanup", "realloc"]

    def __init__(self, rng, params, misuse, two, misuse_kind=None):
        self.misuse_kind = misuse_kind
        self.rng = rng
        self.hdr, self.fsz, self.P, self.csz = params
        self.depth = [0, 0]
        self.blocks = [[], []]       # per arena: dict(handle, size, depth)
        self.conts = []              # dict(cid, kind, arena, depth, alive)
        self.nhandle = 0
        self.lines = []
        self.misuse = misuse
        self.misused = False
        self.two = two
        self.kinds = {}
        self.queue = []              # what a caller does next once it allocated from an outer scope

    def size(self):
        r = self.rng.random()
        if r < 0.06:
            return 0
        if r < 0.55:
            return self.rng.randint(1, 64)
        if r < 0.85:
            return self.rng.randint(65, 4096)
        if r < 0.95:
            # around what is left of a frame / a whole frame
            return max(0, self.fsz - self.hdr - self.P - self.rng.choice([0, 0, 1, 7, 8, 9, 16, 24, 100, 5000]) + self.rng.choice([0, 0, 1, 8, 16]))
        return self.rng.randint(self.fsz, 3 * self.fsz)

    def emit(self, kind, line):
        self.kinds[kind] = self.kinds.get(kind, 0) + 1
        self.lines.append(line)

    def scope_k(self, a):
        """which open scope the caller passes: the innermost one, unless this is the misuse stream"""
        if self.misuse and not self.misused and self.depth[a] >= 2 and self.rng.random() < 0.15:
            self.misused = True
            k = self.rng.randint(1, self.depth[a] - 1)
            # ... and goes on: the nested scopes end, the outer scope allocates again
            self.queue = ["L"] * k + ["M"] * self.rng.randint(1, 4)
            self.qa = a
            return k
        return 0

    def step(self):
        rng = self.rng
        a = rng.randint(0, 1) if self.two else 0
        forced = None
        if self.queue and len(self.lines) and rng.random() < 0.9:
            forced = self.queue.pop(0)
            a = self.qa
        d = self.depth[a]
        if d == 0:
            self.depth[a] = 1
            return self.emit("enter", "E %d" % a)
        if self.misuse and self.misuse_kind and not self.misused and d >= 2 and not forced and rng.random() < 0.2:
            # the one allocation from a non-innermost scope of this program, of a prescribed kind
            self.misused = True
            k = rng.randint(1, d - 1)
            self.queue = ["L"] * k + ["M"] * rng.randint(1, 4)
            self.qa = a
            mk = self.misuse_kind
            mine = self.blocks[a]
            if mk in ("malloc", "calloc"):
                n = self.size()
                mine.append(dict(handle=self.nhandle, size=n, depth=d - 1 - k))
                self.nhandle += 1
                return self.emit("misuse-" + mk, "%s %d %d %d" % ("M" if mk == "malloc" else "C", a, k, n))
            if mk in ("strdup", "strndup", "sprintf-short", "sprintf-long"):
                n = 5000 if mk == "sprintf-long" else rng.choice([1, 8, 40])
                bs = bytes(rng.randint(1, 255) for _ in range(n))
                mine.append(dict(handle=self.nhandle, size=n + 1, depth=d - 1 - k))
                self.nhandle += 1
                return self.emit("misuse-" + mk, "S %d %d %d %s" % (a, k, {"strdup": 0, "strndup": 1}.get(mk, 2), bs.hex()))
            if mk == "cleanup":
                return self.emit("misuse-cleanup", "U %d %d" % (a, k))
            if mk == "realloc" and mine:
                b = mine[-1]
                n = b["size"] + rng.choice([1, 8, 64, 1000])
                self.emit("misuse-realloc", "R %d %d %d %d %d" % (a, k, b["handle"], b["size"], n))
                b["size"] = n
                b["depth"] = d - 1 - k
                return
            self.misused = False
            self.queue = []
        r = rng.random()
        if forced == "L":
            r = 0.8
        elif forced == "M":
            r = 0.1
        mine = self.blocks[a]
        if r < 0.22:
            k = self.scope_k(a)
            n = self.size()
            mine.append(dict(handle=self.nhandle, size=n, depth=d - 1 - k))
            self.nhandle += 1
            return self.emit("malloc0" if n == 0 else "malloc", "M %d %d %d" % (a, k, n))
        if r < 0.29:
            k = self.scope_k(a)
            n = self.size() if rng.random() < 0.5 else 8 * rng.randint(0, 64)
            mine.append(dict(handle=self.nhandle, size=n, depth=d - 1 - k))
            self.nhandle += 1
            return self.emit("calloc", "C %d %d %d" % (a, k, n))
        if r < 0.36:
            k = self.scope_k(a)
            n = rng.choice([0, 1, 7, 8, 15, 16, 40, 200])
            bs = bytes(rng.randint(1, 255) for _ in range(n))
            mine.append(dict(handle=self.nhandle, size=n + 1, depth=d - 1 - k))
            self.nhandle += 1
            return self.emit("string", "S %d %d %d %s" % (a, k, rng.randint(0, 2), bs.hex() or "-"))
        if r < 0.42:
            k = self.scope_k(a)
            return self.emit("cleanup", "U %d %d" % (a, k))
        if r < 0.64 and mine:
            # mostly the most recent block (the fast path), sometimes any
            b = mine[-1] if rng.random() < 0.6 else rng.choice(mine)
            k = self.scope_k(a)
            old = b["size"] if rng.random() < 0.85 else rng.randint(0, b["size"])
            q = rng.random()
            if q < 0.15:
                n = rng.randint(0, old)
            elif q < 0.25:
                n = old
            elif q < 0.8:
                n = old + rng.choice([1, 1, 7, 8, 9, 16, 64, 100, 1000])
            else:
                n = old + self.size()
            self.emit("realloc-shrink" if n <= old else "realloc-grow", "R %d %d %d %d %d" % (a, k, b["handle"], old, n))
            b["size"] = n
            b["depth"] = d - 1 - k
            return
        if r < 0.70 and mine:
            b = rng.choice(mine)
            if b["size"] > 0:
                return self.emit("write", "W %d %d %d %d" % (a, b["handle"], rng.randrange(b["size"]), rng.randint(0, 255)))
        if r < 0.78 and d < 12:
            self.depth[a] += 1
            return self.emit("enter", "E %d" % a)
        if r < 0.86:
            self.depth[a] -= 1
            self.blocks[a] = [b for b in mine if b["depth"] != d - 1]
            for c in self.conts:
                if c["arena"] == a and c["depth"] == d - 1:
                    c["alive"] = False
            return self.emit("leave", "L %d" % a)
        if r < 0.89:
            k = self.scope_k(a)
            kind = 1 if rng.random() < 0.6 else 2
            self.conts.append(dict(cid=len(self.conts), kind=kind, arena=a, depth=d - 1 - k, alive=True))
            if kind == 1:
                return self.emit("buffer", "B %d %d %d" % (a, k, rng.choice([0, 1, 16, 100, 1 << 10, 1 << 13])))
            return self.emit("vector", "V %d %d %d" % (a, k, rng.choice([0, 0, 1, 5, 16, 17])))
        cs = [c for c in self.conts if c["alive"] and c["arena"] == a and (c["depth"] == d - 1 or (self.misuse and not self.misused))]
        if cs:
            c = rng.choice(cs)
            if c["depth"] != d - 1:
                self.misused = True
            if c["kind"] == 1:
                n = rng.choice([0, 1, 3, 16, 17, 100, 1000, 5000])
                return self.emit("buffer-put", "BP %d %s" % (c["cid"], bytes(rng.randint(0, 255) for _ in range(n)).hex() or "-"))
            return self.emit("vector-append", "VA %d %d" % (c["cid"], rng.choice([1, 1, 2, 5, 16, 40, 200])))
        return None


def run_case(ctx, exe, lines):
    r = subprocess.run([exe], input=("\n".join(lines) + "\n").encode(), capture_output=True, timeout=120)
    out = r.stdout.decode(errors="replace").split("\n")
    return r.returncode, out, r.stderr.decode(errors="replace")


def parse(out):
    """-> params, per arena [(token, result or None)], per arena ran tags, oracle messages, nchk"""
    params = None
    ops = {0: [], 1: []}
    ran = {0: [], 1: []}
    oracle = []
    pending = None
    nchk = 0
    for l in out:
        w = l.split(" ")
        if w[0] == "PARAMS":
            params = tuple(int(x) for x in w[1:5])
        elif w[0] == "OP":
            pending = (int(w[1]), w[2])
            ops[pending[0]].append([w[2], None])
        elif w[0] == "RES":
            # the result belongs to the innermost pending op of that line; implicit ops never nest
            a = pending[0]
            ops[a][-1][1] = w[1]
        elif w[0] == "RAN":
            ran[int(w[1])].append(int(w[2]))
        elif w[0] == "ORACLE":
            oracle.append(l[7:])
        elif w[0] == "CHK":
            nchk += 1
    return params, ops, ran, oracle, nchk


def probe_params(exe):
    r = subprocess.run([exe], input=b"", capture_output=True, timeout=30)
    for l in r.stdout.decode().split("\n"):
        if l.startswith("PARAMS"):
            return tuple(int(x) for x in l.split()[1:5]), int(l.split()[5])
    raise core.BuildError("arena harness printed no PARAMS: " + r.stderr.decode(errors="replace")[-300:])


def run(ctx):
    ctx.translate(GENS)
    ctx.lake_build(MODULES)
    ctx.audit(MODULES)
    rng = ctx.rng
    srcs = ["libks/arena-buffer.c", "libks/arena-vector.c", "libks/buffer.c", "libks/vector.c", "libks/arithmetic.c"]
    wrap = ["-Wl,--wrap=arena_malloc", "-Wl,--wrap=arena_calloc", "-Wl,--wrap=arena_realloc"]
    exes = dict(
        asan=ctx.cc_harness("arena_harness_asan", ["arena_harness.c"], extra=wrap, flavour="asan", repo_objs=srcs),
        plain=ctx.cc_harness("arena_harness_plain", ["arena_harness.c"], extra=wrap, flavour="plain", repo_objs=srcs))
    kinds, outcomes = {}, {}
    distinct = set()
    reqs, wants, infos = [], [], []
    total = ctx.n(120, 6000)
    params_by = {}
    for flavour, exe in exes.items():
        params, maxalign = probe_params(exe)
        params_by[flavour] = params
        if maxalign != 8 or params[0] % 8 or params[1] % 8 or params[2] % 8 or params[0] > params[1] or params[0] == 0:
            ctx.disagreement("arena parameters do not meet Params.ok (pointer size 8, header/frame/poison sizes multiples of 8)", dict(params=params, maxalign=maxalign))
            return
    for t in range(total):
        flavour = "asan" if t % 2 == 0 else "plain"
        exe = exes[flavour]
        params = params_by[flavour]
        misuse = (t % 4 == 3)
        g = Gen(rng, params, misuse, two=(t % 3 == 0), misuse_kind=(Gen.MISUSE_KINDS[(t // 4) % len(Gen.MISUSE_KINDS)] if misuse and (t // 4) % 3 != 2 else None))
        nops = rng.choice([20, 60, 150]) if ctx.tier == "quick" else rng.choice([20, 60, 150, 400])
        for _ in range(nops):
            g.step()
        rc, out, err = run_case(ctx, exe, g.lines)
        _, ops, ran, oracle, nchk = parse(out)
        info = dict(flavour=flavour, params=params, lines=g.lines, rc=rc, stderr=err[-600:])
        for k, v in g.kinds.items():
            kinds[k] = kinds.get(k, 0) + v
        distinct.add(tuple(g.lines))
        died_in = None
        for a in (0, 1):
            if ops[a] and ops[a][-1][1] is None:
                died_in = a
        if rc == -signal.SIGILL and died_in is not None:
            ops[died_in][-1][1] = "trap"
            outcome = "trap"
        elif rc == 0 and died_in is None and out and any(l.startswith("DONE") for l in out):
            outcome = "completed"
        elif rc == 1 and died_in is not None and "arena_" in err and "AddressSanitizer" not in err:
            ops[died_in][-1][1] = "fail"
            outcome = "errx"
        else:
            outcome = "crash"
            ctx.violation("the arena harness died (%s) in a program that %s" % (core.sanitizer_report(err.encode()) or ("rc=%d" % rc), "misuses a scope" if g.misused else "uses the arena as documented"), info)
        outcomes[outcome + ("-misuse" if g.misused else "")] = outcomes.get(outcome + ("-misuse" if g.misused else ""), 0) + 1
        for m in oracle[:3]:
            ctx.violation("arena (%s build): %s%s" % (flavour, m, " [after an allocation from an outer scope that was not trapped]" if g.misused else ""), info)
        for a in (0, 1):
            if not ops[a]:
                continue
            reqs.append("arena %d %d %d %d %s" % (params + (",".join(o[0] for o in ops[a]),)))
            wants.append(";".join(o[1] if o[1] is not None else "none" for o in ops[a]) + " ran=" + ",".join(str(x) for x in ran[a]))
            infos.append(dict(info, arena=a))
    ans = ctx.model(reqs) if reqs else []
    nd = 0
    for q, m, w, info in zip(reqs, ans, wants, infos):
        if m.strip() != w.strip():
            ms, ws = m.split(" ran=")[0].split(";"), w.split(" ran=")[0].split(";")
            i = next((i for i in range(max(len(ms), len(ws))) if i >= len(ms) or i >= len(ws) or ms[i] != ws[i]), None)
            toks = q.split(" ")[5].split(",")
            nd += 1
            if nd <= 5:
                ctx.disagreement("Arena.step vs libks/arena.c",
                                 dict(at_op=i, op=toks[i] if i is not None and i < len(toks) else None,
                                      impl=ws[i] if i is not None and i < len(ws) else "(%d ops) ran=%s" % (len(ws), w.split(" ran=")[1]),
                                      model=ms[i] if i is not None and i < len(ms) else "(%d ops) ran=%s" % (len(ms), m.split(" ran=")[1]),
                                      ops_before=toks[max(0, (i or 0) - 12):(i or 0)], info=info))
    ctx.cov.update(dict(
        evaluations=total, distinct_nontrivial=len(distinct),
        rule="random programs over one or two arenas (scope enter/leave up to depth 12, malloc/calloc/strdup/strndup/sprintf/cleanup/realloc/write, arena buffers and vectors; "
             "sizes 0, small, page-sized, around the remaining frame space, up to 3 frames), half built with ASan (poison 8) and half without (poison 0); every fourth program "
             "allocates once from a non-innermost scope and goes on; every primitive arena call (also those made by buffer.c/vector.c) is replayed on Arena.step and "
             "placement (frame, offset), frame count, bump pointer, live-block count, traps and the cleanup log are compared; the harness oracle checks alignment, "
             "disjointness, shadow copies, realloc prefix and cleanups on the real memory after every operation",
        samples=[dict(request=q[:200], impl=w[:200]) for q, w in list(zip(reqs, wants))[:2]],
        traces_validated_against_impl=len(reqs), op_kinds=kinds, outcome_kinds=outcomes))
    ctx.trusted += ["malloc(3): distinct live chunks are disjoint and 16-byte aligned (frames are malloc'd chunks; the model addresses memory as (frame, offset))",
                    "ASan poisoning is not modelled (only the 8-byte gaps it causes)"]
    ctx.assumptions += ["scopes are entered and left well nested (enforced by the cleanup attribute of the arena_scope macro)",
                        "size_t overflow of a requested size is not modelled (the code calls errx)"]
