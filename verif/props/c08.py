"""C08: configuration is accepted and valued exactly as the grammar documents."""
import os
import re
import shutil
import subprocess

from .. import core
from ..core import hexb

MODULES = ["Robsd.Props.C08", "Robsd.Props.C08Complete", "Robsd.Props.C08Lex", "Robsd.Props.C08Steps", "Robsd.Props.C08Regress"]
GENS = ["Consts", "Grammar"]
MODES = ["robsd", "robsd-cross", "robsd-ports", "robsd-regress", "canvas"]


def q(x):
    return b'"' + x + b'"'


def lst(xs):
    return b"{ " + b" ".join(q(x) for x in xs) + b" }"


class Conf:
    """a configuration as an ordered list of entries (keyword, rendered text, expectation)"""

    def __init__(self):
        self.entries = []      # dict(kw, text, expect={var: value}, repeatable)
        self.expect = {}

    def add(self, kw, text, expect=None, rep=False):
        self.entries.append(dict(kw=kw, text=text, rep=rep))
        for k, v in (expect or {}).items():
            self.expect[k] = v

    def render(self, rng, entries=None):
        out = b""
        for e in (self.entries if entries is None else entries):
            out += rng.choice([b"", b"", b"# comment\n", b"\n", b"  ", b"\t"]) + e["text"] + rng.choice([b"\n", b"\n", b" # c\n", b"\n\n", b" "])
        return out


def gen_conf(rng, mode, root):
    r = root.encode()
    c = Conf()
    sub = lambda n: r + b"/" + n
    if mode != "canvas":
        c.add("robsddir", b"robsddir " + q(r), {"robsddir": r})
    if rng.random() < 0.5:
        k = rng.randint(0, 9)
        c.add("keep", b"keep %d" % k, {"keep": b"%d" % k})
    if rng.random() < 0.5:
        b = rng.random() < 0.5
        c.add("keep-attic", b"keep-attic " + (b"yes" if b else b"no"), {"keep-attic": b"1" if b else b"0"})
    if rng.random() < 0.5:
        k = rng.randint(1, 99)
        c.add("stat-interval", b"stat-interval %d" % k, {"stat-interval": b"%d" % k})
    if rng.random() < 0.5:
        xs = [b"a", b"b b", b"c"][:rng.randint(0, 3)]
        c.add("skip", b"skip " + lst(xs), {"skip": b" ".join(xs)})
    if rng.random() < 0.5:
        xs = [b"/bin/echo", b"-n", b"x  y"][:rng.randint(1, 3)]
        c.add("hook", b"hook " + lst(xs), {"hook": b" ".join(xs)})
    if mode == "robsd":
        c.add("destdir", b"destdir " + q(sub(b"dest")), {"destdir": sub(b"dest")})
        for kw, val in (("bsd-srcdir", sub(b"src")), ("x11-srcdir", sub(b"xsrc")), ("bsd-objdir", sub(b"obj")), ("x11-objdir", sub(b"xobj"))):
            c.add(kw, kw.encode() + b" " + q(val), {kw: val})
        for kw, val in (("kernel", b"GENERIC"), ("cvs-root", b"host:/cvs"), ("distrib-host", b"h.example"), ("distrib-path", b"/var/www"), ("distrib-signify", b"/etc/key.sec")):
            if rng.random() < 0.5:
                c.add(kw, kw.encode() + b" " + q(val), {kw: val})
        for kw in ("cvs-user", "distrib-user"):
            if rng.random() < 0.5:
                c.add(kw, kw.encode() + b" " + q(b"root"), {kw: b"root"})
        if rng.random() < 0.5:
            b = rng.random() < 0.5
            c.add("reboot", b"reboot " + (b"yes" if b else b"no"), {"reboot": b"1" if b else b"0"})
        if rng.random() < 0.5:
            c.add("bsd-diff", b"bsd-diff " + q(sub(b"*.diff")), {"bsd-diff": sub(b"a.diff") + b" " + sub(b"b.diff")})
        if rng.random() < 0.3:
            c.add("x11-diff", b"x11-diff " + q(sub(b"*.nomatch")), {"x11-diff": b""})
    elif mode == "robsd-cross":
        c.add("crossdir", b"crossdir " + q(sub(b"cross")), {"crossdir": sub(b"cross")})
        c.add("bsd-srcdir", b"bsd-srcdir " + q(sub(b"src")), {"bsd-srcdir": sub(b"src")})
    elif mode == "robsd-ports":
        c.add("chroot", b"chroot " + q(sub(b"chroot")), {"chroot": sub(b"chroot")})
        c.add("ports-user", b"ports-user " + q(b"root"), {"ports-user": b"root"})
        ps = [b"devel/p%d" % i for i in range(rng.randint(1, 20))]
        c.add("ports", b"ports " + lst(ps), {"ports": b" ".join(ps)})
        for kw, val in (("cvs-root", b"h:/cvs"), ("ports-dir", b"/usr/ports2"), ("distrib-host", b"h"), ("distrib-path", b"/p"), ("distrib-signify", b"k")):
            if rng.random() < 0.5:
                c.add(kw, kw.encode() + b" " + q(val), {kw: val})
    elif mode == "robsd-regress":
        c.add("bsd-srcdir", b"bsd-srcdir " + q(sub(b"src")), {"bsd-srcdir": sub(b"src")})
        paths = []
        for i in range(rng.choice([1, 2, 5, 9, 17])):
            path = b"dir/t%d" % i
            paths.append(path)
            l = b"regress " + q(path)
            ex = {}
            opts = rng.sample(["root", "quiet", "no-parallel", "env", "targets", "obj", "packages"], rng.randint(0, 4))
            for o in opts:
                if o == "root":
                    l += b" root"
                    ex["regress-%s-root" % path.decode()] = b"1"
                elif o == "quiet":
                    l += b" quiet"
                    ex["regress-%s-quiet" % path.decode()] = b"1"
                elif o == "no-parallel":
                    l += b" no-parallel"
                    ex["regress-%s-parallel" % path.decode()] = b"0"
                elif o == "env":
                    l += b" env " + lst([b"A=%d" % i, b"B=x y"])
                elif o == "targets":
                    l += b" targets " + lst([b"t1", b"t2"])
                    ex["regress-%s-targets" % path.decode()] = b"t1 t2"
                elif o == "obj":
                    l += b" obj " + lst([b"o%d" % i])
                else:
                    l += b" packages " + lst([b"p%d" % i])
            if "targets" not in opts:
                ex["regress-%s-targets" % path.decode()] = b"regress"
            c.add("regress", l, ex, rep=True)
        c.expect["regress"] = None     # order depends on the shuffle, filled in later
        c.paths = paths
        if rng.random() < 0.5:
            c.add("regress-env", b"regress-env " + lst([b"X=1", b"Y=2"]), {"regress-env": b"X=1 Y=2"}, rep=True)
        if rng.random() < 0.6:
            n, u = rng.randint(1, 99), rng.choice([b"s", b"m", b"h"])
            c.add("regress-timeout", b"regress-timeout %d %s" % (n, u), {"regress-timeout": b"%d" % (n * {b"s": 1, b"m": 60, b"h": 3600}[u])})
        for kw, val in (("sudo", b"doas"), ("cvs-root", b"h:/cvs")):
            if rng.random() < 0.5:
                c.add(kw, kw.encode() + b" " + q(val), {kw: val})
        for kw in ("regress-user", "cvs-user"):
            if rng.random() < 0.5:
                c.add(kw, kw.encode() + b" " + q(b"root"), {kw: b"root"})
        for kw in ("parallel", "rdonly"):
            if rng.random() < 0.5:
                b = rng.random() < 0.5
                c.add(kw, kw.encode() + b" " + (b"yes" if b else b"no"), {kw: b"1" if b else b"0"})
    else:
        c.add("canvas-name", b"canvas-name " + q(b"the name"), {"canvas-name": b"the name"})
        c.add("canvas-dir", b"canvas-dir " + q(r), {"canvas-dir": r, "robsddir": r})
        for i in range(rng.choice([1, 2, 3, 16, 17])):
            c.add("step", b"step " + q(b"s%d" % i) + rng.choice([b" command " + lst([b"echo", b"%d" % i]), b" parallel command " + lst([b"true"]),
                                                                   b" command " + lst([b"x"]) + b" parallel"]), rep=True)
    # a directory value that refers to another keyword: interpolated when the statement is parsed (with
    # what is known by then) and again when ${bsd-srcdir} is asked for (with the final configuration)
    if mode in ("robsd", "robsd-cross", "robsd-regress") and rng.random() < 0.4:
        c.entries = [e for e in c.entries if e["kw"] not in ("bsd-srcdir", "stat-interval")]
        c.expect.pop("stat-interval", None)
        k = 10
        if rng.random() < 0.7:
            k = 7
            c.add("stat-interval", b"stat-interval 7", {"stat-interval": b"7"})
        c.add("bsd-srcdir", b"bsd-srcdir " + q(sub(b"src${stat-interval}")), {"bsd-srcdir": sub(b"src%d" % k)})
        if mode == "robsd" and rng.random() < 0.6:
            c.entries = [e for e in c.entries if e["kw"] not in ("bsd-objdir", "kernel")]
            c.expect.pop("kernel", None)
            kn = b"GENERIC.MP"
            if rng.random() < 0.7:
                kn = b"GENERIC"
                c.add("kernel", b"kernel " + q(kn), {"kernel": kn})
            c.add("bsd-objdir", b"bsd-objdir " + q(sub(b"obj${kernel}")), {"bsd-objdir": sub(b"obj") + kn})
    rng.shuffle(c.entries)
    if mode == "robsd-regress":
        c.expect["regress"] = b" ".join(re.match(rb'regress "([^"]*)"', e["text"]).group(1) for e in c.entries if e["kw"] == "regress")
    return c


REQUIRED = {"robsd": ["robsddir", "destdir"], "robsd-cross": ["robsddir", "crossdir"], "robsd-ports": ["robsddir", "chroot", "ports", "ports-user"],
            "robsd-regress": ["robsddir", "regress"], "canvas": ["canvas-name", "canvas-dir", "step"]}
FOREIGN = {"robsd": [b'crossdir "/tmp"', b'canvas-name "x"', b'regress "a/b"', b"parallel yes"], "robsd-cross": [b'destdir "/tmp"', b'kernel "G"', b'ports { "a" }'],
           "robsd-ports": [b'destdir "/tmp"', b'regress "a/b"', b'kernel "G"'], "robsd-regress": [b'destdir "/tmp"', b'ports { "a" }', b'canvas-name "x"', b'kernel "G"'],
           "canvas": [b'destdir "/tmp"', b'regress "a/b"', b'kernel "G"', b"reboot yes"]}


def corrupt(rng, mode, c, root):
    """a single edit that leaves the documented grammar: (kind, text)"""
    es = list(c.entries)
    kind = rng.choice(["drop-required", "duplicate", "retype", "unknown-keyword", "foreign-keyword", "int-range", "missing-dir", "unknown-user", "unterminated", "brace", "bad-substitution", "bad-substitution"])
    if kind == "drop-required":
        kw = rng.choice(REQUIRED[mode])
        es = [e for e in es if e["kw"] != kw]
    elif kind == "duplicate":
        cand = [e for e in es if not e["rep"]]
        if not cand:
            return None
        # a glob keyword whose pattern matches nothing is given all the same: prefer repeating one of those
        nomatch = [e for e in cand if b".nomatch" in e["text"]]
        e = rng.choice(nomatch) if nomatch and rng.random() < 0.5 else rng.choice(cand)
        es.insert(rng.randint(0, len(es)), e)
    elif kind == "retype":
        i = rng.randrange(len(es))
        t = es[i]["text"]
        kw = es[i]["kw"].encode()
        new = rng.choice([kw + b" 5" if b'"' in t or b"{" in t or b"yes" in t or b"no" in t else kw + b' "five"', kw + b" yes" if b" yes" not in t and b" no" not in t.replace(b"no-parallel", b"") else kw + b' "s"',
                          kw + b" { 1 }", kw])
        if new == t:
            return None
        es[i] = dict(es[i], text=new)
    elif kind == "unknown-keyword":
        es.insert(rng.randint(0, len(es)), dict(kw="x", text=rng.choice([b'frobnicate "x"', b"nosuch 1", b'builddir "/tmp"', b'arch "vax"', b"ncpu 2", b'regress-obj { "a" }']), rep=True))
    elif kind == "foreign-keyword":
        es.insert(rng.randint(0, len(es)), dict(kw="x", text=rng.choice(FOREIGN[mode]), rep=True))
    elif kind == "int-range":
        cand = [i for i, e in enumerate(es) if re.search(rb" \d+", e["text"]) and e["kw"] in ("keep", "stat-interval", "regress-timeout")]
        if not cand:
            return None
        i = rng.choice(cand)
        # beyond int: just above INT_MAX, values that wrap into range modulo 2^32 or 2^64, very long literals;
        # for timeouts also products that overflow
        wraps = [b"2147483648", b"2147483649", b"4294967295", b"4294967296", b"4294967306", b"4294967297", b"6442450943", b"8589934592", b"9999999999",
                 b"18446744073709551616", b"18446744073709551626", b"99999999999999999999", b"42949672960", b"4294967296000"]
        big = rng.choice(wraps) if es[i]["kw"] != "regress-timeout" else rng.choice(
            [b"2147483648 s", b"35791395 m", b"596524 h", b"4294967297 m", b"4294967296 s", b"4294967297 h", b"9999999999 s", b"71582789 m", b"1193047 h"])
        es[i] = dict(es[i], text=es[i]["kw"].encode() + b" " + big)
    elif kind == "missing-dir":
        cand = [i for i, e in enumerate(es) if e["kw"] in ("robsddir", "destdir", "bsd-srcdir", "canvas-dir", "bsd-objdir")]
        if not cand:
            return None
        i = rng.choice(cand)
        es[i] = dict(es[i], text=es[i]["kw"].encode() + b" " + q(root.encode() + rng.choice([b"/nonexistent", b"/file"])))
    elif kind == "bad-substitution":
        cand = [i for i, e in enumerate(es) if e["kw"] in ("bsd-objdir", "bsd-srcdir", "x11-objdir", "x11-srcdir", "destdir") or (e["kw"] == "regress" and b" env " in e["text"])]
        if not cand:
            return None
        i = rng.choice(cand)
        if es[i]["kw"] == "regress":
            es[i] = dict(es[i], text=es[i]["text"].replace(b'"B=x y"', rng.choice([b'"B=$"', b'"B=${"', b'"B=${}"'])))
        else:
            es[i] = dict(es[i], text=es[i]["kw"].encode() + b" " + q(rng.choice([b"${nope}/obj", root.encode() + b"/$", b"${", root.encode() + b"/${}"])))
    elif kind == "unknown-user":
        cand = [i for i, e in enumerate(es) if e["kw"].endswith("-user")]
        if not cand:
            return None
        i = rng.choice(cand)
        es[i] = dict(es[i], text=es[i]["kw"].encode() + b' "nosuchuser7"')
    elif kind == "unterminated":
        i = rng.randrange(len(es))
        if b'"' not in es[i]["text"]:
            return None
        es = es[:i] + [dict(es[i], text=es[i]["text"].rsplit(b'"', 1)[0])]
    else:
        cand = [i for i, e in enumerate(es) if b"}" in e["text"]]
        if not cand:
            return None
        i = rng.choice(cand)
        es[i] = dict(es[i], text=es[i]["text"].replace(b"}", b"", 1) if rng.random() < 0.5 else es[i]["text"].replace(b"{", b"", 1))
    return kind, es


def model_req(mode, file, tmpl, envd):
    return ("conf mode=%s file=%s tmpl=%s dirs=%s users=%s glob=%s arch=%s machine=%s exec=%s ncpu=%d lock=%s inet=%s inet6=%s" % (
        mode, hexb(file), hexb(tmpl), ",".join(hexb(x) for x in envd["dirs"]), ",".join(hexb(x) for x in envd["users"]),
        ",".join("%s:%s" % (hexb(p), "!" if r is None else ("." if r == [] else ";".join(hexb(x) for x in r))) for p, r in envd["glob"].items()) or "-",
        hexb(envd["arch"]), hexb(envd["machine"]), hexb(envd["exec"]), envd["ncpu"], hexb(envd["lock"]) if envd["lock"] is not None else "!",
        hexb(envd["inet"]), hexb(envd["inet6"])))


def run(ctx):
    ctx.translate(GENS)
    ctx.lake_build(MODULES)
    ctx.audit(MODULES)
    rng = ctx.rng
    d = ctx.build_repo("asan")
    exe = os.path.join(d, "robsd-config")
    root = os.path.join(ctx.scratch, "c08")
    shutil.rmtree(root, ignore_errors=True)
    for sub in ("dest", "src", "xsrc", "obj", "xobj", "cross", "chroot", "src7", "src10", "objGENERIC", "objGENERIC.MP"):
        os.makedirs(os.path.join(root, sub))
    open(os.path.join(root, "file"), "w").write("x")
    for f in ("a.diff", "b.diff"):
        open(os.path.join(root, f), "w").write("d")
    env = dict(os.environ, ASAN_OPTIONS="detect_leaks=0", EXECDIR="/exec/dir", ROBSD_VERIF_NCPU="6")
    conf_path = os.path.join(root, "t.conf")

    def real(mode, file, tmpl):
        open(conf_path, "wb").write(file)
        return core.run_cmd([exe, "-m", mode, "-C", conf_path, "-"], stdin=tmpl, env=env, timeout=30)

    # what the environment looks like to the program (defaults that come from the host)
    rc, out, err = real("robsd-cross", b'robsddir "%s"\ncrossdir "%s"\n' % (root.encode(), root.encode()), b"${arch}\n${machine}\n${inet}\n${inet6}\n")
    if rc != 0:
        raise core.BuildError("robsd-config probe failed: " + err.decode(errors="replace")[-300:])
    arch, machine, inet, inet6 = out.split(b"\n")[:4]
    r = root.encode()
    envd = dict(dirs=[r] + [r + b"/" + x for x in (b"dest", b"src", b"xsrc", b"obj", b"xobj", b"cross", b"chroot", b"src7", b"src10", b"objGENERIC", b"objGENERIC.MP")], users=[b"root"],
                glob={r + b"/*.diff": [r + b"/a.diff", r + b"/b.diff"], r + b"/*.nomatch": []}, arch=arch, machine=machine, exec=b"/exec/dir", ncpu=6, lock=None, inet=inet, inet6=inet6)
    kinds = {}
    distinct = set()
    reqs, wants, infos = [], [], []
    n = ctx.n(400, 6000)
    for t in range(n):
        mode = MODES[t % 5]
        c = gen_conf(rng, mode, root)
        lock = None
        if os.path.exists(os.path.join(root, ".running")):
            os.unlink(os.path.join(root, ".running"))
        if rng.random() < 0.3:
            lock = root.encode() + b"/2024-01-01.1"
            open(os.path.join(root, ".running"), "wb").write(lock + b"\n")
        envd["lock"] = lock
        # template: every variable the generator knows the value of, defaults, lists, rdomain
        names = sorted(c.expect)
        extra = ["arch", "machine", "exec-dir", "ncpu", "keep-dir", "trace", "build-user", "hook", "skip", "keep", "stat-interval"]
        if mode == "robsd":
            extra += ["kernel", "bsd-objdir"] + (["bsd-reldir", "x11-reldir"] if lock else [])
        if mode == "robsd-regress":
            extra += ["sudo", "parallel", "regress-user", "rdomain", "rdomain", "regress-env"] + ["regress-%s-env" % p.decode() for p in c.paths[:3]] + ["regress-%s-parallel" % p.decode() for p in c.paths[:3]]
        if mode == "robsd-ports":
            extra += ["ports-dir"]
        if lock:
            extra += ["builddir", "comment-path", "tmp-dir", "report-path"]
        tmpl = b"".join(b"%s=${%s}\n" % (nm.encode(), nm.encode()) for nm in names + [x for x in extra if x not in names])
        if t % 10 == 3 and mode == "robsd-regress":
            tmpl = b" ".join([b"${rdomain}"] * 40) + b"\n" + b"\n".join([b"${rdomain} ${rdomain}"] * 120) + b"\n"
        bad_tmpl = False
        if t % 3 == 0 and (t // 15) % 4 == 1 and not (t % 10 == 3 and mode == "robsd-regress"):
            bad_tmpl = True
            # ... and one reference that must fail the whole template (unknown variable, malformed)
            bad = rng.choice([b"x=${no-such-variable}\n", b"x=${no-such-variable}\n", b"x=${nope} ${arch}\n", b"x=${\n", b"x=$y\n", b"x=${}\n"])
            lines_ = tmpl.split(b"\n")
            k = rng.randint(0, len(lines_) - 1)
            tmpl = b"\n".join(lines_[:k]) + (b"\n" if k else b"") + bad + b"\n".join(lines_[k:])
        if t % 3 == 0:
            file = c.render(rng)
            kind = "valid"
        else:
            cr = corrupt(rng, mode, c, root)
            if cr is None:
                file, kind = c.render(rng), "valid"
            else:
                kind, es = cr
                file = c.render(rng, es)
        rc, out, err = real(mode, file, tmpl)
        info = dict(mode=mode, kind=kind, conf=file.decode(errors="replace"), template=tmpl.decode(errors="replace")[:600], rc=rc, stdout=out.decode(errors="replace")[:1500],
                    stderr=err.decode(errors="replace")[-500:], lock=lock.decode() if lock else None)
        kinds["%s-%s" % (kind, "accepted" if rc == 0 else "rejected")] = kinds.get("%s-%s" % (kind, "accepted" if rc == 0 else "rejected"), 0) + 1
        distinct.add((mode, kind, rc))
        rep = core.sanitizer_report(err)
        if rep or rc not in (0, 1):
            ctx.violation("robsd-config -m %s: abnormal termination (rc=%s)" % (mode, rc), dict(info, report=rep))
            continue
        # ---- the property, from the generator's knowledge alone
        if kind == "valid" and bad_tmpl:
            # the configuration is fine, the template is not: nothing may be printed, exit 1, a diagnostic
            if rc != 1 or out != b"" or err == b"":
                ctx.violation("robsd-config -m %s: a template with a failing reference gave exit %s and %d bytes of output" % (mode, rc, len(out)), info)
            kinds["failing-template"] = kinds.get("failing-template", 0) + 1
        elif kind == "valid":
            if rc != 0:
                ctx.violation("a %s configuration that follows the documented grammar is rejected" % mode, info)
            else:
                got = {}
                for l in out.split(b"\n"):
                    if b"=" in l:
                        k, v = l.split(b"=", 1)
                        got[k.decode()] = v
                if t % 10 == 3 and mode == "robsd-regress":
                    vals = [int(x) for x in out.split()]
                    bad = [i for i in range(1, len(vals)) if vals[i] == vals[i - 1]]
                    if bad or any(not (11 <= v <= 255) for v in vals) or vals[:3] != [11, 12, 13] or len(set(vals)) != min(len(vals), 245):
                        ctx.violation("successive ${rdomain} references: %s ... repeated at %s, distinct %d of %d" % (vals[:4], [(i, vals[i]) for i in bad[:3]], len(set(vals)), len(vals)),
                                      dict(info, values=vals))
                else:
                    for k, v in c.expect.items():
                        if v is not None and got.get(k) != v:
                            ctx.violation("%s: ${%s} is '%s', configured '%s'" % (mode, k, (got.get(k) or b"").decode(errors="replace"), v.decode()), info)
                            break
                    dflt = {"keep-dir": r + b"/attic", "exec-dir": b"/exec/dir", "ncpu": b"6", "build-user": b"build", "trace": b""}
                    if mode == "robsd" and "kernel" not in c.expect:
                        dflt["kernel"] = b"GENERIC.MP"
                    if mode == "robsd-regress" and "sudo" not in c.expect:
                        dflt["sudo"] = b"doas -n"
                    if lock:
                        dflt.update({"builddir": lock, "tmp-dir": lock + b"/tmp", "report-path": lock + b"/report", "comment-path": lock + b"/comment"})
                    for k, v in dflt.items():
                        if k in got and k not in c.expect and got[k] != v:
                            ctx.violation("%s: unset ${%s} is '%s', documented default '%s'" % (mode, k, got[k].decode(errors="replace"), v.decode()), info)
                            break
        else:
            if rc == 0:
                ctx.violation("a %s configuration with a %s edit is accepted" % (mode, kind), info)
            elif conf_path.encode() not in err and b"robsd-config" not in err:
                ctx.violation("rejected without a diagnostic naming the file", info)
            if rc != 0 and out:
                ctx.violation("rejected configuration, yet %d bytes on stdout" % len(out), info)
        reqs.append(model_req(mode, file, tmpl, envd))
        wants.append("%d %s" % (rc, hexb(out)))
        infos.append(info)
    # ---- keywords accepted although the manual of that mode does not document them (found by comparing the real
    # parser with the *.conf.5 manuals; the Lean side states the same difference in `undocumented_keywords`)
    known = ctx.load_known()
    manuals = {"robsd": "robsd.conf.5", "robsd-cross": "robsd-cross.conf.5", "robsd-ports": "robsd-ports.conf.5", "robsd-regress": "robsd-regress.conf.5", "canvas": "canvas.conf.5"}
    common_kw = {"robsddir": b'robsddir "%s"' % r, "skip": b'skip { "x" }', "hook": b'hook { "x" }', "keep": b"keep 1", "keep-attic": b"keep-attic yes", "stat-interval": b"stat-interval 5"}
    for mode in MODES:
        man = open(os.path.join(core.REPO, manuals[mode]), encoding="utf-8", errors="replace").read()
        base = gen_conf(rng, mode, root)
        for kw, text in common_kw.items():
            if any(e["kw"] == kw for e in base.entries):
                es = base.entries
            else:
                es = [dict(kw=kw, text=text, rep=False)] + base.entries
            rc, out, err = real(mode, base.render(rng, es), b"")
            documented = re.search(r"^\.(?:It )?Ic %s\b" % re.escape(kw), man, re.M) is not None
            if rc == 0 and not documented:
                what = "robsd-config -m %s accepts the keyword '%s' that %s does not document" % (mode, kw, manuals[mode])
                hit = [k for k in known if k.get("mode") == mode and k.get("keyword") == kw]
                if hit:
                    ctx.known_hits.append(what)
                else:
                    ctx.violation(what, dict(mode=mode, keyword=kw, conf=base.render(rng, es).decode(errors="replace")))
                kinds["undocumented-accepted"] = kinds.get("undocumented-accepted", 0) + 1
    ans = ctx.model(reqs) if reqs else []
    nd = 0
    for qy, a, w, info in zip(reqs, ans, wants, infos):
        if a.strip() != w.strip():
            nd += 1
            if nd <= 5:
                mo = a.split(" ")
                ctx.disagreement("Conf.configCmd vs robsd-config", dict(model_exit=mo[0], model_stdout=bytes.fromhex(mo[1]).decode(errors="replace")[:1500] if len(mo) > 1 and mo[1] != "-" else "", info=info))
    ctx.cov.update(dict(
        evaluations=n, distinct_nontrivial=len(distinct),
        rule="configurations generated from the documented grammar of the five modes (every settable keyword, shuffled order, random comments and whitespace, 1-17 "
             "regress entries with all option kinds, 1-17 canvas steps, with and without a lock file), one third unmodified, two thirds with one edit that leaves "
             "the grammar (required keyword dropped, non-repeatable one duplicated, value retyped, unknown keyword, keyword of another mode, integer out of range, "
             "missing directory, unknown user, unterminated string, missing brace, failing ${...} in a directory or a per-test env); templates asking for every configured variable, defaults, lists and up to 280 "
             "successive ${rdomain}; real robsd-config (ASan) compared with the property from the generator's knowledge and with Conf.configCmd on the same bytes",
        samples=[dict(request=qy[:200], impl=w[:100]) for qy, w in list(zip(reqs, wants))[:2]],
        traces_validated_against_impl=len(reqs), outcome_kinds=kinds))
    ctx.trusted += ["the Env handed to the model (directories, users, glob results, MACHINE/MACHINE_ARCH, egress addresses) is read from the sandbox by the harness"]
    ctx.assumptions += ["-v var=val and the pledge/unveil calls of robsd-config are not modelled", "glob(3), getpwnam(3), stat(2) are parameters of the model"]
