"""C12 (partial): no input crashes, corrupts memory in or hangs the parsers."""
import os
import re
import shutil

from .. import core
from ..core import hexb
from .c13 import gen_log

MODULES = ["Robsd.Props.C12"]
GENS = []

HEADER = b"step,name,exit,duration,delta,log,user,time,skip\n"
MODES = ["robsd", "robsd-cross", "robsd-ports", "robsd-regress", "canvas"]


def seeds(root):
    """grammar-derived starting points"""
    conf = {
        "robsd": b'robsddir "%s"\ndestdir "%s"\nbsd-srcdir "%s"\nx11-srcdir "%s"\ncvs-root "x:/cvs"\nkernel "GENERIC"\nreboot yes\nkeep 3\nskip { "reboot" "cvs" }\nhook { "echo" "${step-name}" }\n' % ((root.encode(),) * 4),
        "robsd-cross": b'robsddir "%s"\ncrossdir "%s"\nbsd-srcdir "%s"\n' % ((root.encode(),) * 3),
        "robsd-ports": b'robsddir "%s"\nchroot "%s"\ncvs-root "x:/cvs"\nports-user "root"\nports { "devel/robsd" "mail/mdsort" }\n' % ((root.encode(),) * 2),
        "robsd-regress": b'robsddir "%s"\nbsd-srcdir "%s"\nregress "bin/ksh" root quiet\nregress "lib/libc" env { "A=1" "RD=${rdomain}" } targets { "one" "two" } no-parallel\nregress-env { "X=${rdomain}" }\nregress-timeout 2 h\nparallel no\n# comment\n' % ((root.encode(),) * 2),
        "canvas": b'canvas-name "t"\ncanvas-dir "%s"\nstep "one" command { "echo" "${arch}" }\nstep "two" command { "true" } parallel\nskip { "two" }\n' % root.encode(),
    }
    step = HEADER + b"1,env,0,1,0,env.log,root,1700000000,0\n2,kernel,1,3600,-5,kernel.log,root,1700000001,0\n3,end,0,3700,0,,root,1700003700,1\n"
    tmpl = b"${step} ${name} ${exit}\n${log}:${user}\n"
    ctmpl = b"${robsddir} ${arch} ${keep-dir}\n${skip} ${ncpu}\n"
    return conf, step, tmpl, ctmpl


def gen_conf(rng, mode, root):
    """a valid configuration derived from the grammar: random optional keywords, many regress entries / steps"""
    r = root.encode()
    q = lambda x: b'"' + x + b'"'
    lst = lambda xs: b"{ " + b" ".join(q(x) for x in xs) + b" }"
    lines = [b'robsddir ' + q(r)] if mode != "canvas" or rng.random() < 0.5 else []
    common = [b"keep %d" % rng.randint(0, 9), b"keep-attic " + rng.choice([b"yes", b"no"]), b"stat-interval %d" % rng.randint(1, 99),
              b"skip " + lst([b"a", b"b"][:rng.randint(0, 2)]), b"hook " + lst([b"echo", b"${step-name}", b"${step-exit}"])]
    lines += [x for x in common if rng.random() < 0.4]
    if mode == "robsd":
        lines += [b"destdir " + q(r)]
        lines += [x for x in [b"bsd-srcdir " + q(r), b"x11-srcdir " + q(r), b"bsd-objdir " + q(r), b"x11-objdir " + q(r), b'kernel "GENERIC"', b"reboot " + rng.choice([b"yes", b"no"]),
                              b'cvs-root "h:/cvs"', b'cvs-user "root"', b'distrib-host "h"', b'distrib-path "/p"', b'distrib-user "root"', b'distrib-signify "k"',
                              b"bsd-diff " + q(r + b"/*.nomatch")] if rng.random() < 0.5]
        if rng.random() < 0.9:
            lines += [b"bsd-srcdir " + q(r), b"x11-srcdir " + q(r), b"bsd-objdir " + q(r), b"x11-objdir " + q(r)]
            lines = list(dict.fromkeys(lines))
    elif mode == "robsd-cross":
        lines += [b"crossdir " + q(r), b"bsd-srcdir " + q(r)]
    elif mode == "robsd-ports":
        lines += [b"chroot " + q(r), b'ports-user "root"', b"ports " + lst([b"devel/p%d" % i for i in range(rng.randint(1, 20))])]
        lines += [x for x in [b'cvs-root "h:/cvs"', b'cvs-user "root"', b'ports-dir "/usr/ports"', b'distrib-host "h"'] if rng.random() < 0.5]
    elif mode == "robsd-regress":
        lines += [b"bsd-srcdir " + q(r)]
        for i in range(rng.choice([1, 2, 5, 9, 17, 33])):
            l = b"regress " + q(b"dir/t%d" % i)
            for _ in range(rng.randint(0, 4)):
                l += b" " + rng.choice([b"root", b"quiet", b"no-parallel", b"env " + lst([b"A=%d" % i, b"R=${rdomain}"]), b"targets " + lst([b"t1", b"t2"]),
                                         b"obj " + lst([b"o%d" % i]), b"packages " + lst([b"p%d" % i])])
            lines.append(l)
        lines += [x for x in [b"regress-env " + lst([b"X=${rdomain}", b"Y=1"]), b"regress-timeout %d %s" % (rng.randint(1, 99), rng.choice([b"s", b"m", b"h"])),
                              b"parallel " + rng.choice([b"yes", b"no"]), b"rdonly yes", b'sudo "doas"', b'regress-user "root"', b'cvs-user "root"'] if rng.random() < 0.5]
    else:
        lines += [b'canvas-name "c"', b"canvas-dir " + q(r)]
        for i in range(rng.choice([1, 2, 3, 15, 16, 17, 33, 64])):
            lines.append(b"step " + q(b"s%d" % i) + b" command " + lst([b"echo", b"${arch}", b"%d" % i]) + (b" parallel" if rng.random() < 0.3 else b""))
    rng.shuffle(lines)
    out = b""
    for l in lines:
        out += rng.choice([b"", b"", b"# comment\n", b"\n", b"  "]) + l + rng.choice([b"\n", b"\n", b" # c\n", b"\n\n"])
    return out


def mutate_columns(rng, b):
    """a step file that is still a well-formed table, but with another set of columns: one dropped
    (from the header and from every row), renamed, duplicated, two swapped, an unknown one added"""
    lines = b.split(b"\n")
    if len(lines) < 2:
        return b
    tbl = [l.split(b",") for l in lines if l]
    n = len(tbl[0])
    k = rng.randrange(n)
    strcols = [i for i, h in enumerate(tbl[0]) if h in (b"name", b"log", b"user")]
    if strcols and rng.random() < 0.6:
        k = rng.choice(strcols)      # the string columns: a missing one is a NULL pointer in memory
    op = rng.choice(["drop", "drop", "drop", "rename", "rename-known", "dup", "swap", "add"])
    if op == "drop":
        tbl = [r[:k] + r[k + 1:] if len(r) == n else r for r in tbl]
    elif op == "rename":
        tbl[0][k] = rng.choice([b"nope", b"", b"Name", b"step "])
    elif op == "rename-known":
        tbl[0][k] = rng.choice(tbl[0])
    elif op == "dup":
        tbl = [r[:k] + [r[k]] + r[k:] if len(r) == n else r for r in tbl]
    elif op == "swap":
        j = rng.randrange(n)
        for r in tbl:
            if len(r) == n:
                r[k], r[j] = r[j], r[k]
    else:
        tbl = [r + [b"extra" if i == 0 else b"1"] for i, r in enumerate(tbl)]
    return b"\n".join(b",".join(r) for r in tbl) + b"\n"


BOUNDARY_INTS = [str(v).encode() for v in (
    2 ** 31 - 2, 2 ** 31 - 1, 2 ** 31, 2 ** 31 + 1, 2 ** 31 + 2, 2147483650, 2147483657, 21474836470, 2 ** 32 - 1, 2 ** 32, 2 ** 32 + 1,
    2 ** 63 - 1, 2 ** 63, 2 ** 63 + 1, 2 ** 64 - 1, 2 ** 64, 10 ** 19, 10 ** 40, 999999999, 1000000000, 1999999999, 3000000000)] + [
    b"0" * 12 + b"7", b"00", b"-1", b"-2147483648", b"-2147483649", b"+5"]


def mutate(rng, b):
    b = bytearray(b)
    for _ in range(rng.choice([1, 1, 1, 2, 3])):
        k = rng.random()
        pos = rng.randint(0, len(b)) if b else 0
        if k < 0.15 and b:
            b[rng.randrange(len(b))] = rng.randint(0, 255)
        elif k < 0.25:
            b[pos:pos] = b"\0"
        elif k < 0.35 and b:
            del b[pos:pos + rng.randint(1, 20)]
        elif k < 0.45 and b:
            a = rng.randrange(len(b))
            b[pos:pos] = b[a:a + rng.randint(1, 40)]
        elif k < 0.48:
            b[pos:pos] = str(rng.choice([2 ** 31 - 1, 2 ** 31, 2 ** 63, 10 ** 30, -1])).encode()
        elif k < 0.52:
            # an existing number replaced by one at a boundary of int / unsigned / long / their decimal lengths
            runs = [m.span() for m in re.finditer(rb"[0-9]+", bytes(b))]
            if runs:
                a, e = rng.choice(runs)
                b[a:e] = rng.choice(BOUNDARY_INTS)
        elif k < 0.58:
            b[pos:pos] = bytes([rng.choice(b'abcxyz-09"{}$,\\n')]) * rng.choice([300, 5000, 70000])
        elif k < 0.66:
            b[pos:pos] = b"${" * rng.choice([1, 3, 6, 50]) + b"x" + b"}" * rng.choice([0, 1, 3, 6, 50])
        elif k < 0.72:
            b[pos:pos] = rng.choice([b'"', b"{", b"}", b"{ \"a\"", b'"unterminated', b"# c\0mment", b"\r\n", b"\t", b",", b",,", b"\n\n"])
        elif k < 0.78:
            b = b[:pos]
        elif k < 0.84:
            b[pos:pos] = rng.choice([b"yes", b"no", b"parallel", b"command", b"step", b"regress", b"env", b"targets", b"seconds", b"s", b"h", b"robsddir", b"nope"])
        else:
            b[pos:pos] = bytes(rng.randint(0, 255) for _ in range(rng.randint(1, 30)))
    return bytes(b)


def run(ctx):
    ctx.translate(GENS)
    ctx.lake_build(MODULES)
    ctx.audit(MODULES)
    rng = ctx.rng
    d = ctx.build_repo("asan")
    root = os.path.join(ctx.scratch, "c12")
    shutil.rmtree(root, ignore_errors=True)
    os.makedirs(root)
    bdir = os.path.join(root, "2024-01-01.1")
    os.makedirs(bdir)
    open(os.path.join(root, ".running"), "w").write(bdir + "\n")
    conf, step, tmpl, ctmpl = seeds(root)
    env = dict(os.environ, ASAN_OPTIONS="detect_leaks=0", EXECDIR=root)
    kinds = {}
    distinct = set()
    reqs, wants, infos = [], [], []
    n = ctx.n(500, 20000)

    def judge(tool, argv, rc, out, err, stdin, files, allowed=(0, 1)):
        info = dict(tool=tool, argv=argv, rc=rc, stdin=hexb(stdin)[:4000], files={k: hexb(v)[:6000] for k, v in files.items()}, stderr=err.decode(errors="replace")[-600:])
        rep = core.sanitizer_report(err)
        k = "%s-%s" % (tool, "timeout" if rc == "timeout" else ("signal" if isinstance(rc, int) and rc < 0 else "exit%s" % rc))
        kinds[k] = kinds.get(k, 0) + 1
        if rc == "timeout":
            ctx.violation("%s hangs (no exit within 20 s)" % tool, info)
            return False
        if rep or rc < 0:
            ctx.violation("%s: %s" % (tool, "sanitizer report" if rep else "killed by signal %d" % -rc), dict(info, report=rep))
            return False
        if rc not in allowed:
            ctx.violation("%s exits %d, documented are %s" % (tool, rc, list(allowed)), info)
            return False
        if rc != 0 and out:
            ctx.violation("%s rejected its input (exit %d) but wrote %d bytes to stdout" % (tool, rc, len(out)), info)
        if rc != 0 and not err.strip() and tool != "robsd-regress-log":
            ctx.violation("%s rejected its input (exit %d) without a diagnostic" % (tool, rc), info)
        return True

    # ---- systematically: each column of the step file removed in turn (header and rows), given to
    # every reader of step files in a rotating mode
    hdr_cols = HEADER.strip().split(b",")
    for k in range(len(hdr_cols)):
        rows_ = [l.split(b",") for l in step.split(b"\n") if l]
        f = b"\n".join(b",".join(r[:k] + r[k + 1:]) for r in rows_) + b"\n"
        open(os.path.join(bdir, "step.csv"), "wb").write(f)
        for nm in ("env.log", "kernel.log"):
            open(os.path.join(bdir, nm), "wb").write(b"+ trace\nsome output\n")
        p = os.path.join(root, "c.conf")
        for j, rmode in enumerate(MODES):
            if (j + k) % 2:
                continue
            open(p, "wb").write(conf[rmode])
            argv = ["-m", rmode, "-C", p, bdir]
            rc, out, err = core.run_cmd([os.path.join(d, "robsd-report")] + argv, env=env, timeout=20)
            judge("robsd-report", argv, rc, out, err, b"", {"step.csv": f})
        argv = ["-R", "-f", os.path.join(bdir, "step.csv"), "-i", "1"]
        rc, out, err = core.run_cmd([os.path.join(d, "robsd-step")] + argv, stdin=tmpl, env=env, timeout=20)
        judge("robsd-step -R", argv, rc, out, err, tmpl, {"step.csv": f})
        outdir = os.path.join(ctx.scratch, "c12html")
        shutil.rmtree(outdir, ignore_errors=True)
        os.makedirs(outdir)
        argv = ["-o", outdir, "amd64:" + root]
        rc, out, err = core.run_cmd([os.path.join(d, "robsd-regress-html")] + argv, env=env, timeout=20)
        judge("robsd-regress-html", argv, rc, out, err, b"", {"step.csv": f})
        kinds["column-removed"] = kinds.get("column-removed", 0) + 1
    # ---- systematically: every boundary literal as the value of each integer keyword and as each integer
    # column of a step file (int / unsigned / long limits, one below and above, decimal lengths, leading zeros)
    p = os.path.join(root, "b.conf")
    for bi, v in enumerate(BOUNDARY_INTS):
        for kw, rmode in ((b"stat-interval %s", "robsd-cross"), (b"keep %s", "robsd-ports"), (b"regress-timeout %s s", "robsd-regress"),
                          (b"regress-timeout %s h", "robsd-regress")):
            base_ = b"\n".join(l for l in conf[rmode].split(b"\n") if not l.startswith(kw.split(b" ")[0]))
            c = base_ + kw % v + b"\n"
            open(p, "wb").write(c)
            argv = ["-m", rmode, "-C", p, "-"]
            rc, out, err = core.run_cmd([os.path.join(d, "robsd-config")] + argv, stdin=b"${stat-interval} ${keep}\n", env=env, timeout=20)
            judge("robsd-config", argv, rc, out, err, b"", {"b.conf": c})
            kinds["boundary-int-conf"] = kinds.get("boundary-int-conf", 0) + 1
        col = (0, 2, 3, 4, 7, 8)[bi % 6]
        rows_ = [l.split(b",") for l in step.split(b"\n") if l]
        rows_[2][col] = v
        f = b"\n".join(b",".join(r) for r in rows_) + b"\n"
        open(os.path.join(bdir, "step.csv"), "wb").write(f)
        argv = ["-R", "-f", os.path.join(bdir, "step.csv"), "-i", "1"]
        rc, out, err = core.run_cmd([os.path.join(d, "robsd-step")] + argv, stdin=tmpl, env=env, timeout=20)
        judge("robsd-step -R", argv, rc, out, err, tmpl, {"step.csv": f})
        open(os.path.join(root, "c.conf"), "wb").write(conf["robsd"])
        argv = ["-m", "robsd", "-C", os.path.join(root, "c.conf"), bdir]
        rc, out, err = core.run_cmd([os.path.join(d, "robsd-report")] + argv, env=env, timeout=20)
        judge("robsd-report", argv, rc, out, err, b"", {"step.csv": f})
        kinds["boundary-int-step"] = kinds.get("boundary-int-step", 0) + 1
    # ---- short templates whose expansion is long: a field of the step file, a configuration value, a -v value
    # of 1-70 KB referenced one to three times (output buffers start near the template's size)
    for L in (1000, 1100, 2100, 5000, 9000, 70000):
        for reps in (1, 3):
            t_ = b"x ${name}" * reps + b"\n"
            f = HEADER + b"1,%s,0,1,0,env.log,root,1700000000,0\n" % (b"n" * L)
            open(os.path.join(bdir, "step.csv"), "wb").write(f)
            argv = ["-R", "-f", os.path.join(bdir, "step.csv"), "-i", "1"]
            rc, out, err = core.run_cmd([os.path.join(d, "robsd-step")] + argv, stdin=t_, env=env, timeout=20)
            judge("robsd-step -R", argv, rc, out, err, t_, {"step.csv": f[:200] + b"..."})
            if rc == 0 and out != (b"x " + b"n" * L) * reps + b"\n":
                ctx.violation("robsd-step -R: a %d byte field referenced %d times does not come out whole (%d bytes of output)" % (L, reps, len(out)),
                              dict(field_length=L, template=t_.decode()))
            c = conf["robsd"].replace(b'kernel "GENERIC"', b'kernel "%s"' % (b"K" * L))
            open(p, "wb").write(c)
            t_ = b"${kernel} " * reps + b"${a}\n"
            argv = ["-m", "robsd", "-C", p, "-v", "a=" + "v" * L, "-"]
            rc, out, err = core.run_cmd([os.path.join(d, "robsd-config")] + argv, stdin=t_, env=env, timeout=20)
            judge("robsd-config", ["-m", "robsd", "-C", p, "-v", "a=<%d bytes>" % L, "-"], rc, out, err, t_, {"b.conf": c[:300] + b"..."})
            if rc == 0 and out != (b"K" * L + b" ") * reps + b"v" * L + b"\n":
                ctx.violation("robsd-config: values of %d bytes referenced %d times do not come out whole (%d bytes of output)" % (L, reps, len(out)),
                              dict(value_length=L, template=t_.decode()))
            kinds["long-expansion"] = kinds.get("long-expansion", 0) + 1
    # ---- the html generator on roots that hold directories which are no invocations (no step.csv, an empty
    # or garbage step.csv), sorting before, between and after one to three real ones
    for variant in range(ctx.n(6, 30)):
        hroot = os.path.join(ctx.scratch, "c12strays")
        shutil.rmtree(hroot, ignore_errors=True)
        os.makedirs(hroot)
        real = ["2024-01-0%d.1" % (i + 1) for i in range(1 + variant % 3)]
        for nm in real:
            os.makedirs(os.path.join(hroot, nm))
            open(os.path.join(hroot, nm, "step.csv"), "wb").write(
                HEADER + b"1,bin/one,0,1,0,one.log,root,1700000000,0\n2,bin/two,1,5,0,two.log,root,1700000001,0\n3,end,0,1800,0,,root,1700001800,0\n")
            open(os.path.join(hroot, nm, "one.log"), "wb").write(b"ok\n")
            open(os.path.join(hroot, nm, "two.log"), "wb").write(b"==== t ====\nFAILED\n")
        strays = rng.sample(["#recycle", "+lost", "0", "2024-01-01.0", "2024-01-02.5", "zz-old", "attic", "2025-01-01.1", ".hidden"], rng.randint(1, 4))
        if variant < 3:
            strays = [["#recycle"], ["0", "+lost"], ["#recycle", "2024-01-01.0", "zz-old"]][variant]
        for nm in strays:
            os.makedirs(os.path.join(hroot, nm))
            kind = rng.choice(["none", "none", "empty", "garbage"])
            if kind == "empty":
                open(os.path.join(hroot, nm, "step.csv"), "wb").close()
            elif kind == "garbage":
                open(os.path.join(hroot, nm, "step.csv"), "wb").write(bytes(rng.randint(0, 255) for _ in range(40)))
        outdir = os.path.join(ctx.scratch, "c12html")
        shutil.rmtree(outdir, ignore_errors=True)
        os.makedirs(outdir)
        argv = ["-o", outdir, "amd64:" + hroot]
        rc, out, err = core.run_cmd([os.path.join(d, "robsd-regress-html")] + argv, env=env, timeout=30)
        judge("robsd-regress-html", argv, rc, out, err, b"", {"root": (", ".join(sorted(real + strays))).encode()})
        kinds["html-stray-directories"] = kinds.get("html-stray-directories", 0) + 1
    # ---- logs beyond 1 MiB (the buffers of the report and html generators start at 1 MiB / 8 KiB)
    for variant in range(ctx.n(2, 6)):
        # suites named like regress tests (the html generator leaves the fixed steps env/cvs/... out)
        hstep = HEADER + b"1,bin/small,0,1,0,env.log,root,1700000000,0\n2,bin/big,%d,3600,-5,kernel.log,root,1700000001,0\n3,end,0,3700,0,,root,1700003700,0\n" % (variant % 2)
        open(os.path.join(bdir, "step.csv"), "wb").write(hstep)
        big_pass = b"".join(b"ok %06d some ordinary output of a passing test\n" % i for i in range(26000))
        big_fail = b"".join(b"==== t%05d ====\nFAILED t%05d because of reasons, a long explanation follows here\n" % (i, i) for i in range(17000))
        open(os.path.join(bdir, "env.log"), "wb").write(big_pass if variant % 2 == 0 else big_fail)
        open(os.path.join(bdir, "kernel.log"), "wb").write(big_fail if variant % 2 == 0 else big_pass)
        outdir = os.path.join(ctx.scratch, "c12html")
        shutil.rmtree(outdir, ignore_errors=True)
        os.makedirs(outdir)
        argv = ["-o", outdir, "amd64:" + root]
        rc, out, err = core.run_cmd([os.path.join(d, "robsd-regress-html")] + argv, env=env, timeout=60)
        judge("robsd-regress-html", argv, rc, out, err, b"", {"step.csv": hstep, "env.log": b"<%d bytes>" % len(big_pass), "kernel.log": b"<%d bytes>" % len(big_fail)})
        open(os.path.join(bdir, "step.csv"), "wb").write(step)
        p = os.path.join(root, "c.conf")
        rmode = MODES[variant % 5]
        open(p, "wb").write(conf[rmode])
        argv = ["-m", rmode, "-C", p, bdir]
        rc, out, err = core.run_cmd([os.path.join(d, "robsd-report")] + argv, env=env, timeout=60)
        judge("robsd-report", argv, rc, out, err, b"", {"step.csv": step, "kernel.log": b"<%d bytes>" % len(big_fail)})
        rc, out, err = core.run_cmd([os.path.join(d, "robsd-regress-log"), "-FS", os.path.join(bdir, "kernel.log"), os.path.join(bdir, "env.log")], env=env, timeout=60)
        judge("robsd-regress-log", ["-FS"], rc, out, err, b"", {}, allowed=(0, 1, 2))
        kinds["huge-logs"] = kinds.get("huge-logs", 0) + 1
    for t in range(n):
        which = t % 6
        raw = rng.random() < 0.15
        if which in (0, 1):
            # ---- configuration
            mode = MODES[t // 6 % 5]
            base = gen_conf(rng, mode, root) if rng.random() < 0.8 else conf[mode]
            c = bytes(rng.randint(0, 255) for _ in range(rng.randint(0, 200))) if raw else (base if rng.random() < 0.35 else mutate(rng, base))
            tm = mutate(rng, ctmpl) if rng.random() < 0.5 else ctmpl
            p = os.path.join(root, "t.conf")
            open(p, "wb").write(c)
            tool = ["robsd-config", "robsd-ls", "robsd-hook", "robsd-step"][0 if which == 0 else rng.randint(0, 3)]
            many = tool == "robsd-config" and rng.random() < 0.25
            if many:
                # a template of many lines each of which fails on its own: self reference, mutual
                # recursion, a chain that is too deep, unknown variable, malformed reference
                c = base
                open(p, "wb").write(c)
                bad = [b"${loop}", b"x ${ping} y", b"${d1}", b"${nosuch}", b"${", b"$x", b"${}", b"ok ${arch}"]
                k = rng.choice([2, 5, 6, 7, 12, 40])
                one = rng.choice(bad[:3]) if rng.random() < 0.5 else None
                tm = b"\n".join((one or rng.choice(bad)) for _ in range(k)) + b"\n"
            if tool == "robsd-config" and many:
                argv = ["-m", mode, "-C", p, "-v", "loop=${loop}", "-v", "ping=${pong}", "-v", "pong=${ping}", "-v", "d1=${d2}", "-v", "d2=${d3}",
                        "-v", "d3=${d4}", "-v", "d4=${d5}", "-v", "d5=${d6}", "-v", "d6=x", "-"]
            elif tool == "robsd-config":
                argv = ["-m", mode, "-C", p, "-"]
            elif tool == "robsd-ls":
                argv = ["-m", mode, "-C", p]
            elif tool == "robsd-hook":
                argv = ["-m", mode, "-C", p, "-V", "step-name=x", "-V", "step-exit=0"]
            else:
                argv = ["-L", "-m", mode, "-C", p]
            rc, out, err = core.run_cmd([os.path.join(d, tool)] + argv, stdin=tm, env=env, timeout=20)
            ok = judge(tool, argv, rc, out, err, tm, {"t.conf": c})
            if ok:
                distinct.add((tool, mode, rc, err[-40:]))
        elif which == 2:
            # ---- step file, read
            f = bytes(rng.randint(0, 255) for _ in range(rng.randint(0, 120))) if raw else (step if rng.random() < 0.3 else mutate_columns(rng, step) if rng.random() < 0.3 else mutate(rng, step))
            tm = mutate(rng, tmpl) if rng.random() < 0.5 else tmpl
            if not raw and rng.random() < 0.2:
                # fields that refer to themselves or to each other, asked for on many lines
                f = step.replace(b"root", b"${user}", 1) if rng.random() < 0.5 else step.replace(b"root", b"${log}", 1).replace(b".log", b"${user}", 1)
                tm = b"\n".join(rng.choice([b"${user}", b"${log} ${user}", b"${name}", b"${nosuch}"]) for _ in range(rng.choice([1, 5, 6, 7, 20]))) + b"\n"
            p = os.path.join(root, "step.csv")
            open(p, "wb").write(f)
            if rng.random() < 0.7:
                i = rng.choice([1, 2, 3, -1, 0, 4, 99])
                argv, sel = ["-R", "-f", p, "-i", str(i)], "i:%d" % i
            else:
                nm = rng.choice([b"env", b"kernel", b"end", b"nosuch", b"ke"])
                argv, sel = ["-R", "-f", p, "-n", nm.decode()], "n:%s" % hexb(nm)
            rc, out, err = core.run_cmd([os.path.join(d, "robsd-step")] + argv, stdin=tm, env=env, timeout=20)
            # the model's line splitting is quadratic in the line length: the very long tokens are judged on the real helper only
            if judge("robsd-step -R", argv, rc, out, err, tm, {"step.csv": f}) and argv[3] == "-i" and argv[4] != "0" and b"\0" not in tm and len(f) + len(tm) <= ctx.n(12000, 20000):
                reqs.append("step read %s %s %s" % (hexb(f), sel, hexb(tm)))
                wants.append("%d %s" % (rc, hexb(out)))
                infos.append(dict(argv=argv, file=hexb(f), template=hexb(tm)))
                distinct.add(("read", rc, out[:20]))
        elif which == 3:
            # ---- step file, write
            f = mutate(rng, step) if rng.random() < 0.5 else step
            p = os.path.join(root, "step.csv")
            open(p, "wb").write(f)
            good = rng.random() < 0.4
            kvs = [rng.choice(["name=x", "exit=1", "duration=5", "user=root", "time=7", "log=a.log", "skip=1", "delta=-3"]) for _ in range(rng.randint(1, 5))] if good else [rng.choice(["name=x", "exit=1", "duration=5", "user=root", "time=7", "log=a.log", "skip=1", "delta=-3", "exit=99999999999", "exit=", "nope=1", "name", "=", "exit=1x",
                               "name=a,b", "user=${name}", "time=-1", "step=9"]) for _ in range(rng.randint(0, 6))]
            argv = ["-W", "-f", p, "-i", str(rng.choice([1, 2, 3] if good else [1, 2, 4, 0, -1, 2 ** 31, 7])), "--"] + kvs
            rc, out, err = core.run_cmd([os.path.join(d, "robsd-step")] + argv, env=env, timeout=20)
            after = open(p, "rb").read()
            if judge("robsd-step -W", argv, rc, out, err, b"", {"step.csv": f}):
                if rc != 0 and after != f:
                    ctx.violation("robsd-step -W rejected the write (exit %d) but changed the file" % rc, dict(argv=argv, before=hexb(f), after=hexb(after)))
                distinct.add(("write", rc))
        elif which == 4:
            # ---- regress log
            files = {}
            argvf = []
            for j in range(rng.choice([1, 1, 2])):
                c = bytes(rng.randint(0, 255) for _ in range(rng.randint(0, 300))) if raw else mutate(rng, gen_log(rng))
                p = os.path.join(root, "log%d" % j)
                open(p, "wb").write(c)
                files["log%d" % j] = c
                argvf.append(p)
            flags = rng.randint(1, 15)
            opt = "-" + "".join(ch for b, ch in ((1, "F"), (2, "S"), (4, "X"), (8, "P")) if flags & b)
            rc, out, err = core.run_cmd([os.path.join(d, "robsd-regress-log"), opt] + argvf, env=env, timeout=20)
            if judge("robsd-regress-log", [opt], rc, out, err, b"", files, allowed=(0, 1, 2)) and sum(len(v) for v in files.values()) <= ctx.n(12000, 20000):
                reqs.append("rlog main %d 1 %s" % (flags, " ".join(hexb(files[k]) for k in sorted(files))))
                wants.append("%d %s" % (rc, hexb(out)))
                infos.append(dict(opt=opt, files={k: hexb(v) for k, v in files.items()}))
                distinct.add(("rlog", rc, flags))
        else:
            # ---- report / regress html over a damaged invocation directory
            r_ = rng.random()
            # every other case names the steps like regress suites (the html generator and the regress report leave the fixed steps out)
            base_ = step if t % 2 else step.replace(b",env,", b",bin/ksh,").replace(b",kernel,", b",lib/libc/sys,")
            f = mutate(rng, base_) if r_ < 0.35 else mutate_columns(rng, base_) if r_ < 0.8 else base_
            open(os.path.join(bdir, "step.csv"), "wb").write(f)
            for nm in ("env.log", "kernel.log"):
                open(os.path.join(bdir, nm), "wb").write(mutate(rng, gen_log(rng)) if rng.random() < 0.7 else bytes(rng.randint(0, 255) for _ in range(rng.randint(0, 200))))
            for nm in ("comment", "dmesg", "tags"):
                open(os.path.join(bdir, nm), "wb").write(mutate(rng, b"cvs text\n"))
            p = os.path.join(root, "c.conf")
            rmode = rng.choice(MODES)
            open(p, "wb").write(conf[rmode])
            if rng.random() < 0.5:
                argv = ["-m", rmode, "-C", p, bdir]
                rc, out, err = core.run_cmd([os.path.join(d, "robsd-report")] + argv, env=env, timeout=20)
                if judge("robsd-report", argv, rc, out, err, b"", {"step.csv": f}):
                    distinct.add(("report", rc))
            else:
                outdir = os.path.join(ctx.scratch, "c12html")
                shutil.rmtree(outdir, ignore_errors=True)
                os.makedirs(outdir)
                argv = ["-o", outdir, "amd64:" + root]
                rc, out, err = core.run_cmd([os.path.join(d, "robsd-regress-html")] + argv, env=env, timeout=20)
                if judge("robsd-regress-html", argv, rc, out, err, b"", {"step.csv": f}):
                    distinct.add(("html", rc))
    ans = ctx.model(reqs) if reqs else []
    for q, a, w, info in zip(reqs, ans, wants, infos):
        if a.strip() != w.strip():
            ctx.disagreement("model vs CLI on a damaged input (%s)" % q.split(" ")[0], dict(request=q[:400], model=a[:300], impl=w[:300], info=info))
    ctx.cov.update(dict(
        evaluations=n, distinct_nontrivial=len(distinct),
        rule="grammar-derived seeds of the five configuration modes, step.csv, regress logs and templates, mutated (byte flips, NUL, truncation, duplication, huge "
             "integers, 300/5000/70000-byte tokens, nested/unterminated ${, unterminated strings and braces, keyword splices) plus 15% raw random bytes; fed to "
             "robsd-config, robsd-ls, robsd-hook, robsd-step -L/-R/-W, robsd-regress-log, robsd-report, robsd-regress-html built with ASan+UBSan; judged: no sanitizer "
             "report, no signal, no hang, documented exit status, nothing on stdout and a diagnostic on rejection, rejected writes leave the file alone; robsd-step -R "
             "and robsd-regress-log results are compared with the models on the same bytes",
        samples=[dict(request=q[:160], impl=w[:80]) for q, w in list(zip(reqs, wants))[:3]],
        traces_validated_against_impl=len(reqs), outcome_kinds=kinds))
    ctx.assumptions += ["partial: memory safety and undefined behaviour of the C text are sampled with sanitizer builds, not proved",
                        "the configuration parser is compared with a model in C08, here only its exit class / stdout / stderr / sanitizer behaviour"]
