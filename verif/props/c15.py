"""C15: invocation listing is exact and newest first."""
import os
import shutil

from .. import core
from ..core import hexb
from .. import reportgen

MODULES = ["Robsd.Props.C15"]
GENS = []
DATES = ["2024-01-0%d" % i for i in range(1, 6)] + ["2023-12-31", "2024-02-10"]


def gen_root(rng, root):
    """create a root directory; returns list of (name, kind)"""
    ents = []
    names = set()
    for _ in range(rng.randint(0, 14)):
        d = rng.choice(DATES)
        n = "%s.%d" % (d, rng.choice([1, 2, 3, 9, 10, 11, 12, 100]))
        if n in names:
            continue
        names.add(n)
        os.makedirs(os.path.join(root, n))
        ents.append((n, "d"))
    for n in rng.sample(["stray.txt", "report", "2024-01-01", "2024-01-03.1x", "zz", "00", "x y", "latest", "2024-01-04.tar"], rng.randint(0, 5)):
        if n in names:
            continue
        names.add(n)
        k = rng.random()
        if k < 0.4:
            open(os.path.join(root, n), "w").close()
            ents.append((n, "f"))
        elif k < 0.6:
            os.makedirs(os.path.join(root, n))
            ents.append((n, "d"))
        else:
            target = rng.choice([ents[0][0] if ents else "nowhere", "nowhere", "/etc", "stray.txt"])
            os.symlink(target, os.path.join(root, n))
            ents.append((n, "l"))
    for n in rng.sample([".hidden", ".conf", ".2024-01-09.1", ".git"], rng.randint(0, 3)):
        if rng.random() < 0.7:
            os.makedirs(os.path.join(root, n))
            ents.append((n, "d"))
        else:
            open(os.path.join(root, n), "w").close()
            ents.append((n, "f"))
    return ents


def run(ctx):
    ctx.translate(GENS)
    ctx.lake_build(MODULES)
    ctx.audit(MODULES)
    rng = ctx.rng
    d = ctx.build_repo("asan")
    rr = reportgen.ReportRunner(ctx, d)
    base = os.path.join(ctx.scratch, "c15")
    reqs, obs = [], []
    kinds = {}
    distinct = set()
    for t in range(ctx.n(200, 5000)):
        shutil.rmtree(base, ignore_errors=True)
        root = os.path.join(base, "root")
        os.makedirs(root)
        mode = reportgen.MODES[t % 5]
        ents = gen_root(rng, root)
        # the root as the configuration spells it: also with trailing slashes (paths are built as "%s/%s")
        spell = root + rng.choice(["", "", "", "/", "//"])
        J = lambda n: spell + "/" + n
        conf = rr.conf(mode, spell)
        if t % 4 == 1:
            # the attic switched off in the configuration: the keep directory, if one is there from earlier
            # days, is still no invocation
            open(conf, "a").write("keep-attic no\n")
        # the configuration file itself sits in the root: it is a plain file entry
        ents.append((os.path.basename(conf), "f"))
        # keep-dir cannot be configured (no parser in the grammar): it is always <root>/attic
        keep = os.path.join(root, "attic")
        keepkind = rng.random()
        if keepkind < 0.5:
            os.makedirs(keep)
            ents.append(("attic", "d"))
        elif keepkind < 0.6:
            open(keep, "w").close()
            ents.append(("attic", "f"))
        dirs = [n for n, k in ents if k == "d" and not n.startswith(".")]
        lk = rng.random()
        lock = None
        if lk < 0.35 and dirs:
            lock = (J(rng.choice(dirs)) + "\n").encode()                     # as robsd writes it: ${ROBSDDIR}/<id>
        elif lk < 0.45:
            lock = (J("2020-01-01.1") + "\n").encode()      # stale
        elif lk < 0.55:
            lock = b""
        elif lk < 0.62 and dirs:
            # no newline; preferably naming X where X minus its last character is an invocation too
            # (the tenth and later invocations of a day: DATE.1 next to DATE.1x)
            cand = [n for n in dirs if n[:-1] in dirs]
            if not cand and rng.random() < 0.7:
                nn = rng.choice(dirs) + str(rng.randint(0, 9))
                if nn not in [e[0] for e in ents]:
                    os.makedirs(os.path.join(root, nn))
                    ents.append((nn, "d"))
                    dirs.append(nn)
                    cand = [nn]
            lock = J(rng.choice(cand or dirs)).encode()
        elif lk < 0.7 and dirs:
            lock = (J(rng.choice(dirs))[:-1] + "\n").encode()  # a prefix of a real name
        elif lk < 0.8 and dirs:
            # the lock of another root, a bare name, a path below an invocation: the last component is the name
            # of an entry of this root, the path is not
            n_ = rng.choice(dirs)
            lock = (rng.choice(["/some/other/root/" + n_, n_, J(rng.choice(dirs)) + "/" + n_, "./" + n_]) + "\n").encode()
        if lock is not None:
            with open(os.path.join(root, ".running"), "wb") as f:
                f.write(lock)
            ents.append((".running", "f"))
        B = rng.random() < 0.6
        rc, out, err = core.run_cmd([os.path.join(d, "robsd-ls"), "-m", mode, "-C", conf] + (["-B"] if B else []),
                                    env=dict(os.environ, ASAN_OPTIONS="detect_leaks=0"))
        rep = core.sanitizer_report(err)
        if rep or rc not in (0, 1):
            ctx.violation("robsd-ls: abnormal termination", dict(ents=ents, rc=rc, report=rep))
            continue
        got = [l for l in out.decode().split("\n") if l]
        reqs.append("ls %s %s %d %s %s" % (hexb(spell.encode()), hexb(J("attic").encode()), 1 if B else 0, "!" if lock is None else hexb(lock),
                                           ",".join("%s:%s" % (hexb(n.encode()), k) for n, k in ents) or "."))
        obs.append(("%d %s" % (rc, ",".join(hexb(g.encode()) for g in got)), ents))
        kinds["%s%s" % (mode, "-B" if B else "")] = kinds.get("%s%s" % (mode, "-B" if B else ""), 0) + 1
        # oracle: the property itself
        want = sorted([J(n) for n, k in ents if k == "d" and not n.startswith(".") and n != "attic"], reverse=True)
        if B and lock is not None and b"\n" in lock:
            bd = lock.split(b"\n")[0].decode()
            want = [w for w in want if w != bd]
        if rc != 0 or got != want:
            ctx.violation("robsd-ls%s printed %s, expected exactly %s" % (" -B" if B else "", [os.path.basename(g) for g in got], [os.path.basename(w) for w in want]),
                          dict(mode=mode, ents=ents, keep=keep, lock=None if lock is None else lock.decode(), B=B, rc=rc))
        if len(want) >= 2:
            distinct.add(tuple(want) + (B,))
    # ---- a read fault part-way through the root (strace fault injection on getdents64): a listing that is
    # not the whole root must not be passed off as one (exit 0)
    for t in range(ctx.n(3, 10)):
        shutil.rmtree(base, ignore_errors=True)
        root = os.path.join(base, "root")
        os.makedirs(root)
        nd = [1500, 900, 2500][t] if t < 3 else rng.choice([900, 1500, 2500])
        for i in range(nd):
            os.mkdir(os.path.join(root, "2024-%02d-%02d.%d" % (1 + i % 12, 1 + (i // 12) % 28, 1 + i // 336)))
        open(os.path.join(root, ".running"), "w").write(os.path.join(root, "2024-01-01.1") + "\n")
        mode = reportgen.MODES[t % 5]
        conf = rr.conf(mode, root)
        when = [2, 1, 2][t] if t < 3 else rng.choice([1, 2, 2, 3])      # (a fault on the call that would report the end is no partial listing)
        B = t % 2 == 1
        cmd = ["strace", "-f", "-o", "/dev/null", "-e", "trace=getdents64", "-e", "inject=getdents64:error=EIO:when=%d" % when,
               os.path.join(d, "robsd-ls"), "-m", mode, "-C", conf] + (["-B"] if B else [])
        rc, out, err = core.run_cmd(cmd, env=dict(os.environ, ASAN_OPTIONS="detect_leaks=0"), timeout=60)
        got = [l for l in out.decode().split("\n") if l]
        want = sorted([os.path.join(root, n) for n in os.listdir(root) if not n.startswith(".") and os.path.isdir(os.path.join(root, n))], reverse=True)
        if B:
            want = [w for w in want if w != os.path.join(root, "2024-01-01.1")]
        kinds["read-fault-rc%s" % rc] = kinds.get("read-fault-rc%s" % rc, 0) + 1
        if rc == 0 and got != want:
            ctx.violation("robsd-ls%s exited 0 with %d of %d invocations listed although reading the root failed (EIO on its %s getdents64 call)" % (
                " -B" if B else "", len(got), len(want), ["first", "second", "third"][when - 1]),
                dict(mode=mode, entries=nd, cmd="strace -e inject=getdents64:error=EIO:when=%d robsd-ls -m %s -C CONF%s" % (when, mode, " -B" if B else ""),
                     stderr=err.decode(errors="replace")[-300:]))
        elif rc not in (0, 1) or core.sanitizer_report(err):
            ctx.violation("robsd-ls: abnormal termination under a read fault", dict(rc=rc, stderr=err.decode(errors="replace")[-300:]))
    ans = ctx.model(reqs) if reqs else []
    for q, a, (want, ents) in zip(reqs, ans, obs):
        if a.strip() != want.strip():
            ctx.disagreement("Ls.lsCmd vs robsd-ls", dict(ents=ents, impl=want, model=a, request=q[:300]))
    ctx.cov.update(dict(
        evaluations=len(reqs), distinct_nontrivial=len(distinct),
        rule="(plus roots of 900-2500 invocations read under an injected EIO on the first / second / third getdents64 call: no partial listing with exit 0) roots with 0-14 dated directories (several per day, suffixes 1..100), plain files, symlinks to directories/files/nowhere, hidden entries, "
             "keep directory (always <root>/attic) present as directory / as plain file / absent, lock file present / stale / empty / without newline / naming a prefix of a real "
             "directory / absent, all five modes, with and without -B; non-trivial = distinct expected listing of >= 2 entries; stdout compared with the model and "
             "with the property computed directly from the generated tree",
        samples=[dict(ents=e[:8], impl=w[:200]) for (w, e) in obs[:: max(1, len(obs) // 4)][:4]],
        traces_validated_against_impl=len(reqs), outcome_kinds=kinds))
    ctx.trusted += ["readdir d_type as reported by the file system (tmpfs/ext4 here)"]
