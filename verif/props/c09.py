"""C09: interpolation substitutes exactly, always terminates and fails closed."""
import os
import subprocess

from .. import core
from ..core import hexb

MODULES = ["Robsd.Props.C09"]
GENS = ["Consts"]
NAMES = [b"a", b"b", b"c", b"va", b"vb", b"x1", b"long-name", b"s"]
LIT = [b"", b"x", b"abc", b" ", b"}", b"{", b"a b", b"/p/q", b"=", b"'", b"\"", b"}}", b"{x}"]


def gen_template(rng, names, malformed_p):
    parts = []
    for _ in range(rng.randint(0, 5)):
        k = rng.random()
        if k < 0.45:
            parts.append(rng.choice(LIT))
        elif k < 0.45 + 0.45 * (1 - malformed_p) + 0.0:
            parts.append(b"${" + rng.choice(names) + b"}")
        else:
            parts.append(rng.choice([b"$", b"$x", b"${", b"${}", b"${a", b"$$", b"${unknown}", b"$}", b"${a}${"]))
    return b"".join(parts)


def gen_env(rng):
    """chains, cycles and self references"""
    names = rng.sample(NAMES, rng.randint(0, 6))
    env = []
    kind = rng.random()
    for i, n in enumerate(names):
        if kind < 0.35 and i + 1 < len(names):
            # a chain n0 -> n1 -> ... (depth = len)
            v = rng.choice(LIT) + b"${" + names[i + 1] + b"}" + rng.choice(LIT)
        elif kind < 0.5:
            v = gen_template(rng, names or NAMES, 0.05)  # may be cyclic
        elif kind < 0.6 and i == 0:
            v = b"${" + n + b"}"
        else:
            v = rng.choice(LIT) if rng.random() < 0.7 else gen_template(rng, names, 0.1)
        env.append((n, v))
    if rng.random() < 0.1 and env:
        env.append(env[0])  # duplicate definition: first match wins
    return env


def ref_interp(tmpl, env, limit, ign=False, depth=0):
    """Model-free reference of the property: replace each ${name} by the
    recursively interpolated value, copy everything else, fail on a malformed
    reference, an unknown variable or nesting that reaches the limit.
    Returns bytes or None."""
    depth += 1
    if depth == limit:
        return None
    out = b""
    while True:
        p = tmpl.find(b"$")
        if p < 0:
            return out + tmpl
        out += tmpl[:p]
        if tmpl[p + 1:p + 2] != b"{":
            return None
        e = tmpl.find(b"}", p + 2)
        if e < 0 or e == p + 2:
            return None
        name = tmpl[p + 2:e]
        val = None
        for k, v in env:
            if k == name:
                val = v
                break
        if val is None:
            if not ign:
                return None
            out += tmpl[p:e + 1]
        else:
            r = ref_interp(val, env, limit, ign, depth)
            if r is None:
                return None
            out += r
        tmpl = tmpl[e + 1:]


def source_limit():
    import re
    m = re.search(r"\+\+c->depth\s*==\s*(\d+)", open(os.path.join(core.REPO, "interpolate.c")).read())
    return int(m.group(1)) if m else 5


def classify(tmpl, env, out):
    if out.startswith("ok"):
        depth = 0
        return "ok"
    return out.split()[1]


def run(ctx):
    ctx.translate(GENS)
    ctx.lake_build(MODULES)
    ctx.audit(MODULES)
    exe = ctx.cc_harness("interp_harness", ["interp_harness.c"], extra=["-I" + os.path.join(core.VERIF, "harness")],
                         repo_objs=["interpolate.c", "libks/arena.c", "libks/arena-buffer.c", "libks/buffer.c", "libks/arithmetic.c"])
    rng = ctx.rng
    cases = []
    # corpus first
    cdir = os.path.join(core.CORPUS, "C09")
    if os.path.isdir(cdir):
        for fn in sorted(os.listdir(cdir)):
            for l in open(os.path.join(cdir, fn)):
                if l.strip():
                    cases.append(l.strip())
    n = ctx.n(3000, 150000)
    for i in range(n):
        env = gen_env(rng)
        names = [k for k, _ in env] or NAMES
        tmpl = gen_template(rng, names, 0.15 if i % 3 else 0.0)
        if any(c in tmpl or any(c in k or c in v for k, v in env) for c in (b"\0", b"\n")):
            continue
        ign = 1 if rng.random() < 0.15 else 0
        cases.append("str %d %s%s" % (ign, hexb(tmpl), "".join(" %s %s" % (hexb(k), hexb(v)) for k, v in env)))
    r = subprocess.run([exe], input=("\n".join(cases) + "\n").encode(), capture_output=True, timeout=900)
    rep = core.sanitizer_report(r.stderr)
    impl = r.stdout.decode().split("\n")[:-1]
    if rep or len(impl) != len(cases):
        bad = cases[len(impl)] if len(impl) < len(cases) else None
        ctx.violation("interpolate_str: sanitizer report or abnormal termination", dict(stdin_line=bad, report=rep, rc=r.returncode))
        cases = cases[:len(impl)]
    model = ctx.model(["interp " + c for c in cases])
    kinds = {}
    distinct = set()
    limit = source_limit()
    for c, i, m in zip(cases, impl, model):
        w0 = c.split()
        t0 = bytes.fromhex(w0[2]) if w0[2] != "-" else b""
        env0 = [(bytes.fromhex(w0[j]) if w0[j] != "-" else b"", bytes.fromhex(w0[j + 1]) if w0[j + 1] != "-" else b"") for j in range(3, len(w0) - 1, 2)]
        ref = ref_interp(t0, env0, limit, w0[1] == "1")
        want = ("ok " + hexb(ref)) if ref is not None else "err"
        if (i if i.startswith("ok") else "err") != want:
            ctx.violation("interpolate_str does not substitute exactly / fail closed (reference evaluator of the property, limit %d)" % limit,
                          dict(harness="harness/interp_harness.c", stdin_line=c, observed=i, expected=want))
        k = i.split()[0] if i.startswith("ok") else i.split()[1]
        kinds[k] = kinds.get(k, 0) + 1
        if i != m:
            ctx.disagreement("Interp.interpStr vs interpolate_str", dict(case=c, impl=i, model=m))
        if "247b" in c:
            distinct.add(c)
        # model-free oracle: a template without '$' is returned unchanged
        w = c.split()
        if "24" not in [w[2][j:j + 2] for j in range(0, len(w[2]), 2)] and w[2] != "-":
            if i != "ok " + w[2]:
                ctx.violation("template without '$' not copied unchanged", dict(stdin_line=c, observed=i))
    # -- CLIs: robsd-config -v / robsd-step -R, file level (line by line, all or nothing)
    d = ctx.build_repo("asan")
    root = os.path.join(ctx.scratch, "c09root")
    os.makedirs(root, exist_ok=True)
    conf = os.path.join(root, "canvas.conf")
    with open(conf, "w") as f:
        f.write('canvas-name "t"\ncanvas-dir "%s"\nstep "one" command { "true" }\n' % root)
    # a second configuration, of another mode, whose parsing itself interpolates (per-test env)
    rconf = os.path.join(root, "regress.conf")
    with open(rconf, "w") as f:
        f.write('robsddir "%s"\nregress-user "root"\nregress "bin/ls" env { "FOO=${rdomain}" }\nregress "bin/cat" quiet\n' % root)
    ncli = ctx.n(150, 3000)
    cli_lines = []
    cli_obs = []
    for i in range(ncli):
        env = [(k, v) for k, v in gen_env(rng) if k not in (b"s",)]
        names = [k for k, _ in env] or NAMES
        nl = rng.randint(0, 4)
        lines = [gen_template(rng, names, 0.08) for _ in range(nl)]
        content = b"\n".join(lines) + (b"\n" if (lines and rng.random() < 0.8) else b"")
        args = []
        for k, v in env:
            args += ["-v", (k + b"=" + v).decode()]
        if i % 3 == 2:
            rc, out, err = core.run_cmd([os.path.join(d, "robsd-config"), "-m", "robsd-regress", "-C", rconf] + args + ["-"], stdin=content)
        else:
            rc, out, err = core.run_cmd([os.path.join(d, "robsd-config"), "-m", "canvas", "-C", conf] + args + ["-"], stdin=content)
        rep = core.sanitizer_report(err)
        if rep or rc not in (0, 1):
            ctx.violation("robsd-config - : abnormal termination", dict(argv=args, stdin_hex=content.hex(), rc=rc, report=rep))
            continue
        # the config lookup also knows grammar variables; our names avoid them
        cli_lines.append("interp file 0 %s%s" % (hexb(content), "".join(" %s %s" % (hexb(k), hexb(v)) for k, v in env)))
        cli_obs.append((rc, out, err, args, content))
    cm = ctx.model(cli_lines) if cli_lines else []
    for l, m, (rc, out, err, args, content) in zip(cli_lines, cm, cli_obs):
        if m.startswith("ok"):
            want_rc, want_out = 0, bytes.fromhex(m.split()[1]) if m.split()[1] != "-" else b""
        else:
            want_rc, want_out = 1, b""
        if (rc, out) != (want_rc, want_out):
            ctx.disagreement("Interp.interpFile vs robsd-config -", dict(case=l, rc=rc, stdout=out.hex(), model=m))
        # oracle: fail closed
        if rc != 0 and (out != b"" or err == b""):
            ctx.violation("robsd-config failed but printed output or no diagnostic",
                          dict(argv=["robsd-config", "-m", "canvas", "-C", "<conf>"] + args + ["-"], stdin_hex=content.hex(), rc=rc, stdout=out.hex()))
        k = "cli-ok" if rc == 0 else "cli-fail"
        kinds[k] = kinds.get(k, 0) + 1
        if b"${" in content:
            distinct.add(l)
    # -- robsd-step -R: the fields of a row are the variables; names that are prefixes or extensions of
    # field names, or differ in case, are unknown
    stepf = os.path.join(root, "step.csv")
    # the third row holds integers at the ends of what an integer field can hold (sign + 19 digits), an empty
    # string field and the optional fields left to their defaults
    rows = (b"step,name,exit,duration,delta,log,user,time,skip\n1,env,0,12,0,001-env.log,root,1700000000,0\n2,kernel,3,3600,-5,002-kernel.log,build,1700000100,0\n"
            b"3,edge,-9223372036854775808,9223372036854775807,-1000000000000000000,,root,-999999999999999999,0\n")
    open(stepf, "wb").write(rows)
    FIELDS = [b"step", b"name", b"exit", b"duration", b"delta", b"log", b"user", b"time", b"skip"]
    near = FIELDS + [f[:k] for f in FIELDS for k in range(1, len(f))] + [f + b"s" for f in FIELDS] + [f.upper() for f in FIELDS] + [b"builddir", b"x"]
    sreqs, sobs = [], []
    for i in range(ctx.n(120, 2500)):
        names = [rng.choice(FIELDS) if rng.random() < 0.6 else rng.choice(near) for _ in range(4)]
        lines = [gen_template(rng, names, 0.05) for _ in range(rng.randint(1, 3))]
        content = b"\n".join(lines) + b"\n"
        sel = rng.choice(["1", "2", "-1", "3", "-2"])
        rc, out, err = core.run_cmd([os.path.join(d, "robsd-step"), "-R", "-f", stepf, "-i", sel], stdin=content)
        rep = core.sanitizer_report(err)
        if rep or rc not in (0, 1):
            ctx.violation("robsd-step -R: abnormal termination", dict(stdin_hex=content.hex(), rc=rc, report=rep))
            continue
        if rc != 0 and (out != b"" or err == b""):
            ctx.violation("robsd-step -R failed but printed output or no diagnostic", dict(template=content.decode(errors="replace"), rc=rc, stdout=out.decode(errors="replace")))
        sreqs.append("step read %s i:%s %s" % (hexb(rows), sel, hexb(content)))
        sobs.append((rc, out, content))
        kinds["step-R-ok" if rc == 0 else "step-R-fail"] = kinds.get("step-R-ok" if rc == 0 else "step-R-fail", 0) + 1
    sm = ctx.model(sreqs) if sreqs else []
    for q, m, (rc, out, content) in zip(sreqs, sm, sobs):
        if m.strip() != "%d %s" % (rc, hexb(out)):
            ctx.disagreement("StepFile.readCmd vs robsd-step -R", dict(template=content.decode(errors="replace"), impl="%d %s" % (rc, out.decode(errors="replace")[:200]),
                                                                       model=m[:200]))
    ctx.cov.update(dict(
        evaluations=len(cases) + len(cli_lines), distinct_nontrivial=len(distinct),
        rule="templates built from literal chunks, ${name} references and (15%) malformed fragments over environments with chains, "
             "cycles, self references and duplicates; non-trivial = distinct case containing at least one ${ reference; "
             "in-process interpolate_str (ASan/UBSan) and robsd-config -v ... - (file level) are each compared with the Lean model",
        samples=[dict(case=c, impl=i, model=m) for c, i, m in list(zip(cases, impl, model))[:: max(1, len(cases) // 5)][:5]],
        traces_validated_against_impl=len(cases) + len(cli_lines), outcome_kinds=kinds))
    ctx.assumptions += ["NUL and newline inside a single template string are outside the C-string domain (covered by C12)"]
